--------------------------- MODULE SplitDisjoint ---------------------------
(* C29.  util.split_disjoint_nodes = _split_disjoint_nodes (segment labelling over the  *)
(* edges in order of left, allocation of copies, relabelling of edge parents/children)   *)
(* followed by _relabel_mutations_node (an edge-diff sweep keeping, per original node,    *)
(* the piece currently in the tree), written over the code's own arrays:                  *)
(*   nodes_segments (ns), nodes_right (nr), edges_segments (es), nodes_map (nmap),        *)
(*   nodes_order (order), and the sweep's cursors a, b, m with its own nodes_map (cur).   *)
(* One action per visited edge, one for the allocation, one for the relabelling, one per  *)
(* iteration of the sweep.  The final state is checked against the declarative statement  *)
(* of the property (local trees preserved under orig, contiguity, leftmost piece keeps    *)
(* the id, mutations follow their node, genotypes unchanged, idempotence).                *)
(*                                                                                        *)
(* AsImplemented = FALSE is the design the property asks for: the sweep covers the whole  *)
(* genome and a node that has not (yet) appeared in a tree maps to itself.                *)
(* AsImplemented = TRUE transcribes the code as it stands: the sweep ends at the right    *)
(* end of the last edge and `cur` starts as NULL; `crash` records the failing assertion   *)
(* / the node -1 left in the output.  TLC refutes NoCrash for it (the suspected defect    *)
(* of DESIGN section 9, item 11) and proves that a crash happens exactly for the          *)
(* instances described by AbsentClass (CrashClassExact).                                  *)
EXTENDS TSGen

CONSTANTS AsImplemented, AnyTieOrder, HistSets, EmitDone

VARIABLES inst, E, ins, rem, mutq, visited, sg, nmap, order, newp, newc,
          a, b, m, left, cur, outm, crash, pc
vars == <<g, inst, E, ins, rem, mutq, visited, sg, nmap, order, newp, newc, a, b, m, left, cur, outm, crash, pc>>

NE == Len(E)
NM == Len(mutq)
Internal == Nodes \ Samples
NEGINF == -1                       \* every coordinate is >= 0

Init == /\ GenInit
        /\ inst = [trees |-> <<>>, muts |-> {}, xs |-> {}]
        /\ E = <<>> /\ ins = <<>> /\ rem = <<>> /\ mutq = <<>>
        /\ visited = {} /\ sg = [ns |-> <<>>, nr |-> <<>>, es |-> <<>>]
        /\ nmap = <<>> /\ order = <<>> /\ newp = <<>> /\ newc = <<>>
        /\ a = 1 /\ b = 1 /\ m = 1 /\ left = 0 /\ cur = <<>> /\ outm = <<>> /\ crash = FALSE
        /\ pc = "choose"

Gen == /\ pc = "choose" /\ (GenTree \/ GenTreesDone \/ GenMut)
       /\ UNCHANGED <<inst, E, ins, rem, mutq, visited, sg, nmap, order, newp, newc, a, b, m, left, cur, outm, crash, pc>>

Excluded == Samples \cup inst.xs          \* node_is_sample

Choose ==
    /\ pc = "choose" /\ GenReady
    /\ \E xs \in (IF HistSets THEN SUBSET Internal ELSE {{}}) :
          inst' = [trees |-> g.trees, muts |-> g.muts, xs |-> xs]
    /\ LET es == EdgeSeq(g.trees, L, Nodes, Time) IN
         /\ E' = es /\ ins' = InsOrder(es, Time) /\ rem' = RemOrder(es, Time)
         /\ sg' = [ns |-> [u \in Nodes |-> -1], nr |-> [u \in Nodes |-> NEGINF],
                   es |-> [e \in 1..Len(es) |-> <<-1, -1>>]]
    /\ mutq' = MutSeq(g.muts)
    /\ visited' = {} /\ pc' = "visit"
    /\ UNCHANGED <<g, nmap, order, newp, newc, a, b, m, left, cur, outm, crash>>

(* ---- first loop of _split_disjoint_nodes: one edge ------------------------------------ *)
(* for i, n in enumerate((parent, child)): if excluded: continue;                          *)
(*     ns[n] += left > nr[n]; es[i, e] = ns[n]; nr[n] = max(nr[n], right)                   *)
VisitNode(s, e, i, n, l, r, excl) ==
    IF n \in excl THEN s
    ELSE LET k == s.ns[n] + (IF l > s.nr[n] THEN 1 ELSE 0) IN
         [ns |-> [s.ns EXCEPT ![n] = k],
          nr |-> [s.nr EXCEPT ![n] = IF r > @ THEN r ELSE @],
          es |-> [s.es EXCEPT ![e][i] = k]]
VisitOne(s, e, P, C, excl) ==
    VisitNode(VisitNode(s, e, 1, P[e], E[e].l, E[e].r, excl), e, 2, C[e], E[e].l, E[e].r, excl)

Unvisited == (1..NE) \ visited
NextEdges == LET lo == Min({ E[e].l : e \in Unvisited }) IN
             LET c == { e \in Unvisited : E[e].l = lo } IN
             IF AnyTieOrder THEN c ELSE {Min(c)}          \* argsort: order among equal lefts is unspecified
OrigP == [e \in 1..NE |-> E[e].p]
OrigC == [e \in 1..NE |-> E[e].c]

VisitEdge ==
    /\ pc = "visit" /\ Unvisited # {}
    /\ \E e \in NextEdges :
          /\ sg' = VisitOne(sg, e, OrigP, OrigC, Excluded)
          /\ visited' = visited \cup {e}
    /\ UNCHANGED <<g, inst, E, ins, rem, mutq, nmap, order, newp, newc, a, b, m, left, cur, outm, crash, pc>>

(* ---- allocation of the copies ----------------------------------------------------------- *)
RECURSIVE Copies(_, _)
Copies(ns, u) ==                   \* split_nodes: node u repeated ns[u] times, for u ascending
    IF u = N THEN <<>>
    ELSE [j \in 1..(IF ns[u] > 0 THEN ns[u] ELSE 0) |-> u] \o Copies(ns, u + 1)
RECURSIVE FirstCopy(_, _)
FirstCopy(ns, u) ==                \* nodes_map[u] for a split node: N + number of copies of lower nodes
    IF u = 0 THEN N ELSE FirstCopy(ns, u - 1) + (IF ns[u - 1] > 0 THEN ns[u - 1] ELSE 0)

Allocate ==
    /\ pc = "visit" /\ Unvisited = {}
    /\ nmap' = [u \in Nodes |-> IF sg.ns[u] >= 1 THEN FirstCopy(sg.ns, u) ELSE NULL]
    /\ LET sp == Copies(sg.ns, 0) IN
         order' = [n \in 0..(N + Len(sp) - 1) |-> IF n < N THEN n ELSE sp[n - N + 1]]
    /\ pc' = "relabel"
    /\ UNCHANGED <<g, inst, E, ins, rem, mutq, visited, sg, newp, newc, a, b, m, left, cur, outm, crash>>

NewId(e, i, n) == IF sg.es[e][i] > 0 THEN sg.es[e][i] + nmap[n] - 1 ELSE n

Relabel ==
    /\ pc = "relabel"
    /\ newp' = [e \in 1..NE |-> NewId(e, 1, E[e].p)]
    /\ newc' = [e \in 1..NE |-> NewId(e, 2, E[e].c)]
    /\ a' = 1 /\ b' = 1 /\ m' = 1 /\ left' = 0 /\ crash' = FALSE
    /\ outm' = [k \in 1..NM |-> NULL]
    /\ cur' = [u \in Nodes |-> IF AsImplemented THEN NULL ELSE u]
    /\ pc' = "sweep"
    /\ UNCHANGED <<g, inst, E, ins, rem, mutq, visited, sg, nmap, order>>

(* ---- _relabel_mutations_node ------------------------------------------------------------ *)
EndPos == IF AsImplemented THEN (IF NE > 0 THEN E[rem[NE]].r ELSE 0) ELSE SeqLen

RECURSIVE SkipOut(_)
SkipOut(bb) == IF bb <= NE /\ E[rem[bb]].r = left THEN SkipOut(bb + 1) ELSE bb
RECURSIVE EdgesIn(_, _)
EdgesIn(cm, aa) ==
    IF aa <= NE /\ E[ins[aa]].l = left
    THEN LET e == ins[aa] IN
         EdgesIn([cm EXCEPT ![order[newc[e]]] = newc[e], ![order[newp[e]]] = newp[e]], aa + 1)
    ELSE <<cm, aa>>
RECURSIVE Muts(_, _, _, _, _)
Muts(o, mm, right, cm, bad) ==
    IF mm <= NM /\ mutq[mm][1] < right
    THEN Muts([o EXCEPT ![mm] = cm[mutq[mm][2]]], mm + 1, right, cm, bad \/ cm[mutq[mm][2]] = NULL)
    ELSE <<o, mm, bad>>

Sweep ==
    /\ pc = "sweep" /\ left < EndPos /\ ~crash
    /\ LET bb == SkipOut(b)
           i == EdgesIn(cur, a)
           right == Min({EndPos} \cup (IF bb <= NE THEN {E[rem[bb]].r} ELSE {})
                                  \cup (IF i[2] <= NE THEN {E[ins[i[2]]].l} ELSE {}))
           mu == Muts(outm, m, right, i[1], FALSE)
       IN  /\ b' = bb /\ a' = i[2] /\ cur' = i[1] /\ left' = right
           /\ outm' = mu[1] /\ m' = mu[2] /\ crash' = mu[3]            \* `assert nodes_map[..] != NULL`
    /\ UNCHANGED <<g, inst, E, ins, rem, mutq, visited, sg, nmap, order, newp, newc, pc>>

Finish ==
    /\ pc = "sweep" /\ (left >= EndPos \/ crash)
    /\ crash' = (crash \/ \E k \in 1..NM : outm[k] = NULL)            \* node -1 handed to tskit
    /\ pc' = "done"
    /\ UNCHANGED <<g, inst, E, ins, rem, mutq, visited, sg, nmap, order, newp, newc, a, b, m, left, cur, outm>>

Next == Gen \/ Choose \/ VisitEdge \/ Allocate \/ Relabel \/ Sweep \/ Finish
Spec == Init /\ [][Next]_vars

(* ================= the declarative statement ============================================== *)
Done == pc = "done"
NT == Cardinality(DOMAIN order)                    \* order is a function on 0..NT-1
NewNodes == DOMAIN order
Orig(n) == IF n = NULL THEN NULL ELSE order[n]

Covers(e, i) == E[e].l <= 2 * (i - 1) /\ 2 * (i - 1) < E[e].r
Present(i) == { u \in Nodes : inst.trees[i][u] # NULL \/ \E c \in Nodes : inst.trees[i][c] = u }
NewParent(i, n) == LET S == { e \in 1..NE : Covers(e, i) /\ newc[e] = n } IN
                   IF S = {} THEN NULL ELSE newp[CHOOSE e \in S : TRUE]
PresentNew(i) == { n \in NewNodes : \E e \in 1..NE : Covers(e, i) /\ (newc[e] = n \/ newp[e] = n) }
WhereOld(u) == { i \in 1..L : u \in Present(i) }
WhereNew(n) == { i \in 1..L : n \in PresentNew(i) }
IsRun(S) == S = {} \/ \A i \in Min(S)..Max(S) : i \in S
FirstRun(S) == IF S = {} THEN {} ELSE
               { i \in S : \A j \in Min(S)..i : j \in S }

TreesPreserved ==
    \A i \in 1..L :
       /\ \A n1, n2 \in PresentNew(i) : Orig(n1) = Orig(n2) => n1 = n2       \* one piece per node and tree
       /\ { Orig(n) : n \in PresentNew(i) } = Present(i)
       /\ \A n \in PresentNew(i) : Orig(NewParent(i, n)) = inst.trees[i][Orig(n)]
       /\ \A n \in NewNodes : Cardinality({ e \in 1..NE : Covers(e, i) /\ newc[e] = n }) <= 1
Contiguous == \A n \in NewNodes : Orig(n) \notin Excluded => IsRun(WhereNew(n))
LeftmostKeepsId ==
    /\ \A u \in Nodes : WhereNew(u) = (IF u \in Excluded THEN WhereOld(u) ELSE FirstRun(WhereOld(u)))
    /\ \A n \in NewNodes : n >= N => (WhereNew(n) # {} /\ Orig(n) \in Nodes \ Excluded)
    /\ \A n \in NewNodes : n < N => Orig(n) = n
Ix(x) == (x \div 2) + 1
MutationsFollow ==
    \A k \in 1..NM : LET x == mutq[k][1]  u == mutq[k][2] IN
        /\ outm[k] # NULL /\ outm[k] \in NewNodes /\ Orig(outm[k]) = u
        /\ (u \in Present(Ix(x)) => outm[k] \in PresentNew(Ix(x)))

RECURSIVE AncSelf(_, _)
AncSelf(f, u) == {u} \cup (IF f[u] = NULL THEN {} ELSE AncSelf(f, f[u]))
RECURSIVE AncSelfNew(_, _)
AncSelfNew(i, n) == {n} \cup (IF NewParent(i, n) = NULL THEN {} ELSE AncSelfNew(i, NewParent(i, n)))
CarriesOld(x, s) == \E k \in 1..NM : mutq[k][1] = x /\ mutq[k][2] \in AncSelf(TreeAt(inst.trees, x), s)
CarriesNew(x, s) == \E k \in 1..NM : mutq[k][1] = x /\ outm[k] \in AncSelfNew(Ix(x), s)
GenotypesKept == \A x \in { mutq[k][1] : k \in 1..NM }, s \in Excluded : CarriesOld(x, s) = CarriesNew(x, s)

(* a second application labels no node with a segment number above zero *)
RECURSIVE SegFold(_, _)
SegFold(s, todo) ==
    IF todo = {} THEN s
    ELSE LET lo == Min({ E[e].l : e \in todo })
             e == Min({ x \in todo : E[x].l = lo })
         IN  SegFold(VisitOne(s, e, newp, newc, { n \in NewNodes : Orig(n) \in Excluded }), todo \ {e})
Idempotent ==
    LET s == SegFold([ns |-> [n \in NewNodes |-> -1], nr |-> [n \in NewNodes |-> NEGINF],
                      es |-> [e \in 1..NE |-> <<-1, -1>>]], 1..NE)
    IN  \A n \in NewNodes : s.ns[n] <= 0

NoCrash == Done => ~crash
SplitCorrect == (Done /\ ~crash) =>
    /\ TreesPreserved /\ Contiguous /\ LeftmostKeepsId /\ MutationsFollow /\ GenotypesKept /\ Idempotent
(* pieces of node u are numbered in genome order: segment s of node u is nodes_map[u] + s - 1 *)
SegmentsAreRuns == Done => \A u \in Nodes \ Excluded :
    sg.ns[u] = (IF WhereOld(u) = {} THEN -1
                ELSE Cardinality({ i \in WhereOld(u) : (i - 1) \notin WhereOld(u) }) - 1)

(* the instances on which the code as it stands fails: a mutation at or beyond the right end *)
(* of the last edge, or on a node no edge has touched at or before the mutation's position   *)
LastRight == IF NE = 0 THEN 0 ELSE Max({ E[e].r : e \in 1..NE })
Touched(u, x) == \E e \in 1..NE : (E[e].p = u \/ E[e].c = u) /\ E[e].l <= x
AbsentClass == \E k \in 1..NM : mutq[k][1] >= LastRight \/ ~Touched(mutq[k][2], mutq[k][1])
CrashClassExact == (Done /\ AsImplemented) => (crash = AbsentClass)

Runs(u) == LET W == WhereOld(u) IN
           SetToSortSeq({ <<i, j>> \in W \X W : /\ i <= j /\ \A k \in i..j : k \in W
                                                 /\ (i - 1) \notin W /\ (j + 1) \notin W },
                        LAMBDA x, y : x[1] < y[1])

EmitInv == (Done /\ EmitDone) =>
    Emit("inst", [N |-> N, NS |-> NS, L |-> L, time |-> [u \in 1..N |-> Time[u - 1]],
                  trees |-> TreesJson(inst.trees), muts |-> mutq, samples |-> Excluded,
                  edges |-> [e \in 1..NE |-> <<E[e].l, E[e].r, E[e].p, E[e].c>>],
                  ins |-> ins, rem |-> rem,
                  nt |-> NT, order |-> [n \in 1..NT |-> order[n - 1]],
                  newp |-> newp, newc |-> newc, outm |-> outm,
                  mpresent |-> [k \in 1..NM |-> mutq[k][2] \in Present(Ix(mutq[k][1]))],
                  runs |-> [u \in 1..N |-> Runs(u - 1)],
                  absent |-> AbsentClass, crash |-> crash])
=============================================================================
