---------------------------- MODULE InsideOutside ----------------------------
(* tsdate/discrete.py  BeliefPropagation.inside_pass / outside_pass  on a single  *)
(* tree, as a state machine over abstract integer tables, checked against the      *)
(* brute-force marginals of the discretised model (C10), for every admissible      *)
(* node schedule (C11) and for the two readings of ignore_oldest_root (C38).       *)
(*                                                                                 *)
(* Nodes 0..NS-1 are samples (fixed at grid index 0, leaves), NS..N-1 internal.    *)
(* In the canonical numbering ids increase with input time, so the single root is  *)
(* N-1; `perm` is the renumbering of internal ids actually fed to the code.        *)
(* Prior[u][i], LikF[c][i] (edge above a sample, parent at grid index i) and       *)
(* Lik[c][i][j] (edge above internal node c: parent index i >= child index j) are  *)
(* arbitrary small naturals.  Arrays of the code are modelled as sequences whose   *)
(* k-th element is code index k-1; the index tables built in                       *)
(* Likelihoods.__init__ (row_indices, col_indices, to_lower_tri, to_upper_tri) and *)
(* np.add.reduceat are transcribed literally.                                      *)
(*                                                                                 *)
(* Scalars.  The code stores inside[u] = U[u] / max(U[u]) and multiplies the       *)
(* maxima into the marginal likelihood; the model keeps the integer numerators U,  *)
(* the maxima mx and the running marginal as an exact rational.  Outside rows are  *)
(* kept up to the positive per-row scalar the code divides by (denominator[child]  *)
(* or max(val) under standardize): that scalar cancels in to_probabilities().      *)
EXTENDS Naturals, Integers, Sequences, FiniteSets, SequencesExt, VT

CONSTANTS NS, NI,        \* number of samples / internal nodes
          G,             \* grid size
          Vals,          \* table entries range over this set of naturals
          IgnoreModes,   \* subset of {"none", "spec", "impl"}
          PermMode,      \* "id" | "all" : renumberings of the internal ids explored
          MinKids,       \* 2 = no unary nodes, 1 = unary nodes allowed
          CanonLeaves,   \* TRUE: one labelling of the leaves per shape (symmetry)
          TableMode,     \* "all": every table over Vals; "hash": one pseudo-random table set per seed
          Seeds,         \* seeds explored in "hash" mode
          EmitDone

N == NS + NI
Nodes == 0..(N - 1)
Samples == 0..(NS - 1)
Internal == NS..(N - 1)
NULL == -1
Root == N - 1
GI == 0..(G - 1)
TriSize == (G * (G + 1)) \div 2

VARIABLES inst, cur, pc, U, mx, marg, W, idone, odone, exact
vars == <<inst, cur, pc, U, mx, marg, W, idone, odone, exact>>

(* ------------------------------------------------------------------------------ *)
(* arrays                                                                          *)
RECURSIVE SumRange(_, _, _)
SumRange(a, lo, hi) == IF lo > hi THEN 0 ELSE a[lo] + SumRange(a, lo + 1, hi)
RECURSIVE MaxRange(_, _, _)
MaxRange(a, lo, hi) == IF lo = hi THEN a[lo]
                       ELSE LET m == MaxRange(a, lo + 1, hi) IN IF a[lo] > m THEN a[lo] ELSE m
MaxOf(a) == MaxRange(a, 1, Len(a))
Mul(a, b) == [k \in 1..Len(a) |-> a[k] * b[k]]
Ones == [k \in 1..G |-> 1]
Take(a, idx) == [k \in 1..Len(idx) |-> a[idx[k] + 1]]              \* a[idx] (fancy indexing)
ReduceAt(a, idx) ==                                                  \* np.add.reduceat(a, idx)
    [k \in 1..Len(idx) |-> SumRange(a, idx[k] + 1, IF k < Len(idx) THEN idx[k + 1] ELSE Len(a))]

(* Likelihoods.__init__ *)
RowIndices(t) == [k \in 1..(G - t) |-> LET n == t + k - 1 IN (n * (n + 1)) \div 2 + t]
RECURSIVE ColLoop(_, _, _)
ColLoop(i, running, acc) == IF i = G THEN acc ELSE ColLoop(i + 1, running + (G - i), Append(acc, running))
ColIndices == ColLoop(0, 0, <<>>)
ToLowerTri == FlattenSeq([t \in 1..G |-> [k \in 1..t |-> k - 1]])
ToUpperTri == FlattenSeq([t \in 1..(G + 1) |-> [k \in 1..(G - (t - 1)) |-> (t - 1) + (k - 1)]])
UpperPerm == FlattenSeq([t \in 1..G |-> RowIndices(t - 1)])       \* np.concatenate(self.row_indices)

(* layout of timediff_lower_tri: row i (parent index) holds child indices 0..i      *)
Packed(c) == FlattenSeq([i \in 1..G |-> [j \in 1..i |-> inst.lik[c][i][j]]])   \* get_mut_lik_lower_tri
PackedUpper(c) == Take(Packed(c), UpperPerm)                                      \* get_mut_lik_upper_tri
MakeLowerTri(v) == Take(v, ToLowerTri)
MakeUpperTri(v) == Take(v, ToUpperTri)
RowsumLower(a) == ReduceAt(a, RowIndices(0))
RowsumUpper(a) == ReduceAt(a, ColIndices)

(* exact rationals <<num, den>> *)
RECURSIVE GCD(_, _)
GCD(a, b) == IF b = 0 THEN a ELSE GCD(b, a % b)
Norm(q) == LET g == GCD(q[1], q[2]) IN IF g = 0 THEN q ELSE <<q[1] \div g, q[2] \div g>>
RatMul(a, b) == Norm(<<a[1] * b[1], a[2] * b[2]>>)

(* ------------------------------------------------------------------------------ *)
(* instance choice, stepwise                                                       *)
Kids(f, p) == { c \in Nodes : f[c] = p }
TreeOK(f) ==
    /\ f[Root] = NULL
    /\ \A c \in Nodes \ {Root} : f[c] # NULL /\ f[c] > c
    /\ \A p \in Internal : Cardinality(Kids(f, p)) >= MinKids
    /\ CanonLeaves => \A c \in Samples \ {NS - 1} : f[c] <= f[c + 1]
Topologies == { f \in [Nodes -> Internal \cup {NULL}] : TreeOK(f) }
InternalPerms == IF PermMode = "id" THEN { [u \in Internal |-> u] }
                 ELSE { f \in [Internal -> Internal] : \A u, v \in Internal : u # v => f[u] # f[v] }
Rows == [1..G -> Vals]
RECURSIVE TriTables(_)
TriTables(i) ==    \* set of sequences of rows 1..i, row r having r entries
    IF i = 0 THEN { <<>> }
    ELSE { Append(t, r) : t \in TriTables(i - 1), r \in [1..i -> Vals] }

(* "hash" mode: a fixed pseudo-random choice of every table entry, so that the search *)
(* is exhaustive over topologies, renumberings and schedules instead of over tables   *)
HashVals == <<1, 2, 1, 0, 2, 1, 2, 1, 1, 2, 2>>
H(seed, slot, k) == HashVals[((seed * 37 + slot * 13 + k * 5 + seed * slot * 3 + k * k * seed) % 11) + 1]
HashRow(seed, slot, n, off) == [k \in 1..n |-> H(seed, slot, off + k)]
HashTri(seed, slot) == [i \in 1..G |-> HashRow(seed, slot, i, (i * (i - 1)) \div 2)]

NSlots == NI + (N - 1)           \* priors of internal nodes, then one table per non-root node

Init == /\ inst = [par |-> <<>>, prior |-> <<>>, likf |-> <<>>, lik |-> <<>>, perm |-> <<>>, ign |-> "none", seed |-> 0]
        /\ cur = 0 /\ pc = "topo"
        /\ U = <<>> /\ mx = <<>> /\ marg = <<1, 1>> /\ W = <<>>
        /\ idone = {} /\ odone = {} /\ exact = TRUE

ChooseTopo ==
    /\ pc = "topo"
    /\ \E f \in Topologies, pm \in InternalPerms, ig \in IgnoreModes,
          sd \in (IF TableMode = "hash" THEN Seeds ELSE {0}) :
          inst' = [par |-> f, prior |-> [u \in Internal |-> <<>>], likf |-> [c \in Samples |-> <<>>],
                   lik |-> [c \in Internal \ {Root} |-> <<>>], perm |-> pm, ign |-> ig, seed |-> sd]
    /\ pc' = "tables" /\ cur' = 0
    /\ UNCHANGED <<U, mx, marg, W, idone, odone, exact>>

ChooseTable ==
    /\ pc = "tables" /\ cur < NSlots
    /\ IF TableMode = "hash"
       THEN IF cur < NI THEN inst' = [inst EXCEPT !.prior[NS + cur] = HashRow(inst.seed, cur, G, 0)]
            ELSE LET c == cur - NI IN
                 IF c \in Samples THEN inst' = [inst EXCEPT !.likf[c] = HashRow(inst.seed, cur, G, 0)]
                 ELSE inst' = [inst EXCEPT !.lik[c] = HashTri(inst.seed, cur)]
       ELSE IF cur < NI
       THEN \E r \in Rows : inst' = [inst EXCEPT !.prior[NS + cur] = r]
       ELSE LET c == cur - NI IN
            IF c \in Samples THEN \E r \in Rows : inst' = [inst EXCEPT !.likf[c] = r]
            ELSE \E t \in TriTables(G) : inst' = [inst EXCEPT !.lik[c] = t]
    /\ cur' = cur + 1
    /\ UNCHANGED <<pc, U, mx, marg, W, idone, odone, exact>>

Start ==
    /\ pc = "tables" /\ cur = NSlots
    /\ pc' = "inside"
    /\ U' = [u \in Internal |-> <<>>] /\ mx' = [u \in Internal |-> 0]
    /\ W' = [u \in Internal |-> <<>>]
    /\ UNCHANGED <<inst, cur, marg, idone, odone, exact>>

(* ------------------------------------------------------------------------------ *)
(* inside_pass: one action per parent group of edges_by_parent_asc, in any order   *)
(* in which the children of a node precede it                                      *)
KidsOf(p) == Kids(inst.par, p)

EdgeLikInside(c) ==                       \* get_fixed / get_inside, numerators
    IF c \in Samples THEN inst.likf[c]
    ELSE RowsumLower(Mul(MakeLowerTri(U[c]), Packed(c)))

RECURSIVE CombineKids(_, _)
CombineKids(val, S) == IF S = {} THEN val
                       ELSE LET c == CHOOSE x \in S : TRUE IN CombineKids(Mul(val, EdgeLikInside(c)), S \ {c})
RECURSIVE ProdMx(_)
ProdMx(S) == IF S = {} THEN 1 ELSE LET c == CHOOSE x \in S : TRUE IN mx[c] * ProdMx(S \ {c})

InsideNode(p) ==
    /\ pc = "inside" /\ p \in Internal \ idone
    /\ (KidsOf(p) \cap Internal) \subseteq idone
    /\ LET val == CombineKids(inst.prior[p], KidsOf(p))
           m == MaxOf(val)
       IN  IF m = 0
           THEN /\ pc' = "improper"               \* 0/0 -> NaN row: "dangling nodes" / NaN result
                /\ UNCHANGED <<U, mx, marg, idone>>
           ELSE /\ U' = [U EXCEPT ![p] = val]
                /\ mx' = [mx EXCEPT ![p] = m]
                /\ marg' = RatMul(marg, <<m, ProdMx(KidsOf(p) \cap Internal)>>)    \* denominator[parent]
                /\ idone' = idone \cup {p}
                /\ pc' = pc
    /\ UNCHANGED <<inst, cur, W, odone, exact>>

InsideFinish ==                          \* marginalize(inside[root]); outside[root] = 1
    /\ pc = "inside" /\ idone = Internal
    /\ marg' = RatMul(marg, <<SumRange(U[Root], 1, G), mx[Root]>>)
    /\ W' = [W EXCEPT ![Root] = Ones]
    /\ odone' = {Root}
    /\ pc' = "outside"
    /\ UNCHANGED <<inst, cur, U, mx, idone, exact>>

(* ------------------------------------------------------------------------------ *)
(* outside_pass: one action per child group of edges_by_child_desc, in any order   *)
(* in which the parent of a node precedes it                                       *)
IgnoredNode == CASE inst.ign = "none" -> NULL
                 [] inst.ign = "spec" -> Root                                     \* the oldest root
                 [] inst.ign = "impl" -> CHOOSE u \in Internal : inst.perm[u] = N - 1   \* id == num_nodes - 1

Ratio0(a, b) == [k \in 1..Len(a) |-> IF b[k] = 0 THEN 0 ELSE a[k] \div b[k]]     \* ratio(.., div_0_null=True)
Divides(a, b) == \A k \in 1..Len(a) : IF b[k] = 0 THEN a[k] = 0 ELSE a[k] % b[k] = 0

OutsideNode(c) ==
    /\ pc = "outside" /\ c \in Internal \ odone
    /\ inst.par[c] \in odone
    /\ LET p == inst.par[c]
           gi == RowsumLower(Mul(MakeLowerTri(U[c]), Packed(c)))       \* recomputed edge_lik (cur_g_i)
           idg == Ratio0(U[p], gi)                                       \* inside_div_gi
           pval == MakeUpperTri(Mul(W[p], idg))                          \* parent_val
           out == RowsumUpper(Mul(pval, PackedUpper(c)))                 \* get_outside
       IN  IF p = IgnoredNode
           THEN /\ W' = [W EXCEPT ![c] = Ones] /\ exact' = exact
           ELSE /\ W' = [W EXCEPT ![c] = out] /\ exact' = (exact /\ Divides(U[p], gi))
    /\ odone' = odone \cup {c}
    /\ UNCHANGED <<inst, cur, pc, U, mx, marg, idone>>

OutsideFinish ==
    /\ pc = "outside" /\ odone = Internal /\ pc' = "done"
    /\ UNCHANGED <<inst, cur, U, mx, marg, W, idone, odone, exact>>

Next == \/ ChooseTopo \/ ChooseTable \/ Start
        \/ (\E p \in Internal : InsideNode(p)) \/ InsideFinish
        \/ (\E c \in Internal : OutsideNode(c)) \/ OutsideFinish
Spec == Init /\ [][Next]_vars

(* ============================ declarative model ================================= *)
(* prior times Poisson-like edge factors, parents no younger than children          *)
RECURSIVE Below(_)
Below(v) == {v} \cup UNION { Below(c) : c \in KidsOf(v) }
IntOf(S) == S \cap Internal
EdgeFactor(c, a) ==
    LET p == inst.par[c] IN
    IF c \in Samples THEN inst.likf[c][a[p] + 1]
    ELSE IF a[p] >= a[c] THEN inst.lik[c][a[p] + 1][a[c] + 1] ELSE 0
RECURSIVE ProdPrior(_, _)
ProdPrior(S, a) == IF S = {} THEN 1
                   ELSE LET u == CHOOSE x \in S : TRUE IN inst.prior[u][a[u] + 1] * ProdPrior(S \ {u}, a)
RECURSIVE ProdEdges(_, _)
ProdEdges(S, a) == IF S = {} THEN 1
                   ELSE LET c == CHOOSE x \in S : TRUE IN EdgeFactor(c, a) * ProdEdges(S \ {c}, a)
Weight(S, a) == ProdPrior(IntOf(S), a) * ProdEdges({ c \in S : inst.par[c] # NULL /\ inst.par[c] \in S }, a)
RECURSIVE SumWeights(_, _)
SumWeights(S, A) == IF A = {} THEN 0
                    ELSE LET a == CHOOSE x \in A : TRUE IN Weight(S, a) + SumWeights(S, A \ {a})
Marginal(S, u, j) == SumWeights(S, { a \in [IntOf(S) -> GI] : a[u] = j })     \* brute force
Normaliser == SumWeights(Nodes, [Internal -> GI])

RECURSIVE TopAnc(_)
TopAnc(u) == IF inst.par[u] = Root THEN u ELSE TopAnc(inst.par[u])
(* ignore_oldest_root as specified: the root sends no message; every other node gets *)
(* its marginal in the model restricted to the subtree hanging off the root           *)
DeclIgnored(u, j) == IF u = Root THEN Marginal(Nodes, Root, j) ELSE Marginal(Below(TopAnc(u)), u, j)

Post(u, j) == U[u][j + 1] * W[u][j + 1]
Done == pc = "done"

PosteriorExact ==
    (Done /\ inst.ign = "none") => \A u \in Internal, j \in GI : Post(u, j) = Marginal(Nodes, u, j)
MarginalExact ==
    (pc \in {"outside", "done"}) => marg = <<Normaliser, 1>>
ImproperIffNoMass ==
    /\ pc = "improper" => Normaliser = 0
    /\ pc \in {"outside", "done"} => Normaliser > 0
DivisionExact == exact
PosteriorIgnoreRoot ==
    (Done /\ inst.ign # "none") => \A u \in Internal, j \in GI : Post(u, j) = DeclIgnored(u, j)
StandardisedInside ==          \* what the code stores: U/mx has maximum 1 in every row
    \A u \in idone : mx[u] > 0 /\ \E k \in 1..G : U[u][k] = mx[u]

EmitInv ==
    (EmitDone /\ pc \in {"done", "improper"}) =>
      Emit("inst", [NS |-> NS, NI |-> NI, G |-> G, status |-> pc,
                    par |-> [u \in 1..N |-> inst.par[u - 1]],
                    perm |-> [k \in 1..NI |-> inst.perm[NS + k - 1]],
                    ign |-> inst.ign,
                    prior |-> [k \in 1..NI |-> inst.prior[NS + k - 1]],
                    likf |-> [k \in 1..NS |-> inst.likf[k - 1]],
                    lik |-> [k \in 1..(NI - 1) |-> inst.lik[NS + k - 1]],
                    U |-> IF Done THEN [k \in 1..NI |-> U[NS + k - 1]] ELSE <<>>,
                    mx |-> IF Done THEN [k \in 1..NI |-> mx[NS + k - 1]] ELSE <<>>,
                    W |-> IF Done THEN [k \in 1..NI |-> W[NS + k - 1]] ELSE <<>>,
                    post |-> IF Done THEN [k \in 1..NI |-> [j \in 1..G |-> Post(NS + k - 1, j - 1)]] ELSE <<>>,
                    decl |-> IF Done THEN [k \in 1..NI |-> [j \in 1..G |->
                                 IF inst.ign = "none" THEN Marginal(Nodes, NS + k - 1, j - 1)
                                 ELSE DeclIgnored(NS + k - 1, j - 1)]] ELSE <<>>,
                    Z |-> Normaliser])
=============================================================================
