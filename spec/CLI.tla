------------------------------- MODULE CLI -------------------------------
(* The tsdate command line (tsdate/cli.py) as a function                           *)
(*        argv  |->  namespace  |->  (usage error | cli error | API call + kwargs) *)
(* for both sub-commands.  An instance is a choice, per option, of "absent" or one *)
(* of a few alternatives (token sequence + the value that spelling means).  Parse  *)
(* walks the token sequence with argparse's rules over the declared option table;  *)
(* Dispatch is shaped after run_date / run_preprocess.  The declarative statements *)
(* of C34 (every option given reaches the API with the value given, booleans can   *)
(* be switched off, method-specific routing, irrelevant combinations are rejected, *)
(* nothing is invented for absent options) are invariants of the machine, and      *)
(* every behaviour is emitted for replay into tsdate.cli.tsdate_main (C34).        *)
(*                                                                                 *)
(* Variant = "design": the CLI the property describes.                             *)
(* Variant = "impl"  : argparse `type=bool` (any non-empty string is True) and     *)
(*                     run_preprocess not forwarding split_disjoint -- TLC must     *)
(*                     refute Faithful for it (self-test of the invariants).       *)
EXTENDS VT

CONSTANTS Sub,        \* "date" | "preprocess"
          MaxGiven,   \* explore argv with at most that many (non-free) options given
          EmitUpTo,   \* emit behaviours with at most that many (non-free) options given
          EmitOn,     \* BOOLEAN
          Variant     \* "design" | "impl"

VARIABLES pick,       \* sequence: alternative chosen for option 1..Len(pick) (0 = absent)
          ns,         \* parsed namespace (record dest |-> value, err |-> "" | "usage")
          res,        \* dispatch result
          pc
vars == <<pick, ns, res, pc>>

(* ---------------- values --------------------------------------------------------- *)
NONE == <<"none">>                 \* Python None / "the API default applies"
F(tok) == <<"float", tok>>
I(tok) == <<"int", tok>>
S(tok) == <<"str", tok>>
B(b) == <<"bool", IF b THEN "True" ELSE "False">>
BAD == <<"bad">>                   \* the spelling is not a literal of the option's type

FloatLits == {"0", "1", "2", "3", "5", "10", "50", "100", "200", "300", "1000",
              "0.002", "0.004", "0.001", "0.01", "0.5", "1e-8", "2.5"}
IntLits == {"0", "1", "2", "3", "5", "10", "50", "100", "200", "1000"}
NonPositive == {"0"}
TrueLits == {"True", "true", "1"}
FalseLits == {"False", "false", "0"}
Methods == {"variational_gamma", "inside_outside", "maximization"}
VG == "variational_gamma"

(* ---------------- the option declarations (the parser's table) ------------------- *)
(* kind: value (one argument of `type`), flag (store_true), count, flagoff (design   *)
(* only: an explicit negative flag for a boolean option).                            *)
DateDecl == {
  [dest |-> "mutation_rate",      flags |-> {"-m", "--mutation-rate"},      kind |-> "value", type |-> "float",  default |-> NONE],
  [dest |-> "recombination_rate", flags |-> {"-r", "--recombination-rate"}, kind |-> "value", type |-> "float",  default |-> NONE],
  [dest |-> "epsilon",            flags |-> {"-e", "--epsilon"},            kind |-> "value", type |-> "float",  default |-> NONE],
  [dest |-> "min_branch_length",  flags |-> {"-b", "--min-branch-length"},  kind |-> "value", type |-> "float",  default |-> NONE],
  [dest |-> "method",             flags |-> {"--method"},                   kind |-> "value", type |-> "method", default |-> S(VG)],
  [dest |-> "progress",           flags |-> {"-p", "--progress"},           kind |-> "flag",  type |-> "bool",   default |-> B(FALSE)],
  [dest |-> "verbosity",          flags |-> {"-v", "--verbosity", "-vv"},   kind |-> "count", type |-> "int",    default |-> NONE],
  [dest |-> "rescaling_intervals", flags |-> {"--rescaling-intervals"},     kind |-> "value", type |-> "int",    default |-> NONE],
  [dest |-> "max_iterations",     flags |-> {"--max-iterations"},           kind |-> "value", type |-> "int",    default |-> NONE],
  [dest |-> "population_size",    flags |-> {"-n", "--population_size"},    kind |-> "value", type |-> "float",  default |-> NONE],
  [dest |-> "num_threads",        flags |-> {"-t", "--num-threads"},        kind |-> "value", type |-> "int",    default |-> NONE],
  [dest |-> "probability_space",  flags |-> {"--probability-space"},        kind |-> "value", type |-> "str",    default |-> NONE] }

PreDecl == {
  [dest |-> "minimum_gap",    flags |-> {"--minimum_gap"},                     kind |-> "value", type |-> "float", default |-> NONE],
  [dest |-> "erase_flanks",   flags |-> {"--erase-flanks", "--trim_telomeres"}, kind |-> "value", type |-> "bool", default |-> NONE],
  [dest |-> "split_disjoint", flags |-> {"--split-disjoint"},                  kind |-> "value", type |-> "bool",  default |-> NONE],
  [dest |-> "erase_flanks",   flags |-> {"--no-erase-flanks"},                 kind |-> "flagoff", type |-> "bool", default |-> NONE],
  [dest |-> "split_disjoint", flags |-> {"--no-split-disjoint"},               kind |-> "flagoff", type |-> "bool", default |-> NONE],
  [dest |-> "verbosity",      flags |-> {"-v", "--verbosity", "-vv"},          kind |-> "count", type |-> "int",   default |-> NONE] }

Decl == IF Sub = "date" THEN DateDecl
        ELSE IF Variant = "impl" THEN { d \in PreDecl : d.kind # "flagoff" } ELSE PreDecl
NPositional == IF Sub = "date" THEN 3 ELSE 2       \* date: in, out, [deprecated population size]
CountInc(tok) == IF tok = "-vv" THEN 2 ELSE 1

(* every token that looks like an option to argparse *)
DashTokens == UNION { d.flags : d \in DateDecl \cup PreDecl } \cup {"--bogus-flag"}

(* ---------------- the instance space: alternatives per option -------------------- *)
(* free: does not count towards MaxGiven / EmitUpTo.  val: what the spelling means.   *)
A(toks, val) == [toks |-> toks, val |-> val]
DateOpts == <<
  [o |-> "input",   free |-> FALSE, alts |-> <<A(<<>>, S("garbage")), A(<<>>, S("missing"))>>],
  [o |-> "order",   free |-> FALSE, alts |-> <<A(<<>>, S("options-first"))>>],
  [o |-> "pos",     free |-> FALSE, alts |-> <<A(<<"100">>, F("100"))>>],
  [o |-> "method",  free |-> TRUE,  alts |-> <<A(<<"--method", VG>>, S(VG)),
                                               A(<<"--method", "inside_outside">>, S("inside_outside")),
                                               A(<<"--method", "maximization">>, S("maximization")),
                                               A(<<"--method", "foo">>, BAD)>>],
  [o |-> "mutation_rate", free |-> TRUE, alts |-> <<A(<<"-m", "0.002">>, F("0.002")),
                                               A(<<"--mutation-rate", "0.004">>, F("0.004")),
                                               A(<<"-m", "abc">>, BAD)>>],
  [o |-> "recombination_rate", free |-> FALSE, alts |-> <<A(<<"-r", "1e-8">>, F("1e-8"))>>],
  [o |-> "epsilon", free |-> FALSE, alts |-> <<A(<<"-e", "0.001">>, F("0.001")),
                                               A(<<"--epsilon", "0.01">>, F("0.01"))>>],
  [o |-> "min_branch_length", free |-> FALSE, alts |-> <<A(<<"-b", "0.5">>, F("0.5")),
                                               A(<<"--min-branch-length", "3">>, F("3")),
                                               A(<<"-b", "0">>, F("0"))>>],
  [o |-> "progress", free |-> FALSE, alts |-> <<A(<<"-p">>, B(TRUE)), A(<<"--progress">>, B(TRUE))>>],
  [o |-> "verbosity", free |-> FALSE, alts |-> <<A(<<"-v">>, I("1")), A(<<"-vv">>, I("2")), A(<<"-v", "--verbosity", "-v">>, I("3"))>>],
  [o |-> "rescaling_intervals", free |-> FALSE, alts |-> <<A(<<"--rescaling-intervals", "2">>, I("2")),
                                               A(<<"--rescaling-intervals", "5">>, I("5"))>>],
  [o |-> "max_iterations", free |-> FALSE, alts |-> <<A(<<"--max-iterations", "1">>, I("1")),
                                               A(<<"--max-iterations", "3">>, I("3")),
                                               A(<<"--max-iterations", "0">>, I("0")),
                                               A(<<"--max-iterations", "2.5">>, BAD)>>],
  [o |-> "population_size", free |-> FALSE, alts |-> <<A(<<"-n", "50">>, F("50")),
                                               A(<<"--population_size", "200">>, F("200"))>>],
  [o |-> "num_threads", free |-> FALSE, alts |-> <<A(<<"-t", "1">>, I("1")), A(<<"--num-threads", "2">>, I("2"))>>],
  [o |-> "probability_space", free |-> FALSE, alts |-> <<A(<<"--probability-space", "linear">>, S("linear")),
                                               A(<<"--probability-space", "logarithmic">>, S("logarithmic")),
                                               A(<<"--probability-space", "bogus">>, S("bogus"))>>],
  [o |-> "junk",    free |-> FALSE, alts |-> <<A(<<"--bogus-flag">>, BAD)>>] >>

PreOpts == <<
  [o |-> "input",   free |-> FALSE, alts |-> <<A(<<>>, S("garbage")), A(<<>>, S("missing"))>>],
  [o |-> "order",   free |-> FALSE, alts |-> <<A(<<>>, S("options-first"))>>],
  [o |-> "pos",     free |-> FALSE, alts |-> <<A(<<"100">>, BAD)>>],          \* a third positional is a usage error
  [o |-> "minimum_gap", free |-> TRUE, alts |-> <<A(<<"--minimum_gap", "300">>, F("300")),
                                               A(<<"--minimum_gap", "1000">>, F("1000")),
                                               A(<<"--minimum_gap", "abc">>, BAD)>>],
  [o |-> "erase_flanks", free |-> TRUE, alts |-> <<A(<<"--erase-flanks", "True">>, B(TRUE)),
                                               A(<<"--erase-flanks", "False">>, B(FALSE)),
                                               A(<<"--trim_telomeres", "False">>, B(FALSE)),
                                               A(<<"--erase-flanks", "0">>, B(FALSE)),
                                               A(<<"--trim_telomeres", "true">>, B(TRUE)),
                                               A(<<"--no-erase-flanks">>, B(FALSE))>>],
  [o |-> "split_disjoint", free |-> TRUE, alts |-> <<A(<<"--split-disjoint", "True">>, B(TRUE)),
                                               A(<<"--split-disjoint", "False">>, B(FALSE)),
                                               A(<<"--split-disjoint", "false">>, B(FALSE)),
                                               A(<<"--split-disjoint", "1">>, B(TRUE)),
                                               A(<<"--no-split-disjoint">>, B(FALSE))>>],
  [o |-> "verbosity", free |-> FALSE, alts |-> <<A(<<"-v">>, I("1")), A(<<"-vv">>, I("2"))>>],
  [o |-> "junk",    free |-> FALSE, alts |-> <<A(<<"--bogus-flag">>, BAD)>>] >>

Opts == IF Sub = "date" THEN DateOpts ELSE PreOpts
NOpts == Len(Opts)
Idx(name) == CHOOSE i \in 1..NOpts : Opts[i].o = name
Has(name) == \E i \in 1..NOpts : Opts[i].o = name
Chosen(p, name) == IF Has(name) /\ Idx(name) <= Len(p) THEN p[Idx(name)] ELSE 0
Given(p, name) == Chosen(p, name) # 0
AltOf(p, name) == Opts[Idx(name)].alts[Chosen(p, name)]
GivenCount(p) == Cardinality({ i \in 1..Len(p) : p[i] # 0 /\ ~Opts[i].free })
(* options whose spelling of a boolean the statement does not fix: the parser may    *)
(* refuse the spelling (usage error) but if it accepts it the value must arrive       *)
BoolOpts == {"erase_flanks", "split_disjoint"}

(* ---------------- argv ------------------------------------------------------------ *)
RECURSIVE OptTokens(_, _)
OptTokens(p, i) == IF i > Len(p) THEN <<>>
                   ELSE (IF p[i] = 0 \/ Opts[i].o \in {"pos"} THEN <<>> ELSE Opts[i].alts[p[i]].toks) \o OptTokens(p, i + 1)
Positionals(p) == <<"IN", "OUT">> \o (IF Given(p, "pos") THEN AltOf(p, "pos").toks ELSE <<>>)
Argv(p) == IF Given(p, "order") THEN OptTokens(p, 1) \o Positionals(p)
           ELSE Positionals(p) \o OptTokens(p, 1)

(* ---------------- Parse: argparse over the declared table ------------------------- *)
Ns0 == [ d \in { x.dest : x \in Decl } \cup {"err", "npos", "deprecated_population_size"} |->
           IF d = "err" THEN "" ELSE IF d = "npos" THEN 0
           ELSE IF d = "deprecated_population_size" THEN NONE
           ELSE IF d = "verbosity" THEN 0
           ELSE (CHOOSE x \in Decl : x.dest = d /\ x.kind # "flagoff").default ]
UsageErr(n) == [n EXCEPT !.err = "usage"]

Conv(type, tok) ==
    CASE type = "float"  -> IF tok \in FloatLits THEN F(tok) ELSE BAD
      [] type = "int"    -> IF tok \in IntLits THEN I(tok) ELSE BAD
      [] type = "str"    -> S(tok)
      [] type = "method" -> IF tok \in Methods THEN S(tok) ELSE BAD
      [] type = "bool"   -> IF Variant = "impl" THEN B(tok # "")         \* Python's bool(str)
                            ELSE IF tok \in TrueLits THEN B(TRUE)
                            ELSE IF tok \in FalseLits THEN B(FALSE) ELSE BAD

RECURSIVE ParseFrom(_, _)
ParseFrom(toks, n) ==
    IF n.err # "" THEN n
    ELSE IF toks = <<>> THEN (IF n.npos < 2 THEN UsageErr(n) ELSE n)
    ELSE LET t == Head(toks) IN
      IF t \in DashTokens THEN
        IF \E d \in Decl : t \in d.flags THEN
          LET d == CHOOSE d \in Decl : t \in d.flags IN
          CASE d.kind = "flag"    -> ParseFrom(Tail(toks), [n EXCEPT ![d.dest] = B(TRUE)])
            [] d.kind = "flagoff" -> ParseFrom(Tail(toks), [n EXCEPT ![d.dest] = B(FALSE)])
            [] d.kind = "count"   -> ParseFrom(Tail(toks), [n EXCEPT ![d.dest] = @ + CountInc(t)])
            [] d.kind = "value"   ->
                 IF Len(toks) < 2 \/ toks[2] \in DashTokens THEN UsageErr(n)       \* expected one argument
                 ELSE LET v == Conv(d.type, toks[2]) IN
                      IF v = BAD THEN UsageErr(n)                                    \* invalid <type> value
                      ELSE ParseFrom(Tail(Tail(toks)), [n EXCEPT ![d.dest] = v])
        ELSE UsageErr(n)                                                            \* unrecognized arguments
      ELSE \* a positional
        IF n.npos < 2 THEN ParseFrom(Tail(toks), [n EXCEPT !.npos = @ + 1])
        ELSE IF n.npos = 2 /\ NPositional = 3 THEN
             LET v == Conv("float", t) IN
             IF v = BAD THEN UsageErr(n)
             ELSE ParseFrom(Tail(toks), [n EXCEPT !.npos = 3, !.deprecated_population_size = v])
        ELSE UsageErr(n)

Parsed(p) == ParseFrom(Argv(p), Ns0)

(* ---------------- Dispatch: run_date / run_preprocess ------------------------------ *)
LogLevel(v) == IF v > 1 THEN "DEBUG" ELSE IF v > 0 THEN "INFO" ELSE "WARN"
Usage == [kind |-> "usage_error", why |-> "usage", fn |-> "", kwargs |-> <<>>, loglevel |-> ""]
CliErr(why, n) == [kind |-> "cli_error", why |-> why, fn |-> "", kwargs |-> <<>>, loglevel |-> LogLevel(n.verbosity)]
Call(fn, kw, n) == [kind |-> "call", why |-> "", fn |-> fn, kwargs |-> kw, loglevel |-> LogLevel(n.verbosity)]
InputState(p) == IF Given(p, "input") THEN AltOf(p, "input").val[2] ELSE "good"

DispatchDate(p, n) ==
    IF n.deprecated_population_size # NONE THEN CliErr("deprecated positional population size", n)
    ELSE IF InputState(p) # "good" THEN CliErr("cannot load input: " \o InputState(p), n)
    ELSE IF n.method = S(VG) THEN
        IF n.population_size # NONE THEN CliErr("population_size with variational_gamma", n)
        ELSE IF n.num_threads # NONE THEN CliErr("num_threads with variational_gamma", n)
        ELSE IF n.probability_space # NONE THEN CliErr("probability_space with variational_gamma", n)
        ELSE Call("date", [mutation_rate |-> n.mutation_rate, recombination_rate |-> n.recombination_rate,
                           method |-> n.method, min_branch_length |-> n.min_branch_length,
                           progress |-> n.progress, max_iterations |-> n.max_iterations,
                           rescaling_intervals |-> n.rescaling_intervals], n)
    ELSE
        IF n.rescaling_intervals # NONE THEN CliErr("rescaling_intervals with a discrete method", n)
        ELSE IF n.max_iterations # NONE THEN CliErr("max_iterations with a discrete method", n)
        ELSE Call("date", [mutation_rate |-> n.mutation_rate, recombination_rate |-> n.recombination_rate,
                           method |-> n.method, min_branch_length |-> n.min_branch_length,
                           progress |-> n.progress, population_size |-> n.population_size,
                           eps |-> n.epsilon, probability_space |-> n.probability_space,
                           num_threads |-> n.num_threads], n)

DispatchPre(p, n) ==
    IF InputState(p) # "good" THEN CliErr("cannot load input: " \o InputState(p), n)
    ELSE IF Variant = "impl"
         THEN Call("preprocess_ts", [minimum_gap |-> n.minimum_gap, erase_flanks |-> n.erase_flanks], n)
         ELSE Call("preprocess_ts", [minimum_gap |-> n.minimum_gap, erase_flanks |-> n.erase_flanks,
                                     split_disjoint |-> n.split_disjoint], n)

Dispatched(p, n) == IF n.err # "" THEN Usage
                    ELSE IF Sub = "date" THEN DispatchDate(p, n) ELSE DispatchPre(p, n)

(* what the API is documented to do with the kwargs (module Validate, restricted to   *)
(* what the CLI can express): "reject" = ValueError / NotImplementedError for every   *)
(* input, "any" = depends on the input, compared with the direct call.                *)
KW(r, name) == IF name \in DOMAIN r.kwargs THEN r.kwargs[name] ELSE NONE
ApiRejects(r) ==
    /\ r.kind = "call" /\ r.fn = "date"
    /\ \/ KW(r, "recombination_rate") # NONE
       \/ KW(r, "method") # S(VG) /\ KW(r, "population_size") = NONE
       \/ KW(r, "method") \in {S(VG), S("maximization")} /\ KW(r, "mutation_rate") = NONE
       \/ KW(r, "min_branch_length") # NONE /\ KW(r, "min_branch_length")[2] \in NonPositive
       \/ KW(r, "max_iterations") # NONE /\ KW(r, "max_iterations")[2] \in NonPositive
       \/ KW(r, "probability_space") \notin {NONE, S("linear"), S("logarithmic")}
Outcome(r) == IF r.kind # "call" THEN "error_no_output"
              ELSE IF ApiRejects(r) THEN "api_rejects_no_output" ELSE "as_api"

(* ---------------- the machine ------------------------------------------------------ *)
Init == pick = <<>> /\ ns = Ns0 /\ res = Usage /\ pc = "pick"

Pick == /\ pc = "pick" /\ Len(pick) < NOpts
        /\ \E a \in 0..Len(Opts[Len(pick) + 1].alts) :
              /\ (a # 0 /\ ~Opts[Len(pick) + 1].free) => GivenCount(pick) < MaxGiven
              /\ pick' = Append(pick, a)
        /\ UNCHANGED <<ns, res, pc>>
PickDone == pc = "pick" /\ Len(pick) = NOpts /\ pc' = "parse" /\ UNCHANGED <<pick, ns, res>>
Parse == pc = "parse" /\ ns' = Parsed(pick) /\ pc' = "dispatch" /\ UNCHANGED <<pick, res>>
Dispatch == pc = "dispatch" /\ res' = Dispatched(pick, ns) /\ pc' = "done" /\ UNCHANGED <<pick, ns>>
Next == Pick \/ PickDone \/ Parse \/ Dispatch
Spec == Init /\ [][Next]_vars

(* ================= the statements of C34 (declarative) ============================= *)
Done == pc = "done"
(* the API parameter an option feeds, per method; "" = does not reach the API          *)
ParamOf(o, method) ==
    CASE o = "epsilon" -> IF method = S(VG) THEN "" ELSE "eps"     \* ignored for variational_gamma (pinned by tests/test_cli.py::test_epsilon)
      [] o \in {"verbosity", "input", "order", "pos", "junk"} -> ""
      [] OTHER -> o
DiscreteOnly == {"population_size", "num_threads", "probability_space"}
VGOnly == {"rescaling_intervals", "max_iterations"}
Irrelevant(o, method) == IF method = S(VG) THEN o \in DiscreteOnly ELSE o \in VGOnly
ValueOpts == { Opts[i].o : i \in 1..NOpts } \ {"input", "order", "pos", "junk", "verbosity"}
BadSpelling(p) == \E i \in 1..NOpts : p[i] # 0 /\ Opts[i].alts[p[i]].val = BAD
MethodOf(p) == IF Sub = "date" THEN (IF Given(p, "method") THEN AltOf(p, "method").val ELSE S(VG)) ELSE S("")

(* 1. every spelling that is not a literal of its type, an unknown flag or an extra    *)
(*    positional is a usage error; nothing else is                                     *)
UsageExact == Done => ((res.kind = "usage_error") <=> BadSpelling(pick))
(* 2. every option given reaches the API with the value given (incl. booleans off)     *)
Faithful == (Done /\ res.kind = "call") =>
    \A o \in ValueOpts : Given(pick, o) =>
        LET prm == ParamOf(o, MethodOf(pick)) IN
        prm # "" => (prm \in DOMAIN res.kwargs /\ res.kwargs[prm] = AltOf(pick, o).val)
(* 3. nothing is invented: parameters of absent options carry the API default          *)
NoInvention == (Done /\ res.kind = "call") =>
    \A prm \in DOMAIN res.kwargs :
        (\A o \in ValueOpts : ParamOf(o, MethodOf(pick)) = prm => ~Given(pick, o)) =>
            res.kwargs[prm] \in {NONE, B(FALSE), S(VG)}
(* 4. routing: method-specific parameters only go to the methods that have them        *)
Routing == (Done /\ res.kind = "call" /\ Sub = "date") =>
    IF MethodOf(pick) = S(VG)
    THEN DOMAIN res.kwargs \cap (DiscreteOnly \cup {"eps"}) = {} /\ VGOnly \subseteq DOMAIN res.kwargs
    ELSE DOMAIN res.kwargs \cap VGOnly = {} /\ (DiscreteOnly \cup {"eps"}) \subseteq DOMAIN res.kwargs
(* 5. invalid combinations never reach the API                                          *)
RejectsIrrelevant == (Done /\ Sub = "date" /\ ~BadSpelling(pick)) =>
    ((\E o \in ValueOpts : Given(pick, o) /\ Irrelevant(o, MethodOf(pick))) \/ Given(pick, "pos")
        \/ InputState(pick) # "good") <=> (res.kind = "cli_error")
(* 6. verbosity only selects the log level                                              *)
CountOf(v) == CHOOSE c \in 0..9 : ToString(c) = v[2]
Verbosity == (Done /\ res.kind # "usage_error") =>
    res.loglevel = LogLevel(IF Given(pick, "verbosity") THEN CountOf(AltOf(pick, "verbosity").val) ELSE 0)
TypeOK == /\ pc \in {"pick", "parse", "dispatch", "done"}
          /\ res.kind \in {"usage_error", "cli_error", "call"}

(* ---------------- emission for replay ----------------------------------------------- *)
GivenNames(p) == { Opts[i].o : i \in { j \in 1..Len(p) : p[j] # 0 } }
EmitInv == (Done /\ EmitOn /\ GivenCount(pick) <= EmitUpTo) =>
    Emit("case", [sub |-> Sub, argv |-> Argv(pick), input |-> InputState(pick),
                  given |-> GivenNames(pick), pick |-> pick,
                  kind |-> res.kind, why |-> res.why, fn |-> res.fn, kwargs |-> res.kwargs,
                  loglevel |-> res.loglevel, outcome |-> Outcome(res), ns |-> ns,
                  may_reject |-> (\E o \in BoolOpts : Has(o) /\ Given(pick, o)),
                  method |-> (IF Len(MethodOf(pick)) > 1 THEN MethodOf(pick)[2] ELSE "?")])
=============================================================================
