------------------------------ MODULE ProbSpace ------------------------------
(* The primitive operations of tsdate/discrete.py in the two probability spaces:   *)
(* class Likelihoods (linear) and class LogLikelihoods (logarithmic), over value    *)
(* classes with IEEE-754 conventions for the special values.  C12 rests on the      *)
(* commuting diagram                                                                *)
(*              Exp( LogOp( Log(x) ) )  =  LinOp( x )                               *)
(* for every primitive and every combination of classes that can occur when the     *)
(* linear computation neither underflows nor overflows (zero, positive, NaN); the   *)
(* class Inf (overflow) is kept as a named deviation: TLC shows where the diagram   *)
(* breaks once +inf is admitted (ClassMode = "withinf").                            *)
(*                                                                                  *)
(* linear values :  <<"Z">> = 0     <<"P", n, d>> = n/d > 0   <<"I">> = +inf  <<"N">> = NaN *)
(* log values    :  <<"NI">> = -inf <<"F", n, d>> = ln(n/d)   <<"PI">> = +inf <<"N">> = NaN *)
(* Positive values are exact rationals, so sums and products are exact; the         *)
(* logarithm of a rational is kept symbolically.                                    *)
EXTENDS Naturals, Integers, Sequences, FiniteSets, SequencesExt, VT

CONSTANTS G,          \* grid size for the triangular row sums
          ClassMode,  \* "finite" | "withinf"
          Ops,        \* subset of the operation names below
          MaxLen,     \* longest vector given to marginalize / logsumexp
          EmitDone

Zero == <<"Z">>
Inf == <<"I">>
NaN == <<"N">>
NegInf == <<"NI">>
PosInf == <<"PI">>
RECURSIVE GCD(_, _)
GCD(a, b) == IF b = 0 THEN a ELSE GCD(b, a % b)
PosV(n, d) == LET g == GCD(n, d) IN <<"P", n \div g, d \div g>>
FinV(n, d) == LET g == GCD(n, d) IN <<"F", n \div g, d \div g>>
One == PosV(1, 1)

BaseClasses == { Zero, PosV(1, 2), PosV(1, 1), PosV(2, 1), NaN }
SquareClasses == { Zero, PosV(1, 4), PosV(1, 1), PosV(4, 1), NaN }
Classes == IF ClassMode = "withinf" THEN BaseClasses \cup {Inf} ELSE BaseClasses
SqClasses == IF ClassMode = "withinf" THEN SquareClasses \cup {Inf} ELSE SquareClasses

(* ---- float64 arithmetic on the classes ------------------------------------------- *)
IsN(a) == a[1] = "N"
LMul(a, b) == IF IsN(a) \/ IsN(b) THEN NaN
              ELSE IF (a = Zero /\ b = Inf) \/ (a = Inf /\ b = Zero) THEN NaN
              ELSE IF a = Zero \/ b = Zero THEN Zero
              ELSE IF a = Inf \/ b = Inf THEN Inf
              ELSE PosV(a[2] * b[2], a[3] * b[3])
LDiv(a, b) == IF IsN(a) \/ IsN(b) THEN NaN
              ELSE IF a = Zero THEN (IF b = Zero THEN NaN ELSE Zero)
              ELSE IF a = Inf THEN (IF b = Inf THEN NaN ELSE Inf)
              ELSE IF b = Zero THEN Inf
              ELSE IF b = Inf THEN Zero
              ELSE PosV(a[2] * b[3], a[3] * b[2])
LAdd(a, b) == IF IsN(a) \/ IsN(b) THEN NaN
              ELSE IF a = Inf \/ b = Inf THEN Inf
              ELSE IF a = Zero THEN b
              ELSE IF b = Zero THEN a
              ELSE PosV(a[2] * b[3] + b[2] * a[3], a[3] * b[3])
GAdd(a, b) == IF IsN(a) \/ IsN(b) THEN NaN
              ELSE IF (a = NegInf /\ b = PosInf) \/ (a = PosInf /\ b = NegInf) THEN NaN
              ELSE IF a = NegInf \/ b = NegInf THEN NegInf
              ELSE IF a = PosInf \/ b = PosInf THEN PosInf
              ELSE FinV(a[2] * b[2], a[3] * b[3])
GNeg(a) == IF IsN(a) THEN NaN ELSE IF a = NegInf THEN PosInf ELSE IF a = PosInf THEN NegInf
           ELSE FinV(a[3], a[2])
GSub(a, b) == GAdd(a, GNeg(b))
GLe(a, b) == IF IsN(a) \/ IsN(b) THEN FALSE           \* a <= b
             ELSE IF a = NegInf \/ b = PosInf THEN TRUE
             ELSE IF a = PosInf \/ b = NegInf THEN FALSE
             ELSE a[2] * b[3] <= b[2] * a[3]
ExpG(a) == IF IsN(a) THEN NaN ELSE IF a = NegInf THEN Zero ELSE IF a = PosInf THEN Inf
           ELSE <<"P", a[2], a[3]>>
LogL(a) == IF IsN(a) THEN NaN ELSE IF a = Zero THEN NegInf ELSE IF a = Inf THEN PosInf
           ELSE <<"F", a[2], a[3]>>
RECURSIVE ISqrt(_, _)
ISqrt(n, k) == IF k * k >= n THEN k ELSE ISqrt(n, k + 1)
Sqrt(n) == ISqrt(n, 0)                              \* used on perfect squares only
MapSeq(f(_), s) == [k \in 1..Len(s) |-> f(s[k])]

(* ---- index tables of Likelihoods.__init__ ------------------------------------------ *)
TriSize == (G * (G + 1)) \div 2
RowStarts == [k \in 1..G |-> ((k - 1) * k) \div 2]                  \* row_indices[0]
RECURSIVE ColLoop(_, _, _)
ColLoop(i, running, acc) == IF i = G THEN acc ELSE ColLoop(i + 1, running + (G - i), Append(acc, running))
ColIndices == ColLoop(0, 0, <<>>)

(* ---- class Likelihoods ------------------------------------------------------------- *)
RECURSIVE LSumRange(_, _, _)
LSumRange(a, lo, hi) == IF lo > hi THEN Zero ELSE LAdd(a[lo], LSumRange(a, lo + 1, hi))
LReduceAt(a, idx) == [k \in 1..Len(idx) |-> LSumRange(a, idx[k] + 1, IF k < Len(idx) THEN idx[k + 1] ELSE Len(a))]
LinCombine(a, b) == LMul(a, b)
LinRatio(a, b, null) == LET r == LDiv(a, b) IN IF null /\ IsN(r) THEN Zero ELSE r
LinRowsumLower(a) == LReduceAt(a, RowStarts)
LinRowsumUpper(a) == LReduceAt(a, ColIndices)
LinMarginalize(a) == LSumRange(a, 1, Len(a))
LinScale(half, v) == IF ~half \/ IsN(v) \/ v = Zero \/ v = Inf THEN v ELSE <<"P", Sqrt(v[2]), Sqrt(v[3])>>   \* value ** fraction

(* ---- class LogLikelihoods ------------------------------------------------------------ *)
(* logsumexp, the streaming loop, literally *)
RECURSIVE LseLoop(_, _, _, _)
LseLoop(X, k, alpha, r) ==
    IF k > Len(X) THEN (IF r = Zero THEN NegInf ELSE GAdd(LogL(r), alpha))
    ELSE LET x == X[k] IN
         IF x = NegInf THEN LseLoop(X, k + 1, alpha, r)                       \* if x != -inf
         ELSE IF GLe(x, alpha)
              THEN LseLoop(X, k + 1, alpha, LAdd(r, ExpG(GSub(x, alpha))))
              ELSE LseLoop(X, k + 1, x, LAdd(LMul(r, ExpG(GSub(alpha, x))), One))
LogSumExp(X) == LseLoop(X, 1, NegInf, Zero)
Slice(a, lo, hi) == [k \in 1..(hi - lo + 1) |-> a[lo + k - 1]]
(* rowsum_*_tri: for i in idx[1:]: logsumexp(a[i_start:i]); finally logsumexp(a[i:]) *)
LseReduce(a, idx) == [k \in 1..Len(idx) |->
                        LogSumExp(Slice(a, idx[k] + 1, IF k < Len(idx) THEN idx[k + 1] ELSE Len(a)))]
LogCombine(a, b) == GAdd(a, b)
LogRatio(a, b, null) == LET r == GSub(a, b) IN IF null /\ IsN(r) THEN NegInf ELSE r
LogRowsumLower(a) == LseReduce(a, RowStarts)
LogRowsumUpper(a) == LseReduce(a, ColIndices)
LogMarginalize(a) == LogSumExp(a)
LogScale(half, v) == IF ~half \/ IsN(v) \/ v = NegInf \/ v = PosInf THEN v ELSE <<"F", Sqrt(v[2]), Sqrt(v[3])>>   \* fraction * value

(* ---- cases ---------------------------------------------------------------------------- *)
VARIABLES case, pc
vars == <<case, pc>>
Init == case = [op |-> "", args |-> <<>>, flag |-> FALSE] /\ pc = "op"

PickOp == /\ pc = "op" /\ \E o \in Ops : case' = [case EXCEPT !.op = o]
          /\ pc' = "args"
Vectors(S, n) == [1..n -> S]
PickArgs ==
    /\ pc = "args" /\ pc' = "done"
    /\ CASE case.op = "combine" -> \E v \in Vectors(Classes, 2) : case' = [case EXCEPT !.args = v]
         [] case.op = "ratio" -> \E v \in Vectors(Classes, 2), f \in BOOLEAN : case' = [case EXCEPT !.args = v, !.flag = f]
         [] case.op = "rowsum_lower_tri" -> \E v \in Vectors(Classes, TriSize) : case' = [case EXCEPT !.args = v]
         [] case.op = "rowsum_upper_tri" -> \E v \in Vectors(Classes, TriSize) : case' = [case EXCEPT !.args = v]
         [] case.op = "marginalize" -> \E n \in 0..MaxLen : \E v \in Vectors(Classes, n) : case' = [case EXCEPT !.args = v]
         [] case.op = "scale_geometric" -> \E v \in Vectors(SqClasses, 1), f \in BOOLEAN : case' = [case EXCEPT !.args = v, !.flag = f]
         [] case.op = "force_space" -> \E v \in Vectors(Classes, 1) : case' = [case EXCEPT !.args = v]

Next == PickOp \/ PickArgs
Spec == Init /\ [][Next]_vars

X == case.args
LX == MapSeq(LogL, X)
(* results as sequences of values, linear class then logarithmic class *)
LinRes == CASE case.op = "combine" -> <<LinCombine(X[1], X[2])>>
            [] case.op = "ratio" -> <<LinRatio(X[1], X[2], case.flag)>>
            [] case.op = "rowsum_lower_tri" -> LinRowsumLower(X)
            [] case.op = "rowsum_upper_tri" -> LinRowsumUpper(X)
            [] case.op = "marginalize" -> <<LinMarginalize(X)>>
            [] case.op = "scale_geometric" -> <<LinScale(case.flag, X[1])>>
            [] case.op = "force_space" -> X                      \* log then exp of the grid data
LogRes == CASE case.op = "combine" -> <<LogCombine(LX[1], LX[2])>>
            [] case.op = "ratio" -> <<LogRatio(LX[1], LX[2], case.flag)>>
            [] case.op = "rowsum_lower_tri" -> LogRowsumLower(LX)
            [] case.op = "rowsum_upper_tri" -> LogRowsumUpper(LX)
            [] case.op = "marginalize" -> <<LogMarginalize(LX)>>
            [] case.op = "scale_geometric" -> <<LogScale(case.flag, LX[1])>>
            [] case.op = "force_space" -> LX

Done == pc = "done"
Commutes == Done => MapSeq(ExpG, LogRes) = LinRes
ASSUME ExpLogInverse == \A v \in Classes \cup SqClasses : ExpG(LogL(v)) = v
ASSUME ConstantsAgree ==        \* identity_constant and null_constant of the two classes correspond
    /\ ExpG(FinV(1, 1)) = One /\ ExpG(NegInf) = Zero

EmitInv ==
    (EmitDone /\ Done) =>
      Emit("case", [op |-> case.op, G |-> G, flag |-> case.flag, args |-> X, largs |-> LX,
                    lin |-> LinRes, log |-> LogRes, commutes |-> (MapSeq(ExpG, LogRes) = LinRes)])
=============================================================================
