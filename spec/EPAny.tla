------------------------------- MODULE EPAny -------------------------------
(* The message bookkeeping of ExpectationPropagation.iterate for *any* outcome *)
(* of the moment-matching projections (C21, C05).  The projection is a         *)
(* nondeterministic choice: either "skip" (the code's wrappers return the      *)
(* cavity unchanged and a NaN normaliser when moments are invalid) or the      *)
(* cavity plus any increment from a small set that leaves a proper gamma.      *)
(* Everything else is transcribed exactly in rationals: the five branches of   *)
(* propagate_likelihood (both fixed / fixed parent / fixed child / free-free / *)
(* twin block), _damp, _rescale (max_shape), propagate_prior's factor update,  *)
(* and _rescale_factors, which may fire at any time (the code calls it when a  *)
(* scale underflows, and at the end of every iteration).                       *)
EXTENDS QQ, Sequences, FiniteSets, VT

CONSTANTS Graphs,      \* set of graph ids (see Graph below)
          IncrIds,     \* which increments (see IncrOf) a projection may apply
          Caps,        \* integer max_shape values
          MaxVisits    \* bound on the number of updates explored

(* node kinds: "F" free, "X" fixed.  Graph g = [kind |-> seq, edges |-> seq of <<p, c>>, *)
(* blocks |-> seq of <<j, k>> (singleton blocks between two parents; j = k is a twin)]  *)
Graph(g) ==
    CASE g = 1 -> [kind |-> <<"X", "X", "F">>, edges |-> << <<3, 1>>, <<3, 2>> >>, blocks |-> <<>>]
      [] g = 2 -> [kind |-> <<"X", "X", "F", "F">>, edges |-> << <<3, 1>>, <<3, 2>>, <<4, 3>> >>, blocks |-> <<>>]
      [] g = 3 -> [kind |-> <<"X", "F", "X">>, edges |-> << <<2, 1>>, <<3, 2>> >>, blocks |-> <<>>]
      [] g = 4 -> [kind |-> <<"X", "X", "F", "F">>, edges |-> << <<3, 1>>, <<4, 2>>, <<4, 3>> >>,
                   blocks |-> << <<3, 4>>, <<4, 4>> >>]
      [] g = 5 -> [kind |-> <<"X", "X", "X">>, edges |-> << <<3, 1>>, <<3, 2>> >>, blocks |-> <<>>]

VARIABLES G, cap, post, fe, fb, fprior, scale, visits, touched
vars == <<G, cap, post, fe, fb, fprior, scale, visits, touched>>
(* fe[e] = <<rootward, leafward>>, fb[b] likewise, fprior[n] = MIXPRIOR factor *)

NN == Len(G.kind)
Free(n) == G.kind[n] = "F"
MinStep == <<1, 10>>
Half(i) == QNorm(i, 2)

Init == /\ G = [kind |-> <<>>, edges |-> <<>>, blocks |-> <<>>] /\ cap = QOne
        /\ post = <<>> /\ fe = <<>> /\ fb = <<>> /\ fprior = <<>> /\ scale = <<>>
        /\ visits = 0 /\ touched = {}

Choose == /\ G.kind = <<>>
          /\ \E g \in Graphs, c \in Caps :
               LET gr == Graph(g) IN
               /\ G' = gr /\ cap' = Q(c)
               /\ post' = [n \in 1..Len(gr.kind) |-> PZero]
               /\ fe' = [e \in 1..Len(gr.edges) |-> <<PZero, PZero>>]
               /\ fb' = [b \in 1..Len(gr.blocks) |-> <<PZero, PZero>>]
               /\ fprior' = [n \in 1..Len(gr.kind) |-> PZero]
               /\ scale' = [n \in 1..Len(gr.kind) |-> QOne]
          /\ visits' = 0 /\ touched' = {}

Damp(x, y) ==
    IF y = PZero /\ x = PZero THEN QOne
    ELSE LET s == MinStep
             a == IF QLt(QMul(QAdd(QOne, x[1]), s), QSub(QAdd(QOne, x[1]), y[1])) THEN QOne
                  ELSE QDiv(QMul(QSub(QOne, s), QAdd(QOne, x[1])), y[1])
             b == IF QLt(QMul(x[2], s), QSub(x[2], y[2])) THEN QOne
                  ELSE QDiv(QMul(QSub(QOne, s), x[2]), y[2])
         IN  QMin(a, b)
Rescale(x) ==
    IF x = PZero THEN QOne
    ELSE IF QLt(cap, QAdd(QOne, x[1])) THEN QDiv(QSub(cap, QOne), x[1])
    ELSE IF QLt(QAdd(QOne, x[1]), QDiv(QOne, cap)) THEN QDiv(QSub(QDiv(QOne, cap), QOne), x[1])
    ELSE QOne
IncrOf(i) == CASE i = 1 -> <<2, 2>> [] i = 2 -> <<1, 4>> [] i = 3 -> <<-1, 1>> [] i = 4 -> <<4, -1>>
Incr == { IncrOf(i) : i \in IncrIds }       \* <<da, db>> in integer halves
Proper(x) == QLt(QZero, QAdd(QOne, x[1])) /\ QLt(QZero, x[2])

(* outcomes of a projection applied to cavity cav: skip, or a proper gamma cav + d *)
Outcomes(cav) == {cav} \cup { y \in { PAdd(cav, <<Half(d[1]), Half(d[2])>>) : d \in Incr } : Proper(y) }

(* one-sided update of node n through factor slot f (current value), shared by the      *)
(* fixed-parent, fixed-child and twin branches; returns <<new factor, new post, new scale>> *)
OneSided(n, f, new, delta, cav) ==
    LET f1 == PAdd(PScale(QSub(QOne, delta), f), PScale(QDiv(QOne, scale[n]), PSub(new, cav)))
        eta == Rescale(new)
    IN  <<f1, PScale(eta, new), QMul(scale[n], eta)>>

EdgeUpdate(e) ==
    LET p == G.edges[e][1]  c == G.edges[e][2] IN
    /\ visits < MaxVisits
    /\ IF ~Free(p) /\ ~Free(c) THEN UNCHANGED <<post, fe, scale, touched>>
       ELSE IF ~Free(p) /\ Free(c) THEN
            LET msg == PScale(scale[c], fe[e][2])
                delta == Damp(post[c], msg)
                cav == PSub(post[c], PScale(delta, msg))
            IN  \E new \in Outcomes(cav) :
                  LET r == OneSided(c, fe[e][2], new, delta, cav) IN
                  /\ fe' = [fe EXCEPT ![e][2] = r[1]]
                  /\ post' = [post EXCEPT ![c] = r[2]]
                  /\ scale' = [scale EXCEPT ![c] = r[3]]
                  /\ touched' = touched \cup (IF new = cav THEN {} ELSE {c})
       ELSE IF Free(p) /\ ~Free(c) THEN
            LET msg == PScale(scale[p], fe[e][1])
                delta == Damp(post[p], msg)
                cav == PSub(post[p], PScale(delta, msg))
            IN  \E new \in Outcomes(cav) :
                  LET r == OneSided(p, fe[e][1], new, delta, cav) IN
                  /\ fe' = [fe EXCEPT ![e][1] = r[1]]
                  /\ post' = [post EXCEPT ![p] = r[2]]
                  /\ scale' = [scale EXCEPT ![p] = r[3]]
                  /\ touched' = touched \cup (IF new = cav THEN {} ELSE {p})
       ELSE LET pm == PScale(scale[p], fe[e][1])   cm == PScale(scale[c], fe[e][2])
                delta == QMin(Damp(post[p], pm), Damp(post[c], cm))
                pcav == PSub(post[p], PScale(delta, pm))
                ccav == PSub(post[c], PScale(delta, cm))
            IN  \E np \in Outcomes(pcav), nc \in Outcomes(ccav) :
                  /\ ((np = pcav) <=> (nc = ccav))            \* a skipped update skips both ends
                  /\ LET rp == OneSided(p, fe[e][1], np, delta, pcav)
                         rc == OneSided(c, fe[e][2], nc, delta, ccav) IN
                     /\ fe' = [fe EXCEPT ![e] = <<rp[1], rc[1]>>]
                     /\ post' = [post EXCEPT ![p] = rp[2], ![c] = rc[2]]
                     /\ scale' = [scale EXCEPT ![p] = rp[3], ![c] = rc[3]]
                     /\ touched' = touched \cup (IF np = pcav THEN {} ELSE {p, c})
    /\ visits' = visits + 1
    /\ UNCHANGED <<G, cap, fb, fprior>>

BlockUpdate(b) ==
    LET j == G.blocks[b][1]  kk == G.blocks[b][2] IN
    /\ visits < MaxVisits /\ Free(j) /\ Free(kk)
    /\ IF j = kk THEN                                        \* twin: single parent
            LET msg == PScale(scale[j], fb[b][1])
                delta == Damp(post[j], msg)
                cav == PSub(post[j], PScale(delta, msg))
            IN  \E new \in Outcomes(cav) :
                  LET r == OneSided(j, fb[b][1], new, delta, cav) IN
                  /\ fb' = [fb EXCEPT ![b][1] = r[1]]
                  /\ post' = [post EXCEPT ![j] = r[2]]
                  /\ scale' = [scale EXCEPT ![j] = r[3]]
                  /\ touched' = touched \cup (IF new = cav THEN {} ELSE {j})
       ELSE LET pm == PScale(scale[j], fb[b][1])   cm == PScale(scale[kk], fb[b][2])
                delta == QMin(Damp(post[j], pm), Damp(post[kk], cm))
                pcav == PSub(post[j], PScale(delta, pm))
                ccav == PSub(post[kk], PScale(delta, cm))
            IN  \E np \in Outcomes(pcav), nc \in Outcomes(ccav) :
                  /\ ((np = pcav) <=> (nc = ccav))
                  /\ LET rp == OneSided(j, fb[b][1], np, delta, pcav)
                         rc == OneSided(kk, fb[b][2], nc, delta, ccav) IN
                     /\ fb' = [fb EXCEPT ![b] = <<rp[1], rc[1]>>]
                     /\ post' = [post EXCEPT ![j] = rp[2], ![kk] = rc[2]]
                     /\ scale' = [scale EXCEPT ![j] = rp[3], ![kk] = rc[3]]
                     /\ touched' = touched \cup (IF np = pcav THEN {} ELSE {j, kk})
    /\ visits' = visits + 1
    /\ UNCHANGED <<G, cap, fe, fprior>>

(* propagate_prior on node n with an arbitrary positive penalty (in halves) *)
PriorUpdate(n) ==
    /\ visits < MaxVisits /\ Free(n) /\ n \in touched
    /\ \E pen \in {1, 2, 3} :
         LET cav == PSub(post[n], PScale(scale[n], fprior[n]))
             new == <<post[n][1], QAdd(cav[2], Half(pen))>>
             f1 == PScale(QDiv(QOne, scale[n]), PSub(new, cav))
             eta == Rescale(new)
         IN  /\ Proper(new)
             /\ fprior' = [fprior EXCEPT ![n] = f1]
             /\ post' = [post EXCEPT ![n] = PScale(eta, new)]
             /\ scale' = [scale EXCEPT ![n] = QMul(scale[n], eta)]
    /\ visits' = visits + 1
    /\ UNCHANGED <<G, cap, fe, fb, touched>>

(* _rescale_factors *)
AbsorbScale ==
    /\ G.kind # <<>> /\ \E n \in 1..NN : scale[n] # QOne
    /\ fe' = [e \in 1..Len(G.edges) |-> <<PScale(scale[G.edges[e][1]], fe[e][1]), PScale(scale[G.edges[e][2]], fe[e][2])>>]
    /\ fb' = [b \in 1..Len(G.blocks) |-> <<PScale(scale[G.blocks[b][1]], fb[b][1]), PScale(scale[G.blocks[b][2]], fb[b][2])>>]
    /\ fprior' = [n \in 1..NN |-> PScale(scale[n], fprior[n])]
    /\ scale' = [n \in 1..NN |-> QOne]
    /\ UNCHANGED <<G, cap, post, visits, touched>>

Next == Choose \/ (G.kind # <<>> /\ ((\E e \in 1..Len(G.edges) : EdgeUpdate(e))
                                     \/ (\E b \in 1..Len(G.blocks) : BlockUpdate(b))
                                     \/ (\E n \in 1..NN : PriorUpdate(n)) \/ AbsorbScale))
Spec == Init /\ [][Next]_vars

(* ================= C21 / C05 ===================================================== *)
Messages(n) ==
    PAdd(PAdd(FoldSet(LAMBDA e, acc : PAdd(acc, PAdd(IF G.edges[e][1] = n THEN fe[e][1] ELSE PZero,
                                                      IF G.edges[e][2] = n THEN fe[e][2] ELSE PZero)),
                      PZero, 1..Len(G.edges)),
              FoldSet(LAMBDA b, acc : PAdd(acc, PAdd(IF G.blocks[b][1] = n THEN fb[b][1] ELSE PZero,
                                                      IF G.blocks[b][2] = n THEN fb[b][2] ELSE PZero)),
                      PZero, 1..Len(G.blocks))),
         fprior[n])
Book == G.kind # <<>> => \A n \in 1..NN : post[n] = PScale(scale[n], Messages(n))
FixedUntouched == G.kind # <<>> => \A n \in 1..NN : ~Free(n) => post[n] = PZero /\ scale[n] = QOne
ProperOrNeverUpdated == G.kind # <<>> => \A n \in 1..NN : Free(n) => (n \notin touched /\ post[n] = PZero) \/ Proper(post[n])
ShapeCapped == G.kind # <<>> => \A n \in 1..NN : QLe(QAdd(QOne, post[n][1]), cap)
AbsorbKeepsPosterior == [][AbsorbScale => post' = post]_vars
NoOverflow == G.kind # <<>> => (\A n \in 1..NN : POk(post[n]) /\ QOk(scale[n]))
Bounded == G.kind # <<>> => (\A n \in 1..NN : POk(post[n]) /\ QOk(scale[n]) /\ POk(fprior[n]))
                            /\ (\A e \in 1..Len(G.edges) : POk(fe[e][1]) /\ POk(fe[e][2]))
=============================================================================
