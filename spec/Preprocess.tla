----------------------------- MODULE Preprocess -----------------------------
(* C28.  util.preprocess_ts.                                                           *)
(*  (1) The interval logic as the code computes it (flanks from sites[0]-1 and          *)
(*      sites[-1]+1, gaps [site+1, next-1] when next-site >= minimum_gap and             *)
(*      gap_end > gap_start, sorted by left): actions Flanks, Gap (one per pair of       *)
(*      consecutive sites), Sort.  Checked against the property-level statement          *)
(*      Admissible: sorted, disjoint, site-free intervals lying only in the flanks        *)
(*      (if erase_flanks) or strictly inside gaps of at least minimum_gap between         *)
(*      consecutive sites.  The statement says where topology may go, not how much.       *)
(*  (2) The consequences for the returned tree sequence, as declarative operators over    *)
(*      unit cells [x, x+1): kept sites, the simplified local tree of every cell that is  *)
(*      not deleted (no edge in deleted cells), retained nodes, number of pieces of each  *)
(*      node when split_disjoint is on, carriers of the derived allele at every site.     *)
(*  (3) Trace mode (TraceInit/Next): delete_intervals recorded in the provenance of real       *)
(*      calls are validated against Admissible / "exactly the user's intervals".          *)
EXTENDS TSGen, IOUtils

CONSTANTS MinGaps,     \* naturals >= 1
          Flanks,      \* subset of BOOLEAN
          UserMax,     \* 0: no user intervals explored; 1 or 2: lists of up to that many
          Splits,      \* subset of BOOLEAN (split_disjoint)
          FreeSites,   \* TRUE: the site set is any subset of the positions
          MaxExtra,    \* otherwise: mutated positions plus at most this many (0/1) extra sites
          EmitDone

VARIABLES inst, D, k, err, pc,
          tl, nacc            \* trace mode only
vars == <<g, inst, D, k, err, pc>>
tvars == <<tl, nacc>>

Init == /\ GenInit
        /\ inst = [trees |-> <<>>, muts |-> {}, sites |-> <<>>, mode |-> "auto", mg |-> 1, ef |-> TRUE,
                   user |-> <<>>, sd |-> FALSE]
        /\ D = <<>> /\ k = 1 /\ err = FALSE /\ pc = "choose"

Gen == /\ pc = "choose" /\ (GenTree \/ GenTreesDone \/ GenMut)
       /\ UNCHANGED <<inst, D, k, err, pc, tl, nacc>>

NatLess(x, y) == x < y
Ivals == { <<l, r>> \in (0..SeqLen) \X (0..SeqLen) : l < r }
UserLists == {<<>>} \cup (IF UserMax >= 1 THEN { <<i>> : i \in Ivals } ELSE {})
                    \cup (IF UserMax >= 2 THEN { <<i, j>> : <<i, j>> \in { p \in Ivals \X Ivals : p[1][2] <= p[2][1] } }
                          ELSE {})

PickSites ==
    /\ pc = "choose" /\ GenReady
    /\ \E S \in (IF FreeSites THEN SUBSET Positions
                 ELSE { { m[1] : m \in g.muts } \cup X :
                        X \in {{}} \cup (IF MaxExtra > 0 THEN { {x} : x \in Positions } ELSE {}) }) :
          inst' = [inst EXCEPT !.trees = g.trees, !.muts = g.muts, !.sites = SetToSortSeq(S, NatLess)]
    /\ pc' = "opts"
    /\ UNCHANGED <<g, D, k, err, tl, nacc>>

PickOpts ==
    /\ pc = "opts"
    /\ \/ \E mg \in MinGaps, ef \in Flanks, sd \in Splits :
             inst' = [inst EXCEPT !.mode = "auto", !.mg = mg, !.ef = ef, !.sd = sd]
       \/ /\ UserMax > 0
          /\ \E u \in UserLists, sd \in Splits, both \in BOOLEAN :
             inst' = [inst EXCEPT !.mode = IF both THEN "both" ELSE "user", !.user = u, !.sd = sd]
    /\ pc' = "start"
    /\ UNCHANGED <<g, D, k, err, tl, nacc>>

NSites == Len(inst.sites)

(* ---- the code's interval computation ------------------------------------------------- *)
Start ==
    /\ pc = "start"
    /\ CASE inst.mode = "both" -> /\ err' = TRUE /\ D' = <<>> /\ pc' = "done"      \* ValueError
         [] inst.mode = "user" -> /\ err' = FALSE /\ D' = inst.user /\ pc' = "done"
         [] inst.mode = "auto" ->
              IF NSites < 1 THEN /\ err' = TRUE /\ D' = <<>> /\ pc' = "done"      \* "no sites present"
              ELSE /\ err' = FALSE /\ D' = <<>> /\ pc' = "flanks"
    /\ k' = 1 /\ UNCHANGED <<g, inst, tl, nacc>>

FlanksStep ==
    /\ pc = "flanks"
    /\ LET first == inst.sites[1] - 1
           last == inst.sites[NSites] + 1
           d1 == IF inst.ef /\ first > 0 THEN << <<0, first>> >> ELSE <<>>
           d2 == IF inst.ef /\ last < SeqLen THEN << <<last, SeqLen>> >> ELSE <<>>
       IN  D' = d1 \o d2
    /\ pc' = "gaps" /\ k' = 1 /\ UNCHANGED <<g, inst, err, tl, nacc>>

Gap ==
    /\ pc = "gaps" /\ k < NSites
    /\ LET gs == inst.sites[k] + 1
           ge == inst.sites[k + 1] - 1
       IN  D' = IF inst.sites[k + 1] - inst.sites[k] >= inst.mg /\ ge > gs THEN Append(D, <<gs, ge>>) ELSE D
    /\ k' = k + 1 /\ UNCHANGED <<g, inst, err, pc, tl, nacc>>

Sort ==
    /\ pc = "gaps" /\ k >= NSites
    /\ D' = SetToSortSeq({ D[i] : i \in 1..Len(D) }, LAMBDA x, y : x[1] < y[1])
    /\ pc' = "done" /\ UNCHANGED <<g, inst, k, err, tl, nacc>>

Next == Gen \/ PickSites \/ PickOpts \/ Start \/ FlanksStep \/ Gap \/ Sort

(* ================= property-level statement about the intervals ========================== *)
SiteSet(sites) == { sites[i] : i \in 1..Len(sites) }
WellFormed(d, seqlen) ==
    /\ \A i \in 1..Len(d) : 0 <= d[i][1] /\ d[i][1] < d[i][2] /\ d[i][2] <= seqlen
    /\ \A i \in 1..(Len(d) - 1) : d[i][2] <= d[i + 1][1]
SiteFree(d, S) == \A i \in 1..Len(d), s \in S : ~(d[i][1] <= s /\ s < d[i][2])
Consecutive(S, s, t) == s \in S /\ t \in S /\ s < t /\ ~\E z \in S : s < z /\ z < t
OnlyAllowed(d, S, mg, ef) ==
    \A i \in 1..Len(d) :
        \/ ef /\ \A s \in S : d[i][2] <= s                        \* before the first site
        \/ ef /\ \A s \in S : s < d[i][1]                         \* after the last site
        \/ \E s, t \in S : /\ Consecutive(S, s, t) /\ t - s >= mg    \* inside a gap of at least minimum_gap
                           /\ s < d[i][1] /\ d[i][2] <= t
Admissible(d, sites, mg, ef, seqlen) ==
    LET S == SiteSet(sites) IN WellFormed(d, seqlen) /\ SiteFree(d, S) /\ OnlyAllowed(d, S, mg, ef)

Done == pc = "done"
IntervalsAdmissible == (Done /\ inst.mode = "auto" /\ ~err) => Admissible(D, inst.sites, inst.mg, inst.ef, SeqLen)
(* design reading, beyond the statement: every cell further than one unit from a site is   *)
(* removed in the flanks and in qualifying gaps                                            *)
Deleted(x) == \E i \in 1..Len(D) : D[i][1] <= x /\ x < D[i][2]
DesignCoverage == (Done /\ inst.mode = "auto" /\ ~err) =>
    LET S == SiteSet(inst.sites) IN
    \A x \in Positions :
        Deleted(x) <=> \/ inst.ef /\ \A s \in S : x + 1 < s
                       \/ inst.ef /\ \A s \in S : s + 1 <= x /\ s + 1 < SeqLen
                       \/ \E s, t \in S : Consecutive(S, s, t) /\ t - s >= inst.mg /\ s < x /\ x + 1 < t

(* ================= consequences for the returned tree sequence =========================== *)
SB(f, u) == NodesBelow(f, Nodes, u) \cap Samples
Lineages(f, u) == { c \in ChildrenIn(f, Nodes, u) : SB(f, c) # {} }
Keep(f, u) == u \in Samples \/ Cardinality(Lineages(f, u)) >= 2
RECURSIVE KeptAbove(_, _)
KeptAbove(f, u) == IF f[u] = NULL THEN NULL ELSE IF Keep(f, f[u]) THEN f[u] ELSE KeptAbove(f, f[u])
SimplifyTree(f) == [u \in Nodes |-> IF Keep(f, u) /\ SB(f, u) # {} THEN KeptAbove(f, u) ELSE NULL]
Empty == [u \in Nodes |-> NULL]
OutTree(x) == IF Deleted(x) THEN Empty ELSE SimplifyTree(TreeAt(inst.trees, x))
InTreeOut(x, u) == OutTree(x)[u] # NULL \/ \E c \in Nodes : OutTree(x)[c] = u
Where(u) == { x \in Positions : InTreeOut(x, u) }
Pieces(u) == Cardinality({ x \in Where(u) : (x - 1) \notin Where(u) })
Retained == { u \in Nodes : u \in Samples \/ Where(u) # {} }
KeptSites == SelectSeq(inst.sites, LAMBDA s : ~Deleted(s))

RECURSIVE AncSelf(_, _)
AncSelf(f, u) == {u} \cup (IF f[u] = NULL THEN {} ELSE AncSelf(f, f[u]))
Carriers(x) == { s \in Samples : \E m \in inst.muts : m[1] = x /\ m[2] \in AncSelf(TreeAt(inst.trees, x), s) }

(* sanity of the declarative side itself: simplification keeps the samples' relationships *)
RECURSIVE AncSelfOut(_, _)
AncSelfOut(f, u) == {u} \cup (IF f[u] = NULL THEN {} ELSE AncSelfOut(f, f[u]))
SimplifyKeepsClades == Done =>
    \A i \in 1..L : LET f == inst.trees[i]  h == SimplifyTree(f) IN
        /\ \A u \in Nodes : h[u] # NULL => (h[u] \in AncSelf(f, u) /\ Keep(f, h[u]) /\ Keep(f, u))
        /\ \A s1, s2 \in Samples :
              (\E a \in Nodes : s1 \in SB(f, a) /\ s2 \in SB(f, a)) <=> (AncSelfOut(h, s1) \cap AncSelfOut(h, s2) # {})
        /\ \A u \in Nodes : Cardinality({ c \in Nodes : h[c] = u }) # 1 \/ u \in Samples

EmitInv == (Done /\ EmitDone) =>
    Emit("inst", [N |-> N, NS |-> NS, L |-> L, time |-> [u \in 1..N |-> Time[u - 1]],
                  trees |-> TreesJson(inst.trees), muts |-> MutSeq(inst.muts), sites |-> inst.sites,
                  mode |-> inst.mode, mg |-> inst.mg, ef |-> inst.ef, user |-> inst.user, sd |-> inst.sd,
                  err |-> err, D |-> D,
                  kept |-> IF err THEN <<>> ELSE KeptSites,
                  strees |-> IF err THEN <<>> ELSE [x \in 1..SeqLen |-> [u \in 1..N |-> OutTree(x - 1)[u - 1]]],
                  pieces |-> IF err THEN <<>> ELSE [u \in 1..N |-> Pieces(u - 1)],
                  retained |-> IF err THEN {} ELSE Retained,
                  geno |-> [i \in 1..NSites |-> Carriers(inst.sites[i])]])

(* ================= trace mode: intervals recorded by real calls ========================== *)
Trace == ndJsonDeserialize(IOEnv.TRACE_FILE)
Ev == Trace[tl]
TraceInit == tl = 1 /\ nacc = 0 /\ Init
Check ==
    /\ tl <= Len(Trace)
    /\ LET ok == IF Ev.mode = "auto"
                 THEN /\ Must(Ev.tid, tl, "WellFormed", WellFormed(Ev.d, Ev.seqlen))
                      /\ Must(Ev.tid, tl, "SiteFree", SiteFree(Ev.d, SiteSet(Ev.sites)))
                      /\ Must(Ev.tid, tl, "OnlyFlanksAndBigGaps", OnlyAllowed(Ev.d, SiteSet(Ev.sites), Ev.mg, Ev.ef))
                 ELSE Must(Ev.tid, tl, "ExactlyUserIntervals", Ev.d = Ev.user)
       IN  nacc' = nacc + (IF ok THEN 1 ELSE 0)
    /\ tl' = tl + 1 /\ UNCHANGED vars
TraceFinish == /\ tl = Len(Trace) + 1
               /\ Emit("accepted", [accepted |-> nacc, lines |-> Len(Trace)])
               /\ tl' = tl + 1 /\ UNCHANGED nacc /\ UNCHANGED vars
TraceNext == Check \/ TraceFinish
FullInit == Init /\ tl = 0 /\ nacc = 0
FullNext == Next
=============================================================================
