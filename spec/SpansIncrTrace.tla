--------------------------- MODULE SpansIncrTrace ---------------------------
(* Step-by-step trace validation of SpansBySamples.first_pass (C15's anchor).       *)
(* vt/spansincr_common.py records, at the end of every iteration of the tree loop of *)
(* the real first_pass (sys.settrace keyed on the source text of the last statement   *)
(* of the loop body), the locals stored_pos / num_children /                          *)
(* num_fixed_at_0_treenodes / node_spans and the table self._spans, and once more      *)
(* when the loop is over.  TLC steps SpansIncr's machine alongside:                    *)
(*     begin   instance (parent functions per unit interval) -> StartOn                *)
(*     state   one breakpoint of the tree sequence -> StepOn (breakpoints between two   *)
(*             equal forests are silent steps, bounded by L)                             *)
(*     end     last tree -> LastOn                                                       *)
(* Internal state is conformance only (`Drift`): a rewrite of first_pass that keeps the   *)
(* tables right raises no alarm.  The statement of C15 is judged on what the code logged   *)
(* at the end (`Must`): the tables equal the per-tree count, sum to the node span, keys in  *)
(* range, no exception.                                                                     *)
EXTENDS SpansIncr, IOUtils

Trace == ndJsonDeserialize(IOEnv.TRACE_FILE)
VARIABLES l, nacc
tvars == <<vars, l, nacc>>
Ev == Trace[l]
M(name, cond) == Must(Ev.tid, l, name, cond)
D(name, cond) == Drift(Ev.tid, l, name, cond)

TInit == Init /\ l = 1 /\ nacc = 0

TreesOf(ev) == [j \in 1..Len(ev.trees) |-> [u \in Nodes |-> ev.trees[j][u + 1]]]
KeysOK(ev) == \A q \in 1..Len(ev.acc) : <<ev.acc[q][1], ev.acc[q][2], ev.acc[q][3]>> \in Keys3
AccOf(ev) == [x \in Keys3 |->
    LET hits == { q \in 1..Len(ev.acc) : <<ev.acc[q][1], ev.acc[q][2], ev.acc[q][3]>> = x }
    IN  IF hits = {} THEN 0 ELSE ev.acc[CHOOSE q \in hits : TRUE][4]]

Begin ==
    /\ l <= Len(Trace) /\ Ev.kind = "begin" /\ pc \in {"choose", "done", "run", "dangling", "unary"}
    /\ Len(Ev.trees) = L
    /\ inst' = TreesOf(Ev) /\ StartOn(TreesOf(Ev)) /\ pc' = "run"
    /\ l' = l + 1 /\ UNCHANGED <<g, nacc>>

CanSkip == pc = "run" /\ i < L /\ inst[i] = inst[i + 1]
Skip == /\ l <= Len(Trace) /\ Ev.kind \in {"state", "end"} /\ CanSkip
        /\ StepOn(inst) /\ UNCHANGED <<g, inst, l, nacc>>

StateLine ==
    /\ l <= Len(Trace) /\ Ev.kind = "state" /\ ~CanSkip
    /\ IF pc = "run" /\ i < L
       THEN /\ StepOn(inst)
            /\ D("stored_pos", \A u \in Nodes : spos'[u] = Ev.spos[u + 1])
            /\ D("num_children", \A u \in Nodes : nch'[u] = Ev.nch[u + 1])
            /\ D("num_fixed_at_0_treenodes", T' = Ev.T)
            /\ D("node_spans", \A u \in Internal : nspan'[u] = Ev.nspan[u + 1])
            /\ D("_spans", KeysOK(Ev) /\ acc' = AccOf(Ev))
       ELSE D("the code takes more loop iterations than the instance has breakpoints", FALSE)
            /\ UNCHANGED <<pc, mvars>>
    /\ l' = l + 1 /\ UNCHANGED <<g, inst, nacc>>

(* judged on the logged tables, whatever the machine did *)
RFinalExact == KeysOK(Ev) /\ \A x \in Keys3 : AccOf(Ev)[x] = SpanUpTo(inst, x[1], x[2], x[3], L)
RNodeSpans == \A u \in Internal : Ev.nspan[u + 1] = NodeSpanUpTo(inst, u, L)
RSum == KeysOK(Ev) => \A u \in Internal :
    SumSeq([q \in 1..Len(Ev.acc) |-> IF Ev.acc[q][1] = u THEN Ev.acc[q][4] ELSE 0]) = Ev.nspan[u + 1]
End ==
    /\ l <= Len(Trace) /\ Ev.kind = "end" /\ ~CanSkip
    /\ IF pc = "run" /\ i = L THEN LastOn(inst)
       ELSE D("the code left the tree loop before the last tree", FALSE) /\ UNCHANGED <<pc, mvars>>
    /\ LET ok == /\ M("SpansBySamples raised no exception", Ev.error = "")
                 /\ D("machine finished", pc' = "done")
                 /\ D("final _spans equals the machine's", KeysOK(Ev) /\ pc' = "done" => acc' = AccOf(Ev))
                 /\ M("SpanTablesExact", RFinalExact)
                 /\ M("NodeSpansExact", RNodeSpans)
                 /\ M("SpansSumToNodeSpan", RSum)
       IN  /\ nacc' = nacc + (IF ok THEN 1 ELSE 0)
           /\ Emit("verdict", [tid |-> Ev.tid, ok |-> ok])
    /\ l' = l + 1 /\ UNCHANGED <<g, inst>>

Fin == /\ l = Len(Trace) + 1 /\ Emit("accepted", [accepted |-> nacc, lines |-> Len(Trace)])
       /\ l' = l + 1 /\ UNCHANGED <<vars, nacc>>

TraceNext == Begin \/ Skip \/ StateLine \/ End \/ Fin
TraceSpec == TInit /\ [][TraceNext]_tvars
=============================================================================
