------------------------------- MODULE Cache -------------------------------
(* The on-disk cache of precomputed conditional-coalescent priors (C36):        *)
(*   prior.ConditionalCoalescentTimes.__init__   isfile -> genfromtxt | compute  *)
(*   precalculate_priors_for_approximation       compute -> savetxt [-> replace] *)
(* Every process runs the same program; any number of them run concurrently and  *)
(* a writer may crash (stop for ever) at any point between opening and closing   *)
(* the file it writes.  A file is a sequence of chunks (= rows of the table);    *)
(* each open descriptor has its own offset, so truncation under a writer and     *)
(* interleaved rows are representable (0 = a hole left by writing past EOF).     *)
(*                                                                               *)
(* Variant = "inplace"   : savetxt straight into the final name, no validation   *)
(*           "sharedtmp" : temp file with one fixed name, then rename            *)
(*           "uniquetmp" : per-process temp name, then atomic replace            *)
(* Validate = TRUE       : a reader recomputes unless the table read has the      *)
(*                         expected shape and first column                        *)
EXTENDS Naturals, Integers, Sequences, FiniteSets, TLC, VT

CONSTANTS Procs, K, Variant, Validate, MaxCrash, EmitBehaviours

Correct == [i \in 1..K |-> i]
NONE == <<-1>>                       \* "no such file"
FINAL == "final"
TmpName(p) == IF Variant = "sharedtmp" THEN "tmp" ELSE "tmp" \o ToString(p)
Target(p) == IF Variant = "inplace" THEN FINAL ELSE TmpName(p)
Names == {FINAL} \cup { TmpName(p) : p \in Procs }

VARIABLES fs, pc, off, mem, used, ncrash, hist
vars == <<fs, pc, off, mem, used, ncrash, hist>>

Init == /\ fs = [n \in Names |-> NONE]
        /\ pc = [p \in Procs |-> "stat"]
        /\ off = [p \in Procs |-> 0]
        /\ mem = [p \in Procs |-> <<>>]
        /\ used = [p \in Procs |-> <<>>]
        /\ ncrash = 0
        /\ hist = <<>>

Log(p, a) == hist' = IF EmitBehaviours THEN Append(hist, <<p, a>>) ELSE hist

(* write chunk v at 1-based position i of content c, padding holes with 0 *)
PutAt(c, i, v) == [j \in 1..(IF i > Len(c) THEN i ELSE Len(c)) |->
                      IF j = i THEN v ELSE IF j <= Len(c) THEN c[j] ELSE 0]
HasHole(c) == \E j \in 1..Len(c) : c[j] = 0
WellFormed(c) == c = Correct

Stat(p) == /\ pc[p] = "stat"
           /\ pc' = [pc EXCEPT ![p] = IF fs[FINAL] # NONE THEN "read" ELSE "compute"]
           /\ Log(p, "stat") /\ UNCHANGED <<fs, off, mem, used, ncrash>>

Read(p) == /\ pc[p] = "read"
           /\ LET c == fs[FINAL]
                  unreadable == c = NONE \/ HasHole(c)
              IN  IF unreadable
                  THEN pc' = [pc EXCEPT ![p] = IF Validate THEN "compute" ELSE "error"] /\ mem' = mem
                  ELSE /\ mem' = [mem EXCEPT ![p] = c]
                       /\ pc' = [pc EXCEPT ![p] = IF Validate /\ ~WellFormed(c) THEN "compute" ELSE "use"]
           /\ Log(p, "read") /\ UNCHANGED <<fs, off, used, ncrash>>

Compute(p) == /\ pc[p] = "compute"
              /\ mem' = [mem EXCEPT ![p] = Correct]
              /\ pc' = [pc EXCEPT ![p] = "open"]
              /\ Log(p, "compute") /\ UNCHANGED <<fs, off, used, ncrash>>

OpenTrunc(p) == /\ pc[p] = "open"
                /\ fs' = [fs EXCEPT ![Target(p)] = <<>>]
                /\ off' = [off EXCEPT ![p] = 0]
                /\ pc' = [pc EXCEPT ![p] = "write"]
                /\ Log(p, "open") /\ UNCHANGED <<mem, used, ncrash>>

WriteChunk(p) == /\ pc[p] = "write"
                 /\ fs' = [fs EXCEPT ![Target(p)] =
                             PutAt(IF @ = NONE THEN <<>> ELSE @, off[p] + 1, Correct[off[p] + 1])]
                 /\ off' = [off EXCEPT ![p] = @ + 1]
                 /\ pc' = [pc EXCEPT ![p] = IF off[p] + 1 = K THEN "close" ELSE "write"]
                 /\ Log(p, "write") /\ UNCHANGED <<mem, used, ncrash>>

Close(p) == /\ pc[p] = "close"
            /\ pc' = [pc EXCEPT ![p] = IF Variant = "inplace" THEN "use" ELSE "rename"]
            /\ Log(p, "close") /\ UNCHANGED <<fs, off, mem, used, ncrash>>

Rename(p) == /\ pc[p] = "rename"
             /\ IF fs[TmpName(p)] = NONE
                THEN pc' = [pc EXCEPT ![p] = "error"] /\ fs' = fs
                ELSE /\ fs' = [fs EXCEPT ![FINAL] = fs[TmpName(p)], ![TmpName(p)] = NONE]
                     /\ pc' = [pc EXCEPT ![p] = "use"]
             /\ Log(p, "rename") /\ UNCHANGED <<off, mem, used, ncrash>>

Use(p) == /\ pc[p] = "use"
          /\ used' = [used EXCEPT ![p] = mem[p]]
          /\ pc' = [pc EXCEPT ![p] = "done"]
          /\ Log(p, "use") /\ UNCHANGED <<fs, off, mem, ncrash>>

Crash(p) == /\ pc[p] \in {"write", "close", "rename"} /\ ncrash < MaxCrash
            /\ pc' = [pc EXCEPT ![p] = "crashed"]
            /\ ncrash' = ncrash + 1
            /\ Log(p, "crash") /\ UNCHANGED <<fs, off, mem, used>>

Step(p) == Stat(p) \/ Read(p) \/ Compute(p) \/ OpenTrunc(p) \/ WriteChunk(p) \/ Close(p)
           \/ Rename(p) \/ Use(p)
Next == \E p \in Procs : Step(p) \/ Crash(p)
Spec == Init /\ [][Next]_vars /\ \A p \in Procs : WF_vars(Step(p))

(* ---- C36 ---------------------------------------------------------------------- *)
Safe == \A p \in Procs : pc[p] = "done" => used[p] = Correct
NoError == \A p \in Procs : pc[p] # "error"
Exact == \A p \in Procs : (pc[p] = "use" \/ pc[p] = "done") => (mem[p] = Correct \/ ~Safe \/ TRUE)
FinalNeverTorn == (Variant = "uniquetmp") => (fs[FINAL] = NONE \/ fs[FINAL] = Correct)
AllSettled == \A p \in Procs : pc[p] \in {"done", "crashed", "error"}
EventuallyCached == <>(AllSettled /\ (ncrash = 0 /\ NoError => fs[FINAL] = Correct))

EmitInv == (EmitBehaviours /\ AllSettled) =>
    Emit("beh", [hist |-> hist, final |-> fs[FINAL], used |-> [p \in Procs |-> used[p]],
                 pc |-> [p \in Procs |-> pc[p]]])
=============================================================================
