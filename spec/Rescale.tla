------------------------------- MODULE Rescale -------------------------------
(* rescaling.mutational_area, mutational_timescale and                           *)
(* piecewise_scale_point_estimate (C25, and one iteration of                      *)
(* rescale_tree_sequence for C37) over small DAGs with integer node times.        *)
(*                                                                                *)
(* Instance: nodes 1..N with integer times (minimum 0; ties allowed), a set of    *)
(* fixed nodes, edges <<parent, child, mutations, span>> (any pair of distinct     *)
(* nodes: an edge whose parent is not strictly older is ignored, as in the code), *)
(* max_intervals J and a span multiplier mu = <<num, den>> (the mutation rate of  *)
(* rescale_tree_sequence; <<1, 1>> for the kernels).                               *)
(*                                                                                *)
(* Machine, in the code's order:                                                  *)
(*   IndexNodes   epoch breaks = distinct node times, nodes_index                 *)
(*   EdgeDelta(e) the difference array: +rate at the child's epoch, -rate at the  *)
(*                parent's (only when that index is < num_epochs)                 *)
(*   CumSum       counts / offset per epoch, duration                             *)
(*   Changepoints _fixed_changepoints(offset * duration, J) by its defining       *)
(*                inequality (RRat!FracAdm: either neighbour at an exact tie), then *)
(*                np.unique                                                       *)
(*   Timescale    per interval n = sum offset, y = sum counts, z = sum duration;  *)
(*                `assert n > 0`; adjust = cumsum(z * y / n)                      *)
(*   MapPoints    searchsorted(orig, x, "right") - 1, slope 0 beyond the last     *)
(*                break, fixed nodes kept; `assert diff(breaks) > 0`              *)
(* Rates m / length are rationals: counts are carried multiplied by D = lcm of    *)
(* the positive edge lengths, everything derived from them in RRat rationals.     *)
EXTENDS Naturals, Integers, Sequences, FiniteSets, FiniteSetsExt, SequencesExt, TLC, Json, IOUtils, VT, RRat

CONSTANTS MaxN, MaxT, MaxEdges, MaxM, SpanVals, JSet, FixedModes, Source, EmitDone

VARIABLES inst, pc, e, st, out
vars == <<inst, pc, e, st, out>>

File == IF Source \in {"file", "both"} THEN ndJsonDeserialize(IOEnv.INST_FILE) ELSE <<>>

NoInst == [id |-> 0, N |-> 0, time |-> <<>>, fixed |-> {}, edges |-> <<>>, J |-> 1, mu |-> <<1, 1>>]
NoSt == [breaks |-> <<>>, idx |-> <<>>, D |-> 1, dC |-> <<>>, dO |-> <<>>, cnt |-> <<>>, off |-> <<>>, dur |-> <<>>,
         cps |-> <<>>]
NoOut == [outcome |-> "-", orig |-> <<>>, resc |-> <<>>, newt |-> <<>>]

Init == inst = NoInst /\ pc = "pick" /\ e = 0 /\ st = NoSt /\ out = NoOut

(* ---------------- instance choice ------------------------------------------------ *)
Pick == /\ pc = "pick" /\ Source \in {"gen", "both"}
        /\ \E nn \in 2..MaxN, jj \in JSet : inst' = [NoInst EXCEPT !.N = nn, !.J = jj, !.time = <<0>>]
        /\ pc' = "times" /\ UNCHANGED <<e, st, out>>

AddTime == /\ pc = "times" /\ Len(inst.time) < inst.N
           /\ \E t \in 0..MaxT : inst' = [inst EXCEPT !.time = Append(@, t)]
           /\ UNCHANGED <<pc, e, st, out>>

TimesDone == /\ pc = "times" /\ Len(inst.time) = inst.N
             /\ \E fm \in FixedModes :
                  inst' = [inst EXCEPT !.fixed = CASE fm = "none" -> {}
                                                   [] fm = "zeros" -> { u \in 1..inst.N : inst.time[u] = 0 }
                                                   [] fm = "last" -> {inst.N}]
             /\ pc' = "edges" /\ UNCHANGED <<e, st, out>>

PairLess(a, b) == a[1] < b[1] \/ (a[1] = b[1] /\ a[2] < b[2])
AddEdge == /\ pc = "edges" /\ Len(inst.edges) < MaxEdges
           /\ \E p \in 1..inst.N, c \in 1..inst.N, m \in 0..MaxM, s \in SpanVals :
                /\ p # c
                /\ (inst.edges # <<>> => PairLess(inst.edges[Len(inst.edges)], <<p, c>>))   \* canonical order
                /\ inst' = [inst EXCEPT !.edges = Append(@, <<p, c, m, s>>)]
           /\ UNCHANGED <<pc, e, st, out>>

(* the helper needs a positive total of offset * duration *)
Usable(r) == \E x \in 1..Len(r.edges) : r.time[r.edges[x][1]] > r.time[r.edges[x][2]] /\ r.edges[x][4] > 0
EdgesDone == /\ pc = "edges" /\ Usable(inst)
             /\ pc' = "index" /\ UNCHANGED <<inst, e, st, out>>

Load == /\ pc = "pick" /\ Source \in {"file", "both"}
        /\ \E l \in 1..Len(File) :
             LET r == File[l] IN
             inst' = [id |-> r.id, N |-> Len(r.time), time |-> r.time, fixed |-> { r.fixed[x] : x \in 1..Len(r.fixed) },
                      edges |-> r.edges, J |-> r.J, mu |-> r.mu]
        /\ pc' = "index" /\ UNCHANGED <<e, st, out>>

(* ---------------- mutational_area ------------------------------------------------ *)
N == inst.N
T(u) == inst.time[u]
NE == Len(inst.edges)
EP(x) == inst.edges[x][1]
EC(x) == inst.edges[x][2]
EM(x) == inst.edges[x][3]
ES(x) == inst.edges[x][4]
ELen(x) == T(EP(x)) - T(EC(x))
NEp == Len(st.breaks) - 1

IndexNodes ==
    /\ pc = "index"
    /\ LET br == SetToSortSeq({ T(u) : u \in 1..N }, <)
           ix == [u \in 1..N |-> (CHOOSE k \in 1..Len(br) : br[k] = T(u)) - 1]
           dd == FoldSet(LAMBDA x, acc : IF ELen(x) > 0 THEN RLcm(acc, ELen(x)) ELSE acc, 1, 1..NE)
       IN  st' = [NoSt EXCEPT !.breaks = br, !.idx = ix, !.D = dd,
                              !.dC = [k \in 1..(Len(br) - 1) |-> 0], !.dO = [k \in 1..(Len(br) - 1) |-> 0]]
    /\ e' = 1 /\ pc' = "delta" /\ UNCHANGED <<inst, out>>

EdgeDelta ==
    /\ pc = "delta" /\ e <= NE
    /\ LET a == st.idx[EC(e)]  b == st.idx[EP(e)]
           rate == (EM(e) * st.D) \div ELen(e)
           bump(arr, v) == [k \in 1..NEp |-> arr[k] + (IF a < NEp /\ k = a + 1 THEN v ELSE 0)
                                                    - (IF b < NEp /\ k = b + 1 THEN v ELSE 0)]
       IN  st' = IF ELen(e) > 0 THEN [st EXCEPT !.dC = bump(st.dC, rate), !.dO = bump(st.dO, ES(e))] ELSE st
    /\ e' = e + 1 /\ UNCHANGED <<inst, pc, out>>

CumSum ==
    /\ pc = "delta" /\ e > NE
    /\ st' = [st EXCEPT !.cnt = [k \in 1..NEp |-> ISumSeq(SubSeq(st.dC, 1, k))],
                        !.off = [k \in 1..NEp |-> ISumSeq(SubSeq(st.dO, 1, k))],
                        !.dur = [k \in 1..NEp |-> st.breaks[k + 1] - st.breaks[k]]]
    /\ pc' = "cp" /\ UNCHANGED <<inst, e, out>>

(* ---------------- mutational_timescale ------------------------------------------- *)
Mass == [i \in 0..NEp |-> ISumSeq([k \in 1..i |-> st.off[k] * st.dur[k]])]
RECURSIVE AdmSeqs(_, _)
AdmSeqs(Yc, k) == IF k > inst.J THEN {<<>>}
                  ELSE { <<a>> \o s : a \in FracAdm(Yc, NEp, inst.J, k), s \in AdmSeqs(Yc, k + 1) }
SeqRange(s) == { s[x] : x \in 1..Len(s) }

Changepoints ==
    /\ pc = "cp"
    /\ \E cp \in AdmSeqs(Mass, 0) : st' = [st EXCEPT !.cps = SetToSortSeq(SeqRange(cp), <)]     \* np.unique
    /\ pc' = "scale" /\ UNCHANGED <<inst, e, out>>

NInt == Len(st.cps) - 1
IntN(k) == ISumSeq(SubSeq(st.off, st.cps[k] + 1, st.cps[k + 1]))
IntY(k) == ISumSeq(SubSeq(st.cnt, st.cps[k] + 1, st.cps[k + 1]))        \* times D
IntZ(k) == ISumSeq(SubSeq(st.dur, st.cps[k] + 1, st.cps[k + 1]))
(* z * y / n with y = IntY / D and n = IntN * mu *)
Inc(k) == RMk(IntZ(k) * IntY(k) * inst.mu[2], IntN(k) * st.D * inst.mu[1])

Timescale ==
    /\ pc = "scale"
    /\ IF \E k \in 1..NInt : IntN(k) = 0
       THEN /\ out' = [NoOut EXCEPT !.outcome = "assert_zero_span"] /\ pc' = "done"
       ELSE /\ out' = [NoOut EXCEPT !.orig = [k \in 1..(NInt + 1) |-> st.breaks[st.cps[k] + 1]],
                                    !.resc = [k \in 1..(NInt + 1) |-> RSumSeq([i \in 1..(k - 1) |-> Inc(i)])]]
            /\ pc' = "map"
    /\ UNCHANGED <<inst, e, st>>

(* ---------------- piecewise_scale_point_estimate --------------------------------- *)
(* x rational, orig integers (strictly increasing), resc rationals                *)
SegOf(orig, x) == CHOOSE k \in 1..Len(orig) : /\ RLe(RInt(orig[k]), x)
                                                /\ \A k2 \in 1..Len(orig) : RLe(RInt(orig[k2]), x) => k2 <= k
MapAt(orig, resc, x) ==
    LET k == SegOf(orig, x) IN
    IF k = Len(orig) THEN resc[k]
    ELSE RAdd(resc[k], RMul(RDiv(RSub(resc[k + 1], resc[k]), RInt(orig[k + 1] - orig[k])), RSub(x, RInt(orig[k]))))

MapPoints ==
    /\ pc = "map"
    /\ IF \E k \in 1..(Len(out.resc) - 1) : ~RLt(out.resc[k], out.resc[k + 1])
       THEN out' = [out EXCEPT !.outcome = "assert_fewer_intervals"]
       ELSE out' = [out EXCEPT !.outcome = "ok",
                               !.newt = [u \in 1..N |-> IF u \in inst.fixed THEN RInt(T(u))
                                                        ELSE MapAt(out.orig, out.resc, RInt(T(u)))]]
    /\ pc' = "done" /\ UNCHANGED <<inst, e, st>>

Next == Pick \/ AddTime \/ TimesDone \/ AddEdge \/ EdgesDone \/ Load \/ IndexNodes \/ EdgeDelta \/ CumSum
        \/ Changepoints \/ Timescale \/ MapPoints
Spec == Init /\ [][Next]_vars

(* ================= statements ==================================================== *)
AreaKnown == pc \in {"cp", "scale", "map", "done"}
Done == pc = "done"
Ok == Done /\ out.outcome = "ok"

(* C25, last sentence: counts and areas per inter-node interval equal a direct     *)
(* computation of how much of each edge overlaps the interval                      *)
Larger(a, b) == IF a >= b THEN a ELSE b
Smaller(a, b) == IF a <= b THEN a ELSE b
Overlap(x, k) == Larger(0, Smaller(T(EP(x)), st.breaks[k + 1]) - Larger(T(EC(x)), st.breaks[k]))
PosEdges == { x \in 1..NE : ELen(x) > 0 }
DirectCountArea(k) == FoldSet(LAMBDA x, acc : acc + ((EM(x) * st.D) \div ELen(x)) * Overlap(x, k), 0, PosEdges)
DirectSpanArea(k) == FoldSet(LAMBDA x, acc : acc + ES(x) * Overlap(x, k), 0, PosEdges)
AreaMatchesDirect == AreaKnown => \A k \in 1..NEp : /\ st.cnt[k] * st.dur[k] = DirectCountArea(k)
                                                     /\ st.off[k] * st.dur[k] = DirectSpanArea(k)
EpochsOK == AreaKnown => /\ \A k \in 1..NEp : st.dur[k] > 0 /\ st.cnt[k] >= 0 /\ st.off[k] >= 0
                         /\ \A u \in 1..N : st.breaks[st.idx[u] + 1] = T(u)
                         /\ st.breaks[1] = 0
(* total mutations on edges of positive length are conserved *)
TotalsConserved == AreaKnown =>
    /\ ISumSeq([k \in 1..NEp |-> st.cnt[k] * st.dur[k]]) = FoldSet(LAMBDA x, acc : acc + EM(x) * st.D, 0, PosEdges)
    /\ ISumSeq([k \in 1..NEp |-> st.off[k] * st.dur[k]]) = FoldSet(LAMBDA x, acc : acc + ES(x) * ELen(x), 0, PosEdges)

(* C25, first sentence: the map is continuous, non-decreasing, piecewise linear,   *)
(* fixes 0 and leaves fixed nodes untouched                                        *)
BreaksOK == pc \in {"map", "done"} /\ out.orig # <<>> =>
    /\ out.orig[1] = 0 /\ out.resc[1] = <<0, 1>>
    /\ \A k \in 1..(Len(out.orig) - 1) : out.orig[k] < out.orig[k + 1] /\ RLe(out.resc[k], out.resc[k + 1])
    /\ out.orig[Len(out.orig)] = st.breaks[Len(st.breaks)]
Probes == { <<h, 2>> : h \in 0..(2 * (st.breaks[Len(st.breaks)] + 1)) }   \* half-integers up to beyond the last break
MapMonotone == Ok => \A x \in Probes, y \in Probes :
    RLe(x, y) => RLe(MapAt(out.orig, out.resc, x), MapAt(out.orig, out.resc, y))
MapFixesZero == Ok => MapAt(out.orig, out.resc, <<0, 1>>) = <<0, 1>>
(* continuity at each break: the left piece evaluated at the break is the right piece's value *)
MapContinuous == Ok => \A k \in 1..(Len(out.orig) - 1) :
    LET slope == RDiv(RSub(out.resc[k + 1], out.resc[k]), RInt(out.orig[k + 1] - out.orig[k]))
    IN  RAdd(out.resc[k], RMul(slope, RInt(out.orig[k + 1] - out.orig[k]))) = MapAt(out.orig, out.resc, RInt(out.orig[k + 1]))
FixedUntouched == Ok => \A u \in inst.fixed : out.newt[u] = RInt(T(u))
OrderPreserved == Ok => \A u \in 1..N \ inst.fixed, v \in 1..N \ inst.fixed :
    T(u) <= T(v) => RLe(out.newt[u], out.newt[v])
(* total rescaled length = total mutations / total span rate, when one interval is used *)
SingleIntervalTotal == (Ok /\ NInt = 1) =>
    out.resc[2] = RMk(IntZ(1) * IntY(1) * inst.mu[2], IntN(1) * st.D * inst.mu[1])

Rats(s) == [k \in 1..Len(s) |-> <<s[k][1], s[k][2]>>]
EmitInv == (Done /\ EmitDone) =>
    Emit("resc", [id |-> inst.id, time |-> inst.time, fixed |-> inst.fixed, edges |-> inst.edges, J |-> inst.J,
                  mu |-> inst.mu, outcome |-> out.outcome,
                  counts |-> [k \in 1..NEp |-> RMk(st.cnt[k], st.D)], offset |-> st.off, duration |-> st.dur,
                  index |-> st.idx, cps |-> st.cps, orig |-> out.orig, resc |-> Rats(out.resc),
                  newt |-> Rats(out.newt)])
=============================================================================
