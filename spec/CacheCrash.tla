---------------------------- MODULE CacheCrash ----------------------------
(* Trace validation of crash-point experiments on the real cache (C36): each line *)
(* is one experiment "writer stopped after `offset` bytes of the file it was      *)
(* writing; a later run then constructed the priors", with the observed outcome.  *)
(* The specification (Cache!Safe lifted to outcomes): the later run either used    *)
(* a table identical to a freshly computed one without recomputing, or recomputed; *)
(* any other outcome (a different table, an exception) is a violation.             *)
EXTENDS Naturals, Sequences, TLC, Json, IOUtils, VT

Trace == ndJsonDeserialize(IOEnv.TRACE_FILE)
VARIABLES l, nacc
Init == l = 1 /\ nacc = 0
Line ==
    /\ l <= Len(Trace)
    /\ LET e == Trace[l]
           ok == /\ Must(e.tid, l, "Safe:later_run_uses_correct_table_or_recomputes",
                         e.outcome \in {"identical", "recomputed"})
                 /\ Must(e.tid, l, "Exact:table_equals_fresh_computation", e.table_equal)
       IN  nacc' = nacc + (IF ok THEN 1 ELSE 0)
    /\ l' = l + 1
Finish == /\ l = Len(Trace) + 1 /\ Emit("accepted", [accepted |-> nacc, lines |-> Len(Trace)])
          /\ l' = l + 1 /\ UNCHANGED nacc
TraceSpec == Init /\ [][Line \/ Finish]_<<l, nacc>>
===========================================================================
