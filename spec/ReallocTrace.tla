--------------------------- MODULE ReallocTrace ---------------------------
(* Trace validation of the reallocation step observed inside real             *)
(* variational_gamma(singletons_phased=False) calls (C23).  One line per call: *)
(*   blocks[k] = <<i, j>>  block edges (1-based)                               *)
(*   sing[s]   = [b, first, q]  block, "final edge is the block's first edge",  *)
(*               fitted phase of the final edge in units of 1/Unit             *)
(*   before[e], after[e]  mutation counts of edge e in units of 1/Unit around   *)
(*               the call of rescale()                                          *)
(* The expected counts are recomputed by Realloc's Share with Variant =          *)
(* "specified"; rounding to 1/Unit gives a slack of one unit per singleton.     *)
EXTENDS Naturals, Integers, Sequences, FiniteSets, FiniteSetsExt, TLC, Json, IOUtils, VT

Unit == 65536
Trace == ndJsonDeserialize(IOEnv.TRACE_FILE)
VARIABLES l, nacc
Ev == Trace[l]
M(name, cond) == Must(Ev.tid, l, name, cond)

Init == l = 1 /\ nacc = 0
NS == Len(Ev.sing)
Final(s) == IF Ev.sing[s].first THEN Ev.blocks[Ev.sing[s].b][1] ELSE Ev.blocks[Ev.sing[s].b][2]
Other(s) == IF Ev.sing[s].first THEN Ev.blocks[Ev.sing[s].b][2] ELSE Ev.blocks[Ev.sing[s].b][1]
Unphased == UNION { {Ev.blocks[k][1], Ev.blocks[k][2]} : k \in 1..Len(Ev.blocks) }
Share(s, e) == IF e = Final(s) THEN Ev.sing[s].q ELSE IF e = Other(s) THEN Unit - Ev.sing[s].q ELSE 0
Expected(e) == FoldSet(LAMBDA s, acc : acc + Share(s, e), 0, 1..NS)
Touching(e) == Cardinality({ s \in 1..NS : e \in {Final(s), Other(s)} })
AbsDiff(x, y) == IF x < y THEN y - x ELSE x - y

Line ==
    /\ l <= Len(Trace)
    /\ LET ok ==
           /\ M("phase of the final branch is at least 1/2", \A s \in 1..NS : 2 * Ev.sing[s].q >= Unit - 2)
           /\ M("shares: final branch gets q, the other 1 - q",
                \A e \in Unphased : AbsDiff(Ev.after[e], Expected(e)) <= Touching(e) + 1)
           /\ M("one mutation in total per singleton",
                AbsDiff(FoldSet(LAMBDA e, acc : acc + Ev.after[e], 0, Unphased), Unit * NS) <= NS + Cardinality(Unphased))
           /\ M("counts on all other branches unchanged", \A e \in (1..Len(Ev.after)) \ Unphased : Ev.after[e] = Ev.before[e])
       IN  nacc' = nacc + (IF ok THEN 1 ELSE 0)
    /\ l' = l + 1
Finish == /\ l = Len(Trace) + 1 /\ Emit("accepted", [accepted |-> nacc, lines |-> Len(Trace)])
          /\ l' = l + 1 /\ UNCHANGED nacc
TraceSpec == Init /\ [][Line \/ Finish]_<<l, nacc>>
===========================================================================
