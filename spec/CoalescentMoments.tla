-------------------------- MODULE CoalescentMoments --------------------------
(* Pure operators (no variables) for the conditional coalescent prior of tsdate  *)
(* (tsdate/prior.py), in exact rationals.  Time unit: pairs of lineages coalesce *)
(* at rate 1, i.e. with j lineages the waiting time T_j is exponential with mean *)
(* 1/C(j,2) = 2/(j(j-1)); this is the unit of ConditionalCoalescentTimes         *)
(* (tau_expect(n,n) = 2(1-1/n)).                                                  *)
(*                                                                                *)
(*   a  = number of lineages that remain just after the node is formed            *)
(*   age of the node | a  =  T_n + T_{n-1} + ... + T_{a+1}   (hypoexponential)    *)
(*                                                                                *)
(* Three descriptions of Pr(a | node subtends k of n tips) live here:             *)
(*   PClosed   -- closed form (declarative; what vt/prior_common.py mirrors)      *)
(*   CodePr    -- the recursion of prior._marginalize_over_ancestors, transcribed *)
(*                with log/exp removed                                            *)
(* and module Coalescent adds the third, PCount, obtained by counting behaviours  *)
(* of the labelled Kingman jump chain, and has TLC check that all three agree.    *)
EXTENDS Rat, Integers, Sequences

RECURSIVE Binom(_, _)
Binom(n, k) == IF k < 0 \/ k > n \/ n < 0 THEN 0
               ELSE IF k = 0 \/ k = n THEN 1
               ELSE Binom(n - 1, k - 1) + Binom(n - 1, k)

(* waiting-time moments *)
TMean(n, a) == RSumRange(a + 1, n, LAMBDA j : RNorm(2, j * (j - 1)))
TVar(n, a)  == RSumRange(a + 1, n, LAMBDA j : RSq(RNorm(2, j * (j - 1))))
TM2(n, a)   == RAdd(TVar(n, a), RSq(TMean(n, a)))          \* E[age^2 | a]

(* ---- declarative: closed form ------------------------------------------------ *)
(* With a+1 lineages the block sizes are a uniformly random composition of n into *)
(* a+1 parts and the next event merges a uniformly random pair, so                *)
(*   Pr(the node formed on reaching a lineages has k tips)                        *)
(*        = (k-1) C(n-k-1, a-2) / C(n-1, a)         (2 <= k < n, 2 <= a <= n-k+1) *)
(* and Pr(a | k) is this, normalised over a.                                      *)
ARange(n, k) == IF k = n THEN 1..1 ELSE 2..(n - k + 1)
PWeight(n, k, a) == RNorm((k - 1) * Binom(n - k - 1, a - 2), Binom(n - 1, a))
PClosed(n, k, a) ==
    IF k = n THEN ROne
    ELSE RDiv(PWeight(n, k, a), RSumRange(2, n - k + 1, LAMBDA b : PWeight(n, k, b)))

CMean(n, k) == IF k = n THEN TMean(n, 1)
               ELSE RSumRange(2, n - k + 1, LAMBDA a : RMul(PClosed(n, k, a), TMean(n, a)))
CM2(n, k)   == IF k = n THEN TM2(n, 1)
               ELSE RSumRange(2, n - k + 1, LAMBDA a : RMul(PClosed(n, k, a), TM2(n, a)))
CVar(n, k)  == RSub(CM2(n, k), RSq(CMean(n, k)))

(* gamma moment matching is rational: shape = mean^2/var, rate = mean/var         *)
GammaShape(m, v) == RDiv(RSq(m), v)
GammaRate(m, v)  == RDiv(m, v)

(* ---- the code: tau_expect and _marginalize_over_ancestors -------------------- *)
TauExpect(i, n) == IF i = n THEN RMul(RInt(2), RSub(ROne, RNorm(1, n))) ELSE RNorm(i - 1, n)

(* pr_a_ln after the iterations k = n-1, ..., kk+1 of the outer loop, i.e. the     *)
(* table used to fill out[kk]; a function on 2..(n-kk+1).                          *)
RECURSIVE CodePr(_, _)
CodePr(n, kk) ==
    IF kk = n - 1 THEN [a \in 2..2 |-> ROne]
    ELSE LET k == kk + 1                                  \* the iteration that updates (k > 2)
             prev == CodePr(n, k)                         \* domain 2..(n-k+1)
             const == RNorm((n - k) * (k - 2), k + 1)
             upd == [a \in 2..(n - k + 1) |-> RMul(prev[a], RDiv(const, RInt(n - a - k + 2)))]
             app == RDiv(RMul(upd[n - k + 1], RNorm(n - k + 2, k + 1)), const)
         IN  [a \in 2..(n - k + 2) |-> IF a <= n - k + 1 THEN upd[a] ELSE app]

(* out[k] for the moment column given by Val(a) *)
CodeOut(n, k, Val(_)) ==
    IF k = n THEN Val(1)
    ELSE LET pr == CodePr(n, k) IN RSumRange(2, n - k + 1, LAMBDA a : RMul(pr[a], Val(a)))

(* conditional_coalescent_variance(n)[k] *)
CodeVar(n, k) == RSub(CodeOut(n, k, LAMBDA a : TM2(n, a)),
                      RSq(CodeOut(n, k, LAMBDA a : TMean(n, a))))
=============================================================================
