------------------------------ MODULE EPTrace ------------------------------
(* Trace validation (code -> spec) of ExpectationPropagation.infer as run inside *)
(* real variational_gamma()/date() calls (C21, C05).  One trace line = one call; *)
(* the per-iteration observations come from the guarded observer hook in /repo   *)
(* (TSDATE_VERIF=1) and the phase list from the API recorder.  The trace spec is  *)
(* the control skeleton of infer():                                               *)
(*     Iterate^n ; MutationPass(unphased) ; MutationPass(phased) ; [Rescale]      *)
(* with the invariants of module EPAny evaluated (as named predicates, A4) after  *)
(* every iteration, and the post-conditions of C05 at the end.                    *)
EXTENDS Naturals, Integers, Sequences, FiniteSets, TLC, Json, IOUtils, VT

CONSTANT Checks
Trace == ndJsonDeserialize(IOEnv.TRACE_FILE)

VARIABLES l, k, pc, good, nacc
vars == <<l, k, pc, good, nacc>>
Ev == Trace[l]
Want(c) == c \in Checks
M(name, cond) == Must(Ev.tid, l, name, cond)

Init == l = 1 /\ k = 0 /\ pc = "begin" /\ good = TRUE /\ nacc = 0

Begin == /\ l <= Len(Trace) /\ pc = "begin"
         /\ good' = /\ M("iterations_observed = max_iterations", Len(Ev.iters) = Ev.max_iterations)
                    /\ M("phases = Iterate^n;Mut(unphased);Mut(phased);[Rescale]", Ev.phases = Ev.expected_phases)
         /\ k' = 1 /\ pc' = "iterate" /\ UNCHANGED <<l, nacc>>

(* one EP iteration: EPAny!Book etc. as observed at the end of iterate() *)
Iterate ==
    /\ l <= Len(Trace) /\ pc = "iterate" /\ k <= Len(Ev.iters)
    /\ LET it == Ev.iters[k] IN
       good' = /\ good
               /\ M("iteration index", it.it = k)
               /\ (Want("Book") => M("Book: posterior = sum of messages", it.book))
               /\ (Want("Book") => M("scale absorbed (all ones) at the end of the iteration", it.scale_one))
               /\ (Want("FixedUntouched") => M("FixedUntouched: sample rows never written", it.fixed_untouched))
               /\ (Want("ShapeCapped") => M("ShapeCapped: 1 + alpha <= max_shape", it.capped))
               /\ (Want("ProperOrNeverUpdated") => M("ProperOrNeverUpdated", it.proper_or_never_updated))
    /\ k' = k + 1 /\ UNCHANGED <<l, pc, nacc>>

IterDone == /\ l <= Len(Trace) /\ pc = "iterate" /\ k = Len(Ev.iters) + 1
            /\ pc' = "final" /\ UNCHANGED <<l, k, good, nacc>>

Final ==
    /\ l <= Len(Trace) /\ pc = "final"
    /\ LET f == Ev.final
           ok == /\ good
                 /\ (Want("NodeProper") => M("C05: node posteriors finite, positive mean and variance", f.node_proper))
                 /\ (Want("NodeCapped") => M("C05: node shape <= max_shape", f.node_capped))
                 /\ (Want("MutationProper") => M("C05: mutation posterior undefined or proper", f.mut_ok))
                 /\ (Want("PhaseRange") => M("C05: phase undefined or in [0.5, 1]", f.phase_ok))
                 /\ (Want("SamplesExact") => M("C21: sample nodes keep their times (mean = constraint, variance 0)", f.samples_exact))
                 /\ (Want("PhasedUnmoved") => M("C22: phased => mutation nodes unchanged", f.phased_unmoved))
                 /\ (Want("UnphasedMoves") => M("C22: a mutation node changes only to the other node of its diploid contemporary individual", f.unphased_moves_ok))
                 /\ (Want("RephaseInvariant") => M("C22: output independent of the input phase of singletons", f.rephase_equal))
       IN  nacc' = nacc + (IF ok THEN 1 ELSE 0)
    /\ l' = l + 1 /\ k' = 0 /\ pc' = "begin" /\ good' = TRUE

Finish == /\ l = Len(Trace) + 1 /\ Emit("accepted", [accepted |-> nacc, lines |-> Len(Trace)])
          /\ l' = l + 1 /\ UNCHANGED <<k, pc, good, nacc>>

TraceNext == Begin \/ Iterate \/ IterDone \/ Final \/ Finish
TraceSpec == Init /\ [][TraceNext]_vars
=============================================================================
