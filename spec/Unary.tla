------------------------------- MODULE Unary -------------------------------
(* C30.  util._contains_unary_nodes as a state machine: one action per iteration  *)
(* of its outer edge-diff loop (cursors a, b into the insertion / removal order,   *)
(* per-node child counts nodes_children, the set `check` of parents touched at the *)
(* current breakpoint), against the declarative                                    *)
(*     "some local tree has a non-masked node with exactly one child".             *)
(* The code inspects only the nodes touched at a breakpoint; that this is enough   *)
(* is the invariant DetectorExact.  prior.has_locally_unary_nodes (the per-tree    *)
(* detector of the discrete methods) is the operator PerTreeDetector, checked      *)
(* against the same declarative statement (PerTreeExact).                          *)
(*                                                                                 *)
(* Instance = TSGen forest sequence + mutations + a set `xs` of internal nodes     *)
(* that are flagged as (historical, possibly internal) samples + the mask handed   *)
(* to the kernel.  Sample set = time-0 nodes 0..NS-1 plus xs.                      *)
EXTENDS TSGen

CONSTANTS HistSets,   \* TRUE: explore every set of internal nodes as extra samples
          AnyMask,    \* TRUE: every mask; FALSE: only {} and the sample set (the API)
          EmitDone

VARIABLES inst, E, ins, rem, left, a, b, nch, found, pc
vars == <<g, inst, E, ins, rem, left, a, b, nch, found, pc>>

NE == Len(E)
Internal == Nodes \ Samples

Init == /\ GenInit
        /\ inst = [trees |-> <<>>, muts |-> {}, xs |-> {}, mask |-> {}]
        /\ E = <<>> /\ ins = <<>> /\ rem = <<>>
        /\ left = 0 /\ a = 1 /\ b = 1 /\ nch = <<>> /\ found = FALSE
        /\ pc = "choose"

Gen == /\ pc = "choose" /\ (GenTree \/ GenTreesDone \/ GenMut)
       /\ UNCHANGED <<inst, E, ins, rem, left, a, b, nch, found, pc>>

SampleSetOf(xs) == Samples \cup xs

PickFlags ==
    /\ pc = "choose" /\ GenReady
    /\ \E xs \in (IF HistSets THEN SUBSET Internal ELSE {{}}) :
       \E mask \in (IF AnyMask THEN SUBSET Nodes ELSE {{}, SampleSetOf(xs)}) :
          inst' = [trees |-> g.trees, muts |-> g.muts, xs |-> xs, mask |-> mask]
    /\ pc' = "start"
    /\ UNCHANGED <<g, E, ins, rem, left, a, b, nch, found>>

Choose ==
    /\ pc = "start"
    /\ LET es == EdgeSeq(inst.trees, L, Nodes, Time) IN
         /\ E' = es /\ ins' = InsOrder(es, Time) /\ rem' = RemOrder(es, Time)
    /\ nch' = [u \in Nodes |-> 0]
    /\ left' = 0 /\ a' = 1 /\ b' = 1 /\ found' = FALSE
    /\ pc' = "loop" /\ UNCHANGED <<g, inst>>

(* the two inner while loops; s = [n |-> nodes_children, chk |-> check] *)
RECURSIVE EdgesOut(_, _)
EdgesOut(s, bb) ==
    IF bb <= NE /\ E[rem[bb]].r = left
    THEN LET p == E[rem[bb]].p IN EdgesOut([n |-> [s.n EXCEPT ![p] = @ - 1], chk |-> s.chk \cup {p}], bb + 1)
    ELSE <<s, bb>>
RECURSIVE EdgesIn(_, _)
EdgesIn(s, aa) ==
    IF aa <= NE /\ E[ins[aa]].l = left
    THEN LET p == E[ins[aa]].p IN EdgesIn([n |-> [s.n EXCEPT ![p] = @ + 1], chk |-> s.chk \cup {p}], aa + 1)
    ELSE <<s, aa>>

Step ==
    /\ pc = "loop" /\ (a <= NE \/ b <= NE)
    /\ LET o == EdgesOut([n |-> nch, chk |-> {}], b)
           i == EdgesIn(o[1], a)
           hit == \E p \in i[1].chk : p \notin inst.mask /\ i[1].n[p] = 1
           right == Min({SeqLen} \cup (IF o[2] <= NE THEN {E[rem[o[2]]].r} ELSE {})
                                 \cup (IF i[2] <= NE THEN {E[ins[i[2]]].l} ELSE {}))
       IN  /\ nch' = i[1].n /\ b' = o[2] /\ a' = i[2]
           /\ IF hit THEN /\ found' = TRUE /\ pc' = "done" /\ left' = left     \* return True
                     ELSE /\ found' = FALSE /\ pc' = "loop" /\ left' = right
    /\ UNCHANGED <<g, inst, E, ins, rem>>

Finish == /\ pc = "loop" /\ a > NE /\ b > NE /\ pc' = "done"               \* return False
          /\ UNCHANGED <<g, inst, E, ins, rem, left, a, b, nch, found>>

Next == Gen \/ PickFlags \/ Choose \/ Step \/ Finish
Spec == Init /\ [][Next]_vars

(* ================= declarative statements ========================================= *)
NumCh(i, u) == Cardinality(ChildrenIn(inst.trees[i], Nodes, u))
DeclUnary(mask) == \E i \in 1..L, u \in Nodes \ mask : NumCh(i, u) = 1

(* prior.has_locally_unary_nodes: for each tree, the parents on the edges that      *)
(* differ from the previous tree; any of them with one child in this tree.          *)
PrevTree(i) == IF i = 1 THEN [u \in Nodes |-> NULL] ELSE inst.trees[i - 1]
Changed(i) == { p \in Nodes : \E c \in Nodes :
                   \/ (inst.trees[i][c] = p /\ PrevTree(i)[c] # p)
                   \/ (PrevTree(i)[c] = p /\ inst.trees[i][c] # p) }
PerTreeDetector == \E i \in 1..L : \E p \in Changed(i) : NumCh(i, p) = 1

Done == pc = "done"
DetectorExact == Done => (found = DeclUnary(inst.mask))
PerTreeExact == Done => (PerTreeDetector = DeclUnary({}))
(* an iteration started at left < SeqLen leaves the child counts of the tree at left *)
CountsStep == [][(pc = "loop" /\ pc' # "choose" /\ left < SeqLen /\ a' + b' > a + b) =>
                    \A u \in Nodes : nch'[u] = NumCh((left \div 2) + 1, u)]_vars
CursorsMonotone == [][a' >= a /\ b' >= b /\ left' >= left]_vars

(* eligibility for judging accept / reject of the dating methods: the other          *)
(* documented preconditions hold (one root per tree, every time-0 sample attached,   *)
(* no dangling node, every node used somewhere, at least one mutation)               *)
Used(u) == \E i \in 1..L : inst.trees[i][u] # NULL \/ NumCh(i, u) > 0
Elig == /\ TreeFilter = "completeunary"
        /\ \A u \in Nodes : Used(u)
        /\ inst.muts # {}
        /\ \A m \in inst.muts : TreeAt(inst.trees, m[1])[m[2]] # NULL   \* mutation on an edge

EmitInv == (Done /\ EmitDone) =>
    Emit("inst", [N |-> N, NS |-> NS, L |-> L, time |-> [u \in 1..N |-> Time[u - 1]],
                  trees |-> TreesJson(inst.trees), muts |-> MutSeq(inst.muts),
                  samples |-> SampleSetOf(inst.xs), mask |-> inst.mask,
                  edges |-> [e \in 1..NE |-> <<E[e].l, E[e].r, E[e].p, E[e].c>>],
                  ins |-> ins, rem |-> rem,
                  found |-> found,
                  u_any |-> DeclUnary({}), u_ns |-> DeclUnary(SampleSetOf(inst.xs)),
                  elig |-> Elig])
=============================================================================
