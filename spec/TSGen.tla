------------------------------- MODULE TSGen -------------------------------
(* Stepwise generator of small tree sequences, shared by every module whose       *)
(* instance is a tree sequence.  One tree (parent function) is appended per step,  *)
(* then mutations are added one at a time; exhaustive search visits every forest   *)
(* sequence and mutation set in scope, and -simulate draws random ones cheaply     *)
(* (each step has few successors).                                                 *)
(*                                                                                 *)
(* Scope knobs (CONSTANTS): NS samples (time 0), NI internal nodes (times 1..NI),  *)
(* L unit intervals, MaxMuts mutations, TreeFilter = name of the admissible-tree   *)
(* predicate.  Isolated samples, empty regions, polytomies, unary nodes, nodes     *)
(* vanishing and reappearing along the genome, mutations above roots / on isolated *)
(* nodes / exactly on breakpoints are all in scope under "any".                    *)
EXTENDS TreeSeq

CONSTANTS NS, NI, L, MaxMuts, TreeFilter

N == NS + NI
Nodes == 0..(N - 1)
Samples == 0..(NS - 1)
Time == [u \in Nodes |-> IF u < NS THEN 0 ELSE u - NS + 1]
SeqLen == 2 * L
Positions == 0..(SeqLen - 1)

VARIABLE g      \* [trees |-> sequence of parent functions, muts |-> set of <<pos, node>>, phase]
GenInit == g = [trees |-> <<>>, muts |-> {}, phase |-> "trees"]

Roots(f) == { u \in Nodes : f[u] = NULL /\ ChildrenIn(f, Nodes, u) # {} }
NoDangling(f) == \A u \in Nodes \ Samples : f[u] # NULL => ChildrenIn(f, Nodes, u) # {}
NoUnary(f) == \A u \in Nodes : Cardinality(ChildrenIn(f, Nodes, u)) # 1
SamplesLeaves(f) == \A u \in Samples : ChildrenIn(f, Nodes, u) = {}
AllAttached(f) == \A u \in Samples : f[u] # NULL
(* sample nodes 2i, 2i+1 (an individual's two nodes) are attached or isolated together *)
PairsTogether(f) == \A u \in Samples : (u % 2 = 0 /\ (u + 1) \in Samples) => ((f[u] = NULL) <=> (f[u + 1] = NULL))

TreeOK(f) ==
    CASE TreeFilter = "any"        -> TRUE
      [] TreeFilter = "nodangling" -> NoDangling(f) /\ SamplesLeaves(f)
      [] TreeFilter = "simplified" -> /\ NoDangling(f) /\ SamplesLeaves(f) /\ NoUnary(f)
                                      /\ Cardinality(Roots(f)) <= 1
      [] TreeFilter = "complete"   -> /\ NoDangling(f) /\ SamplesLeaves(f) /\ NoUnary(f)
                                      /\ Cardinality(Roots(f)) = 1 /\ AllAttached(f)
      [] TreeFilter = "pairs"      -> NoDangling(f) /\ SamplesLeaves(f) /\ PairsTogether(f)
      [] TreeFilter = "completeunary" -> /\ NoDangling(f) /\ SamplesLeaves(f)
                                      /\ Cardinality(Roots(f)) = 1 /\ AllAttached(f)

PFnsOK == { f \in ParentFns(Nodes, Time) : TreeOK(f) }

GenTree == /\ g.phase = "trees" /\ Len(g.trees) < L
           /\ \E f \in PFnsOK : g' = [g EXCEPT !.trees = Append(@, f)]
GenTreesDone == /\ g.phase = "trees" /\ Len(g.trees) = L
                /\ g' = [g EXCEPT !.phase = "muts"]
GenMut == /\ g.phase = "muts" /\ Cardinality(g.muts) < MaxMuts
          /\ \E x \in Positions, u \in Nodes :
                /\ <<x, u>> \notin g.muts
                /\ g' = [g EXCEPT !.muts = @ \cup {<<x, u>>}]
GenReady == g.phase = "muts"        \* a consuming module may start from any such state

MutLess(x, y) == x[1] < y[1] \/ (x[1] = y[1] /\ x[2] < y[2])
MutSeq(ms) == SetToSortSeq(ms, MutLess)

TreesJson(trees) == [i \in 1..Len(trees) |-> [u \in 1..N |-> trees[i][u - 1]]]
=============================================================================
