------------------------------ MODULE Realloc ------------------------------
(* C23: how variational_gamma's rescaling step credits unphased singletons to   *)
(* branches.  After infer() has switched every singleton with phase < 1/2 to    *)
(* the block's other edge (and replaced its phase q by 1 - q >= 1/2),           *)
(* reallocation must add, for every singleton, q to the edge it is finally      *)
(* placed on and 1 - q to the other edge of its block.                          *)
(* Phases are integers in units of 1/Unit.  Variant = "specified" | "swapped"   *)
(* ("swapped" = phase flipped but block edge order not: the behaviour of tsdate *)
(* before the repair, kept as a named deviation).                               *)
EXTENDS Naturals, Integers, Sequences, FiniteSets, FiniteSetsExt, TLC, VT

CONSTANTS NEdges, MaxSing, Unit, Phases, Variant

VARIABLES blocks, sing, counts, pc
vars == <<blocks, sing, counts, pc>>
(* blocks: seq of <<i, j>> (edges); sing: seq of [b, first (final edge is the block's first), q] *)

Init == blocks = <<>> /\ sing = <<>> /\ counts = [e \in 1..NEdges |-> 0] /\ pc = "gen"

AddBlock == /\ pc = "gen" /\ Len(blocks) < NEdges \div 2
            /\ \E i, j \in 1..NEdges :
                 /\ i # j
                 /\ \A k \in 1..Len(blocks) : {i, j} \cap {blocks[k][1], blocks[k][2]} = {}
                 /\ blocks' = Append(blocks, <<i, j>>)
            /\ UNCHANGED <<sing, counts, pc>>
AddSing == /\ pc = "gen" /\ Len(sing) < MaxSing /\ blocks # <<>>
           /\ \E b \in 1..Len(blocks), f \in BOOLEAN, q \in Phases :
                sing' = Append(sing, [b |-> b, first |-> f, q |-> q])
           /\ UNCHANGED <<blocks, counts, pc>>
(* input counts: every singleton counted once on the edge the *input* phased it to (either) *)
Start == /\ pc = "gen" /\ sing # <<>>
         /\ \E inp \in [1..Len(sing) -> BOOLEAN] :
              counts' = [e \in 1..NEdges |->
                  Cardinality({ s \in 1..Len(sing) : e = (IF inp[s] THEN blocks[sing[s].b][1] ELSE blocks[sing[s].b][2]) })
                  + (IF \A k \in 1..Len(blocks) : e \notin {blocks[k][1], blocks[k][2]} THEN 1 ELSE 0)]
         /\ pc' = "realloc" /\ UNCHANGED <<blocks, sing>>

FinalEdge(s) == IF sing[s].first THEN blocks[sing[s].b][1] ELSE blocks[sing[s].b][2]
OtherEdge(s) == IF sing[s].first THEN blocks[sing[s].b][2] ELSE blocks[sing[s].b][1]
Unphased == UNION { {blocks[k][1], blocks[k][2]} : k \in 1..Len(blocks) }

Share(s, e) ==
    IF Variant = "specified"
    THEN (IF e = FinalEdge(s) THEN sing[s].q ELSE IF e = OtherEdge(s) THEN Unit - sing[s].q ELSE 0)
    ELSE (IF e = blocks[sing[s].b][1] THEN sing[s].q ELSE IF e = blocks[sing[s].b][2] THEN Unit - sing[s].q ELSE 0)

(* counts are kept in units of 1/Unit after reallocation *)
Reallocate ==
    /\ pc = "realloc"
    /\ counts' = [e \in 1..NEdges |->
                     IF e \in Unphased THEN FoldSet(LAMBDA s, acc : acc + Share(s, e), 0, 1..Len(sing))
                     ELSE counts[e] * Unit]
    /\ pc' = "done" /\ UNCHANGED <<blocks, sing>>

Next == AddBlock \/ AddSing \/ Start \/ Reallocate
Spec == Init /\ [][Next]_vars

Done == pc = "done"
(* each singleton adds exactly one mutation in total to its two candidate branches *)
TotalOne == Done => FoldSet(LAMBDA e, acc : acc + counts[e], 0, Unphased) = Unit * Len(sing)
(* the branch a singleton is finally placed on gets the larger share *)
FinalGetsLarger == Done => \A s \in 1..Len(sing) :
    (\A t \in 1..Len(sing) : t # s => sing[t].b # sing[s].b) => counts[FinalEdge(s)] >= counts[OtherEdge(s)]
OthersUnchanged == [][pc = "realloc" => \A e \in (1..NEdges) \ Unphased : counts'[e] = counts[e] * Unit]_vars
=============================================================================
