------------------------------- MODULE Session -------------------------------
(* A user session with tsdate: a sequence of public calls                       *)
(*   date(method=..) | variational_gamma | inside_outside | maximization        *)
(*   | preprocess_ts | split_disjoint_nodes                                     *)
(* each applied to the tree sequence returned by the previous one.              *)
(*                                                                              *)
(* State: `tables` maps every (canonical) column of the table collection to an  *)
(* interned id -- equal content <=> equal id (DESIGN 4, A3; in the model the id  *)
(* is the number of the call that last wrote the column) -- and `prov` is the    *)
(* provenance table as a sequence of record abstractions.                        *)
(*                                                                              *)
(* Part 1: vocabulary and the STATEMENTS of C02 / C33 as operators over          *)
(*         (before, after, options); they are used both by the model below and   *)
(*         by SessionTrace on columns interned from real calls.                  *)
(* Part 2: the model: a dating call is the step sequence of                      *)
(*         EstimationMethod.get_modified_ts (dump, time_units, metadata via      *)
(*         module Metadata, node times, mutation node, zap, sort, parents and    *)
(*         times, provenance, return); preprocess_ts / split_disjoint_nodes are  *)
(*         coarse.  TLC checks the frame condition (C02) and AppendOnly /        *)
(*         record content (C33) on every history up to MaxCalls calls, and emits *)
(*         the histories for replay on real objects.                             *)
EXTENDS Naturals, Integers, Sequences, SequencesExt, FiniteSets, TLC, VT, Metadata

(* ========================= Part 1: statements ============================== *)
Methods == {"variational_gamma", "inside_outside", "maximization"}

(* canonical columns; *.set / site_ds / node / md_other are invariant under the   *)
(* row re-sorting done by TableCollection.sort(); *.order are the raw row orders *)
FrozenCols ==
    {"sequence_length", "metadata", "metadata_schema", "reference_sequence",
     "nodes.num", "nodes.flags", "nodes.population", "nodes.individual",
     "edges.num", "edges.set", "edges.schema",
     "sites.position", "sites.ancestral_state", "sites.metadata", "sites.schema",
     "mutations.num", "mutations.site_ds",
     "individuals.flags", "individuals.location", "individuals.parents",
     "individuals.metadata", "individuals.schema",
     "populations.metadata", "populations.schema",
     "migrations.set", "migrations.schema"}
TimeCols == {"nodes.time", "mutations.time", "mutations.parent", "time_units"}
OrderCols == {"edges.order", "mutations.order", "migrations.order"}
MdCols == {"nodes.metadata", "nodes.schema", "mutations.metadata", "mutations.schema"}
MdOtherCols == {"nodes.md_other", "mutations.md_other"}     \* fields other than mn / vr
MutNodeCols == {"mutations.node", "mutations.node_md"}      \* node; node jointly with other fields
AllCols == FrozenCols \cup TimeCols \cup OrderCols \cup MdCols \cup MdOtherCols \cup MutNodeCols

(* options of a dating call: [method, sm \in Policies, phased, recording]        *)
(* C02: what date() may change.  Fields other than mn/vr may be lost only when   *)
(* set_metadata=True clears incompatible metadata (sanctioned by C32).           *)
Touchable(o) ==
    TimeCols \cup OrderCols \cup MdCols
    \cup (IF o.sm = "true" THEN MdOtherCols \cup {"mutations.node_md"} ELSE {})
    \cup (IF o.phased THEN {} ELSE MutNodeCols)

FrameOK(b, a, o) == \A c \in DOMAIN b : c \in DOMAIN a /\ (c \in Touchable(o) \/ a[c] = b[c])

(* mutations whose node differs after matching (site, derived_state, other       *)
(* fields): nin = node before, nout = node after (0 = no partner row found),     *)
(* pin = the other node of nin's (diploid) individual, 0 if none                 *)
MutNodeOK(mut, o) ==
    /\ mut.unmatched = 0
    /\ o.phased => Len(mut.nin) = 0
    /\ \A k \in 1..Len(mut.nin) : mut.pin[k] # 0 /\ mut.nout[k] = mut.pin[k]

(* ---- C33: provenance ---- *)
Cmd(fn, method) == IF fn = "date" THEN method ELSE fn

(* values are canonical JSON texts (integral numbers printed as integers)        *)
CommonDefaults ==
    [mutation_rate |-> "null", recombination_rate |-> "null", time_units |-> "null",
     progress |-> "null", population_size |-> "null"]
(* defaults the wrappers fill in when the argument is absent or None             *)
WrapperDefaults(cmd) ==
    CASE cmd = "variational_gamma" ->
            [max_iterations |-> "25", max_shape |-> "1000", rescaling_intervals |-> "1000",
             rescaling_iterations |-> "5", match_segregating_sites |-> "false",
             regularise_roots |-> "true", singletons_phased |-> "true"]
      [] cmd = "inside_outside" ->
            [eps |-> "1e-08", outside_standardize |-> "true", ignore_oldest_root |-> "false",
             probability_space |-> "\"logarithmic\""]
      [] cmd = "maximization" ->
            [eps |-> "1e-08", probability_space |-> "\"logarithmic\""]
      [] cmd = "preprocess_ts" -> [split_disjoint |-> "true"]
      [] OTHER -> <<>>
(* arguments recorded as passed (None stays null) *)
PlainDefaults(cmd) ==
    CASE cmd = "inside_outside" -> [num_threads |-> "null", cache_inside |-> "false"]
      [] cmd = "maximization" -> [num_threads |-> "null", cache_inside |-> "null"]
      [] cmd = "preprocess_ts" ->
            [filter_populations |-> "false", filter_individuals |-> "false", filter_sites |-> "false"]
      [] OTHER -> <<>>

Has(g, k) == k \in DOMAIN g /\ g[k] # "null"
(* deprecated aliases are recorded under the current name *)
Unalias(cmd, g) ==
    IF cmd \in {"inside_outside", "maximization"} /\ Has(g, "Ne") /\ ~Has(g, "population_size")
    THEN [k \in (DOMAIN g \cup {"population_size"}) \ {"Ne"} |-> IF k = "population_size" THEN g["Ne"] ELSE g[k]]
    ELSE IF cmd = "preprocess_ts" /\ Has(g, "remove_telomeres") /\ ~Has(g, "erase_flanks")
    THEN [k \in (DOMAIN g \cup {"erase_flanks"}) \ {"remove_telomeres"} |->
              IF k = "erase_flanks" THEN g["remove_telomeres"] ELSE g[k]]
    ELSE g

(* "*" = present, value computed by the call (the intervals actually deleted)    *)
PreprocessIntervals(g) ==
    IF Has(g, "delete_intervals")
    THEN [minimum_gap |-> "null", erase_flanks |-> "null", delete_intervals |-> g["delete_intervals"]]
    ELSE [minimum_gap |-> IF Has(g, "minimum_gap") THEN g["minimum_gap"] ELSE "1000000",
          erase_flanks |-> IF Has(g, "erase_flanks") THEN g["erase_flanks"] ELSE "true",
          delete_intervals |-> "*"]

ExpectedParams(cmd, given) ==
    LET g == Unalias(cmd, given)
        W == WrapperDefaults(cmd)
        Pl == IF cmd \in Methods THEN CommonDefaults @@ PlainDefaults(cmd) ELSE PlainDefaults(cmd)
        base == [k \in DOMAIN W \cup DOMAIN Pl |->
                    IF k \in DOMAIN W THEN (IF Has(g, k) THEN g[k] ELSE W[k])
                    ELSE (IF k \in DOMAIN g THEN g[k] ELSE Pl[k])]
    IN  IF cmd = "preprocess_ts" THEN PreprocessIntervals(g) @@ base ELSE base

ParamOK(params, k, want) == k \in DOMAIN params /\ (want = "*" \/ params[k] = want)
(* last = [command, software, valid, params] abstraction of the newest record    *)
RecordOK(last, cmd, given) ==
    LET want == ExpectedParams(cmd, given)
    IN  /\ last.command = cmd
        /\ last.software = "tsdate"
        /\ last.valid
        /\ \A k \in DOMAIN want : ParamOK(last.params, k, want[k])

AppendsExactly(p, q, recording) ==
    /\ IsPrefix(p, q)
    /\ Len(q) = Len(p) + (IF recording THEN 1 ELSE 0)

(* ========================= Part 2: the model =============================== *)
CONSTANTS MaxCalls,      \* history length
          Fns,           \* subset of AllFns
          RecModes,      \* subset of {"on", "off", "default"}
          NOpts,         \* option sets 1..NOpts of the menus below
          TrackCols,     \* model the columns (frame condition) or only provenance
          MdStart0,      \* set of <<schema kind, content kind>> the node table may start with
          MdStart1,      \* ... the mutation table
          EmitHist       \* emit every history step for replay

MdStartBasic == {<<"none", "empty">>}
MdStartSome == {<<"none", "empty">>, <<"perm", "other">>, <<"jclosed", "other">>, <<"none", "raw">>}
MdStartAll == {k \in SchemaKinds \X ContentKinds : Consistent(k[1], k[2])}

AllFns == {"date:variational_gamma", "date:inside_outside", "date:maximization",
           "variational_gamma", "inside_outside", "maximization", "preprocess_ts", "split_disjoint_nodes"}
FnOf(f) == IF f \in {"date:variational_gamma", "date:inside_outside", "date:maximization"} THEN "date" ELSE f
MethodOf(f) ==
    CASE f \in {"date:variational_gamma", "variational_gamma"} -> "variational_gamma"
      [] f \in {"date:inside_outside", "inside_outside"} -> "inside_outside"
      [] f \in {"date:maximization", "maximization"} -> "maximization"
      [] OTHER -> "-"
IsDating(f) == MethodOf(f) # "-"

MU == "0.005"
NE == "100"
(* menus of keyword arguments (beyond record_provenance); JSON texts *)
OptMenu(f) ==
    CASE MethodOf(f) = "variational_gamma" ->
           << [mutation_rate |-> MU],
              [mutation_rate |-> MU, max_iterations |-> "3", rescaling_intervals |-> "5", time_units |-> "\"years\""],
              [mutation_rate |-> MU, singletons_phased |-> "false", set_metadata |-> "false",
               match_segregating_sites |-> "true", min_branch_length |-> "0.001"],
              [mutation_rate |-> MU, max_iterations |-> "null", rescaling_iterations |-> "2", max_shape |-> "500",
               regularise_roots |-> "false", progress |-> "false", set_metadata |-> "true", constr_iterations |-> "2"] >>
      [] MethodOf(f) = "inside_outside" ->
           << [mutation_rate |-> MU, population_size |-> NE],
              [mutation_rate |-> MU, population_size |-> NE, eps |-> "1e-06", probability_space |-> "\"linear\"",
               time_units |-> "\"years\""],
              [mutation_rate |-> MU, Ne |-> "50", outside_standardize |-> "false", ignore_oldest_root |-> "true",
               num_threads |-> "1", set_metadata |-> "true"],
              [mutation_rate |-> MU, population_size |-> "{\"population_size\": [100, 200], \"time_breaks\": [50]}",
               cache_inside |-> "false", eps |-> "null", set_metadata |-> "false"] >>
      [] MethodOf(f) = "maximization" ->
           << [mutation_rate |-> MU, population_size |-> NE],
              [mutation_rate |-> MU, population_size |-> NE, eps |-> "1e-06", probability_space |-> "\"linear\""],
              [mutation_rate |-> MU, Ne |-> "50", num_threads |-> "0", min_branch_length |-> "0.001"],
              [mutation_rate |-> MU, population_size |-> "{\"population_size\": [100, 200], \"time_breaks\": [50]}",
               probability_space |-> "null", progress |-> "false"] >>
      [] f = "preprocess_ts" ->
           << <<>>,
              [minimum_gap |-> "20", remove_telomeres |-> "false"],
              [delete_intervals |-> "[[0, 3]]", split_disjoint |-> "false"],
              [erase_flanks |-> "false", filter_sites |-> "true", filter_populations |-> "true", minimum_gap |-> "null"] >>
      [] OTHER -> << <<>>, <<>>, <<>>, <<>> >>

NOptsOf(f) == IF f = "split_disjoint_nodes" THEN 1 ELSE NOpts
Calls == UNION { { [fn |-> f, rec |-> r, opt |-> k] : r \in RecModes, k \in 1..NOptsOf(f) } : f \in Fns }
Given(call) == OptMenu(call.fn)[call.opt]
Recording(call) == call.rec # "off"
CmdOfCall(call) == Cmd(FnOf(call.fn), MethodOf(call.fn))
Policy(call) ==
    LET g == Given(call)
    IN  IF "set_metadata" \in DOMAIN g /\ g["set_metadata"] \in {"true", "false"} THEN g["set_metadata"] ELSE "none"
Phased(call) ==
    LET g == Given(call)
    IN  ~(MethodOf(call.fn) = "variational_gamma" /\ "singletons_phased" \in DOMAIN g /\ g["singletons_phased"] = "false")
Opts(call) == [method |-> MethodOf(call.fn), sm |-> Policy(call), phased |-> Phased(call),
               recording |-> Recording(call)]
Rec(call) == [command |-> CmdOfCall(call), software |-> "tsdate", valid |-> TRUE,
              params |-> ExpectedParams(CmdOfCall(call), Given(call))]

VARIABLES tables, prov, hist, pc, cur, snap, psnap, mdk
svars == <<tables, prov, hist, pc, cur, snap, psnap, mdk>>
vars == <<svars, mdst>>

N == Len(hist) + 1           \* number of the call in progress = fresh content id
Write(cols) == IF TrackCols THEN tables' = [c \in AllCols |-> IF c \in cols THEN N ELSE tables[c]]
               ELSE UNCHANGED tables
Goto(l) == pc' = l

Init ==
    /\ tables = [c \in AllCols |-> 0]
    /\ prov = <<>> /\ hist = <<>> /\ pc = "idle" /\ cur = [fn |-> "-"] /\ snap = tables /\ psnap = <<>>
    /\ mdk = [T \in MdTables |-> <<"none", "empty">>]
    /\ mdst = MdIdle

(* the instance (starting metadata kinds) is chosen in an action, not in Init *)
ChooseStart ==
    /\ pc = "idle" /\ hist = <<>> /\ cur.fn = "-"
    /\ \E kn \in MdStart0, km \in MdStart1 : mdk' = [T \in MdTables |-> IF T = "nodes" THEN kn ELSE km]
    /\ cur' = [fn |-> "start"]
    /\ UNCHANGED <<tables, prov, hist, pc, snap, psnap, mdst>>

Begin ==
    /\ pc = "idle" /\ cur.fn # "-" /\ Len(hist) < MaxCalls
    /\ \E call \in Calls :
          /\ cur' = call
          /\ Goto(IF IsDating(call.fn) THEN "units" ELSE IF call.fn = "preprocess_ts" THEN "prep" ELSE "split")
    /\ snap' = tables /\ psnap' = prov
    /\ UNCHANGED <<tables, prov, hist, mdk, mdst>>

(* ---- get_modified_ts ---- *)
SetUnits ==     \* tables.time_units = self.time_units
    /\ pc = "units" /\ Write({"time_units"}) /\ Goto("md_nodes")
    /\ UNCHANGED <<prov, hist, cur, snap, psnap, mdk, mdst>>

MdTableAt == IF pc = "md_nodes" THEN "nodes" ELSE "mutations"
MdBegin ==      \* set_time_metadata(table, ...): run module Metadata's procedure
    /\ pc \in {"md_nodes", "md_mutations"} /\ mdst.pc = "idle"
    /\ mdst' = MdCell(MdTableAt, MethodOf(cur.fn), Policy(cur), mdk[MdTableAt][1], mdk[MdTableAt][2])
    /\ UNCHANGED svars
MdRun ==
    /\ pc \in {"md_nodes", "md_mutations"} /\ mdst.pc \notin {"idle", "done"}
    /\ MdStep
    /\ UNCHANGED svars
MdEnd ==
    /\ pc \in {"md_nodes", "md_mutations"} /\ MdDone
    /\ LET T == MdTableAt
           wrote == mdst.outcome \in {"merged", "default"}
       IN  /\ Write((IF wrote THEN {T \o ".metadata"} ELSE {})
                    \cup (IF mdst.s # mdst.s0 THEN {T \o ".schema"} ELSE {})
                    \cup (IF ~mdst.survive THEN {T \o ".md_other"} \cup (IF T = "mutations" THEN {"mutations.node_md"} ELSE {})
                          ELSE {}))
           /\ mdk' = [mdk EXCEPT ![T] = <<mdst.s, mdst.c>>]
    /\ mdst' = MdIdle
    /\ Goto(IF pc = "md_nodes" THEN "md_mutations" ELSE "times")
    /\ UNCHANGED <<prov, hist, cur, snap, psnap>>

SetTimes ==     \* nodes.time = constrain_ages(...)
    /\ pc = "times" /\ Write({"nodes.time"}) /\ Goto("mutnode")
    /\ UNCHANGED <<prov, hist, cur, snap, psnap, mdk, mdst>>
SetMutNode ==   \* mutations.node = mut_node  (same content unless singletons were unphased)
    /\ pc = "mutnode"
    /\ Write(IF Phased(cur) THEN {} ELSE MutNodeCols)
    /\ Goto("zap")
    /\ UNCHANGED <<prov, hist, cur, snap, psnap, mdk, mdst>>
Zap ==          \* mutation time := UNKNOWN, parent := NULL
    /\ pc = "zap" /\ Write({"mutations.time", "mutations.parent"}) /\ Goto("sort")
    /\ UNCHANGED <<prov, hist, cur, snap, psnap, mdk, mdst>>
Sort ==         \* tables.sort(): row orders only; canonical columns keep their content
    /\ pc = "sort" /\ Write(OrderCols) /\ Goto("parents")
    /\ UNCHANGED <<prov, hist, cur, snap, psnap, mdk, mdst>>
ParentsTimes == \* build_index, compute_mutation_parents, compute_mutation_times
    /\ pc = "parents" /\ Write({"mutations.time", "mutations.parent"}) /\ Goto("prov")
    /\ UNCHANGED <<prov, hist, cur, snap, psnap, mdk, mdst>>
RecordProv ==   \* if self.provenance_params is not None: record_provenance(...)
    /\ pc = "prov"
    /\ prov' = IF Recording(cur) THEN Append(prov, Rec(cur)) ELSE prov
    /\ Goto("ret")
    /\ UNCHANGED <<tables, hist, cur, snap, psnap, mdk, mdst>>

(* ---- preprocess_ts / split_disjoint_nodes: everything may change ---- *)
Preprocess ==
    /\ pc \in {"prep", "split"}
    /\ Write(AllCols)
    /\ prov' = IF Recording(cur) THEN Append(prov, Rec(cur)) ELSE prov
    /\ Goto("ret")
    /\ UNCHANGED <<hist, cur, snap, psnap, mdk, mdst>>

Return ==
    /\ pc = "ret"
    /\ hist' = Append(hist, cur)
    /\ Goto("idle")
    /\ IF EmitHist
       THEN Emit("step", [hist |-> hist', given |-> Given(cur), cmd |-> CmdOfCall(cur),
                          recording |-> Recording(cur), nprov |-> Len(prov), opts |-> Opts(cur)])
       ELSE TRUE
    /\ UNCHANGED <<tables, prov, cur, snap, psnap, mdk, mdst>>

Next == ChooseStart \/ Begin \/ SetUnits \/ MdBegin \/ MdRun \/ MdEnd \/ SetTimes \/ SetMutNode \/ Zap \/ Sort
        \/ ParentsTimes \/ RecordProv \/ Preprocess \/ Return
Spec == Init /\ [][Next]_vars

(* ---- properties ---- *)
(* C33 as an action property over every step of the model *)
AppendOnly == [][IsPrefix(prov, prov') /\ Len(prov') <= Len(prov) + 1]_prov
(* ... and per call *)
ProvPerCall ==
    pc = "ret" => /\ AppendsExactly(psnap, prov, Recording(cur))
                  /\ Recording(cur) => RecordOK(prov[Len(prov)], CmdOfCall(cur), Given(cur))
(* C02 per dating call *)
DateFrame == (pc = "ret" /\ IsDating(cur.fn)) => FrameOK(snap, tables, Opts(cur))
(* nothing is touched while a call is only being set up *)
FrameDuringCall ==
    (pc \notin {"idle", "ret", "prep", "split"} /\ IsDating(cur.fn)) => FrameOK(snap, tables, Opts(cur))
(* set_metadata = False leaves metadata and schemas alone (C32 seen from the session) *)
FalseKeepsMetadata ==
    (pc = "ret" /\ IsDating(cur.fn) /\ Policy(cur) = "false") =>
        \A c \in MdCols \cup MdOtherCols : tables[c] = snap[c]
=============================================================================
