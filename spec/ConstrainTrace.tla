------------------------- MODULE ConstrainTrace -------------------------
(* Trace validation (code -> spec) for util.constrain_ages as used by date().    *)
(* One trace line = one real call, abstracted to dense ranks (DESIGN 4, A2) of   *)
(* the finite set of floats involved:                                             *)
(*   mean[u]   unconstrained time handed to the constraint step                   *)
(*   out[u]    time in the returned tree sequence                                 *)
(*   tin[u]    time in the input tree sequence                                    *)
(*   plus[e]   fl(out[child(e)] + eps)            (float64 sum)                   *)
(*   raised[e] max(plus[e], nextafter(out[child(e)]))                             *)
(* Max-plus computations commute with order isomorphisms, so the forced pass of   *)
(* module Constrain is re-run here on ranks, edge by edge, and must reproduce     *)
(* out.  `Checks` selects which statements are demanded (per property).           *)
EXTENDS Naturals, Integers, Sequences, FiniteSets, TLC, Json, IOUtils, VT

CONSTANT Checks

Trace == ndJsonDeserialize(IOEnv.TRACE_FILE)

VARIABLES l, k, time, good, nacc
vars == <<l, k, time, good, nacc>>

Ev == Trace[l]
NE == Len(Ev.ep)
P(e) == Ev.ep[e]
C(e) == Ev.ec[e]
Want(c) == c \in Checks
M(name, cond) == Must(Ev.tid, l, name, cond)

Init == l = 1 /\ k = 0 /\ time = <<>> /\ good = TRUE /\ nacc = 0

(* statements that only need the logged arrays *)
StrictOK      == \A e \in 1..NE : Ev.out[P(e)] > Ev.out[C(e)]
AtLeastPlusOK == \A e \in 1..NE : Ev.out[P(e)] >= Ev.plus[e]
ChildlessFixedKeptOK ==
    \A u \in 1..Ev.n : (Ev.fixed[u] /\ ~\E e \in 1..NE : P(e) = u) => Ev.out[u] = Ev.tin[u]
FixedMinPushOK ==
    \A u \in 1..Ev.n : Ev.fixed[u] =>
        \/ Ev.out[u] = Ev.tin[u]
        \/ /\ Ev.out[u] > Ev.tin[u]
           /\ \E e \in 1..NE : P(e) = u /\ Ev.out[u] \in {Ev.plus[e], Ev.raised[e]}
           /\ \A e \in 1..NE : P(e) = u => Ev.out[u] >= Ev.plus[e]
FeasibleUnchangedOK == Ev.feasible => Ev.out = Ev.mean
IdempotentOK == Ev.out2 = Ev.out
MutationBoundsOK ==
    \A m \in 1..Len(Ev.mt) : /\ Ev.mlo[m] <= Ev.mt[m] /\ Ev.mt[m] <= Ev.mhi[m]
                             /\ (Ev.mroot[m] => Ev.mt[m] = Ev.mlo[m])
FixedMeanIsInputOK == \A u \in 1..Ev.n : Ev.fixed[u] => Ev.mean[u] = Ev.tin[u]

ReplayForce == Want("Minimal") /\ Ev.iters = 0 /\ ~Ev.absorb

Begin ==
    /\ l <= Len(Trace) /\ k = 0
    /\ time' = Ev.mean
    /\ good' = /\ (Want("Strict") => M("Strict", StrictOK))
               /\ (Want("AtLeastPlus") => M("AtLeastPlus", AtLeastPlusOK))
               /\ (Want("ChildlessFixedKept") => M("ChildlessFixedKept", ChildlessFixedKeptOK))
               /\ (Want("FixedMinPush") => M("FixedMinPush", FixedMinPushOK))
               /\ (Want("FixedMeanIsInput") => M("FixedMeanIsInput", FixedMeanIsInputOK))
               /\ (Want("UnchangedIfFeasible") => M("UnchangedIfFeasible", FeasibleUnchangedOK))
               /\ (Want("Idempotent") => M("Idempotent", IdempotentOK))
               /\ (Want("MutationBounds") => M("MutationBounds", MutationBoundsOK))
    /\ k' = IF ReplayForce THEN 1 ELSE NE + 1
    /\ UNCHANGED <<l, nacc>>

(* Constrain!Force on ranks *)
ForceStep ==
    /\ l <= Len(Trace) /\ k >= 1 /\ k <= NE
    /\ good' = (good /\ M("Minimal:child_final_before_use", time[C(k)] = Ev.out[C(k)]))
    /\ time' = IF Ev.plus[k] >= time[P(k)] THEN [time EXCEPT ![P(k)] = Ev.raised[k]] ELSE time
    /\ k' = k + 1
    /\ UNCHANGED <<l, nacc>>

End ==
    /\ l <= Len(Trace) /\ k = NE + 1
    /\ LET ok == good /\ (ReplayForce => M("Minimal:out_is_least_fixpoint", time = Ev.out))
       IN  nacc' = nacc + (IF ok THEN 1 ELSE 0)
    /\ l' = l + 1 /\ k' = 0 /\ time' = <<>> /\ good' = TRUE

Finish ==
    /\ l = Len(Trace) + 1
    /\ Emit("accepted", [accepted |-> nacc, lines |-> Len(Trace)])
    /\ l' = l + 1
    /\ UNCHANGED <<k, time, good, nacc>>

TraceNext == Begin \/ ForceStep \/ End \/ Finish
TraceSpec == Init /\ [][TraceNext]_vars
Accepted == TRUE
=========================================================================
