---------------------------- MODULE RelationalTrace ----------------------------
(* Trace validation (code -> spec) for the relational statements C06 - C09.       *)
(* One trace line = one metamorphic pair of *real* calls (or one step of a call   *)
(* history on one real prior object), abstracted by                               *)
(*   A4  named tolerance predicates evaluated by the harness on the two outputs:  *)
(*       c12[q] / c9[q] / cl[q]  for every output q  (q scaled by c^exps[q]);     *)
(*       cl = the loose class for non-dyadic factors (tolerances in the evidence) *)
(*   A3  interned ids of byte strings: ida[x] / idb[x] for x in IdComps           *)
(* The expected relation is taken from module Relational:                         *)
(*   kind "time" / "genome"   outputs scale with the exponents OutExp; dyadic     *)
(*                            factors are judged with close12, others with closeL *)
(*                            (the loose class); a maximisation pair within 1e-9  *)
(*                            of an arg-max tie is discarded                      *)
(*   kind "irrelevant"        Verdict(opts, S) = "same" => every output close12   *)
(*   kind "control"           nothing demanded (the statement is silent)          *)
(*   kind "repeat" / "fresh" / "threads"   ida = idb on every component           *)
(*   kind "reuse"             the result is the fresh-prior result (close9); the  *)
(*                            object's space before the call is the one tracked,  *)
(*                            after it either Relational!Force's or untouched     *)
EXTENDS Naturals, Integers, Sequences, FiniteSets, TLC, Json, IOUtils, VT

CONSTANT Kinds       \* the kinds of event this property demands (others are rejected)

R == INSTANCE Relational WITH MaxHist <- 4, Cs <- {}, Vals <- {}, EmitDone <- FALSE,
                              pc <- "trace", opt <- 0, applied <- {}, ver <- <<>>, unit <- <<>>,
                              hist <- <<>>, prior <- <<>>

Trace == ndJsonDeserialize(IOEnv.TRACE_FILE)

VARIABLES l, sp, nacc
vars == <<l, sp, nacc>>

Ev == Trace[l]
M(name, cond) == Must(Ev.tid, l, name, cond)

IdComps == {"node_time", "mutation_time", "node_metadata", "mutation_metadata", "mutation_node"}
Outs == R!OutputsOf(Ev.method)
SetOf(s) == { s[j] : j \in 1..Len(s) }

Init == l = 1 /\ sp = [space |-> "linear", tid |-> ""] /\ nacc = 0

ScaleOK ==
    IF Ev.discard THEN TRUE
    ELSE /\ M(Ev.kind \o ":method", Ev.method \in R!Methods)
         /\ \A q \in Outs : M(Ev.kind \o ":exponent:" \o q, Ev.exps[q] = R!OutExp(Ev.kind, Ev.method)[q])
         /\ \A q \in Outs : M(Ev.kind \o (IF Ev.exact THEN ":close12:" ELSE ":closeL:") \o q,
                              IF Ev.exact THEN Ev.c12[q] ELSE Ev.cl[q])

IrrOK ==
    /\ M("irrelevant:known_items", SetOf(Ev.S) \subseteq (R!Menu \cup R!Controls))
    /\ IF R!Verdict(R!OptOf(Ev.optkey), SetOf(Ev.S)) = "same"
       THEN \A q \in Outs : M("irrelevant:close12:" \o q, Ev.c12[q])
       ELSE TRUE

SameOK ==
    /\ (Ev.kind = "threads" => M("threads:discrete_method", Ev.method \in R!Discrete))
    /\ \A x \in IdComps : M(Ev.kind \o ":identical:" \o x, Ev.ida[x] = Ev.idb[x])

(* The prior object as the specification tracks it.  The statement of C09 only    *)
(* speaks about results; what happens to the user's object is left open, so the   *)
(* trace accepts both Relational!Force on the object itself (as implemented: the  *)
(* space follows the last call) and a call that leaves the object as it was.      *)
(* Which of the two was observed, and whether the linear content was kept, are    *)
(* reported by the harness as counts.                                             *)
Tracked == IF Ev.step = 1 \/ sp.tid # Ev.hid THEN "linear" ELSE sp.space
ReuseOK ==
    LET before == [built |-> TRUE, space |-> Tracked, conv |-> 0]
        after == R!Force(before, Ev.call_space)
    IN  /\ M("reuse:discrete_method", Ev.method \in R!Discrete /\ Ev.call_space \in R!Spaces)
        /\ M("reuse:space_before_is_tracked", Ev.space_before = before.space)
        /\ M("reuse:space_after_is_forced_or_untouched", Ev.space_after \in {after.space, before.space})
        /\ IF Ev.discard THEN TRUE      \* maximisation within 1e-9 of an arg-max tie
           ELSE \A q \in Outs : M("reuse:result_is_fresh:" \o q, Ev.c9[q])

Step ==
    /\ l <= Len(Trace)
    /\ LET ok == /\ M("kind_demanded", Ev.kind \in Kinds)
                 /\ CASE Ev.kind \in {"time", "genome"} -> ScaleOK
                      [] Ev.kind = "irrelevant" -> IrrOK
                      [] Ev.kind = "control" -> TRUE
                      [] Ev.kind \in {"repeat", "fresh", "threads"} -> SameOK
                      [] Ev.kind = "reuse" -> ReuseOK
                      [] OTHER -> M("known_kind", FALSE)
       IN  nacc' = nacc + (IF ok THEN 1 ELSE 0)
    /\ sp' = IF Ev.kind = "reuse" THEN [space |-> Ev.space_after, tid |-> Ev.hid] ELSE sp
    /\ l' = l + 1

Finish ==
    /\ l = Len(Trace) + 1
    /\ Emit("accepted", [accepted |-> nacc, lines |-> Len(Trace)])
    /\ l' = l + 1
    /\ UNCHANGED <<sp, nacc>>

TraceNext == Step \/ Finish
TraceSpec == Init /\ [][TraceNext]_vars
=============================================================================
