------------------------------ MODULE Demography ------------------------------
(* tsdate/demography.py PopulationSizeHistory in exact rationals (C17).           *)
(*                                                                                *)
(* Code-shaped part: ChangeTimeMeasure is _change_time_measure line by line       *)
(* (searchsorted(side="right") - 1, cumulative `step`), Build is __init__,        *)
(* ToCoalescent / ToNatural / AsDict / GammaToNatural1 the public methods.        *)
(* Declarative part: Integral(t) = int_0^t dtau / (2 N(tau)) over the piecewise   *)
(* constant N, and its inverse InvIntegral(x) = int_0^x 2 N(tau(y)) dy.           *)
(* TLC checks, for every history in scope and every time of a lattice, that the   *)
(* code-shaped maps equal the declarative ones, are mutually inverse, continuous  *)
(* at the breaks, strictly increasing and fix 0, that as_dict() rebuilds the same *)
(* object, and that a constant size rescales a gamma exactly; every case is       *)
(* emitted for replay into the real class (vt/props/c17.py).                      *)
EXTENDS Rat, Integers, Sequences, SequencesExt, FiniteSets, TLC, VT

CONSTANTS MaxEpochs,     \* 1..MaxEpochs epochs
          SizeNums, SizeDen,   \* diploid sizes N are x / SizeDen for x in SizeNums
          MaxBreak,      \* epoch breaks are integers in 1..MaxBreak
          TimeDen,       \* times are i / TimeDen ...
          MaxTimeNum,    \* ... for i in 0..MaxTimeNum
          GammaNums, GammaDen, \* gamma shapes and rates x / GammaDen tried for the constant-size rescaling
          EmitDone

VARIABLES h, obj, out, pc
vars == <<h, obj, out, pc>>
(* h   = [N |-> sizes, breaks |-> strictly increasing positive breaks]   (the arguments)  *)
(* obj = [tb, ps, cb, cr] = time_breaks, population_size (=2N), coalescent_breaks, _rate  *)

SizeSet == { RNorm(x, SizeDen) : x \in SizeNums }
GammaSet == { RNorm(x, GammaDen) : x \in GammaNums }
Lattice == [i \in 1..(MaxTimeNum + 1) |-> RNorm(i - 1, TimeDen)]

(* ---------------- code-shaped ---------------------------------------------------- *)
(* np.searchsorted(B, t, side="right") - 1, as a 1-based index                       *)
SearchRight(B, t) == Cardinality({ i \in 1..Len(B) : RLe(B[i], t) })

(* step = concatenate([0], cumsum(B[1:] * (1/M[:-1] - 1/M[1:])))                      *)
RECURSIVE StepAt(_, _, _)
StepAt(B, M, i) == IF i = 1 THEN RZero
                   ELSE RAdd(StepAt(B, M, i - 1), RMul(B[i], RSub(RInv(M[i - 1]), RInv(M[i]))))

ChangeTimeMeasure(T, B, M) ==       \* T a sequence of times; returns the code's triple
    [t  |-> [j \in 1..Len(T) |-> LET idx == SearchRight(B, T[j])
                                 IN  RAdd(RMul(T[j], RInv(M[idx])), StepAt(B, M, idx))],
     b  |-> [i \in 1..Len(B) |-> RAdd(RMul(B[i], RInv(M[i])), StepAt(B, M, i))],
     m  |-> [i \in 1..Len(M) |-> RInv(M[i])]]

Build(N, breaks) ==                  \* __init__
    LET tb == <<RZero>> \o breaks
        ps == [i \in 1..Len(N) |-> RMul(RInt(2), N[i])]
        r  == ChangeTimeMeasure(tb, tb, ps)
    IN  [tb |-> tb, ps |-> ps, cb |-> r.b, cr |-> r.m]

ToCoalescent(o, T) == ChangeTimeMeasure(T, o.tb, o.ps).t
ToNatural(o, X)    == ChangeTimeMeasure(X, o.cb, o.cr).t
AsDict(o) == [population_size |-> [i \in 1..Len(o.ps) |-> RDiv(o.ps[i], RInt(2))],
              time_breaks |-> Tail(o.tb)]

(* gamma_to_natural for a single epoch: cdf_breaks = [0, inf], so every difference   *)
(* of regularised incomplete gammas is 1 and C*Gamma(s+j)/r^(s+j) = s(s+1).../r^j     *)
GammaToNatural1(o, s, r) ==
    LET cdf0 == ROne
        cdf1 == RDiv(s, r)
        cdf2 == RDiv(RMul(s, RAdd(s, ROne)), RSq(r))
        mn0  == RSub(o.tb[1], RMul(o.ps[1], o.cb[1]))
        mn1  == o.ps[1]
        mn   == RAdd(RMul(mn1, cdf1), RMul(mn0, cdf0))
        va   == RSub(RAdd(RAdd(RMul(RSq(mn1), cdf2), RMul(RMul(RMul(mn0, mn1), RInt(2)), cdf1)),
                          RMul(RSq(mn0), cdf0)), RSq(mn))
    IN  <<RDiv(RSq(mn), va), RDiv(mn, va)>>

(* ---------------- declarative ---------------------------------------------------- *)
RMin2(x, y) == IF RLt(x, y) THEN x ELSE y
(* length of [B[i], B[i+1]) /\ [0, t)   (last piece unbounded)                        *)
Overlap(B, i, t) ==
    LET hi == IF i = Len(B) THEN t ELSE RMin2(t, B[i + 1])
    IN  IF RLt(B[i], hi) THEN RSub(hi, B[i]) ELSE RZero
(* int_0^t 1/Measure, Measure = M[i] on [B[i], B[i+1])                                *)
IntegralOf(B, M, t) == RSumRange(1, Len(B), LAMBDA i : RDiv(Overlap(B, i, t), M[i]))

Integral(N, breaks, t) ==            \* generations -> coalescent units: measure 2N
    IntegralOf(<<RZero>> \o breaks, [i \in 1..Len(N) |-> RMul(RInt(2), N[i])], t)
CoalBreaks(N, breaks) == [i \in 1..Len(N) |-> Integral(N, breaks, (<<RZero>> \o breaks)[i])]
InvIntegral(N, breaks, x) ==         \* coalescent units -> generations: measure 1/(2N) on the images
    IntegralOf(CoalBreaks(N, breaks), [i \in 1..Len(N) |-> RInv(RMul(RInt(2), N[i]))], x)

(* ---------------- the machine ------------------------------------------------------ *)
IncSeqs(m) == { s \in [1..m -> 1..MaxBreak] : \A i \in 1..(m - 1) : s[i] < s[i + 1] }

Init == h = <<>> /\ obj = <<>> /\ out = <<>> /\ pc = "choose"

Choose == /\ pc = "choose"
          /\ \E ne \in 1..MaxEpochs :
               \E N \in [1..ne -> SizeSet], br \in IncSeqs(ne - 1) :
                  h' = [N |-> N, breaks |-> [i \in 1..(ne - 1) |-> RInt(br[i])]]
          /\ pc' = "build" /\ UNCHANGED <<obj, out>>

Construct == /\ pc = "build"
             /\ obj' = Build(h.N, h.breaks)
             /\ pc' = "convert" /\ UNCHANGED <<h, out>>

Convert == /\ pc = "convert"
           /\ LET coal == ToCoalescent(obj, Lattice)
                  o2 == Build(AsDict(obj).population_size, AsDict(obj).time_breaks)
              IN  out' = [coal |-> coal,
                          back |-> ToNatural(obj, coal),            \* generations -> coal -> generations
                          nat  |-> ToNatural(obj, Lattice),         \* lattice read as coalescent times
                          fwd  |-> ToCoalescent(obj, ToNatural(obj, Lattice)),
                          again |-> o2]
           /\ pc' = "done" /\ UNCHANGED <<h, obj>>

Next == Choose \/ Construct \/ Convert
Spec == Init /\ [][Next]_vars

(* ---------------- properties (C17) ------------------------------------------------- *)
Done == pc = "done"
NL == MaxTimeNum + 1
NEp == Len(h.N)

IsIntegral == Done => /\ \A j \in 1..NL : out.coal[j] = Integral(h.N, h.breaks, Lattice[j])
                      /\ obj.cb = CoalBreaks(h.N, h.breaks)
                      /\ \A i \in 1..NEp : obj.cr[i] = RInv(RMul(RInt(2), h.N[i]))
IsInverse == Done => /\ out.back = Lattice /\ out.fwd = Lattice
                     /\ \A j \in 1..NL : out.nat[j] = InvIntegral(h.N, h.breaks, Lattice[j])
FixesZero == Done => out.coal[1] = RZero /\ out.nat[1] = RZero
StrictlyIncreasing == Done => \A j \in 1..(NL - 1) : RLt(out.coal[j], out.coal[j + 1]) /\ RLt(out.nat[j], out.nat[j + 1])
(* continuity: at a break both adjacent linear pieces give the same value            *)
Piece(B, M, i, t) == RAdd(RMul(t, RInv(M[i])), StepAt(B, M, i))
Continuous == Done => \A i \in 2..NEp :
                 /\ Piece(obj.tb, obj.ps, i - 1, obj.tb[i]) = Piece(obj.tb, obj.ps, i, obj.tb[i])
                 /\ Piece(obj.cb, obj.cr, i - 1, obj.cb[i]) = Piece(obj.cb, obj.cr, i, obj.cb[i])
BreaksMapped == Done => /\ obj.cb[1] = RZero
                        /\ \A i \in 1..(NEp - 1) : RLt(obj.cb[i], obj.cb[i + 1])
                        /\ ToNatural(obj, obj.cb) = obj.tb
AsDictRoundTrip == Done => /\ out.again = obj
                           /\ AsDict(obj).population_size = h.N /\ AsDict(obj).time_breaks = h.breaks
GammaConstant == (Done /\ NEp = 1) =>
    \A s \in GammaSet, r \in GammaSet :
        GammaToNatural1(obj, s, r) = <<s, RDiv(r, RMul(RInt(2), h.N[1]))>>

EmitInv == (Done /\ EmitDone) =>
    Emit("demo", [N |-> h.N, breaks |-> h.breaks, times |-> Lattice, coal |-> out.coal, nat |-> out.nat,
                  cb |-> obj.cb, cr |-> obj.cr,
                  gamma |-> IF NEp = 1 THEN SetToSeq({ <<s, r, GammaToNatural1(obj, s, r)>> : s \in GammaSet, r \in GammaSet })
                            ELSE <<>>])
=============================================================================
