-------------------------------- MODULE QQ --------------------------------
(* Exact rationals <<num, den>> (den > 0, lowest terms) for the EP models.    *)
(* TLC integers are 32-bit: QOk bounds numerators/denominators so that the    *)
(* products formed below cannot overflow silently; models assert it.          *)
EXTENDS Naturals, Integers, TLC

RECURSIVE Gcd(_, _)
Gcd(a, b) == IF b = 0 THEN a ELSE Gcd(b, a % b)
QAbs(x) == IF x < 0 THEN -x ELSE x
QNorm(n, d) == LET s == IF d < 0 THEN -1 ELSE 1
                   g == Gcd(QAbs(n), QAbs(d))
               IN  IF n = 0 THEN <<0, 1>> ELSE <<(s * n) \div g, (s * d) \div g>>
Q(n) == <<n, 1>>
QAdd(a, b) == QNorm(a[1] * b[2] + b[1] * a[2], a[2] * b[2])
QSub(a, b) == QNorm(a[1] * b[2] - b[1] * a[2], a[2] * b[2])
QMul(a, b) == QNorm(a[1] * b[1], a[2] * b[2])
QDiv(a, b) == QNorm(a[1] * b[2], a[2] * b[1])
QLt(a, b) == a[1] * b[2] < b[1] * a[2]
QLe(a, b) == a[1] * b[2] <= b[1] * a[2]
QEq(a, b) == a[1] * b[2] = b[1] * a[2]
QMin(a, b) == IF QLe(a, b) THEN a ELSE b
QZero == <<0, 1>>
QOne == <<1, 1>>
QBound == 30000
QOk(a) == QAbs(a[1]) <= QBound /\ a[2] <= QBound /\ a[2] > 0
(* pairs of rationals = gamma natural parameters <<alpha, beta>> (shape-1, rate) *)
PAdd(x, y) == <<QAdd(x[1], y[1]), QAdd(x[2], y[2])>>
PSub(x, y) == <<QSub(x[1], y[1]), QSub(x[2], y[2])>>
PScale(c, x) == <<QMul(c, x[1]), QMul(c, x[2])>>
PZero == <<QZero, QZero>>
POk(x) == QOk(x[1]) /\ QOk(x[2])
===========================================================================
