------------------------------ MODULE LikPoolTrace ------------------------------
(* Trace validation (code -> spec) of precalculate_mutation_likelihoods.          *)
(* One trace line = one real call of a discrete method with num_threads = W >= 2  *)
(* observed through the guarded hook tsdate.discrete._verif_arrivals:             *)
(*   K         number of keys of unfixed_likelihood_cache (insertion order 1..K)   *)
(*   arrivals  the keys in the order the parent received them (hook)              *)
(*   cache[k]  interned id (A3) of the row found under key k after the call       *)
(*   expect[k] interned id of the row of key k computed by the sequential loop    *)
(*             (num_threads = None) on the same input                             *)
(* The actions are those of module LikPool (FillBy = "key"): the logged arrival   *)
(* order is replayed as a sequence of Finish steps; the trace is accepted when    *)
(* every key arrives exactly once and the cache the code ended with is the cache  *)
(* the specification ends with.                                                   *)
EXTENDS Naturals, Integers, Sequences, FiniteSets, TLC, Json, IOUtils, VT

Trace == ndJsonDeserialize(IOEnv.TRACE_FILE)

VARIABLES l, i, pending, cache, good, nacc
vars == <<l, i, pending, cache, good, nacc>>

Ev == Trace[l]
M(name, cond) == Must(Ev.tid, l, name, cond)

Init == l = 1 /\ i = 0 /\ pending = {} /\ cache = <<>> /\ good = TRUE /\ nacc = 0

Begin ==
    /\ l <= Len(Trace) /\ i = 0
    /\ pending' = 1..Ev.K
    /\ cache' = [k \in 1..Ev.K |-> 0]                \* 0 = None
    /\ good' = /\ M("shape", Len(Ev.cache) = Ev.K /\ Len(Ev.expect) = Ev.K)
               /\ M("expect_rows_present", \A k \in 1..Len(Ev.expect) : Ev.expect[k] # 0)
    /\ i' = 1
    /\ UNCHANGED <<l, nacc>>

(* LikPool!Finish for the worker that ran key Ev.arrivals[i] *)
FinishStep ==
    /\ l <= Len(Trace) /\ i >= 1 /\ i <= Len(Ev.arrivals)
    /\ LET key == Ev.arrivals[i] IN
         /\ good' = (good /\ M("arrives_exactly_once", key \in pending))
         /\ pending' = pending \ {key}
         /\ cache' = IF key \in 1..Ev.K THEN [cache EXCEPT ![key] = Ev.expect[key]] ELSE cache
    /\ i' = i + 1
    /\ UNCHANGED <<l, nacc>>

End ==
    /\ l <= Len(Trace) /\ i = Len(Ev.arrivals) + 1
    /\ LET ok == /\ good
                 /\ M("all_keys_arrived", pending = {})
                 /\ M("cache_holds_each_keys_row", Len(Ev.cache) = Ev.K /\ cache = Ev.cache)
       IN  nacc' = nacc + (IF ok THEN 1 ELSE 0)
    /\ l' = l + 1 /\ i' = 0 /\ pending' = {} /\ cache' = <<>> /\ good' = TRUE

Finish ==
    /\ l = Len(Trace) + 1
    /\ Emit("accepted", [accepted |-> nacc, lines |-> Len(Trace)])
    /\ l' = l + 1
    /\ UNCHANGED <<i, pending, cache, good, nacc>>

TraceNext == Begin \/ FinishStep \/ End \/ Finish
TraceSpec == Init /\ [][TraceNext]_vars
=============================================================================
