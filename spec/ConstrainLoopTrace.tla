------------------------- MODULE ConstrainLoopTrace -------------------------
(* Step-by-step trace validation of util._constrain_ages (C01 / C03 / C27): the   *)
(* loop-head recorder (vt/looptrace_constrain.py, numba JIT off) logs nodes_time   *)
(* and edges_cavity at every evaluation of the two inner loop heads.  Every logged  *)
(* state must equal the state of module Constrain's machine, which is advanced by   *)
(* Constrain!Project / Constrain!Force between consecutive heads (and by EarlyExit   *)
(* where the code returns from the alternating-projections loop); the returned       *)
(* vector must equal the machine's final state.  Lines: begin, head*, end.          *)
EXTENDS Constrain, Json, IOUtils

Trace == ndJsonDeserialize(IOEnv.TRACE_FILE)
VARIABLES l, good, nacc
tvars == <<vars, l, good, nacc>>
Ev == Trace[l]
M(name, cond) == Must(Ev.tid, l, name, cond)
D(name, cond) == Drift(Ev.tid, l, name, cond)

TInit == Init /\ l = 1 /\ good = TRUE /\ nacc = 0

Begin ==
    /\ l <= Len(Trace) /\ Ev.kind = "begin" /\ pc \in {"choose", "done"}
    /\ LET es == [e \in 1..Len(Ev.edges) |-> <<Ev.edges[e][1] - 1, Ev.edges[e][2] - 1>>]
           m == [u \in Nodes |-> Ev.mean[u + 1]]
       IN  /\ inst' = [edges |-> es, mean |-> m, fixed |-> { Ev.fixed[i] - 1 : i \in 1..Len(Ev.fixed) },
                       eps |-> Ev.eps, iters |-> Ev.iters]
           /\ time' = [u \in Nodes |-> m[u] * Ev.scale]
           /\ cav' = [e \in 1..Len(es) |-> <<0, 0>>]
    /\ k' = 1 /\ it' = 0 /\ pc' = IF Ev.iters = 0 THEN "force" ELSE "lsq"
    /\ good' = TRUE /\ l' = l + 1 /\ UNCHANGED nacc

(* internal state: conformance only (drift), not a property clause *)
StateMatches ==
    /\ D("nodes_time", \A u \in Nodes : time[u] = Ev.time[u + 1])
    /\ D("edges_cavity", \A e \in 1..NE : cav[e] = <<Ev.cav[e][1], Ev.cav[e][2]>>)
    /\ D("loop", (Ev.loop = "lsq" /\ (pc = "lsq" \/ (Ev.exit /\ pc = "force"))) \/ (Ev.loop = "force" /\ pc \in {"force", "done"}))

(* an iteration of one of the two loops starts: check the state, then take the machine's step *)
Iter ==
    /\ l <= Len(Trace) /\ Ev.kind = "head" /\ ~Ev.exit
    /\ StateMatches /\ good' = good
    /\ IF Ev.loop = "lsq" /\ pc = "lsq" THEN Project
       ELSE IF Ev.loop = "force" /\ pc = "force" THEN Force
       ELSE UNCHANGED vars
    /\ l' = l + 1 /\ UNCHANGED nacc
(* a loop ends: the state after its last step *)
Exit ==
    /\ l <= Len(Trace) /\ Ev.kind = "head" /\ Ev.exit
    /\ StateMatches /\ good' = good
    /\ l' = l + 1 /\ UNCHANGED <<vars, nacc>>
(* the code returned from inside the alternating-projections loop *)
Early ==
    /\ l <= Len(Trace) /\ Ev.kind = "end" /\ pc = "lsq" /\ EarlyExit
    /\ UNCHANGED <<l, good, nacc>>
(* the properties are evaluated on what the call *returned* (Ev.time), whatever the machine did *)
RT(u) == Ev.time[u + 1]
RStrict == \A e \in 1..NE : RT(Par(e)) > RT(Chi(e))
RAtLeastPlus == \A e \in 1..NE : RT(Par(e)) >= RT(Chi(e)) + Eps
RMinimal == inst.iters = 0 => \A u \in Nodes : RT(u) = Lfp(u)
RFixed == \A u \in inst.fixed :
    \/ RT(u) = In(u)
    \/ /\ RT(u) > In(u) /\ \E e \in 1..NE : Par(e) = u /\ RT(u) = Raised(RT(Chi(e)))
RFeasibleUnchanged == Feasible => \A u \in Nodes : RT(u) = In(u)
End ==
    /\ l <= Len(Trace) /\ Ev.kind = "end" /\ (pc # "lsq" \/ ~(k = 1 /\ it < inst.iters /\ AllSlack))
    /\ LET ok == /\ good
                 /\ D("machine ran to completion", pc = "done")
                 /\ D("returned nodes_time equals the machine's final state", \A u \in Nodes : time[u] = RT(u))
                 /\ M("Strict", RStrict) /\ M("AtLeastPlus", RAtLeastPlus) /\ M("Minimal", RMinimal)
                 /\ M("FixedOnlyMinimallyPushed", RFixed) /\ M("UnchangedIfFeasible", RFeasibleUnchanged)
       IN  /\ nacc' = nacc + (IF ok THEN 1 ELSE 0)
           /\ Emit("verdict", [tid |-> Ev.tid, ok |-> ok])
    /\ l' = l + 1 /\ good' = TRUE /\ UNCHANGED vars
Fin == /\ l = Len(Trace) + 1 /\ Emit("accepted", [accepted |-> nacc, lines |-> Len(Trace)])
       /\ l' = l + 1 /\ UNCHANGED <<vars, good, nacc>>

TraceNext == Begin \/ Iter \/ Exit \/ Early \/ End \/ Fin
TraceSpec == TInit /\ [][TraceNext]_tvars
=============================================================================
