--------------------------- MODULE RescaleTrace ---------------------------
(* Trace validation (code -> spec) for the rescaling step.  One line = one real  *)
(* call, floats abstracted to dense ranks (order-isomorphic) and named tolerance *)
(* predicates evaluated by the harness (vt/rescale_common.py):                    *)
(*                                                                                *)
(* kind = "ep": ExpectationPropagation.rescale()  (C25)                           *)
(*   fixed[u]        node is fixed (a sample)                                     *)
(*   before[u], after[u]   rank of the posterior mean before / after, one rank    *)
(*                   space for both                                               *)
(*   var0[u]         posterior variance reported as exactly 0 after the call      *)
(*   shape_ok[u]     shape of the rescaled posterior <= max_shape                 *)
(*   mean_ok[u]      rescaled mean = map(old mean) within rel 1e-9, the map       *)
(*                   rebuilt from the breakpoints the call used                   *)
(*   ob[k], rb[k]    ranks of the original / rescaled breakpoints (own spaces)    *)
(*   ob0, rb0        first breakpoint is exactly 0.0                              *)
(*   probe[i]        ranks of the real point-estimate kernel's map at increasing  *)
(*                   probe points (breakpoints, their float neighbours, midpoints, *)
(*                   a point beyond the last break)                               *)
(*   cont_ok[k]      the kernel's map is continuous at breakpoint k (value just   *)
(*                   below / at / just above agree within rel 1e-9)               *)
(*                                                                                *)
(* kind = "ts": rescale_tree_sequence()  (C37)                                    *)
(*   valid           tskit accepts the returned tables                            *)
(*   sample[u], tin[u], tout[u]  sample flag, ranks of input / output node times  *)
(*                   (one space)                                                  *)
(*   ein, eout, sin, sout, mnin, mnout   edge rows <<left, right, parent, child>>, *)
(*                   site positions and mutation nodes of input and output        *)
(*                   (coordinates interned)                                       *)
(*   mt[m], mid[m], mnode[m], mroot[m]   rank of the output mutation time, of the *)
(*                   midpoint (tout[parent] + tout[child]) / 2 of its branch in   *)
(*                   the output tree, of its node's time, and whether it is above *)
(*                   a root (same rank space as tout)                             *)
EXTENDS Naturals, Integers, Sequences, FiniteSets, TLC, Json, IOUtils, VT

CONSTANT Checks

Trace == ndJsonDeserialize(IOEnv.TRACE_FILE)

VARIABLES l, nacc
vars == <<l, nacc>>

Ev == Trace[l]
Want(c) == c \in Checks
M(name, cond) == Must(Ev.tid, l, name, cond)
Init == l = 1 /\ nacc = 0

Free == { u \in 1..Ev.n : ~Ev.fixed[u] }

(* ---- C25 ---- *)
OrderPreservedOK == \A u \in Free, v \in Free : Ev.before[u] <= Ev.before[v] => Ev.after[u] <= Ev.after[v]
SamplesUntouchedOK == \A u \in 1..Ev.n : Ev.fixed[u] => (Ev.after[u] = Ev.before[u] /\ Ev.var0[u])
ShapeCapOK == \A u \in Free : Ev.shape_ok[u]
MeanMappedOK == \A u \in Free : Ev.mean_ok[u]
BreaksMonotoneOK == /\ \A k \in 1..(Len(Ev.ob) - 1) : Ev.ob[k] < Ev.ob[k + 1]
                    /\ \A k \in 1..(Len(Ev.rb) - 1) : Ev.rb[k] <= Ev.rb[k + 1]
                    /\ Len(Ev.ob) = Len(Ev.rb) /\ Len(Ev.ob) >= 2
FixesZeroOK == Ev.ob0 /\ Ev.rb0
MapMonotoneOK == \A i \in 1..(Len(Ev.probe) - 1) : Ev.probe[i] <= Ev.probe[i + 1]
MapContinuousOK == \A k \in 1..Len(Ev.cont_ok) : Ev.cont_ok[k]

EpOK == /\ (Want("OrderPreserved") => M("OrderPreserved", OrderPreservedOK))
        /\ (Want("SamplesUntouched") => M("SamplesUntouched", SamplesUntouchedOK))
        /\ (Want("ShapeCap") => M("ShapeCap", ShapeCapOK))
        /\ (Want("MeanMapped") => M("MeanMapped", MeanMappedOK))
        /\ (Want("BreaksMonotone") => M("BreaksMonotone", BreaksMonotoneOK))
        /\ (Want("FixesZero") => M("FixesZero", FixesZeroOK))
        /\ (Want("MapMonotone") => M("MapMonotone", MapMonotoneOK))
        /\ (Want("MapContinuous") => M("MapContinuous", MapContinuousOK))

(* ---- C37 ---- *)
NonSamples == { u \in 1..Ev.n : ~Ev.sample[u] }
ValidOK == Ev.valid
TopologyOK == Ev.eout = Ev.ein /\ Ev.sout = Ev.sin /\ Ev.mnout = Ev.mnin
SampleTimesOK == \A u \in 1..Ev.n : Ev.sample[u] => Ev.tout[u] = Ev.tin[u]
NonDecreasingOK == \A u \in NonSamples, v \in NonSamples : Ev.tin[u] <= Ev.tin[v] => Ev.tout[u] <= Ev.tout[v]
MutationTimesOK == \A m \in 1..Len(Ev.mt) : Ev.mt[m] = (IF Ev.mroot[m] THEN Ev.mnode[m] ELSE Ev.mid[m])

TsOK == /\ (Want("Valid") => M("Valid", ValidOK))
        /\ (Want("Topology") => M("Topology", TopologyOK))
        /\ (Want("SampleTimes") => M("SampleTimes", SampleTimesOK))
        /\ (Want("NonDecreasing") => M("NonDecreasing", NonDecreasingOK))
        /\ (Want("MutationTimes") => M("MutationTimes", MutationTimesOK))

Step ==
    /\ l <= Len(Trace)
    /\ LET ok == IF Ev.kind = "ep" THEN EpOK ELSE TsOK IN nacc' = nacc + (IF ok THEN 1 ELSE 0)
    /\ l' = l + 1

Finish ==
    /\ l = Len(Trace) + 1
    /\ Emit("accepted", [accepted |-> nacc, lines |-> Len(Trace)])
    /\ l' = l + 1 /\ UNCHANGED nacc

TraceNext == Step \/ Finish
TraceSpec == Init /\ [][TraceNext]_vars
=========================================================================
