INIT Init
NEXT Next
CONSTANTS
  N = 4
  T = 2
  Iters = {0, 1}
  EpsSet = {1}
  MaxEdges = 4
  FixedMode = "any"
  ForceVariant = "plain"
  EmitDone = FALSE
INVARIANT Strict
INVARIANT AtLeastPlus
INVARIANT Minimal
INVARIANT UnchangedIfFeasible
INVARIANT ChildlessFixedKept
INVARIANT FixedOnlyMinimallyPushed
INVARIANT FixedNeverMovedByLsq
INVARIANT Exact
CHECK_DEADLOCK FALSE
