------------------------------- MODULE Blocks -------------------------------
(* phasing._block_singletons as a state machine (one action per breakpoint of  *)
(* the edge-diff sweep), against the declarative definition used by C24:        *)
(* for an unphased diploid individual with nodes (n1, n2), a *block* is a       *)
(* maximal genomic interval over which both nodes have a parent edge and the    *)
(* two edges stay the same; it holds the interval's length and the number of    *)
(* mutations on n1 or n2 positioned inside it.                                  *)
(* Individuals: sample nodes 2i, 2i+1 form individual i (0 <= i < NumInd).      *)
EXTENDS TSGen

CONSTANTS NumInd, EmitDone

Inds == 0..(NumInd - 1)
IndOf(u) == IF u < 2 * NumInd THEN u \div 2 ELSE NULL

VARIABLES unph, E, ins, rem, mutq, left, a, b, d, st, pc
vars == <<g, unph, E, ins, rem, mutq, left, a, b, d, st, pc>>
(* st = [ie |-> individuals_edges (pairs, 0 = NULL), ipos, ising, iblk (0 = NULL, else id+1), *)
(*       mblk |-> mutations_block (0 = NULL, else id+1), rows |-> flushed blocks in flush order: *)
(*       [id, e1, e2, sing, span], nblocks]                                                     *)
NE == Len(E)

Init == /\ GenInit /\ unph = {} /\ E = <<>> /\ ins = <<>> /\ rem = <<>> /\ mutq = <<>>
        /\ left = 0 /\ a = 1 /\ b = 1 /\ d = 1
        /\ st = [ie |-> <<>>, ipos |-> <<>>, ising |-> <<>>, iblk |-> <<>>, mblk |-> <<>>, rows |-> <<>>, nblocks |-> 0]
        /\ pc = "choose"

Gen == /\ pc = "choose" /\ (GenTree \/ GenTreesDone \/ GenMut)
       /\ UNCHANGED <<unph, E, ins, rem, mutq, left, a, b, d, st, pc>>

Choose ==
    /\ pc = "choose" /\ GenReady
    /\ \E U \in SUBSET Inds :
         /\ U # {}
         /\ unph' = U
    /\ LET es == EdgeSeq(g.trees, L, Nodes, Time) IN
         /\ E' = es /\ ins' = InsOrder(es, Time) /\ rem' = RemOrder(es, Time)
         /\ mutq' = MutSeq(g.muts)
         /\ st' = [ie |-> [i \in Inds |-> <<0, 0>>], ipos |-> [i \in Inds |-> -1], ising |-> [i \in Inds |-> 0],
                   iblk |-> [i \in Inds |-> 0], mblk |-> [m \in 1..Cardinality(g.muts) |-> 0],
                   rows |-> <<>>, nblocks |-> 0]
    /\ left' = 0 /\ a' = 1 /\ b' = 1 /\ d' = 1 /\ pc' = "loop" /\ UNCHANGED g

Tracked(c) == IndOf(c) # NULL /\ IndOf(c) \in unph

OutOne(s, e) ==
    LET c == E[e].c IN
    IF ~Tracked(c) THEN s
    ELSE LET i == IndOf(c)
             u == s.ie[i][1]   v == s.ie[i][2]
             o == IF v = e THEN u ELSE v
             s1 == [s EXCEPT !.ie[i] = <<o, 0>>]
         IN  IF o # 0
             THEN [s1 EXCEPT !.rows = Append(@, [id |-> s.iblk[i], e1 |-> e, e2 |-> o,
                                                  sing |-> s.ising[i], span |-> left - s.ipos[i]]),
                             !.ipos[i] = -1, !.iblk[i] = 0, !.ising[i] = 0]
             ELSE s1

InOne(s, e) ==
    LET c == E[e].c IN
    IF ~Tracked(c) THEN s
    ELSE LET i == IndOf(c)
             u == s.ie[i][1]   v == s.ie[i][2]
             s1 == [s EXCEPT !.ie[i] = <<e, IF u > v THEN u ELSE v>>, !.ipos[i] = left]
             other == IF u > v THEN u ELSE v
         IN  IF s.iblk[i] = 0 /\ other # 0        \* a block starts once both nodes have an edge
             THEN [s1 EXCEPT !.iblk[i] = s.nblocks + 1, !.nblocks = @ + 1]
             ELSE s1

RECURSIVE EdgesOut(_, _)
EdgesOut(s, bb) == IF bb <= NE /\ E[rem[bb]].r = left THEN EdgesOut(OutOne(s, rem[bb]), bb + 1) ELSE <<s, bb>>
RECURSIVE EdgesIn(_, _)
EdgesIn(s, aa) == IF aa <= NE /\ E[ins[aa]].l = left THEN EdgesIn(InOne(s, ins[aa]), aa + 1) ELSE <<s, aa>>
RECURSIVE Muts(_, _, _)
Muts(s, dd, right) ==
    IF dd <= Len(mutq) /\ mutq[dd][1] < right
    THEN LET c == mutq[dd][2] IN
         Muts(IF Tracked(c) /\ s.iblk[IndOf(c)] # 0 THEN [s EXCEPT !.mblk[dd] = s.iblk[IndOf(c)], !.ising[IndOf(c)] = @ + 1] ELSE s,
              dd + 1, right)
    ELSE <<s, dd>>

Step ==
    /\ pc = "loop" /\ (a <= NE \/ b <= NE)
    /\ LET o == EdgesOut(st, b)
           i == EdgesIn(o[1], a)
           right == Min({SeqLen} \cup (IF o[2] <= NE THEN {E[rem[o[2]]].r} ELSE {})
                                 \cup (IF i[2] <= NE THEN {E[ins[i[2]]].l} ELSE {}))
           m == Muts(i[1], d, right)
       IN  /\ st' = m[1] /\ d' = m[2] /\ b' = o[2] /\ a' = i[2] /\ left' = right
    /\ UNCHANGED <<g, unph, E, ins, rem, mutq, pc>>

Finish == /\ pc = "loop" /\ a > NE /\ b > NE /\ pc' = "done"
          /\ UNCHANGED <<g, unph, E, ins, rem, mutq, left, a, b, d, st>>

Next == Gen \/ Choose \/ Step \/ Finish
Spec == Init /\ [][Next]_vars

(* ================= declarative blocks (C24) ======================================= *)
Done == pc = "done"
PairAt(i, k) == <<EdgeAbove(E, 2 * i, 2 * (k - 1)), EdgeAbove(E, 2 * i + 1, 2 * (k - 1))>>   \* interval k
Both(i, k) == PairAt(i, k)[1] # 0 /\ PairAt(i, k)[2] # 0
(* maximal runs [k1, k2] of intervals with both edges present and unchanged *)
DeclBlocks ==
    { <<i, k1, k2>> \in unph \X (1..L) \X (1..L) :
        /\ k1 <= k2 /\ \A k \in k1..k2 : Both(i, k) /\ PairAt(i, k) = PairAt(i, k1)
        /\ (k1 = 1 \/ ~Both(i, k1 - 1) \/ PairAt(i, k1 - 1) # PairAt(i, k1))
        /\ (k2 = L \/ ~Both(i, k2 + 1) \/ PairAt(i, k2 + 1) # PairAt(i, k1)) }
DeclRow(blk) ==
    LET i == blk[1]  k1 == blk[2]  k2 == blk[3]
        lo == 2 * (k1 - 1)   hi == 2 * k2
    IN  [edges |-> {PairAt(i, k1)[1], PairAt(i, k1)[2]}, span |-> hi - lo,
         sing |-> Cardinality({ dd \in 1..Len(mutq) : mutq[dd][2] \in {2 * i, 2 * i + 1}
                                                     /\ lo <= mutq[dd][1] /\ mutq[dd][1] < hi })]
CodeRow(r) == [edges |-> {r.e1, r.e2}, span |-> r.span, sing |-> r.sing]

(* every flushed block is a declared block with the right tallies, and all are found *)
BlocksExact == Done =>
    /\ { CodeRow(st.rows[j]) : j \in 1..Len(st.rows) } = { DeclRow(blk) : blk \in DeclBlocks }
    /\ Len(st.rows) = Cardinality(DeclBlocks)
(* the code asserts num_blocks == number of flushed rows: ids handed out but never flushed *)
NoPhantomBlock == Done => st.nblocks = Len(st.rows)
(* a mutation is assigned to the block covering its position, or to none *)
MutBlockExact == Done =>
    \A dd \in 1..Len(mutq) :
        LET c == mutq[dd][2] IN
        IF ~Tracked(c) THEN st.mblk[dd] = 0
        ELSE LET cover == { j \in 1..Len(st.rows) : st.rows[j].id = st.mblk[dd] } IN
             \/ st.mblk[dd] = 0
             \/ \E j \in cover : st.rows[j].e1 \in {EdgeAbove(E, 2 * IndOf(c), mutq[dd][1]), EdgeAbove(E, 2 * IndOf(c) + 1, mutq[dd][1])}

(* C22: the declarative blocks do not depend on which of an individual's two nodes carries *)
(* each singleton: swap the node of any subset of the tracked mutations                    *)
SwapNode(u) == IF u % 2 = 0 THEN u + 1 ELSE u - 1
RowsFor(mq) ==
    { LET i == blk[1]  lo == 2 * (blk[2] - 1)  hi == 2 * blk[3] IN
      [edges |-> {PairAt(i, blk[2])[1], PairAt(i, blk[2])[2]}, span |-> hi - lo,
       sing |-> Cardinality({ dd \in 1..Len(mq) : mq[dd][2] \in {2 * i, 2 * i + 1} /\ lo <= mq[dd][1] /\ mq[dd][1] < hi })]
      : blk \in DeclBlocks }
RephaseSymmetric == Done =>
    \A S \in SUBSET { dd \in 1..Len(mutq) : Tracked(mutq[dd][2]) } :
        RowsFor([dd \in 1..Len(mutq) |-> IF dd \in S THEN <<mutq[dd][1], SwapNode(mutq[dd][2])>> ELSE mutq[dd]])
          = RowsFor(mutq)

EmitInv == (Done /\ EmitDone) =>
    Emit("inst", [N |-> N, NS |-> NS, L |-> L, time |-> [u \in 1..N |-> Time[u - 1]],
                  trees |-> TreesJson(g.trees), muts |-> mutq, unph |-> unph,
                  indiv |-> [u \in 1..N |-> IndOf(u - 1)],
                  edges |-> [e \in 1..NE |-> <<E[e].l, E[e].r, E[e].p, E[e].c>>],
                  rows |-> st.rows, nblocks |-> st.nblocks, mblk |-> st.mblk,
                  decl |-> { DeclRow(blk) : blk \in DeclBlocks }])
=============================================================================
