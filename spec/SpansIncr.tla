------------------------------ MODULE SpansIncr ------------------------------
(* SpansBySamples.first_pass (tsdate/prior.py, the anchor of C15) as a state       *)
(* machine: the span tables are not computed tree by tree but incrementally, from   *)
(* the edge differences between consecutive trees.  Per node the code keeps the      *)
(* genome position since which the node's pair (samples in the tree, samples below)  *)
(* has been constant (`stored_pos`, NaN = "not tracked"); at a breakpoint it saves     *)
(* the pending stretch of exactly those nodes whose pair may change -- the children   *)
(* of edges going out or coming in, the parents of edges coming in, all their         *)
(* ancestors in the previous tree, and every node of the previous tree when the        *)
(* number of attached samples changes -- and forgets nodes that disappear.             *)
(*                                                                                  *)
(* One action per loop iteration of the code (one breakpoint of the instance):        *)
(*   Start   first edge difference: child counts, attached samples, stored_pos = 0    *)
(*   Step    breakpoint i | i+1  (a breakpoint between two equal forests is not a       *)
(*           breakpoint of the tree sequence: nothing happens)                          *)
(*   Finish  last tree: everything still pending is saved                              *)
(* Scope: Spans' scope (TSGen "simplified": no unary, no dangling nodes, one root per    *)
(* tree, isolated samples allowed); the unary-node branch of save_to_spans and the        *)
(* second / third pass are outside (pc = "unary" would be reached, and is checked not to).*)
(*                                                                                  *)
(* TLC checks, in every state of every instance:                                      *)
(*   Bookkeeping     num_children and the attached-sample count describe the current tree *)
(*   TrackedIffPresent   a non-sample node is tracked iff it is present in the current tree *)
(*   PendingConstant     since stored_pos[u] the pair (T, k) of u has not changed            *)
(*   AccumulatedExact    what has been saved for u equals the declarative Span restricted     *)
(*                       to the trees left of stored_pos[u]                                     *)
(*   FinalExact          at the end the tables equal Spans!Span and Spans!NodeSpan              *)
(* so the incremental algorithm as modelled refines the declarative tables of module Spans.    *)
EXTENDS TSGen

CONSTANT Variant    \* "code": first_pass as written.  Named deviations that TLC must refute (the harness checks it does):
                    \* "no-in-parents": parents of incoming edges are not marked as changed;
                    \* "no-resave": nothing is re-saved when the number of attached samples changes;
                    \* "keep-disappearing": nodes that leave the tree stay tracked
VARIABLES inst, pc, i, spos, nch, T, acc, nspan
vars == <<g, inst, pc, i, spos, nch, T, acc, nspan>>

Internal == Nodes \ Samples
NaN == -1

Kids(f, u) == ChildrenIn(f, Nodes, u)
NK(f, u) == Cardinality(Kids(f, u))
Present(f, u) == Kids(f, u) # {}
TreeT(f) == Cardinality({ s \in Samples : f[s] # NULL })
Below(f, u) == Cardinality(NodesBelow(f, Nodes, u) \cap Samples)
InTree(f, u) == f[u] # NULL \/ Present(f, u)          \* Tree.nodes() with root_threshold = 2 (one root per tree)
RECURSIVE UpFrom(_, _)
UpFrom(f, u) == IF f[u] = NULL THEN {u} ELSE {u} \cup UpFrom(f, f[u])

Premises(trees) ==
    /\ \A j \in 1..Len(trees) : Cardinality(Roots(trees[j])) = 1
    /\ \A u \in Internal : \E j \in 1..Len(trees) : Present(trees[j], u)

AllowedParents(c) == {NULL} \cup { p \in Nodes : Time[p] > Time[c] }
RECURSIVE FnsUpTo(_)
FnsUpTo(c) == IF c < 0 THEN { <<>> }
              ELSE { fn @@ (c :> p) : fn \in FnsUpTo(c - 1), p \in AllowedParents(c) }
FastPFnsOK == { f \in FnsUpTo(N - 1) : TreeOK(f) }
FastGenTree == /\ g.phase = "trees" /\ Len(g.trees) < L
               /\ \E f \in FastPFnsOK : g' = [g EXCEPT !.trees = Append(@, f)]

Keys3 == Internal \X (0..NS) \X (0..NS)
Zero3 == [x \in Keys3 |-> 0]

Init == /\ GenInit /\ inst = <<>> /\ pc = "choose" /\ i = 0
        /\ spos = [u \in Nodes |-> NaN] /\ nch = [u \in Nodes |-> 0] /\ T = 0
        /\ acc = Zero3 /\ nspan = [u \in Nodes |-> 0]

mvars == <<i, spos, nch, T, acc, nspan>>
Gen == /\ pc = "choose" /\ (FastGenTree \/ GenTreesDone)
       /\ UNCHANGED <<inst, pc>> /\ UNCHANGED mvars
Pick == /\ pc = "choose" /\ GenReady /\ Premises(g.trees)
        /\ inst' = g.trees /\ pc' = "start"
        /\ UNCHANGED g /\ UNCHANGED mvars

(* ---- the machine, parameterised by the instance so that a trace specification can reuse it ---- *)
StartOn(trees) ==
    /\ i' = 1
    /\ spos' = [u \in Nodes |-> IF u \in Samples \/ InTree(trees[1], u) THEN 0 ELSE NaN]   \* ts.first().nodes()
    /\ nch' = [u \in Nodes |-> NK(trees[1], u)]
    /\ T' = TreeT(trees[1])
    /\ acc' = Zero3 /\ nspan' = [u \in Nodes |-> 0]

(* save_to_spans(prev_tree, u, T) for a set S of nodes; `right` = right end of the previous tree *)
Tracked(S) == { u \in S : spos[u] # NaN }
Dangling(prev, S) == \E u \in Tracked(S) : Below(prev, u) = 0
UnaryIn(prev, S) == \E u \in Tracked(S) \cap Internal : NK(prev, u) <= 1
SavedAcc(prev, S, right) ==
    [x \in Keys3 |->
        IF x[1] \in Tracked(S) /\ x[2] = T /\ x[3] = Below(prev, x[1]) /\ NK(prev, x[1]) > 1
        THEN acc[x] + (right - spos[x[1]]) ELSE acc[x]]
SavedSpan(prev, S, right) ==
    [u \in Nodes |-> IF u \in Tracked(S) THEN nspan[u] + (right - spos[u]) ELSE nspan[u]]

Out(prev, next) == { c \in Nodes : prev[c] # NULL /\ prev[c] # next[c] }        \* children of edges going out
In(prev, next)  == { c \in Nodes : next[c] # NULL /\ prev[c] # next[c] }        \* children of edges coming in
NchMid(prev, next) == [u \in Nodes |-> nch[u] - Cardinality({ c \in Out(prev, next) : prev[c] = u })]
InParents(prev, next) == { next[c] : c \in In(prev, next) }
Disappearing(prev, next) ==
    LET mid == NchMid(prev, next)
        d1 == { prev[c] : c \in Out(prev, next) } \cap { u \in Nodes : mid[u] = 0 }
        d2 == { c \in Out(prev, next) : mid[c] = 0 }
    IN  (d1 \cup d2) \ (In(prev, next) \cup InParents(prev, next))
FixedOut(prev, next) == { c \in Out(prev, next) \cap Samples : NchMid(prev, next)[c] = 0 }
FixedIn(prev, next) == In(prev, next) \cap Samples
Changed(prev, next) == Out(prev, next) \cup In(prev, next) \cup
                       (IF Variant = "no-in-parents" THEN {} ELSE InParents(prev, next))
Visited(prev, next) == UNION { UpFrom(prev, u) : u \in Changed(prev, next) }
Touched(prev, next) ==
    Visited(prev, next) \cup
    (IF Variant # "no-resave" /\ Cardinality(FixedIn(prev, next)) # Cardinality(FixedOut(prev, next))
     THEN { u \in Nodes : InTree(prev, u) } ELSE {})

StepOn(trees) ==
    LET prev == trees[i]  next == trees[i + 1]  right == 2 * i
        S == Touched(prev, next)
    IN  /\ i < Len(trees) /\ i' = i + 1
        /\ IF prev = next THEN UNCHANGED <<pc, spos, nch, T, acc, nspan>>
           ELSE IF Dangling(prev, S) THEN pc' = "dangling" /\ UNCHANGED <<spos, nch, T, acc, nspan>>
           ELSE IF UnaryIn(prev, S) THEN pc' = "unary" /\ UNCHANGED <<spos, nch, T, acc, nspan>>
           ELSE /\ acc' = SavedAcc(prev, S, right) /\ nspan' = SavedSpan(prev, S, right)
                /\ spos' = [u \in Nodes |-> IF u \in S THEN (IF u \in Disappearing(prev, next) /\ Variant # "keep-disappearing" THEN NaN ELSE right)
                                            ELSE spos[u]]
                /\ nch' = [u \in Nodes |-> NchMid(prev, next)[u] + Cardinality({ c \in In(prev, next) : next[c] = u })]
                /\ T' = T + Cardinality(FixedIn(prev, next)) - Cardinality(FixedOut(prev, next))
                /\ pc' = pc

LastOn(trees) ==
    LET prev == trees[i]  right == 2 * i
        S == { u \in Nodes : InTree(prev, u) }
    IN  /\ i = Len(trees)
        /\ IF Dangling(prev, S) THEN pc' = "dangling" /\ UNCHANGED <<acc, nspan>>
           ELSE IF UnaryIn(prev, S) THEN pc' = "unary" /\ UNCHANGED <<acc, nspan>>
           ELSE acc' = SavedAcc(prev, S, right) /\ nspan' = SavedSpan(prev, S, right) /\ pc' = "done"
        /\ UNCHANGED <<i, spos, nch, T>>

Start == pc = "start" /\ StartOn(inst) /\ pc' = "run" /\ UNCHANGED <<g, inst>>
Step  == pc = "run" /\ StepOn(inst) /\ UNCHANGED <<g, inst>>
Finish == pc = "run" /\ LastOn(inst) /\ UNCHANGED <<g, inst>>

Next == Gen \/ Pick \/ Start \/ Step \/ Finish
Spec == Init /\ [][Next]_vars

(* ---- declarative tables (module Spans), restricted to the trees 1..upto --------------------- *)
WhereUpTo(trees, u, t, k, upto) ==
    { j \in 1..upto : Present(trees[j], u) /\ TreeT(trees[j]) = t /\ Below(trees[j], u) = k }
SpanUpTo(trees, u, t, k, upto) == 2 * Cardinality(WhereUpTo(trees, u, t, k, upto))
NodeSpanUpTo(trees, u, upto) == 2 * Cardinality({ j \in 1..upto : Present(trees[j], u) })

Running == pc = "run"
(* index of the last tree that lies left of stored_pos[u] *)
SavedTrees(u) == IF spos[u] = NaN THEN i ELSE spos[u] \div 2

NoErrorBranch == pc \notin {"dangling", "unary"}
Bookkeeping == Running => /\ \A u \in Nodes : nch[u] = NK(inst[i], u)
                          /\ T = TreeT(inst[i])
TrackedIffPresent == Running => \A u \in Internal : (spos[u] # NaN) <=> Present(inst[i], u)
PendingConstant == Running => \A u \in Internal : spos[u] # NaN =>
    \A j \in (SavedTrees(u) + 1)..i :
        /\ Present(inst[j], u) /\ TreeT(inst[j]) = T /\ Below(inst[j], u) = Below(inst[i], u)
AccumulatedExact == Running => \A x \in Keys3 :
    /\ acc[x] = SpanUpTo(inst, x[1], x[2], x[3], SavedTrees(x[1]))
    /\ nspan[x[1]] = NodeSpanUpTo(inst, x[1], SavedTrees(x[1]))
FinalExact == pc = "done" => \A x \in Keys3 :
    /\ acc[x] = SpanUpTo(inst, x[1], x[2], x[3], L)
    /\ nspan[x[1]] = NodeSpanUpTo(inst, x[1], L)
=============================================================================
