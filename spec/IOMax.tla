------------------------------- MODULE IOMax -------------------------------
(* tsdate/discrete.py  BeliefPropagation.outside_maximization  as a state machine  *)
(* (one action per child group; inside it the literal loop over the child's edges   *)
(* with the running minimum `youngest_par_index`, the slicing and the per-factor    *)
(* normalisation), checked against the documented rule with arg-max *sets* (C13)    *)
(* for every admissible node schedule and every order of a child's edges (C11).     *)
(*                                                                                  *)
(* The graph is a DAG on the internal nodes NS..N-1 (ids increase with time), with  *)
(* up to Mult parallel edges per (parent, child) pair -- a child may have several   *)
(* parents, as in a tree sequence with recombination.  Edges above samples play no  *)
(* role in the maximisation step.  `Inside[u][j]` is an arbitrary table with a      *)
(* positive entry in every row (the standardised inside values); `Lik[e][i][j]`,    *)
(* i >= j, is an arbitrary *positive* table standing for the Poisson factor of edge *)
(* e with the parent at grid index i and the child at j (positive because the code  *)
(* adds eps to every time difference).                                              *)
EXTENDS Naturals, Integers, Sequences, FiniteSets, SequencesExt, VT

CONSTANTS NS, NI, G, Mult, MaxEdges, InsVals, LikVals, EmitDone

N == NS + NI
Internal == NS..(N - 1)
GI == 0..(G - 1)
Pairs == { pc \in Internal \X Internal : pc[1] > pc[2] }
EdgeIds == { <<x[1], x[2], k>> : x \in Pairs, k \in 1..Mult }       \* <<parent, child, copy>>

VARIABLES inst, cur, pc, maxidx, done
vars == <<inst, cur, pc, maxidx, done>>

Par(e) == e[1]
Chi(e) == e[2]
EdgesInto(c) == { e \in inst.edges : Chi(e) = c }
IsMrca(u) == EdgesInto(u) = {}          \* never a child (among non-fixed nodes)

(* ---- rationals <<num, den>>, den > 0 ------------------------------------------- *)
RLe(a, b) == a[1] * b[2] <= b[1] * a[2]
RMul(a, b) == <<a[1] * b[1], a[2] * b[2]>>
ArgmaxFirstR(v) == CHOOSE k \in 1..Len(v) :        \* np.argmax: first maximal element (1-based here)
                      /\ \A m \in 1..Len(v) : RLe(v[m], v[k])
                      /\ \A n \in 1..(k - 1) : ~RLe(v[k], v[n])
RECURSIVE MaxRange(_, _, _)
MaxRange(a, lo, hi) == IF lo = hi THEN a[lo]
                       ELSE LET m == MaxRange(a, lo + 1, hi) IN IF a[lo] > m THEN a[lo] ELSE m

(* ---- instance choice ------------------------------------------------------------ *)
RECURSIVE TriTables(_)
TriTables(i) == IF i = 0 THEN { <<>> }
                ELSE { Append(t, r) : t \in TriTables(i - 1), r \in [1..i -> LikVals] }
InsRows == { r \in [1..G -> InsVals] : \E k \in 1..G : r[k] > 0 }

Init == /\ inst = [edges |-> {}, order |-> <<>>, inside |-> <<>>, lik |-> <<>>]
        /\ cur = 0 /\ pc = "dag" /\ maxidx = <<>> /\ done = {}

ChooseDag ==
    /\ pc = "dag"
    /\ \E es \in SUBSET EdgeIds :
          /\ Cardinality(es) <= MaxEdges
          /\ \A e \in es : e[3] > 1 => <<e[1], e[2], e[3] - 1>> \in es     \* copies are used in order
          /\ inst' = [edges |-> es, order |-> SetToSeq(es),
                      inside |-> [u \in Internal |-> <<>>], lik |-> [e \in es |-> <<>>]]
    /\ pc' = "tables" /\ cur' = 0
    /\ UNCHANGED <<maxidx, done>>

NE == Len(inst.order)
ChooseTable ==
    /\ pc = "tables" /\ cur < NI + NE
    /\ IF cur < NI
       THEN \E r \in InsRows : inst' = [inst EXCEPT !.inside[NS + cur] = r]
       ELSE \E t \in TriTables(G) : inst' = [inst EXCEPT !.lik[inst.order[cur - NI + 1]] = t]
    /\ cur' = cur + 1
    /\ UNCHANGED <<pc, maxidx, done>>

(* mrcas: maximized_node_times[i] = np.argmax(self.inside[i]) *)
ArgmaxFirstN(v) == CHOOSE k \in 1..Len(v) : /\ \A m \in 1..Len(v) : v[m] <= v[k]
                                             /\ \A n \in 1..(k - 1) : v[n] < v[k]
Start ==
    /\ pc = "tables" /\ cur = NI + NE
    /\ maxidx' = [u \in Internal |-> IF IsMrca(u) THEN ArgmaxFirstN(inst.inside[u]) - 1 ELSE -1]
    /\ done' = { u \in Internal : IsMrca(u) }
    /\ pc' = "max"
    /\ UNCHANGED <<inst, cur>>

(* ---- the loop over the edges of one child, literal ------------------------------- *)
(* ll_mut for edge e with its parent at grid index i, over child indices 0..y         *)
LL(e, i, y) == [j \in 1..(y + 1) |-> inst.lik[e][i + 1][j]]
Normed(ll) == LET m == MaxRange(ll, 1, Len(ll)) IN [j \in 1..Len(ll) |-> <<ll[j], m>>]    \* ratio(ll, max(ll))

(* st = [y |-> youngest_par_index, res |-> result]; `res` keeps its stale tail       *)
FirstEdge(e) == LET i == maxidx[Par(e)] IN [y |-> i, res |-> Normed(LL(e, i, i))]
LaterEdge(st, e) ==
    LET i == maxidx[Par(e)]
        y == IF i < st.y THEN i ELSE st.y
        nl == Normed(LL(e, i, y))           \* the code normalises ll_mut[:y+1] by its own maximum
    IN  [y |-> y, res |-> [j \in 1..Len(st.res) |-> IF j <= y + 1 THEN RMul(nl[j], st.res[j]) ELSE st.res[j]]]
RECURSIVE Loop(_, _, _)
Loop(st, ord, k) == IF k > Len(ord) THEN st ELSE Loop(LaterEdge(st, ord[k]), ord, k + 1)
MaxFor(c, ord) ==
    LET st == Loop(FirstEdge(ord[1]), ord, 2)
        iv == [j \in 1..(st.y + 1) |-> <<inst.inside[c][j], 1>>]            \* self.inside[child][:y+1]
    IN  ArgmaxFirstR([j \in 1..(st.y + 1) |-> RMul(st.res[j], iv[j])]) - 1

EdgeOrders(c) == { s \in [1..Cardinality(EdgesInto(c)) -> EdgesInto(c)] :
                     \A a, b \in DOMAIN s : a # b => s[a] # s[b] }

MaximizeNode(c) ==
    /\ pc = "max" /\ c \in Internal \ done
    /\ \A e \in EdgesInto(c) : Par(e) \in done
    /\ \E ord \in EdgeOrders(c) : maxidx' = [maxidx EXCEPT ![c] = MaxFor(c, ord)]
    /\ done' = done \cup {c}
    /\ UNCHANGED <<inst, cur, pc>>

Finish == /\ pc = "max" /\ done = Internal /\ pc' = "done"
          /\ UNCHANGED <<inst, cur, maxidx, done>>

Next == ChooseDag \/ ChooseTable \/ Start \/ (\E c \in Internal : MaximizeNode(c)) \/ Finish
Spec == Init /\ [][Next]_vars

(* ======================= the documented rule (C13) ================================= *)
RECURSIVE MinIdx(_)
MinIdx(S) == LET e == CHOOSE x \in S : TRUE IN
             IF S = {e} THEN maxidx[Par(e)]
             ELSE LET m == MinIdx(S \ {e}) IN IF maxidx[Par(e)] < m THEN maxidx[Par(e)] ELSE m
RECURSIVE ProdLik(_, _)
ProdLik(S, j) == IF S = {} THEN 1
                 ELSE LET e == CHOOSE x \in S : TRUE IN inst.lik[e][maxidx[Par(e)] + 1][j + 1] * ProdLik(S \ {e}, j)
Score(c, j) == inst.inside[c][j + 1] * ProdLik(EdgesInto(c), j)
Bound(c) == IF IsMrca(c) THEN G - 1 ELSE MinIdx(EdgesInto(c))     \* youngest parent's timepoint
ArgmaxSet(c) == { j \in 0..Bound(c) : \A k \in 0..Bound(c) : Score(c, k) <= Score(c, j) }

MaxRule  == pc \in {"max", "done"} => \A c \in done : maxidx[c] \in ArgmaxSet(c)
Ordered  == pc \in {"max", "done"} => \A e \in inst.edges : (Chi(e) \in done) => maxidx[Chi(e)] <= maxidx[Par(e)]
GridPoint == pc \in {"max", "done"} => \A c \in done : maxidx[c] \in GI
EdgeOrderFree ==                    \* the result does not depend on the order of the child's edges
    pc = "max" => \A c \in Internal \ done : (\A e \in EdgesInto(c) : Par(e) \in done) =>
                     \A o1, o2 \in EdgeOrders(c) : MaxFor(c, o1) = MaxFor(c, o2)

EmitInv ==
    (EmitDone /\ pc = "done") =>
      Emit("inst", [NS |-> NS, NI |-> NI, G |-> G,
                    edges |-> [k \in 1..NE |-> inst.order[k]],
                    inside |-> [k \in 1..NI |-> inst.inside[NS + k - 1]],
                    lik |-> [k \in 1..NE |-> inst.lik[inst.order[k]]],
                    maxidx |-> [k \in 1..NI |-> maxidx[NS + k - 1]],
                    sets |-> [k \in 1..NI |-> ArgmaxSet(NS + k - 1)],
                    bound |-> [k \in 1..NI |-> Bound(NS + k - 1)]])
=============================================================================
