-------------------------------- MODULE Freq --------------------------------
(* phasing._mutation_frequency as a state machine (one action per breakpoint of  *)
(* the edge-diff sweep): per node, the number of samples of a given sample set   *)
(* below it in the current tree, maintained incrementally by walking up the      *)
(* parent chain on every edge removal / insertion; each mutation records the     *)
(* count of its node.  Checked against the declarative count.                    *)
EXTENDS TSGen

CONSTANTS EmitDone

VARIABLES sset, E, ins, rem, mutq, left, a, b, d, st, pc
vars == <<g, sset, E, ins, rem, mutq, left, a, b, d, st, pc>>
(* st = [ns |-> nodes_samples, np |-> nodes_parent, freq |-> mutations_freq] *)
NE == Len(E)

Init == /\ GenInit /\ sset = {} /\ E = <<>> /\ ins = <<>> /\ rem = <<>> /\ mutq = <<>>
        /\ left = 0 /\ a = 1 /\ b = 1 /\ d = 1
        /\ st = [ns |-> <<>>, np |-> <<>>, freq |-> <<>>] /\ pc = "choose"

Gen == /\ pc = "choose" /\ (GenTree \/ GenTreesDone \/ GenMut)
       /\ UNCHANGED <<sset, E, ins, rem, mutq, left, a, b, d, st, pc>>

Choose ==
    /\ pc = "choose" /\ GenReady
    /\ \E S \in SUBSET Samples : S # {} /\ sset' = S
    /\ LET es == EdgeSeq(g.trees, L, Nodes, Time) IN
         /\ E' = es /\ ins' = InsOrder(es, Time) /\ rem' = RemOrder(es, Time)
         /\ mutq' = MutSeq(g.muts)
         /\ st' = [ns |-> [u \in Nodes |-> IF u \in sset' THEN 1 ELSE 0], np |-> [u \in Nodes |-> NULL],
                   freq |-> [m \in 1..Cardinality(g.muts) |-> 0]]
    /\ left' = 0 /\ a' = 1 /\ b' = 1 /\ d' = 1 /\ pc' = "loop" /\ UNCHANGED g

RECURSIVE WalkUp(_, _, _, _)
WalkUp(s, p, w, sign) == IF p = NULL THEN s ELSE WalkUp([s EXCEPT !.ns[p] = @ + sign * w], s.np[p], w, sign)

OutOne(s, e) == LET p == E[e].p  c == E[e].c
                    s1 == [s EXCEPT !.np[c] = NULL]
                IN  WalkUp(s1, p, s1.ns[c], -1)
InOne(s, e) == LET p == E[e].p  c == E[e].c
                   s1 == [s EXCEPT !.np[c] = p]
               IN  WalkUp(s1, p, s1.ns[c], 1)
RECURSIVE EdgesOut(_, _)
EdgesOut(s, bb) == IF bb <= NE /\ E[rem[bb]].r = left THEN EdgesOut(OutOne(s, rem[bb]), bb + 1) ELSE <<s, bb>>
RECURSIVE EdgesIn(_, _)
EdgesIn(s, aa) == IF aa <= NE /\ E[ins[aa]].l = left THEN EdgesIn(InOne(s, ins[aa]), aa + 1) ELSE <<s, aa>>
RECURSIVE Muts(_, _, _)
Muts(s, dd, right) == IF dd <= Len(mutq) /\ mutq[dd][1] < right
                      THEN Muts([s EXCEPT !.freq[dd] = s.ns[mutq[dd][2]]], dd + 1, right)
                      ELSE <<s, dd>>

Step ==
    /\ pc = "loop" /\ (a <= NE \/ b <= NE)
    /\ LET o == EdgesOut(st, b)
           i == EdgesIn(o[1], a)
           right == Min({SeqLen} \cup (IF o[2] <= NE THEN {E[rem[o[2]]].r} ELSE {})
                                 \cup (IF i[2] <= NE THEN {E[ins[i[2]]].l} ELSE {}))
           m == Muts(i[1], d, right)
       IN  /\ st' = m[1] /\ d' = m[2] /\ b' = o[2] /\ a' = i[2] /\ left' = right
    /\ UNCHANGED <<g, sset, E, ins, rem, mutq, pc>>
Finish == /\ pc = "loop" /\ a > NE /\ b > NE /\ pc' = "done"
          /\ UNCHANGED <<g, sset, E, ins, rem, mutq, left, a, b, d, st>>
Next == Gen \/ Choose \/ Step \/ Finish
Spec == Init /\ [][Next]_vars

Done == pc = "done"
DeclFreq(dd) == Cardinality(NodesBelow(TreeAt(g.trees, mutq[dd][1]), Nodes, mutq[dd][2]) \cap sset)
(* the sweep only visits mutations left of the last breakpoint: mutations beyond the last *)
(* edge keep the initial 0, which is right unless the node itself is in the sample set    *)
Seen(dd) == NE > 0 /\ mutq[dd][1] < left
FreqExact == Done => \A dd \in 1..Len(mutq) : Seen(dd) => st.freq[dd] = DeclFreq(dd)
(* with at least one edge every mutation is visited (the last iteration runs to the sequence end); *)
(* a tree sequence without any edge never enters the loop and reports 0 for every mutation       *)
AllSeen == (Done /\ NE > 0) => \A dd \in 1..Len(mutq) : Seen(dd)
SamplesBelowInv == (pc = "loop" /\ left < SeqLen) =>
    \A u \in Nodes : st.ns[u] = Cardinality(NodesBelow(TreeAt(g.trees, left), Nodes, u) \cap sset) \/ a <= NE \/ b <= NE

EmitInv == (Done /\ EmitDone) =>
    Emit("inst", [N |-> N, NS |-> NS, L |-> L, time |-> [u \in 1..N |-> Time[u - 1]],
                  trees |-> TreesJson(g.trees), muts |-> mutq, sset |-> sset,
                  freq |-> st.freq, decl |-> [dd \in 1..Len(mutq) |-> DeclFreq(dd)]])
=============================================================================
