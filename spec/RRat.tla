------------------------------- MODULE RRat -------------------------------
(* Private arithmetic of the rescaling / changepoint specifications (C25, C26,   *)
(* C37).  TLC integers are 32 bit and TLC raises an error on overflow, so          *)
(*   * rationals are pairs <<num, den>> (den > 0) kept gcd-normalised;             *)
(*   * products of many small factors (likelihood weights of segmentations) are    *)
(*     kept as prime-exponent vectors and only multiplied out, after cancellation, *)
(*     into arbitrary-precision naturals (little-endian base-10000 digit sequences) *)
(*     when two of them have to be compared;                                       *)
(*   * the defining inequality of the fixed-changepoint helper is stated once here *)
(*     (cross-multiplied, integers only) because both Changepoints and Rescale     *)
(*     use it.                                                                     *)
EXTENDS Naturals, Integers, Sequences, FiniteSets

(* ------------------------------ rationals ----------------------------------- *)
RECURSIVE RGcd(_, _)
RGcd(a, b) == IF b = 0 THEN a ELSE RGcd(b, a % b)
RAbs(x) == IF x < 0 THEN -x ELSE x
RLcm(a, b) == IF a = 0 \/ b = 0 THEN 0 ELSE (a \div RGcd(a, b)) * b

RNorm(q) == IF q[1] = 0 THEN <<0, 1>>
            ELSE LET g == RGcd(RAbs(q[1]), q[2]) IN <<q[1] \div g, q[2] \div g>>
RInt(n) == <<n, 1>>
RMk(n, d) == IF d < 0 THEN RNorm(<<-n, -d>>) ELSE RNorm(<<n, d>>)
RAdd(a, b) == LET l == RLcm(a[2], b[2]) IN RNorm(<<a[1] * (l \div a[2]) + b[1] * (l \div b[2]), l>>)
RNeg(a) == <<-a[1], a[2]>>
RSub(a, b) == RAdd(a, RNeg(b))
RMul(a, b) == LET g1 == RGcd(RAbs(a[1]), b[2])   g2 == RGcd(RAbs(b[1]), a[2])
                  h1 == IF g1 = 0 THEN 1 ELSE g1   h2 == IF g2 = 0 THEN 1 ELSE g2
              IN  RNorm(<<(a[1] \div h1) * (b[1] \div h2), (a[2] \div h2) * (b[2] \div h1)>>)
RDiv(a, b) == IF b[1] < 0 THEN RMul(a, <<-b[2], -b[1]>>) ELSE RMul(a, <<b[2], b[1]>>)   \* b # 0
RLt(a, b) == a[1] * b[2] < b[1] * a[2]
RLe(a, b) == a[1] * b[2] <= b[1] * a[2]
REq(a, b) == a[1] * b[2] = b[1] * a[2]

RECURSIVE RSumSeq(_)
RSumSeq(s) == IF s = <<>> THEN <<0, 1>> ELSE RAdd(Head(s), RSumSeq(Tail(s)))

RECURSIVE ISumSeq(_)
ISumSeq(s) == IF s = <<>> THEN 0 ELSE Head(s) + ISumSeq(Tail(s))

(* ------------------------- big naturals -------------------------------------- *)
BBase == 10000
BOne == <<1>>
RECURSIVE BMulCarry(_, _, _)
BMulCarry(b, k, carry) ==
    IF b = <<>> THEN (IF carry = 0 THEN <<>> ELSE <<carry % BBase>> \o BMulCarry(<<>>, k, carry \div BBase))
    ELSE LET v == Head(b) * k + carry IN <<v % BBase>> \o BMulCarry(Tail(b), k, v \div BBase)
BMul(b, k) == IF k = 0 THEN <<>> ELSE BMulCarry(b, k, 0)          \* k < 200000
RECURSIVE BCmpFrom(_, _, _)
BCmpFrom(a, b, i) == IF i = 0 THEN 0 ELSE IF a[i] < b[i] THEN -1 ELSE IF a[i] > b[i] THEN 1
                     ELSE BCmpFrom(a, b, i - 1)
BCmp(a, b) == IF Len(a) < Len(b) THEN -1 ELSE IF Len(a) > Len(b) THEN 1 ELSE BCmpFrom(a, b, Len(a))
RECURSIVE BPow(_, _, _)
BPow(acc, f, e) == IF e = 0 THEN acc ELSE BPow(BMul(acc, f), f, e - 1)

(* ------------------------- products of small factors -------------------------- *)
(* A positive rational whose numerator and denominator are products of small       *)
(* factors is kept as its vector of prime exponents (a function 1..P -> Int over   *)
(* the first P primes), so that multiplication is pointwise addition and common    *)
(* factors cancel by themselves.  Two of them are compared by multiplying out the  *)
(* positive and the negative part of the exponent difference: in machine integers  *)
(* when the result provably fits 31 bits, in big naturals otherwise.               *)
Primes == <<2, 3, 5, 7, 11, 13, 17, 19, 23, 29, 31, 37, 41, 43, 47, 53, 59, 61>>
PBits == <<1, 2, 3, 3, 4, 4, 5, 5, 5, 5, 5, 6, 6, 6, 6, 6, 6, 6>>          \* p < 2^PBits
MaxFactor == 66
RECURSIVE ExpOf(_, _)
ExpOf(f, p) == IF f % p = 0 THEN 1 + ExpOf(f \div p, p) ELSE 0
PTab == [f \in 1..MaxFactor |-> [k \in 1..Len(Primes) |-> ExpOf(f, Primes[k])]]   \* constant, evaluated once
NumPrimes(F) == Cardinality({ k \in 1..Len(Primes) : Primes[k] <= F })
PvOne(P) == [k \in 1..P |-> 0]
PvPow(f, e, P) == [k \in 1..P |-> e * PTab[f][k]]                 \* f^e, e may be negative
PvMul(a, b) == [k \in DOMAIN a |-> a[k] + b[k]]
RECURSIVE PvBits(_, _, _)
PvBits(d, k, sign) == IF k = 0 THEN 0
                      ELSE (IF sign * d[k] > 0 THEN sign * d[k] * PBits[k] ELSE 0) + PvBits(d, k - 1, sign)
RECURSIVE PvInt(_, _, _, _)
PvInt(d, k, sign, acc) == IF k = 0 THEN acc
                          ELSE PvInt(d, k - 1, sign, IF sign * d[k] > 0 THEN acc * (Primes[k] ^ (sign * d[k])) ELSE acc)
RECURSIVE PvBig(_, _, _, _)
PvBig(d, k, sign, acc) == IF k = 0 THEN acc
                          ELSE PvBig(d, k - 1, sign, IF sign * d[k] > 0 THEN BPow(acc, Primes[k], sign * d[k]) ELSE acc)
(* sign of  value(a) - value(b) *)
PvCmp(a, b) ==
    LET d == [k \in DOMAIN a |-> a[k] - b[k]]
        P == Len(a)
    IN  IF \A k \in 1..P : d[k] = 0 THEN 0
        ELSE IF PvBits(d, P, 1) <= 30 /\ PvBits(d, P, -1) <= 30
        THEN LET x == PvInt(d, P, 1, 1)  y == PvInt(d, P, -1, 1)
             IN  IF x < y THEN -1 ELSE IF x > y THEN 1 ELSE 0
        ELSE BCmp(PvBig(d, P, 1, BOne), PvBig(d, P, -1, BOne))

(* ------------- cumulative-fraction boundaries (fixed changepoints) ------------- *)
(* Y = cumulative sums (function 0..n), E = epochs, k = boundary index.           *)
(* FracHi: the last index whose cumulative fraction Y[i]/Y[n] is <= k/E;          *)
(* FracLo: the last index whose fraction is  <  k/E  (they differ only when some  *)
(* fraction equals k/E exactly).  Integers only: Y[i]*E vs k*Y[n].                *)
FracHi(Y, n, E, k) == CHOOSE i \in 0..n : /\ Y[i] * E <= k * Y[n]
                                           /\ \A i2 \in 0..n : Y[i2] * E <= k * Y[n] => i2 <= i
FracLo(Y, n, E, k) == IF \E i \in 0..n : Y[i] * E < k * Y[n]
                      THEN CHOOSE i \in 0..n : /\ Y[i] * E < k * Y[n]
                                               /\ \A i2 \in 0..n : Y[i2] * E < k * Y[n] => i2 <= i
                      ELSE 0
FracAdm(Y, n, E, k) == IF k = 0 THEN {0} ELSE IF k = E THEN {n} ELSE {FracLo(Y, n, E, k), FracHi(Y, n, E, k)}
=============================================================================
