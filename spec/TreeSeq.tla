----------------------------- MODULE TreeSeq -----------------------------
(* The part of the tskit data model that tsdate reads, over small integer      *)
(* instances.  Genome = L unit intervals; genomic coordinate of the left end of *)
(* interval i (1-based) is 2*(i-1), so that odd coordinates are interior points *)
(* and even ones are breakpoints (a site may sit exactly on a breakpoint).      *)
(* Nodes are 0..N-1, NULL = -1 as in tskit.                                     *)
EXTENDS Naturals, Integers, Sequences, FiniteSets, SequencesExt, VT

NULL == -1

(* A "forest sequence": trees[i][c] = parent of c over interval i, or NULL.     *)
ParentFns(Nodes, time) ==
    { f \in [Nodes -> Nodes \cup {NULL}] : \A c \in Nodes : f[c] # NULL => time[f[c]] > time[c] }

ChildrenIn(f, Nodes, p) == { c \in Nodes : f[c] = p }

RECURSIVE LeavesBelow(_, _, _)
LeavesBelow(f, Nodes, u) ==
    LET ch == ChildrenIn(f, Nodes, u)
    IN  IF ch = {} THEN {u} ELSE UNION { LeavesBelow(f, Nodes, c) : c \in ch }

RECURSIVE NodesBelow(_, _, _)
NodesBelow(f, Nodes, u) == {u} \cup UNION { NodesBelow(f, Nodes, c) : c \in ChildrenIn(f, Nodes, u) }

RECURSIVE RootOf(_, _)
RootOf(f, u) == IF f[u] = NULL THEN u ELSE RootOf(f, f[u])

(* Edges: maximal runs of intervals over which c keeps the same parent.         *)
EdgeSet(trees, L, Nodes) ==
    { [l |-> 2 * (i - 1), r |-> 2 * j, p |-> trees[i][c], c |-> c] :
        <<i, j, c>> \in { t \in (1..L) \X (1..L) \X Nodes :
            /\ t[1] <= t[2]
            /\ trees[t[1]][t[3]] # NULL
            /\ \A k \in t[1]..t[2] : trees[k][t[3]] = trees[t[1]][t[3]]
            /\ (t[1] = 1 \/ trees[t[1] - 1][t[3]] # trees[t[1]][t[3]])
            /\ (t[2] = L \/ trees[t[2] + 1][t[3]] # trees[t[1]][t[3]]) } }

(* tskit's required edge order: (time[parent], parent, child, left).            *)
EdgeLess(time, a, b) ==
    \/ time[a.p] < time[b.p]
    \/ time[a.p] = time[b.p] /\ a.p < b.p
    \/ a.p = b.p /\ a.c < b.c
    \/ a.p = b.p /\ a.c = b.c /\ a.l < b.l

EdgeSeq(trees, L, Nodes, time) == SetToSortSeq(EdgeSet(trees, L, Nodes), LAMBDA x, y : EdgeLess(time, x, y))

(* tskit's indexes (tsk_table_collection_build_index): insertion order sorts by  *)
(* (left, time[parent], parent, child) ascending, removal order by               *)
(* (right, -time[parent], -parent, -child) ascending.  Values are 1-based        *)
(* positions in the edge sequence.                                               *)
InsLess(E, time, i, j) ==
    LET a == E[i]  b == E[j] IN
    \/ a.l < b.l
    \/ a.l = b.l /\ time[a.p] < time[b.p]
    \/ a.l = b.l /\ time[a.p] = time[b.p] /\ a.p < b.p
    \/ a.l = b.l /\ a.p = b.p /\ a.c < b.c
RemLess(E, time, i, j) ==
    LET a == E[i]  b == E[j] IN
    \/ a.r < b.r
    \/ a.r = b.r /\ time[a.p] > time[b.p]
    \/ a.r = b.r /\ time[a.p] = time[b.p] /\ a.p > b.p
    \/ a.r = b.r /\ a.p = b.p /\ a.c > b.c
InsOrder(E, time) == SetToSortSeq(DOMAIN E, LAMBDA x, y : InsLess(E, time, x, y))
RemOrder(E, time) == SetToSortSeq(DOMAIN E, LAMBDA x, y : RemLess(E, time, x, y))

(* The tree covering coordinate x (0 <= x < 2L).                                 *)
TreeAt(trees, x) == trees[(x \div 2) + 1]

(* Edge (1-based index into E) above node u at coordinate x, or 0.               *)
EdgeAbove(E, u, x) ==
    LET S == { e \in DOMAIN E : E[e].c = u /\ E[e].l <= x /\ x < E[e].r }
    IN  IF S = {} THEN 0 ELSE CHOOSE e \in S : TRUE
==========================================================================
