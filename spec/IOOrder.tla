------------------------------- MODULE IOOrder -------------------------------
(* The three edge traversals of tsdate/discrete.py BeliefPropagation               *)
(*   edges_by_parent_asc               (inside pass: the edge table itself)         *)
(*   edges_by_child_desc               (outside pass: np.lexsort)                   *)
(*   edges_by_child_then_parent_desc   (maximisation: reversed structured argsort)  *)
(* as functions of the *input* node ids and node times, over every DAG, every       *)
(* renumbering of the non-sample nodes and every assignment of input times that     *)
(* keeps the tree sequence valid (parent strictly older than child).  TLC checks    *)
(* that each derived traversal is one of the schedules that modules InsideOutside   *)
(* and IOMax allow (children before parents / parents before children, one          *)
(* contiguous group per node) -- so, with their confluence results, dates do not    *)
(* depend on numbering or input times (C11) -- and compares the two readings of     *)
(* "the oldest root" used by ignore_oldest_root (C38).                              *)
(*                                                                                  *)
(* Canonical node names are 0..N-1 (samples first); `perm[u]` is the id the code    *)
(* sees, `time[u]` the input time.  An edge is <<parent, child>> in canonical names; *)
(* each edge sits on its own genomic interval, numbered in canonical sort order     *)
(* (this is how the harness realises a DAG as a tree sequence).                     *)
EXTENDS Naturals, Integers, Sequences, FiniteSets, SequencesExt, VT

CONSTANTS NS, NI, MaxEdges, TMax, PermMode, EmitDone

N == NS + NI
Nodes == 0..(N - 1)
Samples == 0..(NS - 1)
Internal == NS..(N - 1)
Pairs == { pc \in Internal \X Nodes : pc[1] > pc[2] }

VARIABLES inst, pc
vars == <<inst, pc>>

Init == inst = [edges |-> {}, time |-> <<>>, perm |-> <<>>] /\ pc = "dag"

Perms == IF PermMode = "id" THEN { [u \in Internal |-> u] }
         ELSE { f \in [Internal -> Internal] : \A u, v \in Internal : u # v => f[u] # f[v] }

DagOK(es) ==
    /\ Cardinality(es) <= MaxEdges
    /\ \A u \in Internal : \E e \in es : e[1] = u                  \* no dangling internal node
    /\ \A u \in Samples : \E e \in es : e[2] = u                   \* no isolated sample

ChooseDag ==
    /\ pc = "dag"
    /\ \E es \in SUBSET Pairs : DagOK(es) /\ inst' = [inst EXCEPT !.edges = es]
    /\ pc' = "label"

ChooseLabels ==
    /\ pc = "label"
    /\ \E tm \in [Internal -> 1..TMax], pm \in Perms :
          /\ \A e \in inst.edges : e[2] \in Internal => tm[e[1]] > tm[e[2]]
          /\ inst' = [inst EXCEPT !.time = [u \in Nodes |-> IF u \in Samples THEN 0 ELSE tm[u]],
                                  !.perm = [u \in Nodes |-> IF u \in Samples THEN u ELSE pm[u]]]
    /\ pc' = "done"

Next == ChooseDag \/ ChooseLabels
Spec == Init /\ [][Next]_vars

(* ------------------------------------------------------------------------------ *)
E == inst.edges
Tm(u) == inst.time[u]
Id(u) == inst.perm[u]
P(e) == e[1]
C(e) == e[2]

(* tskit's required edge order (time[parent], parent id, child id, left); `left`   *)
(* never decides here because <<parent, child>> pairs are distinct                  *)
TableLess(a, b) == \/ Tm(P(a)) < Tm(P(b))
                   \/ Tm(P(a)) = Tm(P(b)) /\ Id(P(a)) < Id(P(b))
                   \/ P(a) = P(b) /\ Id(C(a)) < Id(C(b))
InsideSeq == SetToSortSeq(E, TableLess)                    \* ts.edges()

(* np.lexsort((edges_child, -nodes_time[edges_child])): primary key -time[child],   *)
(* then child id; lexsort is stable, so ties keep edge-table order                  *)
OutsideLess(a, b) == \/ Tm(C(a)) > Tm(C(b))
                     \/ Tm(C(a)) = Tm(C(b)) /\ Id(C(a)) < Id(C(b))
                     \/ C(a) = C(b) /\ TableLess(a, b)          \* = earlier row of the edge table
OutsideSeq == SetToSortSeq(E, OutsideLess)

(* reversed(np.argsort(w, order=(child_age, child_node, parent_age = -time[parent]))) *)
(* keys may tie (same child, parents of equal time): any order of a tie class        *)
MaxKeyLess(a, b) == \/ Tm(C(a)) > Tm(C(b))
                    \/ Tm(C(a)) = Tm(C(b)) /\ Id(C(a)) > Id(C(b))
                    \/ C(a) = C(b) /\ Tm(P(a)) < Tm(P(b))
MaxKeyTie(a, b) == C(a) = C(b) /\ Tm(P(a)) = Tm(P(b))
MaxRank(e) == Cardinality({ x \in E : MaxKeyLess(x, e) })       \* dense enough: equal iff tied
(* A traversal is any sequence sorted by a strict weak order `less`; it is admissible *)
(* when `before(a, b)` forces a strictly first, and the edges of one node (same key)  *)
(* are never interleaved with another node's.                                         *)
PrecOK(less(_, _), before(_, _)) == \A a, b \in E : before(a, b) => less(a, b)
GroupOK(less(_, _), key(_)) ==
    \A a \in E : \A x \in { y \in E : key(y) # key(a) /\ less(a, y) } :
        \A b \in { y \in E : key(y) = key(a) } : ~less(x, b)
BelowParent(a, b) == P(a) = C(b)        \* inside: a is an edge below the child of b
AboveChild(a, b) == C(a) = P(b)         \* outside / maximisation: a enters the parent of b

Done == pc = "done"
InsideAdmissible  == Done => PrecOK(TableLess, BelowParent) /\ GroupOK(TableLess, P)
OutsideAdmissible == Done => PrecOK(OutsideLess, AboveChild) /\ GroupOK(OutsideLess, C)
MaxAdmissible     == Done => PrecOK(MaxKeyLess, AboveChild) /\ GroupOK(MaxKeyLess, C)
SeqsSorted ==          \* the emitted sequences are the sorted ones (total orders)
    Done => LET si == InsideSeq  so == OutsideSeq IN
            /\ \A i, j \in 1..Len(si) : i < j => TableLess(si[i], si[j])
            /\ \A i, j \in 1..Len(so) : i < j => OutsideLess(so[i], so[j])

(* ---- ignore_oldest_root ---------------------------------------------------------- *)
Roots == { u \in Internal : (\E e \in E : P(e) = u) /\ ~(\E e \in E : C(e) = u) }   \* never a child
OldestRoots == { u \in Roots : \A v \in Roots : Tm(v) <= Tm(u) }
UniqueOldest == Cardinality(OldestRoots) = 1
IgnoredSpec == CHOOSE u \in OldestRoots : TRUE            \* used only when UniqueOldest
IgnoredImpl == CHOOSE u \in Nodes : Id(u) = N - 1         \* edge.parent == ts.num_nodes - 1
(* the messages ignored: edges whose parent is the ignored node and whose child is non-fixed *)
Skipped(x) == { e \in E : P(e) = x /\ C(e) \in Internal }
ImplIgnoresOldestRoot == (Done /\ UniqueOldest) => Skipped(IgnoredImpl) = Skipped(IgnoredSpec)
OldestRootIsOldestParent ==    \* the oldest root is the oldest node with any edge: parent of the last table row
    (Done /\ UniqueOldest) => \A e \in E : (\A x \in E : x = e \/ TableLess(x, e)) => P(e) = IgnoredSpec

EmitInv ==
    (EmitDone /\ Done) =>
      Emit("inst", [N |-> N, NS |-> NS,
                    time |-> [u \in 1..N |-> Tm(u - 1)],
                    perm |-> [u \in 1..N |-> Id(u - 1)],
                    edges |-> SetToSortSeq(E, LAMBDA a, b : a[1] < b[1] \/ (a[1] = b[1] /\ a[2] < b[2])),
                    inside |-> InsideSeq,
                    outside |-> OutsideSeq,
                    maxrank |-> [k \in 1..Len(InsideSeq) |-> MaxRank(InsideSeq[k])],
                    unique |-> UniqueOldest,
                    skipped |-> IF UniqueOldest THEN Skipped(IgnoredSpec) ELSE {},
                    oldest |-> IF UniqueOldest THEN IgnoredSpec ELSE -1])
=============================================================================
