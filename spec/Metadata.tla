------------------------------ MODULE Metadata ------------------------------
(* C32 -- time metadata writing follows the set_metadata policy               *)
(* (tsdate/core.py EstimationMethod.set_time_metadata, tsdate/schemas.py).    *)
(*                                                                            *)
(* A metadata column of the node or mutation table is abstracted to a pair    *)
(*   schema kind  x  content kind                                             *)
(* (DESIGN 7 C32).  The module contains                                       *)
(*   (a) the declarative outcome table of the STATEMENT  (Expected),          *)
(*   (b) the implementation-shaped procedure (try / except / drop / install / *)
(*       retry) as a small state machine on the single variable mdst,         *)
(*   (c) invariants  Done => outcome(b) = (a), "whenever written every row    *)
(*       carries mn, vr", "other fields survive a merge",                     *)
(*   (d) EmitCells: every judged cell with its expected outcome, for replay   *)
(*       on real table collections (vt/props/c32.py).                         *)
(* CanEncode is this module's model of what a tskit codec accepts; the driver *)
(* checks it against tskit itself on every cell (binding check).              *)
EXTENDS Naturals, Sequences, FiniteSets, TLC, VT

SchemaKinds == {"none", "perm", "jopen", "jclosed", "jclosed_mnvr", "jreq", "jmnstr",
                "struct_mnvr", "struct_x_mnvr", "struct_x", "struct_xdef_mnvr", "dflt"}
ContentKinds == {"empty", "other", "mnvr", "partial", "raw", "nonobject"}
Policies == {"none", "true", "false"}
MdTables == {"nodes", "mutations"}
MdMethods == {"variational_gamma", "inside_outside", "maximization"}

(* Which (schema, content) pairs are inputs tskit itself can read row by row  *)
(* (DESIGN 7 C32 "Scope").  raw = bytes without schema, nonobject = JSON rows *)
(* whose top level is not an object, partial = some rows empty.               *)
Consistent(s, c) ==
    CASE s = "none"             -> c \in {"empty", "raw"}
      [] s = "perm"             -> c \in {"empty", "other", "mnvr", "partial", "nonobject"}
      [] s = "jopen"            -> c \in {"empty", "other", "mnvr", "partial"}
      [] s = "jclosed"          -> c \in {"empty", "other"}
      [] s = "jclosed_mnvr"     -> c \in {"empty", "other", "mnvr", "partial"}
      [] s = "jreq"             -> c \in {"empty", "other", "mnvr"}
      [] s = "jmnstr"           -> c \in {"empty", "other"}
      [] s = "struct_mnvr"      -> c \in {"empty", "mnvr"}
      [] s = "struct_x_mnvr"    -> c \in {"empty", "mnvr"}
      [] s = "struct_x"         -> c \in {"empty", "other"}
      [] s = "struct_xdef_mnvr" -> c \in {"empty", "mnvr"}
      [] s = "dflt"             -> c \in {"empty", "other", "mnvr", "partial"}

(* "the existing schema can encode them": every existing row, with numeric    *)
(* mn and vr added, is accepted by the table's own schema.                    *)
CanEncode(s, c) ==
    CASE s = "none"                                  -> FALSE
      [] s = "perm"                                  -> c # "nonobject"
      [] s \in {"jopen", "jclosed_mnvr", "dflt"}      -> TRUE
      [] s \in {"jclosed", "jmnstr", "struct_x"}      -> FALSE
      [] s = "jreq"                                  -> c \in {"other", "mnvr"}
      [] s \in {"struct_mnvr", "struct_xdef_mnvr"}    -> TRUE
      [] s = "struct_x_mnvr"                         -> c = "mnvr"

(* Which tables a method has posterior means AND variances for (C04: the      *)
(* maximization method writes no time metadata; only variational_gamma dates  *)
(* mutations).                                                                *)
HasPosterior(m, T) ==
    \/ T = "nodes" /\ m # "maximization"
    \/ T = "mutations" /\ m = "variational_gamma"

(* (a) the statement *)
Expected(s, c, p, m, T) ==
    IF p = "false" \/ ~HasPosterior(m, T) THEN "untouched"
    ELSE IF CanEncode(s, c) THEN "merged"
    ELSE IF s = "none" /\ c = "empty" THEN "default"
    ELSE IF p = "none" THEN "untouched_warn"
    ELSE "default"

(* ------------------------------------------------------------------------ *)
(* (b) the procedure, one step per state                                     *)
VARIABLE mdst
(* mdst = [pc, T, m, p, s0, c0, s, c, outcome, warned, carry, survive]       *)

MdIdle == [pc |-> "idle"]
MdCell(T, m, p, s, c) ==
    [pc |-> "start", T |-> T, m |-> m, p |-> p, s0 |-> s, c0 |-> c, s |-> s, c |-> c,
     outcome |-> "?", warned |-> FALSE, carry |-> FALSE, survive |-> TRUE]

MdDone == mdst.pc = "done"
Finish(st, o) == [st EXCEPT !.pc = "done", !.outcome = o]

(* `if self.set_metadata is False or var is None: return` *)
MdStart ==
    /\ mdst.pc = "start"
    /\ mdst' = IF mdst.p = "false" \/ ~HasPosterior(mdst.m, mdst.T)
               THEN Finish(mdst, "untouched") ELSE [mdst EXCEPT !.pc = "try1"]

(* first `packset_metadata(_time_md_array(...))`: needs a schema, rows that   *)
(* decode to dicts, and validation of every updated row                       *)
MdTry1 ==
    /\ mdst.pc = "try1"
    /\ mdst' = IF mdst.s # "none" /\ mdst.c # "nonobject" /\ CanEncode(mdst.s, mdst.c)
               THEN [Finish(mdst, "merged") EXCEPT !.carry = TRUE, !.c = "mnvr"]
               ELSE [mdst EXCEPT !.pc = "except"]

(* except branch: `if len(metadata) > 0 or schema is not None` *)
MdExcept ==
    /\ mdst.pc = "except"
    /\ mdst' = IF mdst.c # "empty" \/ mdst.s # "none"
               THEN IF mdst.p # "true"
                    THEN [Finish(mdst, "untouched_warn") EXCEPT !.warned = TRUE]
                    ELSE [mdst EXCEPT !.pc = "drop"]
               ELSE [mdst EXCEPT !.pc = "install"]

(* `table.drop_metadata()` *)
MdDrop ==
    /\ mdst.pc = "drop"
    /\ mdst' = [mdst EXCEPT !.pc = "install", !.s = "none", !.c = "empty",
                            !.survive = (mdst.c = "empty")]

(* `table.metadata_schema = default_schema` *)
MdInstall ==
    /\ mdst.pc = "install"
    /\ mdst' = [mdst EXCEPT !.pc = "try2", !.s = "dflt"]

MdTry2 ==
    /\ mdst.pc = "try2"
    /\ mdst' = [Finish(mdst, "default") EXCEPT !.carry = TRUE, !.c = "mnvr"]

MdStep == MdStart \/ MdTry1 \/ MdExcept \/ MdDrop \/ MdInstall \/ MdTry2

(* ------------------------------------------------------------------------ *)
(* stand-alone specification: all judged cells                               *)
CONSTANTS CellSchemas, CellMethods, EmitCells

MdChoose ==
    /\ mdst.pc = "idle"
    /\ \E T \in MdTables, m \in CellMethods, p \in Policies, s \in CellSchemas, c \in ContentKinds :
          /\ Consistent(s, c)
          /\ mdst' = MdCell(T, m, p, s, c)

MdInit == mdst = MdIdle
MdNext == MdChoose \/ MdStep
MdSpec == MdInit /\ [][MdNext]_mdst

(* (c) *)
OutcomeIsStatement ==
    MdDone => mdst.outcome = Expected(mdst.s0, mdst.c0, mdst.p, mdst.m, mdst.T)
WrittenRowsAllCarry ==
    MdDone => (mdst.outcome \in {"merged", "default"} <=> mdst.carry)
MergeKeepsFieldsAndSchema ==
    MdDone /\ mdst.outcome = "merged" => mdst.survive /\ mdst.s = mdst.s0
UntouchedIsUntouched ==
    MdDone /\ mdst.outcome \in {"untouched", "untouched_warn"} =>
        mdst.s = mdst.s0 /\ mdst.c = mdst.c0 /\ mdst.survive
        /\ (mdst.warned <=> mdst.outcome = "untouched_warn")
DefaultInstalled ==
    MdDone /\ mdst.outcome = "default" => mdst.s = "dflt" /\ mdst.c = "mnvr"
FalseNeverTouches ==
    MdDone /\ mdst.p = "false" => mdst.outcome = "untouched"
TrueAlwaysWrites ==
    MdDone /\ mdst.p = "true" /\ HasPosterior(mdst.m, mdst.T) => mdst.carry
FieldsLostOnlyWhenForced ==
    MdDone /\ ~mdst.survive => mdst.p = "true" /\ ~CanEncode(mdst.s0, mdst.c0)

(* (d) *)
EmitInv ==
    (EmitCells /\ MdDone) =>
        Emit("cell", [T |-> mdst.T, m |-> mdst.m, p |-> mdst.p, s |-> mdst.s0, c |-> mdst.c0,
                      can |-> CanEncode(mdst.s0, mdst.c0), expected |-> mdst.outcome,
                      s1 |-> mdst.s, c1 |-> mdst.c, survive |-> mdst.survive])
=============================================================================
