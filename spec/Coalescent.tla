------------------------------ MODULE Coalescent ------------------------------
(* The labelled Kingman jump chain on n tips (C14).  A state is a partition of    *)
(* 1..n together with the history of the blocks created so far; with j blocks     *)
(* every one of the C(j,2) pairs merges with the same probability, so all         *)
(* complete behaviours (Prod_j C(j,2) of them) are equiprobable and probabilities *)
(* are ratios of behaviour counts.  TLC explores the whole behaviour tree and     *)
(* counts, per (k, a), the complete behaviours in which                           *)
(*   sz : the block created on reaching a lineages has k tips (any block)         *)
(*   fc : that block is the *given* clade {1..k}                                  *)
(* (TLCSet/TLCGet registers, hence -workers 1).  The POSTCONDITION then checks    *)
(*   - the number of behaviours, and exchangeability  sz = C(n,k) * fc            *)
(*   - PCount (= fc normalised over a) = PClosed = CodePr   (CoalescentMoments)   *)
(*   - mean: tau_expect(k,n) = Sum_a PCount * E[age|a];                           *)
(*     variance: conditional_coalescent_variance transcribed = the same from      *)
(*     counts = closed form                                                       *)
(* and emits the exact (n, k, mean, var, gamma shape/rate, Pr(a|k)) rows that are *)
(* replayed into the real ConditionalCoalescentTimes (vt/props/c14.py).           *)
EXTENDS CoalescentMoments, FiniteSets, TLC, VT

CONSTANTS NMin, NMax

VARIABLES n, blocks, hist, pc
vars == <<n, blocks, hist, pc>>

(* counters live in TLC registers, one integer per (n, k, a): plain integers are  *)
(* stored evaluated (a function-valued register would be kept as an ever deeper  *)
(* lazy closure).                                                                 *)
SzReg(m, k, a) == 1000 + 100 * m + 10 * k + a
FcReg(m, k, a) == 3000 + 100 * m + 10 * k + a

Init == /\ n \in NMin..NMax
        /\ blocks = { {i} : i \in 1..n }
        /\ hist = <<>>
        /\ pc = "run"
        /\ \A k \in 2..n, a \in 1..(n - 1) : TLCSet(SzReg(n, k, a), 0) /\ TLCSet(FcReg(n, k, a), 0)

Pairs(S) == { p \in SUBSET S : Cardinality(p) = 2 }

Merge == /\ pc = "run" /\ Cardinality(blocks) > 1
         /\ \E p \in Pairs(blocks) :
               LET b == UNION p IN
               /\ blocks' = (blocks \ p) \cup {b}
               /\ hist' = Append(hist, b)
         /\ UNCHANGED <<n, pc>>

(* hist[i] was created on reaching n - i lineages *)
Bump(r) == TLCSet(r, TLCGet(r) + 1)
Finish == /\ pc = "run" /\ Cardinality(blocks) = 1
          /\ pc' = "done"
          /\ \A i \in 1..(n - 1) :
                LET k == Cardinality(hist[i]) IN
                /\ Bump(SzReg(n, k, n - i))
                /\ (hist[i] = 1..k => Bump(FcReg(n, k, n - i)))
          /\ UNCHANGED <<n, blocks, hist>>

Next == Merge \/ Finish
Spec == Init /\ [][Next]_vars

(* ---- state invariants of the chain ------------------------------------------- *)
IsPartition == /\ UNION blocks = 1..n
               /\ \A b \in blocks : b # {}
               /\ \A b1, b2 \in blocks : b1 # b2 => b1 \cap b2 = {}
Levels == Cardinality(blocks) = n - Len(hist)
UniformJump == Cardinality(Pairs(blocks)) = Binom(Cardinality(blocks), 2)
HistoryOK == \A i \in 1..Len(hist) :
                /\ Cardinality(hist[i]) >= 2
                /\ \A j \in 1..(i - 1) : hist[j] \subseteq hist[i] \/ hist[j] \cap hist[i] = {}
DoneIsRoot == pc = "done" => hist[n - 1] = 1..n

(* ---- after the search: counts -> probabilities -> moments --------------------- *)
RECURSIVE NumBehaviours(_)
NumBehaviours(j) == IF j < 2 THEN 1 ELSE Binom(j, 2) * NumBehaviours(j - 1)

RowSum(f, m) == LET s[a \in 0..(m - 1)] == IF a = 0 THEN 0 ELSE s[a - 1] + f[a] IN s[m - 1]
PCount(fc, m, k, a) == RNorm(fc[k][a], RowSum(fc[k], m))

CountMean(fc, m, k) == RSumRange(1, m - 1, LAMBDA a : RMul(PCount(fc, m, k, a), TMean(m, a)))
CountM2(fc, m, k)   == RSumRange(1, m - 1, LAMBDA a : RMul(PCount(fc, m, k, a), TM2(m, a)))
CountVar(fc, m, k)  == RSub(CountM2(fc, m, k), RSq(CountMean(fc, m, k)))

CheckN(m) ==
    LET sz == [k \in 2..m |-> [a \in 1..(m - 1) |-> TLCGet(SzReg(m, k, a))]]
        fc == [k \in 2..m |-> [a \in 1..(m - 1) |-> TLCGet(FcReg(m, k, a))]]
    IN  /\ sz[m][1] = NumBehaviours(m)                       \* every behaviour ends in the root
        /\ \A k \in 2..m : \A a \in 1..(m - 1) :
              /\ sz[k][a] = Binom(m, k) * fc[k][a]           \* exchangeability
              /\ (a \notin ARange(m, k)) => fc[k][a] = 0
              /\ (a \in ARange(m, k)) =>
                    /\ fc[k][a] > 0
                    /\ PCount(fc, m, k, a) = PClosed(m, k, a)
                    /\ (k < m => PCount(fc, m, k, a) = CodePr(m, k)[a])
        /\ \A k \in 2..m :
              /\ CountMean(fc, m, k) = CMean(m, k)
              /\ CountMean(fc, m, k) = TauExpect(k, m)
              /\ CountVar(fc, m, k) = CVar(m, k)
              /\ CountVar(fc, m, k) = CodeVar(m, k)
              /\ RPos(CountVar(fc, m, k))
        /\ \A k \in 2..m :
              LET mn == CountMean(fc, m, k)  vr == CountVar(fc, m, k) IN
              Emit("coal", [n |-> m, k |-> k, mean |-> mn, var |-> vr,
                            shape |-> GammaShape(mn, vr), rate |-> GammaRate(mn, vr),
                            behaviours |-> sz[m][1],
                            pa |-> [a \in 1..(m - 1) |-> PCount(fc, m, k, a)]])

Post == \A m \in NMin..NMax : CheckN(m)
=============================================================================
