------------------------------ MODULE EPStar ------------------------------
(* Expectation propagation (variational.ExpectationPropagation.iterate) on      *)
(* star-like inputs: every edge joins a free parent to a sample fixed at time 0, *)
(* so every update takes the "fixed child" branch of propagate_likelihood and    *)
(* the projection is the exact conjugate update (approx.rootward_moments with    *)
(* t_j = 0).  Everything is rational, so TLC computes the state after every      *)
(* edge visit exactly as the code does (C20), including _damp, _rescale          *)
(* (max_shape cap), the rootward+leafward visiting order and the absorption of   *)
(* the scale into the factors at the end of each iteration.                      *)
EXTENDS QQ, Sequences, FiniteSets, VT

CONSTANTS MaxParents, MaxEdges, Counts, Spans, MuHalves, Caps, MaxIters, EmitDone
(* MuHalves: mutation rates in halves (2 = rate 1, 1 = rate 1/2); Caps: integer max_shape values *)

VARIABLES inst,   \* [edges |-> seq of [p, y, span], mu, cap, iters]
          post,   \* parent -> <<alpha, beta>>
          fac,    \* edge -> ROOTWARD factor
          scale,  \* parent -> rational
          k,      \* position in the visiting order
          it,     \* completed iterations
          traj,   \* posterior after each completed iteration (for replay)
          pc
vars == <<inst, post, fac, scale, k, it, traj, pc>>

MinStep == <<1, 10>>
NE == Len(inst.edges)
Parents == { inst.edges[e].p : e \in 1..NE }
(* edge_order = concatenate(edges[:-1], flip(edges)) *)
Order == [i \in 1..(2 * NE - 1) |-> IF i <= NE - 1 THEN i ELSE 2 * NE - i]
Lik(e) == <<Q(inst.edges[e].y), QMul(inst.mu, Q(inst.edges[e].span))>>

Init == /\ inst = [edges |-> <<>>, mu |-> QOne, cap |-> QOne, iters |-> 0]
        /\ post = <<>> /\ fac = <<>> /\ scale = <<>> /\ k = 0 /\ it = 0 /\ traj = <<>>
        /\ pc = "gen"

(* instance: edges in table order = parents in order, each with its edges *)
AddEdge == /\ pc = "gen" /\ Len(inst.edges) < MaxEdges
           /\ \E p \in 1..MaxParents, y \in Counts, s \in Spans :
                /\ (inst.edges = <<>> => p = 1)
                /\ (inst.edges # <<>> => p \in {inst.edges[Len(inst.edges)].p, inst.edges[Len(inst.edges)].p + 1})
                /\ inst' = [inst EXCEPT !.edges = Append(@, [p |-> p, y |-> y, span |-> s])]
           /\ UNCHANGED <<post, fac, scale, k, it, traj, pc>>

Start == /\ pc = "gen" /\ inst.edges # <<>>
         /\ \E m \in MuHalves, c \in Caps, n \in 1..MaxIters :
              inst' = [inst EXCEPT !.mu = QNorm(m, 2), !.cap = Q(c), !.iters = n]
         /\ post' = [p \in Parents |-> PZero]
         /\ fac' = [e \in 1..NE |-> PZero]
         /\ scale' = [p \in Parents |-> QOne]
         /\ k' = 1 /\ it' = 0 /\ traj' = <<>> /\ pc' = "run"

(* _damp(x, y, s) *)
Damp(x, y) ==
    IF y = PZero /\ x = PZero THEN QOne
    ELSE LET s == MinStep
             a == IF QLt(QMul(QAdd(QOne, x[1]), s), QSub(QAdd(QOne, x[1]), y[1])) THEN QOne
                  ELSE QDiv(QMul(QSub(QOne, s), QAdd(QOne, x[1])), y[1])
             b == IF QLt(QMul(x[2], s), QSub(x[2], y[2])) THEN QOne
                  ELSE QDiv(QMul(QSub(QOne, s), x[2]), y[2])
         IN  QMin(a, b)
(* _rescale(x, s) *)
Rescale(x) ==
    IF x = PZero THEN QOne
    ELSE IF QLt(inst.cap, QAdd(QOne, x[1])) THEN QDiv(QSub(inst.cap, QOne), x[1])
    ELSE IF QLt(QAdd(QOne, x[1]), QDiv(QOne, inst.cap)) THEN QDiv(QSub(QDiv(QOne, inst.cap), QOne), x[1])
    ELSE QOne

(* one edge visit: the `fixed[c] and not fixed[p]` branch *)
Visit ==
    /\ pc = "run" /\ k <= 2 * NE - 1
    /\ LET e == Order[k]   p == inst.edges[e].p
           msg == PScale(scale[p], fac[e])
           delta == Damp(post[p], msg)
           cav == PSub(post[p], PScale(delta, msg))
           el == PScale(delta, Lik(e))
           valid == QLt(QZero, QAdd(QAdd(cav[1], QOne), el[1])) /\ QLt(QZero, QAdd(cav[2], el[2]))
           new == IF valid THEN PAdd(cav, el) ELSE cav      \* conjugate update, or skip
           f1 == PAdd(PScale(QSub(QOne, delta), fac[e]), PScale(QDiv(QOne, scale[p]), PSub(new, cav)))
           eta == Rescale(new)
       IN  /\ fac' = [fac EXCEPT ![e] = f1]
           /\ post' = [post EXCEPT ![p] = PScale(eta, new)]
           /\ scale' = [scale EXCEPT ![p] = QMul(@, eta)]
    /\ k' = k + 1
    /\ UNCHANGED <<inst, it, traj, pc>>

(* end of iterate(): _rescale_factors *)
Absorb ==
    /\ pc = "run" /\ k = 2 * NE
    /\ fac' = [e \in 1..NE |-> PScale(scale[inst.edges[e].p], fac[e])]
    /\ scale' = [p \in Parents |-> QOne]
    /\ it' = it + 1
    /\ traj' = Append(traj, post)
    /\ k' = 1
    /\ pc' = IF it + 1 = inst.iters THEN "done" ELSE "run"
    /\ UNCHANGED <<inst, post>>

Next == AddEdge \/ Start \/ Visit \/ Absorb
Spec == Init /\ [][Next]_vars

(* ================= C20 / C21 statements ======================================= *)
Done == pc = "done"
SumY(p) == FoldSet(LAMBDA e, acc : acc + inst.edges[e].y, 0, { e \in 1..NE : inst.edges[e].p = p })
SumSpan(p) == FoldSet(LAMBDA e, acc : acc + inst.edges[e].span, 0, { e \in 1..NE : inst.edges[e].p = p })
ExactPost(p) == <<Q(SumY(p)), QMul(inst.mu, Q(SumSpan(p)))>>          \* natural parameters
Capped(p) == QLt(inst.cap, Q(1 + SumY(p)))

(* after any completed iteration, an uncapped parent holds exactly the conjugate posterior *)
ExactUncapped == (pc \in {"run", "done"} /\ it >= 1 /\ k = 1) =>
                    \A p \in Parents : ~Capped(p) => post[p] = ExactPost(p)
(* ... and a capped one holds one common factor times it, with shape = max_shape *)
CapScaled == (pc \in {"run", "done"} /\ it >= 1 /\ k = 1) =>
                \A p \in Parents : Capped(p) =>
                    LET kappa == QDiv(QSub(inst.cap, QOne), Q(SumY(p)))
                    IN  post[p] = PScale(kappa, ExactPost(p))
ShapeCapped == pc \in {"run", "done"} => \A p \in Parents : QLe(QAdd(QOne, post[p][1]), inst.cap)
(* C21 on this sub-model: posterior = scale * sum of messages, in every state *)
Book == pc \in {"run", "done"} =>
           \A p \in Parents :
              post[p] = PScale(scale[p], FoldSet(LAMBDA e, acc : PAdd(acc, fac[e]), PZero,
                                                 { e \in 1..NE : inst.edges[e].p = p }))
NoOverflow == pc \in {"run", "done"} =>
                 /\ \A p \in Parents : POk(post[p]) /\ QOk(scale[p])
                 /\ \A e \in 1..NE : POk(fac[e])

EmitInv == (Done /\ EmitDone) =>
    Emit("inst", [edges |-> inst.edges, mu |-> inst.mu, cap |-> inst.cap, iters |-> inst.iters,
                  traj |-> [i \in 1..Len(traj) |-> [p \in 1..Cardinality(Parents) |-> traj[i][p]]],
                  capped |-> [p \in 1..Cardinality(Parents) |-> Capped(p)]])
===========================================================================
