------------------------------- MODULE VT -------------------------------
(* Shared plumbing between the specifications and the Python harness (vt/tlc.py). *)
EXTENDS Naturals, Integers, Sequences, FiniteSets, FiniteSetsExt, TLC, Json

(* One line "@J <tag> <json>" on stdout; vt/tlc.py collects these per tag.        *)
Emit(tag, rec) == PrintT("@J " \o tag \o " " \o ToJson(rec))

(* A named conjunct of a trace action: evaluates to cond, and when it fails says  *)
(* which conjunct of which trace line failed (verdicts are total, DESIGN 3.1).     *)
Must(tid, line, name, cond) ==
    IF cond THEN TRUE
    ELSE PrintT("@J reject " \o ToJson([tid |-> tid, line |-> line, clause |-> name])) /\ FALSE

(* A conformance clause that is *not* part of a property: a mismatch between the code's internal *)
(* state and the specification's machine is recorded ("drift") but does not decide the verdict.    *)
Drift(tid, line, name, cond) ==
    IF cond THEN TRUE
    ELSE PrintT("@J drift " \o ToJson([tid |-> tid, line |-> line, clause |-> name]))

Abs(x) == IF x < 0 THEN -x ELSE x

RECURSIVE SumSeq(_)
SumSeq(s) == IF s = <<>> THEN 0 ELSE Head(s) + SumSeq(Tail(s))

=========================================================================
