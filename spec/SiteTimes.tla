----------------------------- MODULE SiteTimes -----------------------------
(* C31.  util.sites_time_from_ts / nodes_time_unconstrained / add_sampledata_times.  *)
(* The code's triple loop (trees, sites of the tree, mutations of the site) keeps a   *)
(* running maximum that starts as NaN and is raised to min_time after the site's      *)
(* mutations; here one action per site (cursor k over the sites in position order),   *)
(* checked against the documented definition (Decl).                                  *)
(*                                                                                    *)
(* Exact arithmetic: node ages are small naturals.  For child / parent / arithmetic    *)
(* every value is kept doubled (2*age, so the arithmetic mean c+p is an integer); for  *)
(* geometric every value is kept squared (c*p); both maps are increasing, so maxima    *)
(* and the min_time floor commute with them.  NaN is NAN = -1.                         *)
EXTENDS TSGen

CONSTANTS Selections,   \* subset of {"child","parent","arithmetic","geometric", <bad names>}
          MinTimes,     \* naturals
          Unconstr,     \* subset of BOOLEAN
          MnVals,       \* naturals: candidate "mn" metadata values of non-sample nodes
          HistSets,     \* TRUE: every set of internal nodes may be (historical) samples
          MaxExtra,     \* 0 or 1 additional site without mutations
          EmitDone

VARIABLES inst, k, res, pc
vars == <<g, inst, k, res, pc>>

NAN == -1
Internal == Nodes \ Samples
Valid == {"child", "parent", "arithmetic", "geometric"}

Init == /\ GenInit
        /\ inst = [trees |-> <<>>, muts |-> {}, xs |-> {}, mn |-> <<>>, sel |-> "child", mt |-> 0,
                   unc |-> FALSE, sites |-> <<>>]
        /\ k = 1 /\ res = <<>> /\ pc = "choose"

Gen == /\ pc = "choose" /\ (GenTree \/ GenTreesDone \/ GenMut)
       /\ UNCHANGED <<inst, k, res, pc>>

PosLess(x, y) == x < y
(* the option record is chosen in two steps (few successors per step for -simulate) *)
PickOpts ==
    /\ pc = "choose" /\ GenReady
    /\ \E xs \in (IF HistSets THEN SUBSET Internal ELSE {{}}), sel \in Selections, mt \in MinTimes, unc \in Unconstr :
          inst' = [trees |-> g.trees, muts |-> g.muts, xs |-> xs, mn |-> [u \in Internal |-> 0], sel |-> sel,
                   mt |-> mt, unc |-> unc, sites |-> <<>>]
    /\ pc' = "opts2"
    /\ UNCHANGED <<g, k, res>>
PickMeta ==
    /\ pc = "opts2"
    /\ \E mn \in [Internal -> (IF inst.unc THEN MnVals ELSE {0})] :
       \E extra \in {{}} \cup (IF MaxExtra > 0 THEN {{x} : x \in Positions} ELSE {}) :
          inst' = [inst EXCEPT !.mn = mn,
                               !.sites = SetToSortSeq({m[1] : m \in inst.muts} \cup extra, PosLess)]
    /\ k' = 1 /\ res' = <<>> /\ pc' = "loop"
    /\ UNCHANGED g

SampleSet == Samples \cup inst.xs
(* nodes_time_unconstrained: non-sample ages come from the "mn" metadata *)
T(u) == IF inst.unc /\ u \notin SampleSet THEN inst.mn[u] ELSE Time[u]
Geo == inst.sel = "geometric"

(* the age the code computes for one mutation (scaled: doubled, or squared if Geo) *)
MutAge(m) ==
    LET c == m[2]
        p == TreeAt(inst.trees, m[1])[c]
    IN  IF inst.sel = "child" \/ p = NULL
        THEN (IF Geo THEN T(c) * T(c) ELSE 2 * T(c))
        ELSE CASE inst.sel = "parent"     -> 2 * T(p)
               [] inst.sel = "arithmetic" -> T(c) + T(p)
               [] inst.sel = "geometric"  -> T(c) * T(p)
Floor == IF Geo THEN inst.mt * inst.mt ELSE 2 * inst.mt

MutsAt(x) == SelectSeq(MutSeq(inst.muts), LAMBDA m : m[1] = x)

RECURSIVE RunMax(_, _)
RunMax(cur, ms) ==           \* `if isnan(cur) or cur < age: cur = age`
    IF ms = <<>> THEN cur
    ELSE LET age == MutAge(Head(ms)) IN RunMax(IF cur = NAN \/ cur < age THEN age ELSE cur, Tail(ms))

Bad == Len(inst.sites) < 1 \/ inst.sel \notin Valid        \* the two ValueErrors

Site ==
    /\ pc = "loop" /\ ~Bad /\ k <= Len(inst.sites)
    /\ LET cur == RunMax(NAN, MutsAt(inst.sites[k]))
           fin == IF cur # NAN /\ cur < Floor THEN Floor ELSE cur     \* NaN < x is false
       IN  res' = Append(res, fin)
    /\ k' = k + 1 /\ UNCHANGED <<g, inst, pc>>

Finish == /\ pc = "loop" /\ (Bad \/ k > Len(inst.sites)) /\ pc' = "done"
          /\ UNCHANGED <<g, inst, k, res>>

Next == Gen \/ PickOpts \/ PickMeta \/ Site \/ Finish
Spec == Init /\ [][Next]_vars

(* ================= the documented definition ===================================== *)
Summary(m) ==                \* "the chosen node-age summary, with the child's age used above a root"
    LET c == m[2]  p == TreeAt(inst.trees, m[1])[c]
        pa == IF p = NULL THEN T(c) ELSE T(p)
    IN  CASE inst.sel = "child"      -> 2 * T(c)
          [] inst.sel = "parent"     -> 2 * pa
          [] inst.sel = "arithmetic" -> T(c) + pa
          [] inst.sel = "geometric"  -> T(c) * pa
Decl(x) == LET ms == { m \in inst.muts : m[1] = x } IN
           IF ms = {} THEN NAN ELSE Max({ Summary(m) : m \in ms } \cup {Floor})

Done == pc = "done"
SiteTimesExact == (Done /\ ~Bad) => /\ Len(res) = Len(inst.sites)
                                    /\ \A i \in 1..Len(res) : res[i] = Decl(inst.sites[i])
AtLeastMinTime == (Done /\ ~Bad) => \A i \in 1..Len(res) : res[i] = NAN \/ res[i] >= Floor

(* ---- add_sampledata_times: genotypes, historical bound, final times -------------- *)
RECURSIVE AncSelf(_, _)
AncSelf(f, u) == {u} \cup (IF f[u] = NULL THEN {} ELSE AncSelf(f, f[u]))
Carries(x, u) == \E m \in inst.muts : m[1] = x /\ m[2] \in AncSelf(TreeAt(inst.trees, x), u)
Carriers(x) == { u \in SampleSet : Carries(x, u) }
Bound(x) == Max({0} \cup { Time[u] : u \in { v \in Carriers(x) : Time[v] # 0 } })
BoundS(x) == IF Geo THEN Bound(x) * Bound(x) ELSE 2 * Bound(x)
WithSampleData(i) == IF res[i] = NAN THEN NAN ELSE Max({res[i], BoundS(inst.sites[i])})

SiteJson(i) == [pos |-> inst.sites[i], v |-> res[i], bound |-> Bound(inst.sites[i]), w |-> WithSampleData(i)]

EmitInv == (Done /\ EmitDone) =>
    Emit("inst", [N |-> N, NS |-> NS, L |-> L, time |-> [u \in 1..N |-> Time[u - 1]],
                  trees |-> TreesJson(inst.trees), muts |-> MutSeq(inst.muts),
                  samples |-> SampleSet, sites |-> inst.sites,
                  mn |-> [u \in 1..N |-> IF (u - 1) \in Internal THEN inst.mn[u - 1] ELSE 0],
                  sel |-> inst.sel, mt |-> inst.mt, unc |-> inst.unc, geo |-> Geo,
                  err |-> Bad,
                  geno |-> [i \in 1..Len(inst.sites) |-> Carriers(inst.sites[i])],
                  out |-> IF Bad THEN <<>> ELSE [i \in 1..Len(res) |-> SiteJson(i)]])
=============================================================================
