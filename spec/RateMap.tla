------------------------------- MODULE RateMap -------------------------------
(* util.transform_coordinates_by_ratemap: the tree sequence re-expressed in the    *)
(* coordinate system y = cumulative mass of a piecewise-constant rate map.  Edges   *)
(* whose new length is zero disappear, sites (and their mutations) lying in          *)
(* intervals of zero rate disappear, all nodes are kept.  With a constant map of     *)
(* rate c this is the genome rescaling of C07.                                       *)
(* Rate intervals are the unit intervals of TSGen's genome (two coordinate units     *)
(* each); rates are small naturals, so masses are integers.                          *)
EXTENDS TSGen

CONSTANTS Rates, EmitDone          \* Rates: set of naturals (0 allowed)

VARIABLES rate, pc
vars == <<g, rate, pc>>

Init == GenInit /\ rate = <<>> /\ pc = "gen"
Gen == /\ pc = "gen" /\ (GenTree \/ GenTreesDone \/ GenMut) /\ UNCHANGED <<rate, pc>>
PickRates == /\ pc = "gen" /\ GenReady
             /\ \E r \in [1..L -> Rates] : (\E i \in 1..L : r[i] > 0) /\ rate' = r
             /\ pc' = "done" /\ UNCHANGED g
Next == Gen \/ PickRates
Spec == Init /\ [][Next]_vars

(* cumulative mass at coordinate x (0 <= x <= 2L): each coordinate unit of interval i weighs rate[i] *)
RECURSIVE Mass(_)
Mass(x) == IF x = 0 THEN 0 ELSE Mass(x - 1) + rate[((x - 1) \div 2) + 1]
RateAt(x) == rate[(x \div 2) + 1]

E == EdgeSeq(g.trees, L, Nodes, Time)
NewEdges == { [l |-> Mass(E[e].l), r |-> Mass(E[e].r), p |-> E[e].p, c |-> E[e].c] :
                e \in { k \in 1..Len(E) : Mass(E[k].r) > Mass(E[k].l) } }
KeptMuts == { m \in g.muts : RateAt(m[1]) > 0 }
NewMuts == { <<Mass(m[1]), m[2]>> : m \in KeptMuts }

Done == pc = "done"
(* the map is monotone, so kept edges keep their order and kept sites stay distinct and ordered *)
Monotone == Done => \A x \in 0..(2 * L - 1) : Mass(x) <= Mass(x + 1)
SitesStayDistinct == Done => \A m1, m2 \in KeptMuts : m1[1] < m2[1] => Mass(m1[1]) < Mass(m2[1])
EdgesWellFormed == Done => \A e \in NewEdges : e.l < e.r /\ e.r <= Mass(2 * L)

EmitInv == (Done /\ EmitDone) =>
    Emit("inst", [N |-> N, NS |-> NS, L |-> L, time |-> [u \in 1..N |-> Time[u - 1]],
                  trees |-> TreesJson(g.trees), muts |-> MutSeq(g.muts), rate |-> rate,
                  seqlen |-> Mass(2 * L),
                  edges |-> { <<e.l, e.r, e.p, e.c>> : e \in NewEdges },
                  newmuts |-> NewMuts])
=============================================================================
