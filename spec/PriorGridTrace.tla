---------------------------- MODULE PriorGridTrace ----------------------------
(* Trace validation (code -> spec) for build_prior_grid (C16).  One trace line = one *)
(* real call, abstracted (DESIGN 4: A2 ranks, A4 named predicates) by vt/props/c16.py: *)
(*   kind      "int" | "array"            how `timepoints` was given                   *)
(*   tp        dense ranks of prior.timepoints (equal floats <-> equal ranks)          *)
(*   tp0       prior.timepoints[0] = 0.0                                               *)
(*   ulen      length of the user's grid (array) or requested count + 1 (int)           *)
(*   ugrid     per grid point: close12(prior.timepoints[j], sorted user grid[j])        *)
(*   sample    per node: is a sample;   trank: per node rank of its time                *)
(*   nonfixed  prior.nonfixed_nodes (1-based ids)                                       *)
(*   hasrow    per node: prior[u] is a row of len(timepoints) entries                   *)
(*   rows      per entry of nonfixed: [zero0, max1, nonneg, mass] where                 *)
(*               zero0  = row[0] == 0,  max1 = max(row[1:]) == 1,  nonneg = all >= 0    *)
(*               mass   = row is close10 to PriorGrid!Expected of the node's CDF at the  *)
(*                        grid (mirror of the spec operator, mirror_sync'd)             *)
(* The statement of C16 is the conjunction below; a failing conjunct is reported with   *)
(* its name (Must).                                                                     *)
EXTENDS Naturals, Integers, Sequences, FiniteSets, TLC, Json, IOUtils, VT

Trace == ndJsonDeserialize(IOEnv.TRACE_FILE)

VARIABLES l, nacc
vars == <<l, nacc>>

Ev == Trace[l]
M(name, cond) == Must(Ev.tid, l, name, cond)
GN == Len(Ev.tp)
NonSamples == { u \in 1..Ev.n : ~Ev.sample[u] }

StrictlyIncreasing == \A j \in 1..GN : Ev.tp[j] = j          \* dense ranks of an increasing vector
StartsAtZero == Ev.tp0
UserGridKept == Ev.kind = "array" => /\ GN = Ev.ulen
                                     /\ \A j \in 1..GN : Ev.ugrid[j]
EnoughPoints == GN >= 2
SamplesHaveNoRow == /\ { Ev.nonfixed[i] : i \in 1..Len(Ev.nonfixed) } = NonSamples
                    /\ Len(Ev.nonfixed) = Cardinality(NonSamples)
                    /\ \A u \in 1..Ev.n : Ev.hasrow[u] <=> ~Ev.sample[u]
NonfixedByTime == \A i \in 1..(Len(Ev.nonfixed) - 1) : Ev.trank[Ev.nonfixed[i]] <= Ev.trank[Ev.nonfixed[i + 1]]
RowClause(k) == \A i \in 1..Len(Ev.rows) : Ev.rows[i][k]

Init == l = 1 /\ nacc = 0

Line == /\ l <= Len(Trace)
        /\ LET ok == /\ M("EnoughPoints", EnoughPoints)
                     /\ M("StrictlyIncreasing", StrictlyIncreasing)
                     /\ M("StartsAtZero", StartsAtZero)
                     /\ M("UserGridKept", UserGridKept)
                     /\ M("SamplesHaveNoRow", SamplesHaveNoRow)
                     /\ M("NonfixedByTime", NonfixedByTime)
                     /\ M("RowCount", Len(Ev.rows) = Len(Ev.nonfixed))
                     /\ M("ZeroAtZero", RowClause(1))
                     /\ M("MaxIsOne", RowClause(2))
                     /\ M("NonNegative", RowClause(3))
                     /\ M("RowsAreMasses", RowClause(4))
           IN  nacc' = nacc + (IF ok THEN 1 ELSE 0)
        /\ l' = l + 1

Finish == /\ l = Len(Trace) + 1
          /\ Emit("accepted", [accepted |-> nacc, lines |-> Len(Trace)])
          /\ l' = l + 1 /\ UNCHANGED nacc

TraceNext == Line \/ Finish
TraceSpec == Init /\ [][TraceNext]_vars
=============================================================================
