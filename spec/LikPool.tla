-------------------------------- MODULE LikPool --------------------------------
(* discrete.Likelihoods.precalculate_mutation_likelihoods (C09).                  *)
(*                                                                                *)
(* The keys (mutation count, span) of the edges above non-fixed nodes are the     *)
(* keys of a dict, 1..K in insertion order.  With num_threads >= 2 they are       *)
(* handed, in that order, to a pool of W worker processes                         *)
(* (multiprocessing.Pool.imap_unordered, chunksize 1); the parent receives        *)
(* (key, pmf) pairs in completion order and stores cache[key] = pmf.  With        *)
(* num_threads in {None, 0, 1} the parent loops over the keys itself (W = 0).     *)
(*                                                                                *)
(* Val(k) is the free term for "the likelihood row of key k".                     *)
(*                                                                                *)
(* FillBy = "key"       as implemented: the returned key addresses the cache      *)
(*        = "position"  the realistic mistake: i-th arrival stored under the      *)
(*                      i-th key (only right when arrivals are in order)          *)
(* Invariants: the final cache is [k |-> Val(k)] whatever the schedule and the    *)
(* number of workers; every key arrives exactly once.  Every complete behaviour   *)
(* is emitted (K, W, arrival order) for replay into the real pool.                *)
EXTENDS Naturals, Integers, Sequences, FiniteSets, TLC, VT

CONSTANTS MaxKeys,    \* K ranges over 1..MaxKeys
          WorkerSet,  \* values of W explored; 0 = sequential loop
          FillBy,     \* "key" | "position"
          EmitDone

VARIABLES pc, K, W, nxt, running, arrivals, cache
vars == <<pc, K, W, nxt, running, arrivals, cache>>

NONE == <<"none">>
Val(k) == <<"pmf", k>>
Keys == 1..K
Workers == 1..W

Init == /\ pc = "choose" /\ K = 0 /\ W = 0 /\ nxt = 1
        /\ running = <<>> /\ arrivals = <<>> /\ cache = <<>>

Choose ==
    /\ pc = "choose"
    /\ \E k \in 1..MaxKeys, w \in WorkerSet :
          /\ K' = k /\ W' = w
          /\ running' = [x \in 1..w |-> 0]
          /\ cache' = [x \in 1..k |-> NONE]        \* the dict {key: None for ...}
    /\ pc' = "run" /\ nxt' = 1 /\ arrivals' = <<>>

(* sequential variants (num_threads None / 1): for key in cache.keys(): ...       *)
SeqStep ==
    /\ pc = "run" /\ W = 0 /\ nxt <= K
    /\ cache' = [cache EXCEPT ![nxt] = Val(nxt)]
    /\ arrivals' = Append(arrivals, nxt)
    /\ nxt' = nxt + 1
    /\ UNCHANGED <<pc, K, W, running>>

(* an idle worker takes the next task of the FIFO task queue                      *)
Start(w) ==
    /\ pc = "run" /\ W > 0 /\ nxt <= K /\ running[w] = 0
    /\ running' = [running EXCEPT ![w] = nxt]
    /\ nxt' = nxt + 1
    /\ UNCHANGED <<pc, K, W, arrivals, cache>>

(* a worker finishes: the parent's loop body runs for its (key, pmf)              *)
Finish(w) ==
    /\ pc = "run" /\ W > 0 /\ running[w] # 0
    /\ LET key == running[w]
           slot == IF FillBy = "key" THEN key ELSE Len(arrivals) + 1
       IN  cache' = [cache EXCEPT ![slot] = Val(key)]
    /\ arrivals' = Append(arrivals, running[w])
    /\ running' = [running EXCEPT ![w] = 0]
    /\ UNCHANGED <<pc, K, W, nxt>>

AllIdle == \A w \in Workers : running[w] = 0

Done ==
    /\ pc = "run" /\ nxt > K /\ AllIdle
    /\ pc' = "done"
    /\ IF EmitDone THEN Emit("sched", [K |-> K, W |-> W, arrivals |-> arrivals]) ELSE TRUE
    /\ UNCHANGED <<K, W, nxt, running, arrivals, cache>>

StartAny == \E w \in 1..W : Start(w)
FinishAny == \E w \in 1..W : Finish(w)
Next == Choose \/ SeqStep \/ StartAny \/ FinishAny \/ Done

(* ---- statements ---- *)
RECURSIVE NoDup(_)
NoDup(s) == IF Len(s) <= 1 THEN TRUE
            ELSE (\A i \in 2..Len(s) : s[i] # s[1]) /\ NoDup(Tail(s))

FinalCache == pc = "done" => cache = [k \in Keys |-> Val(k)]
EachKeyOnce == /\ NoDup(arrivals)
               /\ (pc = "done" => { arrivals[i] : i \in 1..Len(arrivals) } = Keys)
(* a slot is either still None or already holds its own key's row                 *)
NeverWrongRow == pc = "run" => \A k \in Keys : cache[k] \in {NONE, Val(k)}
(* FIFO hand-out: key j cannot have started before j - W keys arrived             *)
Feasible == pc = "done" /\ W > 0 =>
               \A i \in 1..K : arrivals[i] - W < i
AtMostWRunning == pc = "run" /\ W > 0 => Cardinality({ w \in Workers : running[w] # 0 }) <= W
=============================================================================
