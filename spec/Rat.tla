------------------------------- MODULE Rat -------------------------------
(* Exact rational arithmetic on pairs <<num, den>> in lowest terms with den > 0, *)
(* so that equality of rationals is equality of TLA+ values.  TLC has 32-bit     *)
(* integers: every operator cancels common factors *before* multiplying, and any *)
(* remaining overflow makes TLC stop with "Overflow when computing ..." -- the   *)
(* runner (vt/tlc.py) reports that as a machinery failure, never as a verdict.   *)
(* Scopes of the modules built on this one are chosen so that it does not occur. *)
EXTENDS Integers, Sequences

RAbs(x) == IF x < 0 THEN -x ELSE x

RECURSIVE RGcd(_, _)
RGcd(a, b) == IF b = 0 THEN a ELSE RGcd(b, a % b)      \* a, b >= 0

(* n/d for integers n, d with d # 0, in normal form *)
RNorm(n, d) ==
    LET s == IF d < 0 THEN -1 ELSE 1
        g == RGcd(RAbs(n), RAbs(d))
    IN  <<(s * n) \div g, (s * d) \div g>>

RInt(n) == <<n, 1>>
RZero == <<0, 1>>
ROne == <<1, 1>>
IsRat(x) == /\ x \in Int \X Int /\ x[2] > 0 /\ RGcd(RAbs(x[1]), x[2]) = 1

RNeg(x) == <<-x[1], x[2]>>
RAdd(x, y) ==
    LET g == RGcd(x[2], y[2])
    IN  RNorm(x[1] * (y[2] \div g) + y[1] * (x[2] \div g), (x[2] \div g) * y[2])
RSub(x, y) == RAdd(x, RNeg(y))
RMul(x, y) ==
    LET g1 == RGcd(RAbs(x[1]), y[2])
        g2 == RGcd(RAbs(y[1]), x[2])
    IN  RNorm((x[1] \div g1) * (y[1] \div g2), (x[2] \div g2) * (y[2] \div g1))
RInv(x) == RNorm(x[2], x[1])                           \* x # 0
RDiv(x, y) == RMul(x, RInv(y))                         \* y # 0
RSq(x) == RMul(x, x)

RLt(x, y) == RSub(x, y)[1] < 0
RLe(x, y) == RSub(x, y)[1] <= 0
RPos(x) == x[1] > 0
RMax2(x, y) == IF RLt(x, y) THEN y ELSE x

(* sums / maxima of a sequence of rationals *)
RECURSIVE RSumSeq(_)
RSumSeq(s) == IF s = <<>> THEN RZero ELSE RAdd(Head(s), RSumSeq(Tail(s)))
RECURSIVE RMaxSeq(_)
RMaxSeq(s) == IF Len(s) = 1 THEN s[1] ELSE RMax2(Head(s), RMaxSeq(Tail(s)))

(* Sum_{i = lo}^{hi} F(i) *)
RSumRange(lo, hi, F(_)) ==
    IF lo > hi THEN RZero ELSE RSumSeq([i \in 1..(hi - lo + 1) |-> F(lo + i - 1)])

(* JSON-friendly: sequences of rationals are emitted as arrays of [num, den] *)
=========================================================================
