---------------------------- MODULE Changepoints ----------------------------
(* rescaling._fixed_changepoints and rescaling._poisson_changepoints (C26).      *)
(*                                                                                *)
(* fixed:  result e[0..E] with e[0] = 0, e[E] = n and, for interior k, e[k] = the  *)
(*   last index i with Y[i]/Y[n] <= k/E (Y = cumulative counts).  The code decides *)
(*   the inequality on floating quotients, so at an *exact* rational tie either    *)
(*   side may win: admissible = {FracLo, FracHi} (RRat), strict otherwise.  The    *)
(*   implementation-shaped part is numpy's searchsorted(side="right") as a binary  *)
(*   search over cross-multiplied integers with one tie bit per boundary.          *)
(*                                                                                *)
(* poisson (PELT):  exp(-cost/2) turns the penalised deviance into a product of    *)
(*   rational powers: a segment with y counts over offset n weighs (y/n)^y (the    *)
(*   e^{-y} factors multiply to the same e^{-Y[n]} for every segmentation and are  *)
(*   dropped), each segment costs a factor 1/K where penalty = 2 ln K, and a       *)
(*   zero-count segment weighs 1 (limit y log y -> 0).  Minimising cost =          *)
(*   maximising weight; weights are prime-exponent vectors compared exactly (RRat). *)
(*   The dynamic programme is transcribed column by column: F (here Wt), the        *)
(*   candidate dictionary C in insertion order with its stored paths, the minimise *)
(*   loop (strict <, floating-point semantics of inf and NaN) and the prune loop.  *)
(*   Variant = "<zero-count loss>/<pruning rule>":                                  *)
(*      zero = deviance 0 (the specification), nan = 0*log(0) = NaN (what the      *)
(*      compiled code computes);  impl = prune when cost[i] > F[j] + penalty,      *)
(*      off = never prune, feas = prune only when the segment (i, j) is feasible,  *)
(*      noconstr = prune as impl but only when min_counts = min_offset = 0.        *)
EXTENDS Naturals, Integers, Sequences, FiniteSets, FiniteSetsExt, SequencesExt, TLC, Json, IOUtils, VT, RRat

CONSTANTS Kinds,        \* subset of {"fixed", "poisson"}
          MaxLen,       \* vectors of length 1..MaxLen
          MaxCount,     \* entries 0..MaxCount
          MaxTotal,     \* total count <= MaxTotal (and > 0)
          EpochSet,     \* epochs explored (fixed)
          KSet,         \* penalty = 2 ln K, K in KSet
          MinCounts, MinOffsets,   \* sets of values of min_counts / min_offset
          OffVals,      \* offset entries (positive); 0 is added when min_offset >= 1
          Variants,     \* set of variant names, see above
          Source,       \* "gen" = enumerate the scope, "file" = instances of IOEnv.INST_FILE, "both"
          EmitDone

VARIABLES inst, pc, j, Wt, C, path, res
vars == <<inst, pc, j, Wt, C, path, res>>

File == IF Source \in {"file", "both"} THEN ndJsonDeserialize(IOEnv.INST_FILE) ELSE <<>>

(* cy / cn = cumulative counts / offsets (functions on 0..n), P = number of primes; filled in once *)
(* when the vectors are complete (definitions over state variables are re-evaluated at each use) *)
NoInst == [kind |-> "none", id |-> 0, n |-> 0, counts |-> <<>>, offs |-> <<>>, E |-> 0, K |-> 1, mc |-> 0, mo |-> 0,
           variant |-> "-", cy |-> <<>>, cn |-> <<>>, P |-> 0]
Cum(s) == [i \in 0..Len(s) |-> ISumSeq(SubSeq(s, 1, i))]
Max3(a, b, c) == IF a >= b /\ a >= c THEN a ELSE IF b >= c THEN b ELSE c
Prepared(r) == [r EXCEPT !.cy = Cum(r.counts), !.cn = Cum(r.offs),
                         !.P = NumPrimes(Max3(ISumSeq(r.counts), ISumSeq(r.offs), r.K))]

Init == /\ inst = NoInst /\ pc = "pick" /\ j = 0 /\ Wt = <<>> /\ C = <<>> /\ path = <<>> /\ res = <<>>

(* ---------------- instance choice, one decision per step ------------------------ *)
Total(s) == ISumSeq(s)

Pick ==
    /\ pc = "pick" /\ Source \in {"gen", "both"}
    /\ \E kind \in Kinds, n \in 1..MaxLen :
         \/ /\ kind = "fixed"
            /\ \E E \in EpochSet : inst' = [NoInst EXCEPT !.kind = kind, !.n = n, !.E = E]
         \/ /\ kind = "poisson"
            /\ \E K \in KSet, mc \in MinCounts, mo \in MinOffsets, v \in Variants :
                  inst' = [NoInst EXCEPT !.kind = kind, !.n = n, !.K = K, !.mc = mc, !.mo = mo, !.variant = v]
    /\ pc' = "counts"
    /\ UNCHANGED <<j, Wt, C, path, res>>

AddCount ==
    /\ pc = "counts" /\ Len(inst.counts) < inst.n
    /\ \E c \in 0..MaxCount :
         /\ Total(inst.counts) + c <= MaxTotal
         /\ inst' = [inst EXCEPT !.counts = Append(@, c)]
    /\ UNCHANGED <<pc, j, Wt, C, path, res>>

CountsDone ==
    /\ pc = "counts" /\ Len(inst.counts) = inst.n /\ Total(inst.counts) > 0
    /\ pc' = IF inst.kind = "fixed" THEN "run" ELSE "offs"
    /\ inst' = IF inst.kind = "fixed" THEN Prepared(inst) ELSE inst
    /\ UNCHANGED <<j, Wt, C, path, res>>

AddOff ==
    /\ pc = "offs" /\ Len(inst.offs) < inst.n
    /\ \E o \in OffVals \cup (IF inst.mo >= 1 THEN {0} ELSE {}) :
         inst' = [inst EXCEPT !.offs = Append(@, o)]
    /\ UNCHANGED <<pc, j, Wt, C, path, res>>

(* premise of the statement: at least one feasible segmentation, i.e. the whole   *)
(* vector meets the minimum constraints                                           *)
OffsDone ==
    /\ pc = "offs" /\ Len(inst.offs) = inst.n
    /\ Total(inst.offs) >= inst.mo /\ Total(inst.counts) >= inst.mc /\ Total(inst.offs) > 0
    /\ pc' = "run" /\ inst' = Prepared(inst)
    /\ UNCHANGED <<j, Wt, C, path, res>>

Load ==
    /\ pc = "pick" /\ Source \in {"file", "both"}
    /\ \E l \in 1..Len(File) :
         LET r == File[l] IN
         inst' = Prepared([NoInst EXCEPT !.kind = r.kind, !.id = r.id, !.n = Len(r.counts), !.counts = r.counts,
                                         !.offs = r.offs, !.E = r.E, !.K = r.K, !.mc = r.mc, !.mo = r.mo,
                                         !.variant = r.variant])
    /\ pc' = "run"
    /\ UNCHANGED <<j, Wt, C, path, res>>

(* ================= fixed changepoints ============================================ *)
n == inst.n
Y == inst.cy
NN == inst.cn

(* numpy searchsorted(Z, z[k], "right") on Z[0..n]: tieLE says how an exact tie   *)
(* Z[mid] = z[k] compares (TRUE: z[k] < Z[mid] is false)                          *)
RECURSIVE BinRight(_, _, _, _)
BinRight(k, tieLE, lo, hi) ==
    IF lo >= hi THEN lo
    ELSE LET mid == (lo + hi) \div 2
             lt == \/ k * Y[n] < Y[mid] * inst.E
                   \/ (k * Y[n] = Y[mid] * inst.E /\ ~tieLE)
         IN  IF lt THEN BinRight(k, tieLE, lo, mid) ELSE BinRight(k, tieLE, mid + 1, hi)
Searched(k, tieLE) == BinRight(k, tieLE, 0, n + 1) - 1

(* the two post-processing lines *)
CodeBoundary(k, tieLE) ==
    LET e == Searched(k, tieLE) IN
    IF k = 0 THEN (IF e > 0 THEN 0 ELSE e)
    ELSE IF k = inst.E THEN (IF e < n THEN n ELSE e)
    ELSE e

RunFixed ==
    /\ pc = "run" /\ inst.kind = "fixed"
    /\ \E tb \in { t \in [0..inst.E -> BOOLEAN] : t[0] } :      \* Z[0] = 0.0 = z[0] exactly
          res' = [k \in 1..(inst.E + 1) |-> CodeBoundary(k - 1, tb[k - 1])]
    /\ pc' = "done"
    /\ UNCHANGED <<inst, j, Wt, C, path>>

FixedAdm == [k \in 1..(inst.E + 1) |-> FracAdm(Y, n, inst.E, k - 1)]

(* ================= poisson changepoints ========================================= *)
(* a cost c is kept as the weight exp(-c/2): t = "fin" with the prime-exponent vector v, *)
(* "inf" (cost +inf, weight 0) or "nan"                                                      *)
Fin(v) == [t |-> "fin", v |-> v]
WOne == Fin(PvOne(inst.P))
WInf == [t |-> "inf", v |-> PvOne(inst.P)]
WNaN == [t |-> "nan", v |-> PvOne(inst.P)]

ZeroIsNaN == inst.variant \in {"nan/impl", "nan/off", "nan/feas", "nan/noconstr"}
PruneRule == IF inst.variant \in {"zero/impl", "nan/impl"} THEN "impl"
             ELSE IF inst.variant \in {"zero/off", "nan/off"} THEN "off"
             ELSE IF inst.variant \in {"zero/feas", "nan/feas"} THEN "feas"
             ELSE "noconstr"

SegFeasible(a, b) == NN[b] - NN[a] >= inst.mo /\ Y[b] - Y[a] >= inst.mc

(* loss f(a, b) of the code, as a weight *)
SegW(a, b, zeroNaN) ==
    LET nn == NN[b] - NN[a]  y == Y[b] - Y[a] IN
    IF ~SegFeasible(a, b) THEN WInf
    ELSE IF y = 0 THEN (IF zeroNaN THEN WNaN ELSE WOne)
    ELSE Fin(PvMul(PvPow(y, y, inst.P), PvPow(nn, -y, inst.P)))

WMul(a, b) == IF a.t = "nan" \/ b.t = "nan" THEN WNaN            \* inf + nan = nan
              ELSE IF a.t = "inf" \/ b.t = "inf" THEN WInf
              ELSE Fin(PvMul(a.v, b.v))
WDivK(a) == IF a.t = "fin" THEN Fin(PvMul(a.v, PvPow(inst.K, -1, inst.P))) ELSE a     \* + penalty
WMulK(a) == IF a.t = "fin" THEN Fin(PvMul(a.v, PvPow(inst.K, 1, inst.P))) ELSE a      \* - penalty

(* sign of weight(a) - weight(b) for non-NaN weights *)
WCmp(a, b) == IF a.t = "inf" /\ b.t = "inf" THEN 0 ELSE IF a.t = "inf" THEN -1 ELSE IF b.t = "inf" THEN 1
              ELSE PvCmp(a.v, b.v)
(* floating-point comparisons of *costs* (any comparison with NaN is false) *)
CostLt(a, b) == a.t # "nan" /\ b.t # "nan" /\ WCmp(a, b) > 0
CostGt(a, b) == a.t # "nan" /\ b.t # "nan" /\ WCmp(a, b) < 0
CostEq(a, b) == a.t # "nan" /\ b.t # "nan" /\ WCmp(a, b) = 0

StartPoisson ==
    /\ pc = "run" /\ inst.kind = "poisson"
    /\ Wt' = [i \in 0..n |-> IF i = 0 THEN WMulK(WOne) ELSE WInf]          \* F[0] = -penalty
    /\ C' = <<0>> /\ path' = [i \in 0..n |-> <<>>]
    /\ j' = 1 /\ pc' = "column"
    /\ UNCHANGED <<inst, res>>

CostOf(i) == WDivK(WMul(Wt[i], SegW(i, j, ZeroIsNaN)))       \* cost[i] = F[i] + f(i, j) + penalty
Cands == { C[x] : x \in 1..Len(C) }

PruneActive == CASE PruneRule = "impl" -> TRUE
                 [] PruneRule = "off" -> FALSE
                 [] PruneRule = "feas" -> TRUE
                 [] PruneRule = "noconstr" -> inst.mc = 0 /\ inst.mo = 0
MayPrune(i) == PruneRule # "feas" \/ SegFeasible(i, j)

(* minimise: first strict improvement in iteration order starting from (0, inf);   *)
(* candidates whose costs tie exactly may compare either way in floating point, so *)
(* any of them may be the argmin.  prune: cost[i] > F[j] + penalty, again with     *)
(* either outcome at an exact tie (except for the argmin itself, whose cost *is*   *)
(* F[j]).                                                                          *)
Column ==
    /\ pc = "column" /\ j <= n
    /\ LET co == [i \in Cands |-> CostOf(i)]
           imp == { i \in Cands : CostLt(co[i], WInf) }
           ams == IF imp = {} THEN {0} ELSE { i \in imp : \A i2 \in imp : ~CostLt(co[i2], co[i]) }
       IN  \E am \in ams :
             LET fj == IF am \in imp THEN co[am] ELSE WInf
                 lim == WDivK(fj)
                 pr == IF PruneActive THEN { i \in Cands : MayPrune(i) } ELSE {}
                 strict == { i \in pr : CostGt(co[i], lim) }
                 tied == IF fj.t = "fin" THEN { i \in pr \ {am} : CostEq(co[i], lim) } ELSE {}
             IN  \E tp \in SUBSET tied :
                   LET gone == strict \cup tp IN
                   /\ Wt' = [Wt EXCEPT ![j] = fj]
                   /\ C' = Append(SelectSeq(C, LAMBDA i : i \notin gone), j)
                   /\ path' = [path EXCEPT ![j] = Append(path[am], am)]
                   /\ res' = IF j = n THEN Append(Append(path[am], am), n) ELSE res   \* append(C[dim], dim)
    /\ j' = j + 1
    /\ pc' = IF j = n THEN "done" ELSE pc
    /\ UNCHANGED inst

Next == Pick \/ AddCount \/ CountsDone \/ AddOff \/ OffsDone \/ Load \/ RunFixed \/ StartPoisson \/ Column
Spec == Init /\ [][Next]_vars

(* ================= declarative statements ======================================= *)
Done == pc = "done"

(* --- fixed --- *)
FixedMeetsDefinition == (Done /\ inst.kind = "fixed") => \A k \in 1..(inst.E + 1) : res[k] \in FixedAdm[k]
FixedTieFree == (Done /\ inst.kind = "fixed") =>
    \A k \in 1..(inst.E + 1) : (~\E i \in 0..n : Y[i] * inst.E = (k - 1) * Y[n]) => Cardinality(FixedAdm[k]) = 1
(* every admissible combination is a non-decreasing sequence of boundaries from 0 to n *)
FixedMonotone == (Done /\ inst.kind = "fixed") =>
    /\ FixedAdm[1] = {0} /\ FixedAdm[inst.E + 1] = {n}
    /\ \A k \in 1..inst.E : \A a \in FixedAdm[k], b \in FixedAdm[k + 1] : a <= b

(* --- poisson --- *)
Cuts(m) == SUBSET (1..(m - 1))                       \* a segmentation of 0..m = its interior cut points
Bounds(cuts, m) == <<0>> \o SetToSortSeq(cuts, <) \o <<m>>
RECURSIVE SegProd(_, _)
SegProd(b, x) == IF x >= Len(b) THEN WOne ELSE WDivK(WMul(SegW(b[x], b[x + 1], FALSE), SegProd(b, x + 1)))
SegsFeasible(b) == \A x \in 1..(Len(b) - 1) : SegFeasible(b[x], b[x + 1])
(* weight of a feasible segmentation of the prefix 0..m, with the -penalty of F[0] *)
PrefixW(cuts, m) == WMulK(SegProd(Bounds(cuts, m), 1))
FeasibleCuts(m) == { c \in Cuts(m) : SegsFeasible(Bounds(c, m)) }
BestOf(ws) == FoldSet(LAMBDA w, acc : IF WCmp(w, acc) > 0 THEN w ELSE acc, WInf, ws)
PrefixBest(m) == BestOf({ PrefixW(c, m) : c \in FeasibleCuts(m) })
Opt == LET fc == FeasibleCuts(n)
           w == [c \in fc |-> PrefixW(c, n)]
           best == BestOf({ w[c] : c \in fc })
       IN  { Bounds(c, n) : c \in { c \in fc : WCmp(w[c], best) = 0 } }

SoundVariant == \/ inst.variant \in {"zero/off", "zero/noconstr"}
                \/ (inst.variant = "zero/impl" /\ inst.mc = 0 /\ inst.mo = 0)
(* the statement of C26 for the dynamic programme *)
PoissonOptimal == (Done /\ inst.kind = "poisson" /\ SoundVariant) => res \in Opt
(* the same without the premise on the variant: TLC is expected to refute it for   *)
(* zero/impl with constraints and for nan/ variants with a zero count               *)
PoissonOptimalAnyVariant == (Done /\ inst.kind = "poisson") => res \in Opt
(* loop invariant: F[m] is the optimum of the prefix problem *)
PrefixOptimal == (inst.kind = "poisson" /\ pc \in {"column", "done"} /\ SoundVariant) =>
    (j >= 2 => WCmp(Wt[j - 1], PrefixBest(j - 1)) = 0)
(* the argmin is always a live candidate, a stored path is increasing and ends below its key *)
DictOK == (inst.kind = "poisson" /\ pc \in {"column", "done"}) =>
    /\ \A x \in 1..Len(C) : \A k \in 1..Len(path[C[x]]) :
          path[C[x]][k] < C[x] /\ (k > 1 => path[C[x]][k - 1] < path[C[x]][k])
    /\ (pc = "column" => (0 \in Cands \/ \E i \in Cands : CostLt(CostOf(i), WInf)))   \* C[argmin] exists
ResultIsSegmentation == (Done /\ inst.kind = "poisson") =>
    /\ res[1] = 0 /\ res[Len(res)] = n /\ \A k \in 1..(Len(res) - 1) : res[k] < res[k + 1]

EmitInv == (Done /\ EmitDone) =>
    IF inst.kind = "fixed"
    THEN Emit("fixed", [id |-> inst.id, counts |-> inst.counts, E |-> inst.E, adm |-> FixedAdm, model |-> res])
    ELSE Emit("pois", [id |-> inst.id, counts |-> inst.counts, offs |-> inst.offs, K |-> inst.K, mc |-> inst.mc,
                       mo |-> inst.mo, variant |-> inst.variant, model |-> res,
                       nfeas |-> Cardinality(FeasibleCuts(n)), opt |-> Opt])
=============================================================================
