------------------------------ MODULE PriorGrid ------------------------------
(* prior.fill_priors + NodeTimeValues.standardize over an abstract CDF table (C16). *)
(*                                                                                  *)
(* The prior of node r is known only through the values c[r][1..G] of its CDF at    *)
(* the G grid times (coalescent scale); the first grid time is 0, so c[r][1] = 0,    *)
(* the table is nondecreasing and c[r][G] > 0.  The numeric CDF is outside TLA+;     *)
(* what is decided here is what is done with it.                                     *)
(*                                                                                  *)
(* Declarative (the statement of C16): entry j > 1 of the row is the prior mass of   *)
(* the interval (t[j-1], t[j]], entry 1 is zero, and the row is rescaled so that     *)
(* its largest entry is 1:                                                           *)
(*        Expected(c)[j] = (c[j] - c[j-1]) / max_i (c[i] - c[i-1]).                  *)
(* Code-shaped: FillRow divides by max(c) and differences, with a leading 0;         *)
(* Standardize divides by the maximum over columns 2..G (grid_data[:, 1:]).          *)
(* Every table in scope is emitted with its expected rows and replayed into the real *)
(* fill_priors with the abstract table in place of scipy's cdf (vt/props/c16.py).    *)
EXTENDS Rat, Integers, Sequences, FiniteSets, TLC, VT

CONSTANTS G,        \* grid size (>= 2)
          MaxC,     \* CDF values are integers 0..MaxC (an arbitrary common scale)
          NRows,    \* number of non-sample nodes
          EmitDone

VARIABLES tab, filled, rows, pc
vars == <<tab, filled, rows, pc>>

CdfRows == { c \in [1..G -> 0..MaxC] : /\ c[1] = 0 /\ c[G] > 0
                                        /\ \A j \in 1..(G - 1) : c[j] <= c[j + 1] }

(* ---- code-shaped ---------------------------------------------------------------- *)
RECURSIVE IntMax(_)
IntMax(s) == IF Len(s) = 1 THEN s[1] ELSE LET m == IntMax(Tail(s)) IN IF s[1] > m THEN s[1] ELSE m

(* prior_node = cdf / max(cdf);  row = concatenate([0], diff(prior_node))              *)
FillRow(c) ==
    LET mx == IntMax(c)
        pn == [j \in 1..G |-> RNorm(c[j], mx)]
    IN  [j \in 1..G |-> IF j = 1 THEN RZero ELSE RSub(pn[j], pn[j - 1])]

(* grid_data / grid_data[:, 1:].max(axis=1)                                            *)
StandardizeRow(row) ==
    LET rowmax == RMaxSeq(SubSeq(row, 2, G))
    IN  [j \in 1..G |-> RDiv(row[j], rowmax)]

(* ---- declarative ------------------------------------------------------------------ *)
Mass(c, j) == c[j] - c[j - 1]                              \* j in 2..G, on the common scale
MaxMass(c) == IntMax([j \in 1..(G - 1) |-> Mass(c, j + 1)])
Expected(c) == [j \in 1..G |-> IF j = 1 THEN RZero ELSE RNorm(Mass(c, j), MaxMass(c))]

(* ---- machine ------------------------------------------------------------------------ *)
Init == tab = <<>> /\ filled = <<>> /\ rows = <<>> /\ pc = "choose"

Choose == /\ pc = "choose"
          /\ \E t \in [1..NRows -> CdfRows] : tab' = t
          /\ pc' = "fill" /\ UNCHANGED <<filled, rows>>

Fill == /\ pc = "fill"
        /\ filled' = [r \in 1..NRows |-> FillRow(tab[r])]
        /\ pc' = "standardize" /\ UNCHANGED <<tab, rows>>

Standardize == /\ pc = "standardize"
               /\ rows' = [r \in 1..NRows |-> StandardizeRow(filled[r])]
               /\ pc' = "done" /\ UNCHANGED <<tab, filled>>

Next == Choose \/ Fill \/ Standardize
Spec == Init /\ [][Next]_vars

(* ---- properties ----------------------------------------------------------------------- *)
Done == pc = "done"
RowsAreMasses == Done => \A r \in 1..NRows : rows[r] = Expected(tab[r])
ZeroAtZero    == Done => \A r \in 1..NRows : rows[r][1] = RZero
MaxIsOne      == Done => \A r \in 1..NRows : RMaxSeq(SubSeq(rows[r], 2, G)) = ROne
NonNegative   == Done => \A r \in 1..NRows : \A j \in 1..G : ~RLt(rows[r][j], RZero)
(* before standardisation the entries are the masses conditional on age <= t[G]           *)
FilledSumsToOne == pc \in {"standardize", "done"} =>
                      \A r \in 1..NRows : RSumSeq(filled[r]) = ROne
(* rows of different nodes do not interact                                                 *)
RowsIndependent == Done => \A r, s \in 1..NRows : tab[r] = tab[s] => rows[r] = rows[s]

EmitInv == (Done /\ EmitDone) => Emit("grid", [G |-> G, tab |-> tab, rows |-> rows])
=============================================================================
