----------------------------- MODULE SessionTrace -----------------------------
(* Trace validation (code -> spec) of real public calls of tsdate against module *)
(* Session.  One ndjson line = one real call (logged at return, and on the error *)
(* path), with every canonical column of the table collection interned before    *)
(* and after (A3), the provenance table as interned rows plus the abstraction of  *)
(* its newest record, the keyword arguments as canonical JSON texts, and -- for   *)
(* C04 / C32 -- interned posterior values / named predicates (A4) and the         *)
(* classification of what happened to the metadata columns.                       *)
(*                                                                                *)
(* Each line is replayed as the corresponding Session step: tables' and prov'     *)
(* are bound to the logged values and the clauses of the statements (operators of *)
(* Session / Metadata) are evaluated under Must(..), so a verdict names the       *)
(* failing clause.  `Checks` selects the statements demanded (per property).      *)
(* Lines with the same tid form one session (C33 histories): the provenance rows  *)
(* the next call starts from must be the ones the previous call returned.         *)
EXTENDS Session, IOUtils

CONSTANT Checks

Trace == ndJsonDeserialize(IOEnv.TRACE_FILE)

VARIABLES l, nacc
tvars == <<l, nacc, vars>>

Ev == Trace[l]
Want(c) == c \in Checks
M(name, cond) == Must(Ev.tid, l, name, cond)
O == Ev.opts
Ok == Ev.outcome = "ok"
IsDate == Ev.ev = "Date"

TInit ==
    /\ l = 1 /\ nacc = 0
    /\ tables = <<>> /\ prov = <<>> /\ hist = <<>> /\ pc = "idle" /\ cur = [fn |-> "-"]
    /\ snap = <<>> /\ psnap = <<>> /\ mdk = <<>> /\ mdst = MdIdle

(* ---- C02 ---- *)
FrameClauses ==
    /\ M("Frame:every-column-logged", AllCols \subseteq DOMAIN Ev.before /\ AllCols \subseteq DOMAIN Ev.after)
    /\ \A c \in DOMAIN Ev.before :
          M("Frame:" \o c, c \in DOMAIN Ev.after /\ (c \in Touchable(O) \/ Ev.after[c] = Ev.before[c]))
MutNodeClauses ==
    /\ M("MutNode:every-mutation-matched", Ev.mut.unmatched = 0)
    /\ M("MutNode:changed-although-phased", O.phased => Len(Ev.mut.nin) = 0)
    /\ M("MutNode:not-the-other-node-of-the-individual",
         \A k \in 1..Len(Ev.mut.nin) : Ev.mut.pin[k] # 0 /\ Ev.mut.nout[k] = Ev.mut.pin[k])

(* ---- C33 ---- *)
Command == Cmd(Ev.fn, O.method)
LastRec == Ev.prov.last
WantParams == ExpectedParams(Command, Ev.prov.given)
ProvClauses ==
    /\ M("Prov:earlier-records-kept", IsPrefix(Ev.prov.before, Ev.prov.after))
    /\ M("Prov:count", Len(Ev.prov.after) = Len(Ev.prov.before) + (IF O.recording THEN 1 ELSE 0))
    /\ (Ev.chained => M("Prov:session-chain", Ev.prov.before = prov))
    /\ (O.recording =>
          /\ M("Prov:command", LastRec.command = Command)
          /\ M("Prov:software", LastRec.software = "tsdate")
          /\ M("Prov:valid-record", LastRec.valid)
          /\ \A k \in DOMAIN WantParams : M("Prov:param:" \o k, ParamOK(LastRec.params, k, WantParams[k]))
          (* the record describes *this* call only: no parameter of another command (seed C33-b) *)
          /\ M("Prov:no-foreign-parameters", DOMAIN LastRec.params \subseteq (DOMAIN WantParams \cup {"command"})))
ProvErrorClauses ==
    M("Prov:recording-raised", ~Ev.prov.raised)

(* ---- C04 ---- *)
P == Ev.post
SameSeq(a, b) == a = b
PosteriorClauses ==
    /\ (O.method = "maximization" =>
          /\ M("Post:maximization-wrote-node-metadata",
               Ev.after["nodes.metadata"] = Ev.before["nodes.metadata"] /\ Ev.after["nodes.schema"] = Ev.before["nodes.schema"])
          /\ M("Post:maximization-wrote-mutation-metadata",
               Ev.after["mutations.metadata"] = Ev.before["mutations.metadata"]
               /\ Ev.after["mutations.schema"] = Ev.before["mutations.schema"]))
    /\ ((O.method # "maximization" /\ P.nodes_written) =>
          /\ M("Post:node-mn", SameSeq(P.md_mn, P.fit_mn))
          /\ M("Post:node-vr", SameSeq(P.md_vr, P.fit_vr)))
    /\ ((O.method = "variational_gamma" /\ P.muts_written) =>
          /\ M("Post:mutation-mn", SameSeq(P.mmd_mn, P.mfit_mn))
          /\ M("Post:mutation-vr", SameSeq(P.mmd_vr, P.mfit_vr)))
    /\ (O.method = "inside_outside" =>
          /\ M("Post:grid-rows-nonnegative", P.io_rows_nonneg)
          /\ M("Post:grid-rows-sum-to-one", P.io_rows_sum1)
          /\ (P.nodes_written =>
                /\ M("Post:mn-is-row-mean", P.io_mean_close)
                /\ M("Post:vr-is-row-variance", P.io_var_close)
                /\ M("Post:sample-exact-time", \A s \in 1..Len(P.samples) : P.md_mn[P.samples[s]] = P.tin[s])
                /\ M("Post:sample-zero-variance", \A s \in 1..Len(P.samples) : P.md_vr[P.samples[s]] = P.zero)))

(* ---- C32, as far as it can be said without knowing the schema kind ---- *)
MdTableClauses(T) ==
    LET d == Ev.md[T]
        un == d.untouched
        merged == d.rows = "all" /\ d.others_survive /\ d.schema_same
        fresh == d.rows = "all" /\ d.others_survive /\ d.in_schema_none /\ d.in_md_empty /\ d.schema_default
        forced == d.rows = "all" /\ d.schema_default /\ d.only_mnvr
    IN  /\ M("Md:" \o T \o ":rows-partly-written", d.rows # "some" \/ un)
        /\ IF O.sm = "false" \/ ~HasPosterior(O.method, T)
           THEN M("Md:" \o T \o ":touched-without-posterior-or-with-False", un)
           ELSE IF O.sm = "none"
           THEN M("Md:" \o T \o ":None-neither-merged-nor-untouched-with-warning", merged \/ fresh \/ (un /\ d.warned))
           ELSE M("Md:" \o T \o ":True-did-not-write", merged \/ fresh \/ forced)
MdClauses == MdTableClauses("nodes") /\ MdTableClauses("mutations")

Verdict ==
    IF Ok
    THEN /\ ((Want("Frame") /\ IsDate) => FrameClauses)
         /\ ((Want("MutNode") /\ IsDate) => MutNodeClauses)
         /\ (Want("Prov") => ProvClauses)
         /\ ((Want("Posterior") /\ IsDate /\ P.judged) => PosteriorClauses)
         /\ ((Want("MdPolicy") /\ IsDate) => MdClauses)
    ELSE (Want("Prov") => ProvErrorClauses)

Step ==
    /\ l <= Len(Trace)
    /\ nacc' = nacc + (IF Verdict THEN 1 ELSE 0)
    /\ tables' = IF Ok THEN Ev.after ELSE Ev.before
    /\ prov' = IF Ok THEN Ev.prov.after ELSE Ev.prov.before
    /\ l' = l + 1
    /\ UNCHANGED <<hist, pc, cur, snap, psnap, mdk, mdst>>

TFinish ==
    /\ l = Len(Trace) + 1
    /\ Emit("accepted", [accepted |-> nacc, lines |-> Len(Trace)])
    /\ l' = l + 1
    /\ UNCHANGED <<nacc, vars>>

TraceNext == Step \/ TFinish
TraceSpec == TInit /\ [][TraceNext]_tvars
=============================================================================
