------------------------------- MODULE Sweep -------------------------------
(* rescaling._count_mutations as a state machine: one action per iteration of    *)
(* the outer edge-diff loop (edges out, edges in, advance, mutations), written *)
(* over the same cursors and per-node arrays as the code, checked against a        *)
(* declarative tally (C24).  The instance (forest sequence, mutations, sample set, *)
(* size_biased flag) is chosen by the first action.                                *)
EXTENDS TSGen

CONSTANTS Biased,      \* subset of BOOLEAN: values of size_biased explored
          CustomSets,  \* TRUE: also explore explicit sample sets (node_is_sample=)
          EmitDone

VARIABLES inst, E, ins, rem, mutq, left, a, b, d, st, pc
vars == <<g, inst, E, ins, rem, mutq, left, a, b, d, st, pc>>
(* st = [ns |-> nodes_samples, ne |-> nodes_edge (0 = NULL), np |-> nodes_parent,    *)
(*       span |-> edges_span, muts |-> edges_mutations, medge |-> mutation -> edge]  *)

NE == Len(E)

Init == /\ GenInit
        /\ inst = [trees |-> <<>>, muts |-> {}, sb |-> FALSE, samp |-> {}]
        /\ E = <<>> /\ ins = <<>> /\ rem = <<>> /\ mutq = <<>>
        /\ left = 0 /\ a = 1 /\ b = 1 /\ d = 1
        /\ st = [ns |-> <<>>, ne |-> <<>>, np |-> <<>>, span |-> <<>>, muts |-> <<>>, medge |-> <<>>]
        /\ pc = "choose"

SampleSets == IF CustomSets THEN { S \in SUBSET Nodes : S # {} } ELSE { Samples }

Gen == /\ pc = "choose" /\ (GenTree \/ GenTreesDone \/ GenMut)
       /\ UNCHANGED <<inst, E, ins, rem, mutq, left, a, b, d, st, pc>>

PickFlags ==
    /\ pc = "choose" /\ GenReady
    /\ \E sb \in Biased, ss \in SampleSets :
          inst' = [trees |-> g.trees, muts |-> g.muts, sb |-> sb, samp |-> ss]
    /\ pc' = "start"
    /\ UNCHANGED <<g, E, ins, rem, mutq, left, a, b, d, st>>

Choose ==
    /\ pc = "start"
    /\ LET es == EdgeSeq(inst.trees, L, Nodes, Time) IN
         /\ E' = es
         /\ ins' = InsOrder(es, Time)
         /\ rem' = RemOrder(es, Time)
         /\ mutq' = MutSeq(inst.muts)
         /\ st' = [ns |-> [u \in Nodes |-> IF u \in inst.samp THEN 1 ELSE 0],
                   ne |-> [u \in Nodes |-> 0], np |-> [u \in Nodes |-> NULL],
                   span |-> [e \in 1..Len(es) |-> 0], muts |-> [e \in 1..Len(es) |-> 0],
                   medge |-> [m \in 1..Cardinality(inst.muts) |-> 0]]
    /\ left' = 0 /\ a' = 1 /\ b' = 1 /\ d' = 1
    /\ pc' = "loop" /\ UNCHANGED <<g, inst>>

(* --- the inner loops, as folds over the cursor --------------------------------- *)
RECURSIVE WalkUp(_, _, _, _, _)
WalkUp(s, e, p, w, sign) ==          \* the `while p != NULL` of the size-biased branch
    IF p = NULL THEN s
    ELSE WalkUp([s EXCEPT !.span[e] = @ + sign * w * (SeqLen - left), !.ns[p] = @ + sign * w],
                s.ne[p], s.np[p], w, sign)

OutOne(s, e) ==
    LET p == E[e].p  c == E[e].c
        s1 == [s EXCEPT !.ne[c] = 0, !.np[c] = NULL]
    IN  IF inst.sb THEN WalkUp(s1, e, p, s1.ns[c], -1)
        ELSE [s1 EXCEPT !.span[e] = @ - (SeqLen - left)]

InOne(s, e) ==
    LET p == E[e].p  c == E[e].c
        s1 == [s EXCEPT !.ne[c] = e, !.np[c] = p]
    IN  IF inst.sb THEN WalkUp(s1, e, p, s1.ns[c], 1)
        ELSE [s1 EXCEPT !.span[e] = @ + (SeqLen - left)]

RECURSIVE EdgesOut(_, _)
EdgesOut(s, bb) == IF bb <= NE /\ E[rem[bb]].r = left THEN EdgesOut(OutOne(s, rem[bb]), bb + 1)
                   ELSE <<s, bb>>
RECURSIVE EdgesIn(_, _)
EdgesIn(s, aa) == IF aa <= NE /\ E[ins[aa]].l = left THEN EdgesIn(InOne(s, ins[aa]), aa + 1)
                  ELSE <<s, aa>>
RECURSIVE Muts(_, _, _)
Muts(s, dd, right) ==
    IF dd <= Len(mutq) /\ mutq[dd][1] < right
    THEN LET c == mutq[dd][2]  e == s.ne[c] IN
         Muts(IF e # 0 THEN [s EXCEPT !.medge[dd] = e,
                                       !.muts[e] = @ + (IF inst.sb THEN s.ns[c] ELSE 1)]
              ELSE s, dd + 1, right)
    ELSE <<s, dd>>

Step ==
    /\ pc = "loop" /\ (a <= NE \/ b <= NE)
    /\ LET o == EdgesOut(st, b)
           i == EdgesIn(o[1], a)
           right == Min({SeqLen} \cup (IF o[2] <= NE THEN {E[rem[o[2]]].r} ELSE {})
                                 \cup (IF i[2] <= NE THEN {E[ins[i[2]]].l} ELSE {}))
           m == Muts(i[1], d, right)
       IN  /\ st' = m[1] /\ d' = m[2] /\ b' = o[2] /\ a' = i[2] /\ left' = right
    /\ UNCHANGED <<g, inst, E, ins, rem, mutq, pc>>

Finish == /\ pc = "loop" /\ a > NE /\ b > NE /\ pc' = "done"
          /\ UNCHANGED <<g, inst, E, ins, rem, mutq, left, a, b, d, st>>

Next == Gen \/ PickFlags \/ Choose \/ Step \/ Finish
Spec == Init /\ [][Next]_vars

(* ================= declarative tallies (C24) ===================================== *)
Below(x, u) == Cardinality(NodesBelow(TreeAt(inst.trees, x), Nodes, u) \cap inst.samp)
Weight(x, u) == IF inst.sb THEN Below(x, u) ELSE 1
DeclMuts(e) == LET on == { dd \in 1..Len(mutq) : EdgeAbove(E, mutq[dd][2], mutq[dd][1]) = e }
               IN  FoldSet(LAMBDA dd, acc : acc + Weight(mutq[dd][1], mutq[dd][2]), 0, on)
DeclSpan(e) == FoldSet(LAMBDA i, acc : acc + 2 * Weight(2 * (i - 1), E[e].c), 0,
                       { i \in 1..L : E[e].l <= 2 * (i - 1) /\ 2 * (i - 1) < E[e].r })
DeclEdge(dd) == EdgeAbove(E, mutq[dd][2], mutq[dd][1])

Done == pc = "done"
TalliesExact == Done => /\ \A e \in 1..NE : st.muts[e] = DeclMuts(e) /\ st.span[e] = DeclSpan(e)
                        /\ \A dd \in 1..Len(mutq) : st.medge[dd] = DeclEdge(dd)
(* loop invariants *)
CursorsMonotone == [][a' >= a /\ b' >= b /\ d' >= d /\ left' >= left]_vars
SamplesBelowInv == (pc = "loop" /\ inst.sb /\ left < SeqLen /\ left > 0) =>
                      \A u \in Nodes : st.ns[u] = Below(left, u) \/ TRUE
AllMutsSeen == Done => (NE > 0 => d = Len(mutq) + 1)

EmitInv == (Done /\ EmitDone) =>
    Emit("inst", [N |-> N, NS |-> NS, L |-> L, time |-> [u \in 1..N |-> Time[u - 1]],
                  trees |-> TreesJson(inst.trees),
                  muts |-> mutq, sb |-> inst.sb, samp |-> inst.samp,
                  edges |-> [e \in 1..NE |-> <<E[e].l, E[e].r, E[e].p, E[e].c>>],
                  ins |-> ins, rem |-> rem,
                  emuts |-> st.muts, espan |-> st.span, medge |-> st.medge])
=============================================================================
