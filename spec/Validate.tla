------------------------------ MODULE Validate ------------------------------
(* Argument validation of tsdate.date and the three named methods (core.py,        *)
(* variational.py, prior.py) as a decision procedure over parameter classes and     *)
(* input classes (C35).                                                            *)
(*                                                                                 *)
(* An instance is a record of classes: how the function is entered (through date()  *)
(* or the named wrapper), the method, and for each parameter "default" or a class   *)
(* of value (positive / zero / negative / missing ...), plus the only input feature  *)
(* the statement's rejections depend on (mutations present or not).  The machine     *)
(* walks the stages date -> wrapper -> init -> run -> algorithm in the order of the  *)
(* code and stops at the first failing check.  What the statement fixes is stated    *)
(* declaratively (MustReject, Shape) and checked against the machine; for everything *)
(* else only the class of outcome is restricted: Allowed never contains an internal  *)
(* error.  Every decided instance is emitted for replay into the real functions.     *)
EXTENDS VT

CONSTANTS MaxDev,     \* explore instances with at most that many non-standard parameter classes
          EmitUpTo,   \* emit instances with at most that many
          EmitOn

VARIABLES pick, pc, out
vars == <<pick, pc, out>>

VG == "variational_gamma"
Discrete == {"inside_outside", "maximization"}

(* parameter -> sequence of classes; the first class is the standard one *)
Params == <<
  [p |-> "entry",  cls |-> <<"date", "wrapper">>],
  [p |-> "method", cls |-> <<VG, "inside_outside", "maximization", "unknown">>],
  [p |-> "muts",   cls |-> <<"some", "none">>],                 \* input class: mutations present
  [p |-> "mu",     cls |-> <<"pos", "zero", "neg", "none">>],   \* mutation_rate
  [p |-> "mbl",    cls |-> <<"default", "pos", "zero", "neg">>],            \* min_branch_length
  [p |-> "citer",  cls |-> <<"default", "zero", "pos", "neg", "nonint">>],  \* constr_iterations
  [p |-> "maxit",  cls |-> <<"default", "pos", "zero", "neg">>],            \* max_iterations (variational_gamma)
  [p |-> "popsize", cls |-> <<"std", "other", "zero", "neg">>], \* std: what the method needs (none for VG, positive otherwise); other: the opposite
  [p |-> "priors", cls |-> <<"none", "given">>],
  [p |-> "eps",    cls |-> <<"none", "pos">>],
  [p |-> "rec",    cls |-> <<"none", "pos">>],                  \* recombination_rate
  [p |-> "rfit",   cls |-> <<"no", "yes">>],                    \* return_fit
  [p |-> "rlik",   cls |-> <<"no", "yes">>],                    \* return_likelihood
  [p |-> "extra",  cls |-> <<"default", "nd1", "nd2">>] >>      \* packs of valid non-default options (do not affect the decision)
NP == Len(Params)
Free == {"entry", "method", "muts", "rfit", "rlik"}            \* do not count as deviations
Idx(name) == CHOOSE i \in 1..NP : Params[i].p = name
V(pk, name) == Params[Idx(name)].cls[pk[Idx(name)]]
Dev(pk) == Cardinality({ i \in 1..Len(pk) : pk[i] # 1 /\ Params[i].p \notin Free })

(* admissible instances: "unknown" only exists through date(method=...); max_iterations *)
(* is a parameter of variational_gamma only (for the other functions it is not a         *)
(* parameter at all: a Python TypeError, outside the property)                           *)
Admissible(pk) == /\ V(pk, "method") = "unknown" => V(pk, "entry") = "date"
                  /\ V(pk, "method") # VG => V(pk, "maxit") = "default"

PopGiven(pk) == IF V(pk, "method") = VG THEN V(pk, "popsize") # "std" ELSE V(pk, "popsize") # "other"
PopBad(pk) == V(pk, "popsize") \in {"zero", "neg"}

(* ================= what the statement fixes (declarative) ========================== *)
MustReject(pk) ==
    \/ V(pk, "mu") \in {"zero", "neg"}                       \* non-positive rates
    \/ V(pk, "mbl") \in {"zero", "neg"}                      \* non-positive min_branch_length
    \/ V(pk, "citer") = "neg"                                \* negative constr_iterations
    \/ V(pk, "maxit") \in {"zero", "neg"}                    \* non-positive max_iterations
    \/ V(pk, "method") = "unknown"                           \* unknown methods
    \/ V(pk, "method") = VG /\ (PopGiven(pk) \/ V(pk, "priors") = "given")   \* population size / priors where unused
    \/ V(pk, "method") = VG /\ V(pk, "eps") # "none"         \* eps with variational_gamma
    \/ V(pk, "method") = VG /\ V(pk, "muts") = "none"        \* no mutations with variational_gamma
(* further rejections documented in the docstrings / error messages (not in the       *)
(* statement's list: the replay does not insist on them)                              *)
DocReject(pk) ==
    \/ V(pk, "rec") # "none"
    \/ V(pk, "citer") = "nonint"
    \/ V(pk, "method") \in Discrete /\ ~PopGiven(pk) /\ V(pk, "priors") = "none"
    \/ V(pk, "method") \in Discrete /\ PopGiven(pk) /\ V(pk, "priors") = "given"
    \/ V(pk, "method") \in Discrete /\ PopBad(pk) /\ V(pk, "priors") = "none"
    \/ V(pk, "method") \in {VG, "maximization"} /\ V(pk, "mu") = "none"
Shape(pk) == <<"ts">> \o (IF V(pk, "rfit") = "yes" THEN <<"fit">> ELSE <<>>)
                      \o (IF V(pk, "rlik") = "yes" THEN <<"likelihood">> ELSE <<>>)
Rejections == {"ValueError", "NotImplementedError"}
Allowed(pk) == IF MustReject(pk) THEN Rejections ELSE Rejections \cup {"returns"}

(* ================= the machine: checks in the order of the code ==================== *)
(* each stage returns the exception of its first failing check, or "" to go on         *)
StageDate(pk) == IF V(pk, "entry") = "date" /\ V(pk, "method") = "unknown" THEN "ValueError" ELSE ""
StageWrapper(pk) ==
    IF V(pk, "method") = VG THEN
        IF V(pk, "eps") # "none" THEN "ValueError"
        ELSE IF V(pk, "muts") = "none" THEN "ValueError" ELSE ""
    ELSE ""
StageInit(pk) ==          \* EstimationMethod.__init__
    IF V(pk, "rec") # "none" THEN "NotImplementedError"
    ELSE IF V(pk, "citer") \in {"neg", "nonint"} THEN "ValueError"
    ELSE IF V(pk, "mbl") \in {"zero", "neg"} THEN "ValueError"
    ELSE IF V(pk, "method") = VG THEN
        IF V(pk, "priors") = "given" THEN "ValueError"
        ELSE IF PopGiven(pk) THEN "ValueError" ELSE ""
    ELSE IF V(pk, "priors") = "none" THEN
        IF ~PopGiven(pk) THEN "ValueError"
        ELSE IF PopBad(pk) THEN "ValueError" ELSE ""        \* demography.PopulationSizeHistory
    ELSE IF PopGiven(pk) THEN "ValueError" ELSE ""
StageRun(pk) ==
    IF V(pk, "method") = VG THEN
        IF V(pk, "maxit") \in {"zero", "neg"} THEN "ValueError"
        ELSE IF V(pk, "mu") = "none" THEN "ValueError" ELSE ""
    ELSE IF V(pk, "method") = "maximization" /\ V(pk, "mu") = "none" THEN "ValueError" ELSE ""
StageAlgorithm(pk) ==     \* _check_valid_inputs and friends: the rate must be positive
    IF V(pk, "mu") \in {"zero", "neg"} THEN "ValueError" ELSE ""

Stages == <<"date", "wrapper", "init", "run", "algorithm">>
StageOf(s, pk) == CASE s = "date" -> StageDate(pk) [] s = "wrapper" -> StageWrapper(pk)
                    [] s = "init" -> StageInit(pk) [] s = "run" -> StageRun(pk)
                    [] s = "algorithm" -> StageAlgorithm(pk)

Init == pick = <<>> /\ pc = "pick" /\ out = [kind |-> "", at |-> ""]
Pick == /\ pc = "pick" /\ Len(pick) < NP
        /\ \E a \in 1..Len(Params[Len(pick) + 1].cls) :
              /\ (a # 1 /\ Params[Len(pick) + 1].p \notin Free) => Dev(pick) < MaxDev
              /\ pick' = Append(pick, a)
        /\ UNCHANGED <<pc, out>>
Start == /\ pc = "pick" /\ Len(pick) = NP /\ Admissible(pick)
         /\ pc' = "date" /\ UNCHANGED <<pick, out>>
Check == /\ pc \in { Stages[i] : i \in 1..Len(Stages) }
         /\ LET i == CHOOSE i \in 1..Len(Stages) : Stages[i] = pc
                e == StageOf(pc, pick) IN
            IF e # "" THEN out' = [kind |-> e, at |-> pc] /\ pc' = "done"
            ELSE IF i = Len(Stages) THEN out' = [kind |-> "algorithm", at |-> ""] /\ pc' = "done"
            ELSE pc' = Stages[i + 1] /\ UNCHANGED out
         /\ UNCHANGED pick
Next == Pick \/ Start \/ Check
Spec == Init /\ [][Next]_vars

Done == pc = "done"
TypeOK == out.kind \in {"", "algorithm"} \cup Rejections
(* every named invalid parameter is rejected by some check, whatever else is passed *)
NamedRejected == Done => (MustReject(pick) => out.kind \in Rejections)
(* every rejection of the machine has a documented reason *)
NoSpuriousRejection == Done => (out.kind \in Rejections => (MustReject(pick) \/ DocReject(pick)))
(* documented reasons are decisive too: nothing documented as invalid reaches the algorithm *)
DocRejected == Done => (DocReject(pick) => out.kind \in Rejections)
(* a result can only come out of the algorithm stage, and then has the documented shape *)
ShapeDefined == Done => (out.kind = "algorithm" => /\ Head(Shape(pick)) = "ts"
                                                   /\ Len(Shape(pick)) = 1 + (IF V(pick, "rfit") = "yes" THEN 1 ELSE 0)
                                                                          + (IF V(pick, "rlik") = "yes" THEN 1 ELSE 0)
                                                   /\ "returns" \in Allowed(pick))
(* the allowed outcome classes never contain an internal error *)
AllowedClean == Done => Allowed(pick) \subseteq (Rejections \cup {"returns"})

EmitInv == (Done /\ EmitOn /\ Dev(pick) <= EmitUpTo) =>
    Emit("case", [pick |-> pick, params |-> [i \in 1..NP |-> Params[i].cls[pick[i]]],
                  names |-> [i \in 1..NP |-> Params[i].p],
                  allowed |-> Allowed(pick), must_reject |-> MustReject(pick), doc_reject |-> DocReject(pick),
                  shape |-> Shape(pick), machine |-> out.kind, at |-> out.at, dev |-> Dev(pick)])
=============================================================================
