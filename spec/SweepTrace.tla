----------------------------- MODULE SweepTrace -----------------------------
(* Step-by-step trace validation of rescaling._count_mutations (C24): the loop-  *)
(* head recorder (vt/looptrace.py, numba JIT off) logs the kernel's locals at     *)
(* every evaluation of its outer loop head.  Each logged state must equal the      *)
(* state of module Sweep's machine, and the machine is advanced by Sweep!Step      *)
(* between consecutive heads; the arrays returned by the call must equal the       *)
(* machine's final state.  Lines: begin (the instance), head*, end.                *)
EXTENDS Sweep, IOUtils

Trace == ndJsonDeserialize(IOEnv.TRACE_FILE)
VARIABLES l, good, nacc
tvars == <<vars, l, good, nacc>>
Ev == Trace[l]
M(name, cond) == Must(Ev.tid, l, name, cond)
D(name, cond) == Drift(Ev.tid, l, name, cond)

TInit == /\ Init /\ l = 1 /\ good = TRUE /\ nacc = 0

TreeFn(arr) == [u \in Nodes |-> arr[u + 1]]
Begin ==
    /\ l <= Len(Trace) /\ Ev.kind = "begin" /\ pc \in {"choose", "done"}
    /\ inst' = [trees |-> [i \in 1..Len(Ev.trees) |-> TreeFn(Ev.trees[i])],
                muts |-> { <<Ev.muts[k][1], Ev.muts[k][2]>> : k \in 1..Len(Ev.muts) },
                sb |-> Ev.sb, samp |-> { Ev.samp[k] : k \in 1..Len(Ev.samp) }]
    /\ pc' = "start" /\ good' = TRUE /\ l' = l + 1
    /\ UNCHANGED <<g, E, ins, rem, mutq, left, a, b, d, st, nacc>>

(* Sweep!Choose computes the edge table, the indexes and the initial arrays *)
Setup == /\ pc = "start" /\ Choose /\ UNCHANGED <<l, good, nacc>>

(* internal state of the sweep: conformance only (a refactored kernel may keep different intermediates) *)
StateMatches ==
    /\ D("left", left = Ev.left) /\ D("a", a = Ev.a + 1) /\ D("b", b = Ev.b + 1) /\ D("d", d = Ev.d + 1)
    /\ D("edges_mutations", \A e \in 1..NE : st.muts[e] = Ev.emuts[e])
    /\ D("edges_span", \A e \in 1..NE : st.span[e] = Ev.espan[e])
    /\ D("nodes_samples", \A u \in Nodes : st.ns[u] = Ev.ns[u + 1])
    /\ D("nodes_edge", \A u \in Nodes : st.ne[u] = Ev.ne[u + 1])
    /\ D("nodes_parent", \A u \in Nodes : st.np[u] = Ev.np[u + 1])
    /\ D("mutations_edge", \A k \in 1..Len(mutq) : st.medge[k] = Ev.medge[k])

LoopHead ==
    /\ l <= Len(Trace) /\ Ev.kind = "head" /\ pc = "loop"
    /\ StateMatches /\ good' = good
    /\ IF a <= NE \/ b <= NE THEN Step ELSE Finish
    /\ l' = l + 1 /\ UNCHANGED nacc

End ==
    /\ l <= Len(Trace) /\ Ev.kind = "end"
    /\ LET ok == /\ good
                 /\ D("machine ran to completion", pc = "done")
                 /\ D("returned arrays equal the machine's final state",
                      /\ \A e \in 1..NE : st.muts[e] = Ev.emuts[e] /\ st.span[e] = Ev.espan[e]
                      /\ \A k \in 1..Len(mutq) : st.medge[k] = Ev.medge[k])
                 (* C24 itself: what the call returned equals the declarative tally *)
                 /\ M("returned edges_mutations = declarative", \A e \in 1..NE : Ev.emuts[e] = DeclMuts(e))
                 /\ M("returned edges_span = declarative", \A e \in 1..NE : Ev.espan[e] = DeclSpan(e))
                 /\ M("returned mutations_edge = declarative", \A k \in 1..Len(mutq) : Ev.medge[k] = DeclEdge(k))
       IN  nacc' = nacc + (IF ok THEN 1 ELSE 0)
    /\ l' = l + 1 /\ good' = TRUE
    /\ UNCHANGED vars

Done2 == /\ l = Len(Trace) + 1 /\ Emit("accepted", [accepted |-> nacc, lines |-> Len(Trace)])
         /\ l' = l + 1 /\ UNCHANGED <<vars, good, nacc>>

TraceNext == Begin \/ Setup \/ LoopHead \/ End \/ Done2
TraceSpec == TInit /\ [][TraceNext]_tvars
=============================================================================
