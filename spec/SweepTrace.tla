----------------------------- MODULE SweepTrace -----------------------------
(* Step-by-step trace validation of rescaling._count_mutations (C24): the loop-  *)
(* head recorder (vt/looptrace.py, numba JIT off) logs the kernel's locals at     *)
(* every evaluation of its outer loop head.  Each logged state must equal the      *)
(* state of module Sweep's machine, and the machine is advanced by Sweep!Step      *)
(* between consecutive heads; the arrays returned by the call must equal the       *)
(* machine's final state.  Lines: begin (the instance), head*, end.                *)
EXTENDS Sweep, IOUtils

Trace == ndJsonDeserialize(IOEnv.TRACE_FILE)
VARIABLES l, good, nacc
tvars == <<vars, l, good, nacc>>
Ev == Trace[l]
M(name, cond) == Must(Ev.tid, l, name, cond)

TInit == /\ Init /\ l = 1 /\ good = TRUE /\ nacc = 0

TreeFn(arr) == [u \in Nodes |-> arr[u + 1]]
Begin ==
    /\ l <= Len(Trace) /\ Ev.kind = "begin" /\ pc \in {"choose", "done"}
    /\ inst' = [trees |-> [i \in 1..Len(Ev.trees) |-> TreeFn(Ev.trees[i])],
                muts |-> { <<Ev.muts[k][1], Ev.muts[k][2]>> : k \in 1..Len(Ev.muts) },
                sb |-> Ev.sb, samp |-> { Ev.samp[k] : k \in 1..Len(Ev.samp) }]
    /\ pc' = "start" /\ good' = TRUE /\ l' = l + 1
    /\ UNCHANGED <<g, E, ins, rem, mutq, left, a, b, d, st, nacc>>

(* Sweep!Choose computes the edge table, the indexes and the initial arrays *)
Setup == /\ pc = "start" /\ Choose /\ UNCHANGED <<l, good, nacc>>

StateMatches ==
    /\ M("left", left = Ev.left) /\ M("a", a = Ev.a + 1) /\ M("b", b = Ev.b + 1) /\ M("d", d = Ev.d + 1)
    /\ M("edges_mutations", \A e \in 1..NE : st.muts[e] = Ev.emuts[e])
    /\ M("edges_span", \A e \in 1..NE : st.span[e] = Ev.espan[e])
    /\ M("nodes_samples", \A u \in Nodes : st.ns[u] = Ev.ns[u + 1])
    /\ M("nodes_edge", \A u \in Nodes : st.ne[u] = Ev.ne[u + 1])
    /\ M("nodes_parent", \A u \in Nodes : st.np[u] = Ev.np[u + 1])
    /\ M("mutations_edge", \A k \in 1..Len(mutq) : st.medge[k] = Ev.medge[k])

LoopHead ==
    /\ l <= Len(Trace) /\ Ev.kind = "head" /\ pc = "loop"
    /\ good' = (good /\ StateMatches)
    /\ IF a <= NE \/ b <= NE THEN Step ELSE Finish
    /\ l' = l + 1 /\ UNCHANGED nacc

End ==
    /\ l <= Len(Trace) /\ Ev.kind = "end"
    /\ LET ok == /\ good
                 /\ M("loop ran to completion", pc = "done")
                 /\ M("returned edges_mutations", \A e \in 1..NE : st.muts[e] = Ev.emuts[e])
                 /\ M("returned edges_span", \A e \in 1..NE : st.span[e] = Ev.espan[e])
                 /\ M("returned mutations_edge", \A k \in 1..Len(mutq) : st.medge[k] = Ev.medge[k])
                 /\ M("tallies equal the declarative definition", TalliesExact)
       IN  nacc' = nacc + (IF ok THEN 1 ELSE 0)
    /\ l' = l + 1 /\ good' = TRUE
    /\ UNCHANGED vars

Done2 == /\ l = Len(Trace) + 1 /\ Emit("accepted", [accepted |-> nacc, lines |-> Len(Trace)])
         /\ l' = l + 1 /\ UNCHANGED <<vars, good, nacc>>

TraceNext == Begin \/ Setup \/ LoopHead \/ End \/ Done2
TraceSpec == TInit /\ [][TraceNext]_tvars
=============================================================================
