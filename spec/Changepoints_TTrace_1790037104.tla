---- MODULE Changepoints_TTrace_1790037104 ----
EXTENDS Sequences, TLCExt, Toolbox, Naturals, TLC, Changepoints

_expression ==
    LET Changepoints_TEExpression == INSTANCE Changepoints_TEExpression
    IN Changepoints_TEExpression!expression
----

_trace ==
    LET Changepoints_TETrace == INSTANCE Changepoints_TETrace
    IN Changepoints_TETrace!trace
----

_inv ==
    ~(
        TLCGet("level") = Len(_TETrace)
        /\
        res = (<<-1, 1>>)
        /\
        path = (<<>>)
        /\
        C = (<<>>)
        /\
        pc = ("done")
        /\
        inst = ([kind |-> "fixed", id |-> 0, n |-> 1, counts |-> <<2>>, offs |-> <<>>, E |-> 1, K |-> 1, mc |-> 0, mo |-> 0, variant |-> "-"])
        /\
        j = (0)
        /\
        Wt = (<<>>)
    )
----

_init ==
    /\ res = _TETrace[1].res
    /\ C = _TETrace[1].C
    /\ j = _TETrace[1].j
    /\ path = _TETrace[1].path
    /\ pc = _TETrace[1].pc
    /\ Wt = _TETrace[1].Wt
    /\ inst = _TETrace[1].inst
----

_next ==
    /\ \E i,j \in DOMAIN _TETrace:
        /\ \/ /\ j = i + 1
              /\ i = TLCGet("level")
        /\ res  = _TETrace[i].res
        /\ res' = _TETrace[j].res
        /\ C  = _TETrace[i].C
        /\ C' = _TETrace[j].C
        /\ j  = _TETrace[i].j
        /\ j' = _TETrace[j].j
        /\ path  = _TETrace[i].path
        /\ path' = _TETrace[j].path
        /\ pc  = _TETrace[i].pc
        /\ pc' = _TETrace[j].pc
        /\ Wt  = _TETrace[i].Wt
        /\ Wt' = _TETrace[j].Wt
        /\ inst  = _TETrace[i].inst
        /\ inst' = _TETrace[j].inst

\* Uncomment the ASSUME below to write the states of the error trace
\* to the given file in Json format. Note that you can pass any tuple
\* to `JsonSerialize`. For example, a sub-sequence of _TETrace.
    \* ASSUME
    \*     LET J == INSTANCE Json
    \*         IN J!JsonSerialize("Changepoints_TTrace_1790037104.json", _TETrace)

=============================================================================

 Note that you can extract this module `Changepoints_TEExpression`
  to a dedicated file to reuse `expression` (the module in the 
  dedicated `Changepoints_TEExpression.tla` file takes precedence 
  over the module `Changepoints_TEExpression` below).

---- MODULE Changepoints_TEExpression ----
EXTENDS Sequences, TLCExt, Toolbox, Naturals, TLC, Changepoints

expression == 
    [
        \* To hide variables of the `Changepoints` spec from the error trace,
        \* remove the variables below.  The trace will be written in the order
        \* of the fields of this record.
        res |-> res
        ,C |-> C
        ,j |-> j
        ,path |-> path
        ,pc |-> pc
        ,Wt |-> Wt
        ,inst |-> inst
        
        \* Put additional constant-, state-, and action-level expressions here:
        \* ,_stateNumber |-> _TEPosition
        \* ,_resUnchanged |-> res = res'
        
        \* Format the `res` variable as Json value.
        \* ,_resJson |->
        \*     LET J == INSTANCE Json
        \*     IN J!ToJson(res)
        
        \* Lastly, you may build expressions over arbitrary sets of states by
        \* leveraging the _TETrace operator.  For example, this is how to
        \* count the number of times a spec variable changed up to the current
        \* state in the trace.
        \* ,_resModCount |->
        \*     LET F[s \in DOMAIN _TETrace] ==
        \*         IF s = 1 THEN 0
        \*         ELSE IF _TETrace[s].res # _TETrace[s-1].res
        \*             THEN 1 + F[s-1] ELSE F[s-1]
        \*     IN F[_TEPosition - 1]
    ]

=============================================================================



Parsing and semantic processing can take forever if the trace below is long.
 In this case, it is advised to uncomment the module below to deserialize the
 trace from a generated binary file.

\*
\*---- MODULE Changepoints_TETrace ----
\*EXTENDS IOUtils, TLC, Changepoints
\*
\*trace == IODeserialize("Changepoints_TTrace_1790037104.bin", TRUE)
\*
\*=============================================================================
\*

---- MODULE Changepoints_TETrace ----
EXTENDS TLC, Changepoints

trace == 
    <<
    ([res |-> <<>>,path |-> <<>>,C |-> <<>>,pc |-> "pick",inst |-> [kind |-> "none", id |-> 0, n |-> 0, counts |-> <<>>, offs |-> <<>>, E |-> 0, K |-> 1, mc |-> 0, mo |-> 0, variant |-> "-"],j |-> 0,Wt |-> <<>>]),
    ([res |-> <<>>,path |-> <<>>,C |-> <<>>,pc |-> "counts",inst |-> [kind |-> "fixed", id |-> 0, n |-> 1, counts |-> <<>>, offs |-> <<>>, E |-> 1, K |-> 1, mc |-> 0, mo |-> 0, variant |-> "-"],j |-> 0,Wt |-> <<>>]),
    ([res |-> <<>>,path |-> <<>>,C |-> <<>>,pc |-> "counts",inst |-> [kind |-> "fixed", id |-> 0, n |-> 1, counts |-> <<2>>, offs |-> <<>>, E |-> 1, K |-> 1, mc |-> 0, mo |-> 0, variant |-> "-"],j |-> 0,Wt |-> <<>>]),
    ([res |-> <<>>,path |-> <<>>,C |-> <<>>,pc |-> "run",inst |-> [kind |-> "fixed", id |-> 0, n |-> 1, counts |-> <<2>>, offs |-> <<>>, E |-> 1, K |-> 1, mc |-> 0, mo |-> 0, variant |-> "-"],j |-> 0,Wt |-> <<>>]),
    ([res |-> <<-1, 1>>,path |-> <<>>,C |-> <<>>,pc |-> "done",inst |-> [kind |-> "fixed", id |-> 0, n |-> 1, counts |-> <<2>>, offs |-> <<>>, E |-> 1, K |-> 1, mc |-> 0, mo |-> 0, variant |-> "-"],j |-> 0,Wt |-> <<>>])
    >>
----


=============================================================================

---- CONFIG Changepoints_TTrace_1790037104 ----
CONSTANTS
    Kinds = { "fixed" , "poisson" }
    MaxLen = 3
    MaxCount = 3
    MaxTotal = 4
    EpochSet = { 1 , 2 , 3 }
    KSet = { 1 , 2 }
    MinCounts = { 0 , 1 }
    MinOffsets = { 0 , 1 }
    OffVals = { 1 , 2 }
    Variants = { "zero/off" , "zero/impl" , "zero/feas" , "zero/noconstr" , "nan/impl" }
    Source = "gen"
    EmitDone = FALSE

INVARIANT
    _inv

CHECK_DEADLOCK
    \* CHECK_DEADLOCK off because of PROPERTY or INVARIANT above.
    FALSE

INIT
    _init

NEXT
    _next

CONSTANT
    _TETrace <- _trace

ALIAS
    _expression
=============================================================================
\* Generated on Tue Sep 22 00:32:09 UTC 2026