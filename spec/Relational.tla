------------------------------ MODULE Relational ------------------------------
(* Relational (metamorphic) statements about tsdate.date and the named methods,  *)
(* C06 / C07 / C08 / C09.  The dating function is a *free* function              *)
(*        Date(Inputs(ts, opts), opts)                                            *)
(* of the projection named by C08 (edges, sample flags, node times, mutation      *)
(* (position, node), individuals only when singletons are unphased).  Three       *)
(* small machines share this module (a cfg selects INIT/NEXT):                    *)
(*                                                                                *)
(*  Irr   DateTransformed("irrelevant", S): perturbation items of the 11-item     *)
(*        menu are applied one at a time in any order; every item is defined by   *)
(*        the components of the input it rewrites.  Invariant: a subset allowed   *)
(*        under the options leaves Inputs unchanged, hence the (free) result      *)
(*        term unchanged.  Every (options, subset) is emitted with the verdict    *)
(*        the statement gives it ("same" / "free": the statement is silent).      *)
(*  Units DateTransformed("time", c) and ("genome", c): every quantity carries a  *)
(*        dimension <<time exponent, length exponent>>; the recipes in the        *)
(*        statements of C06 / C07 must be *exactly* the change of unit (no input  *)
(*        quantity of the method forgotten), every argument that the kernels      *)
(*        feed to a transcendental must be dimensionless, and -- evaluated on     *)
(*        small rationals for c in Cs -- keeps its value.  Emits the exponent     *)
(*        with which each output must scale (1 for times / means, 2 for           *)
(*        variances; 0 for genome units).                                         *)
(*  Hist  C09 prior reuse: BuildPrior ; Date(m1,s1) ; Date(m2,s2) ; ...  on one   *)
(*        prior object, written as the code does it                               *)
(*        (BeliefPropagation.__init__ -> priors.force_probability_space(space)).  *)
(*        Invariants: the object's space follows the last call, its linear-space  *)
(*        content is the built one (exp o log = identity up to A4), the result    *)
(*        of every call is the fresh-prior result.  Every history is emitted      *)
(*        with the expected abstract state after each call.                       *)
EXTENDS Naturals, Integers, Sequences, FiniteSets, TLC, VT

CONSTANTS MaxHist,     \* bound on the number of Date calls in a history
          Cs,          \* set of scale factors <<num, den>> for the Units machine
          Vals,        \* small positive integers used as magnitudes in Units
          EmitDone     \* TRUE: emit instances for replay

(* cfg files cannot hold tuples: Cs <- CsSmall / CsLarge                         *)
CsSmall == {<<2, 1>>, <<3, 1>>, <<1, 2>>}
CsLarge == {<<2, 1>>, <<3, 1>>, <<1, 2>>, <<37, 10>>, <<1, 1000>>, <<1000, 3>>}

Methods  == {"variational_gamma", "inside_outside", "maximization"}
Discrete == {"inside_outside", "maximization"}
Spaces   == {"linear", "logarithmic"}

(* ------------------------------------------------------------------------------ *)
(* C08: components of an input, the projection, the menu                          *)
(* ------------------------------------------------------------------------------ *)
Comps == {"edges", "node_flags", "node_time", "mut_pos_node",
          "node_individual", "indiv_rows",
          "node_meta", "site_meta", "mut_meta", "indiv_meta", "pop_meta",
          "anc_state", "der_state", "node_pop", "pop_rows", "mono_sites", "prov_rows"}

Menu == {"node_metadata", "site_metadata", "mutation_metadata", "individual_metadata",
         "population_metadata", "ancestral_states", "derived_states", "populations",
         "monomorphic_sites", "provenance", "individuals"}

(* extra, *relevant* perturbations used as controls: the statement is silent      *)
Controls == {"move_mutation", "sample_time"}

Touches(item) ==
    CASE item = "node_metadata"       -> {"node_meta"}
      [] item = "site_metadata"       -> {"site_meta"}
      [] item = "mutation_metadata"   -> {"mut_meta"}
      [] item = "individual_metadata" -> {"indiv_meta"}
      [] item = "population_metadata" -> {"pop_meta"}
      [] item = "ancestral_states"    -> {"anc_state"}
      [] item = "derived_states"      -> {"der_state"}
      [] item = "populations"         -> {"node_pop", "pop_rows"}
      [] item = "monomorphic_sites"   -> {"mono_sites"}
      [] item = "provenance"          -> {"prov_rows"}
      [] item = "individuals"         -> {"node_individual", "indiv_rows"}
      [] item = "move_mutation"       -> {"mut_pos_node"}
      [] item = "sample_time"         -> {"node_time"}

(* options that matter for the projection: the method and, for the variational    *)
(* method, whether singletons are phased (the default)                            *)
OptSet == { [method |-> m, phased |-> p] : m \in Methods, p \in BOOLEAN }
Opts == { o \in OptSet : o.method \in Discrete => o.phased }

UsesIndividuals(o) == o.method = "variational_gamma" /\ ~o.phased
Relevant(o) == {"edges", "node_flags", "node_time", "mut_pos_node"}
               \cup (IF UsesIndividuals(o) THEN {"node_individual"} ELSE {})

(* the menu of the statement: "individuals" only with phased singletons           *)
Allowed(o) == IF UsesIndividuals(o) THEN Menu \ {"individuals"} ELSE Menu

Orig == [c \in Comps |-> 0]
Bump(v, items) == [c \in Comps |-> IF \E i \in items : c \in Touches(i) THEN 1 ELSE v[c]]
Inputs(v, o) == [c \in Relevant(o) |-> v[c]]
(* free interpretation: the result *is* the term <<Inputs, opts>>                 *)
DateTerm(v, o) == <<Inputs(v, o), o>>

Verdict(o, S) == IF S \subseteq Allowed(o) THEN "same" ELSE "free"

(* ------------------------------------------------------------------------------ *)
(* C06 / C07: dimensions                                                          *)
(* ------------------------------------------------------------------------------ *)
(* <<time exponent, length exponent>>                                             *)
Dim(q) ==
    CASE q = "sample_time"       -> <<1, 0>>
      [] q = "edge_coords"       -> <<0, 1>>
      [] q = "site_position"     -> <<0, 1>>
      [] q = "sequence_length"   -> <<0, 1>>
      [] q = "mutation_rate"     -> <<-1, -1>>
      [] q = "min_branch_length" -> <<1, 0>>
      [] q = "population_size"   -> <<1, 0>>
      [] q = "eps"               -> <<1, 0>>
      [] q = "timepoints"        -> <<1, 0>>
      [] q = "time_breaks"       -> <<1, 0>>
      [] q = "max_shape"         -> <<0, 0>>
      [] q = "iterations"        -> <<0, 0>>
      [] q = "rescaling_intervals" -> <<0, 0>>
      [] q = "grid_size"         -> <<0, 0>>
      \* outputs
      [] q = "node_time"         -> <<1, 0>>
      [] q = "mutation_time"     -> <<1, 0>>
      [] q = "node_mn"           -> <<1, 0>>
      [] q = "node_vr"           -> <<2, 0>>
      [] q = "mut_mn"            -> <<1, 0>>
      [] q = "mut_vr"            -> <<2, 0>>
      [] q = "mutation_node"     -> <<0, 0>>

CommonIn == {"sample_time", "edge_coords", "site_position", "sequence_length",
             "mutation_rate", "min_branch_length"}
InputsOf(m) == IF m \in Discrete
               THEN CommonIn \cup {"population_size", "eps", "timepoints", "time_breaks", "grid_size"}
               ELSE CommonIn \cup {"max_shape", "iterations", "rescaling_intervals"}
OutputsOf(m) ==
    CASE m = "variational_gamma" -> {"node_time", "mutation_time", "node_mn", "node_vr", "mut_mn", "mut_vr",
                                     "mutation_node"}
      [] m = "inside_outside"    -> {"node_time", "mutation_time", "node_mn", "node_vr", "mutation_node"}
      [] m = "maximization"      -> {"node_time", "mutation_time", "mutation_node"}

(* the recipes, as the statements give them: quantity -> exponent of c            *)
Recipe(kind, m) ==
    CASE kind = "time" ->
           [q \in InputsOf(m) |->
              IF q = "mutation_rate" THEN -1
              ELSE IF q \in {"min_branch_length", "sample_time"} THEN 1
              ELSE IF m \in Discrete /\ q \in {"population_size", "eps", "timepoints", "time_breaks"} THEN 1
              ELSE 0]
      [] kind = "genome" ->
           [q \in InputsOf(m) |->
              IF q = "mutation_rate" THEN -1
              ELSE IF q \in {"edge_coords", "site_position", "sequence_length"} THEN 1
              ELSE 0]

Axis(kind) == IF kind = "time" THEN 1 ELSE 2
(* the recipe is exactly "measure <axis> in units c times smaller"                *)
RecipeIsUnitChange(kind, m) == \A q \in InputsOf(m) : Recipe(kind, m)[q] = Dim(q)[Axis(kind)]
OutExp(kind, m) == [q \in OutputsOf(m) |-> Dim(q)[Axis(kind)]]

(* arguments of transcendental / comparison primitives in the kernels, as         *)
(* products of powers of quantities (anchors of C06 / C07)                        *)
Groups == {
    [name |-> "poisson_mean_dt_mu_span", f |-> <<<<"dt", 1>>, <<"mutation_rate", 1>>, <<"span", 1>>>>],
    [name |-> "coalescent_time_t_over_2N", f |-> <<<<"timepoints", 1>>, <<"population_size", -1>>>>],
    [name |-> "span_fraction", f |-> <<<<"span", 1>>, <<"node_span", -1>>>>],
    [name |-> "branch_over_eps", f |-> <<<<"dt", 1>>, <<"eps", -1>>>>],
    [name |-> "branch_over_min_branch_length", f |-> <<<<"dt", 1>>, <<"min_branch_length", -1>>>>],
    [name |-> "gamma_rate_times_time", f |-> <<<<"rate", 1>>, <<"dt", 1>>>>],
    [name |-> "edge_rate_mu_span_over_rate", f |-> <<<<"mutation_rate", 1>>, <<"span", 1>>, <<"rate", -1>>>>],
    [name |-> "break_over_population_size", f |-> <<<<"time_breaks", 1>>, <<"population_size", -1>>>>] }
GDim(q) == CASE q = "dt" -> <<1, 0>> [] q = "span" -> <<0, 1>> [] q = "node_span" -> <<0, 1>>
             [] q = "rate" -> <<-1, 0>> [] OTHER -> Dim(q)
RECURSIVE GroupDim(_, _)
GroupDim(f, ax) == IF f = <<>> THEN 0 ELSE Head(f)[2] * GDim(Head(f)[1])[ax] + GroupDim(Tail(f), ax)
Dimensionless(g) == GroupDim(g.f, 1) = 0 /\ GroupDim(g.f, 2) = 0

(* value of a group on magnitudes x (function quantity -> <<num, den>>), exactly  *)
RMul(a, b) == <<a[1] * b[1], a[2] * b[2]>>
RInv(a) == <<a[2], a[1]>>
REq(a, b) == a[1] * b[2] = b[1] * a[2]
RECURSIVE RPow(_, _)
RPow(a, n) == IF n = 0 THEN <<1, 1>> ELSE IF n > 0 THEN RMul(a, RPow(a, n - 1)) ELSE RMul(RInv(a), RPow(a, n + 1))
RECURSIVE GroupVal(_, _)
GroupVal(f, x) == IF f = <<>> THEN <<1, 1>> ELSE RMul(RPow(x[Head(f)[1]], Head(f)[2]), GroupVal(Tail(f), x))
GQuant(g) == { g.f[i][1] : i \in 1..Len(g.f) }
Rescaled(x, c, ax) == [q \in DOMAIN x |-> RMul(x[q], RPow(c, GDim(q)[ax]))]
GroupInvariant(g, x, c, ax) == REq(GroupVal(g.f, x), GroupVal(g.f, Rescaled(x, c, ax)))

(* Two exact sub-models in which the exponents 1 and 2 are theorems, checked by    *)
(* TLC for integer c: the forced constraint pass (max-plus, eps scaled with the    *)
(* times) and the moments of a discrete posterior on a grid t_i = i*g whose        *)
(* weights depend on dimensionless arguments only.                                 *)
RECURSIVE Forced(_, _, _)
Forced(es, t, eps) ==
    IF es = <<>> THEN t
    ELSE LET p == Head(es)[1]  c == Head(es)[2]
         IN  Forced(Tail(es), IF t[c] + eps > t[p] THEN [t EXCEPT ![p] = t[c] + eps] ELSE t, eps)
DAGs == { <<<<2, 1>>, <<3, 2>>>>, <<<<3, 1>>, <<3, 2>>>>, <<<<2, 1>>, <<3, 1>>, <<3, 2>>>> }
IntCs == {2, 3}
ConstrainScales ==
    \A es \in DAGs, m \in [1..3 -> 0..2], eps \in {0, 1}, c \in IntCs :
        Forced(es, [i \in 1..3 |-> c * m[i]], c * eps) = [i \in 1..3 |-> c * Forced(es, m, eps)[i]]

Grid == 1..3
Weights == { w \in [Grid -> 0..2] : \E i \in Grid : w[i] > 0 }
S0(w) == w[1] + w[2] + w[3]
S1(w, g) == w[1] * g + w[2] * 2 * g + w[3] * 3 * g
S2(w, g) == w[1] * g * g + w[2] * 4 * g * g + w[3] * 9 * g * g
(* mean = S1 / S0, variance = (S0 * S2 - S1^2) / S0^2 *)
MomentsScale ==
    \A w \in Weights, g \in Vals, c \in IntCs :
        /\ S1(w, c * g) = c * S1(w, g)
        /\ S0(w) * S2(w, c * g) - S1(w, c * g) * S1(w, c * g)
             = c * c * (S0(w) * S2(w, g) - S1(w, g) * S1(w, g))

(* ------------------------------------------------------------------------------ *)
(* state                                                                          *)
(* ------------------------------------------------------------------------------ *)
VARIABLES pc, opt, applied, ver, unit, hist, prior
vars == <<pc, opt, applied, ver, unit, hist, prior>>

NoOpt == [method |-> "none", phased |-> TRUE]
Common == /\ opt = NoOpt /\ applied = {} /\ ver = Orig /\ unit = <<>> /\ hist = <<>>
          /\ prior = [built |-> FALSE, space |-> "linear", conv |-> 0]

(* ---------------- Irr ---------------- *)
(* The subset lattice is explored once; the options are quantified in Judge and   *)
(* in the invariants (every (options, subset) pair is judged and emitted).        *)
InitIrr == pc = "perturb" /\ Common

Perturb ==
    /\ pc = "perturb"
    /\ \E i \in (Menu \cup Controls) \ applied :
          /\ (i \in Controls => applied = {})        \* controls are applied alone
          /\ (\A j \in applied : j \notin Controls)
          /\ applied' = applied \cup {i}
          /\ ver' = Bump(ver, {i})
    /\ UNCHANGED <<pc, opt, unit, hist, prior>>

OptKey(o) == IF o.method = "variational_gamma" /\ ~o.phased THEN "variational_gamma/unphased" ELSE o.method
OptOf(k) == CHOOSE o \in Opts : OptKey(o) = k

Judge ==
    /\ pc = "perturb"
    /\ pc' = "done"
    /\ IF EmitDone
       THEN Emit("irr", [S |-> applied,
                         verdict |-> [k \in { OptKey(o) : o \in Opts } |-> Verdict(OptOf(k), applied)],
                         same_inputs |-> [k \in { OptKey(o) : o \in Opts } |->
                                            (Inputs(ver, OptOf(k)) = Inputs(Orig, OptOf(k)))]])
       ELSE TRUE
    /\ UNCHANGED <<opt, applied, ver, unit, hist, prior>>

NextIrr == Perturb \/ Judge

(* the statement of C08 on the free model *)
IrrelevantKeepsInputs ==
    \A o \in Opts : applied \subseteq Allowed(o) => DateTerm(ver, o) = DateTerm(Orig, o)
(* the menu is not vacuous and the projection is not blind *)
ControlsChangeInputs ==
    \A o \in Opts : applied \cap Controls # {} => DateTerm(ver, o) # DateTerm(Orig, o)
UnphasedIndividualsMatter ==
    \A o \in Opts : (UsesIndividuals(o) /\ "individuals" \in applied) => DateTerm(ver, o) # DateTerm(Orig, o)
VerIsBump == ver = Bump(Orig, applied)

(* ---------------- Units ---------------- *)
InitUnits == pc = "units" /\ Common

Magn(g) == [GQuant(g) -> { <<v, 1>> : v \in Vals }]

PickUnits ==
    /\ pc = "units"
    /\ \E kind \in {"time", "genome"}, m \in Methods :
          unit' = [kind |-> kind, method |-> m]
    /\ pc' = "unitdone"
    /\ UNCHANGED <<opt, applied, ver, hist, prior>>

EmitUnits ==
    /\ pc = "unitdone"
    /\ pc' = "done"
    /\ IF EmitDone
       THEN Emit("units", [kind |-> unit.kind, method |-> unit.method,
                           recipe |-> Recipe(unit.kind, unit.method),
                           outexp |-> OutExp(unit.kind, unit.method)])
       ELSE TRUE
    /\ UNCHANGED <<opt, applied, ver, unit, hist, prior>>

NextUnits == PickUnits \/ EmitUnits

RecipeComplete == pc = "unitdone" => RecipeIsUnitChange(unit.kind, unit.method)
GroupsDimensionless == \A g \in Groups : Dimensionless(g)
GroupsKeepValue ==
    pc = "unitdone" =>
        \A g \in Groups : \A x \in Magn(g) : \A c \in Cs : GroupInvariant(g, x, c, Axis(unit.kind))
OutputExponents ==
    pc = "unitdone" =>
        LET e == OutExp(unit.kind, unit.method) IN
        /\ (unit.kind = "genome" => \A q \in DOMAIN e : e[q] = 0)
        /\ (unit.kind = "time" => \A q \in DOMAIN e :
               e[q] = (IF q \in {"node_vr", "mut_vr"} THEN 2 ELSE IF q = "mutation_node" THEN 0 ELSE 1))

(* ---------------- Hist ---------------- *)
InitHist == pc = "build" /\ Common

BuildPrior ==
    /\ pc = "build"
    /\ prior' = [built |-> TRUE, space |-> "linear", conv |-> 0]
    /\ pc' = "calls"
    /\ UNCHANGED <<opt, applied, ver, unit, hist>>

(* NodeTimeValues.force_probability_space *)
Force(p, s) == IF p.space = s THEN p ELSE [p EXCEPT !.space = s, !.conv = @ + 1]

(* one call of a discrete method with priors=<the object>: the result is the free  *)
(* term Fresh(m, s) of the *linear content* of the prior, which conversions keep   *)
DateCall ==
    /\ pc = "calls" /\ Len(hist) < MaxHist
    /\ \E m \in Discrete, s \in Spaces :
          /\ prior' = Force(prior, s)
          /\ hist' = Append(hist, [method |-> m, space |-> s, before |-> prior.space,
                                   after |-> Force(prior, s).space,
                                   converted |-> (prior.space # s),
                                   result |-> <<"Fresh", m, s>>])
    /\ UNCHANGED <<pc, opt, applied, ver, unit>>

EndHist ==
    /\ pc = "calls" /\ Len(hist) >= 1
    /\ pc' = "done"
    /\ IF EmitDone THEN Emit("hist", [calls |-> hist, conv |-> prior.conv]) ELSE TRUE
    /\ UNCHANGED <<opt, applied, ver, unit, hist, prior>>

NextHist == BuildPrior \/ DateCall \/ EndHist

SpaceFollowsLastCall == Len(hist) >= 1 => prior.space = hist[Len(hist)].space
HistChained == \A i \in 1..Len(hist) :
                  /\ hist[i].before = (IF i = 1 THEN "linear" ELSE hist[i - 1].after)
                  /\ hist[i].after = hist[i].space
ResultsAreFresh == \A i \in 1..Len(hist) : hist[i].result = <<"Fresh", hist[i].method, hist[i].space>>
ConvCount == prior.conv = Cardinality({ i \in 1..Len(hist) : hist[i].converted })
=============================================================================
