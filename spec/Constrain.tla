---------------------------- MODULE Constrain ----------------------------
(* util._constrain_ages as a state machine (one action per edge visit), and the  *)
(* declarative statements of C01 / C03 / C27 about its result.                    *)
(*                                                                                *)
(* Times are integers scaled by Scale so that the halvings of the least-squares   *)
(* phase stay exact (invariant Exact).  Node ids are 0..N-1 and, as in a valid    *)
(* tree sequence, every edge has parent id > child id and the edge table is       *)
(* sorted by parent (so every edge *into* a node is visited before any edge *out  *)
(* of* it -- the admissibility the forced pass relies on).                        *)
(*                                                                                *)
(* EpsUlp is the branch-length floor measured in units of the time lattice.       *)
(* EpsUlp = 0 is the abstract image of floating-point absorption                  *)
(* (fl(c + eps) = c for c large against eps, DESIGN section 2 (ii)).              *)
(* ForceVariant = "plain"  :  p := c + eps            (tsdate before the repair)  *)
(*              = "succ"   :  p := max(c + eps, succ(c))   (after the repair)     *)
EXTENDS Naturals, Integers, Sequences, FiniteSets, SequencesExt, VT

CONSTANTS N,            \* number of nodes
          T,            \* unconstrained times range over 0..T (lattice units)
          Iters,        \* set of max_iterations values explored
          EpsSet,       \* set of EpsUlp values explored
          MaxEdges,     \* bound on the number of edges
          FixedMode,    \* "leaves" | "any"
          ForceVariant, \* "plain" | "succ"
          EmitDone      \* TRUE: emit every finished instance for replay

Nodes == 0..(N - 1)
Pairs == { pc \in Nodes \X Nodes : pc[1] > pc[2] }        \* <<parent, child>>

VARIABLES inst, time, cav, k, it, pc
vars == <<inst, time, cav, k, it, pc>>

PairLess(a, b) == a[1] < b[1] \/ (a[1] = b[1] /\ a[2] < b[2])
EdgeSeqOf(es) == SetToSortSeq(es, PairLess)

Par(e) == inst.edges[e][1]
Chi(e) == inst.edges[e][2]
NE == Len(inst.edges)
RECURSIVE Pow2(_)
Pow2(n) == IF n = 0 THEN 1 ELSE 2 * Pow2(n - 1)
Scale == Pow2(inst.iters * NE)
Eps == inst.eps * Scale

Kids(es, u) == { e[2] : e \in { x \in es : x[1] = u } }
HasKids(es, u) == \E x \in es : x[1] = u

Init == /\ inst = [edges |-> <<>>, mean |-> <<>>, fixed |-> {}, eps |-> 0, iters |-> 0]
        /\ time = <<>> /\ cav = <<>> /\ k = 0 /\ it = 0 /\ pc = "choose"

(* ---------------- instance choice (first action, not Init: DESIGN 5) ----------- *)
FixedOK(es, F, m) ==
    /\ \A x \in es : (x[1] \in F /\ x[2] \in F) => m[x[1]] > m[x[2]]
    /\ CASE FixedMode = "leaves" -> F = { u \in Nodes : ~HasKids(es, u) }
         [] OTHER -> { u \in Nodes : ~HasKids(es, u) } \subseteq F

Choose ==
    /\ pc = "choose"
    /\ \E es \in SUBSET Pairs, m \in [Nodes -> 0..T], F \in SUBSET Nodes,
          ep \in EpsSet, mi \in Iters :
          /\ Cardinality(es) <= MaxEdges /\ es # {}
          /\ \A u \in Nodes : \E x \in es : x[1] = u \/ x[2] = u    \* no isolated node
          /\ FixedOK(es, F, m)
          /\ inst' = [edges |-> EdgeSeqOf(es), mean |-> m, fixed |-> F, eps |-> ep, iters |-> mi]
          /\ LET sc == Pow2(mi * Cardinality(es)) IN
               time' = [u \in Nodes |-> m[u] * sc]
          /\ cav' = [e \in 1..Cardinality(es) |-> <<0, 0>>]
          /\ k' = 1 /\ it' = 0
          /\ pc' = IF mi = 0 THEN "force" ELSE "lsq"

(* ---------------- least-squares phase (alternating projections) ---------------- *)
AllSlack == \A e \in 1..NE : time[Par(e)] - time[Chi(e)] > Eps

EarlyExit ==
    /\ pc = "lsq" /\ k = 1 /\ it < inst.iters /\ AllSlack
    /\ pc' = "done"
    /\ UNCHANGED <<inst, time, cav, k, it>>

Project ==
    /\ pc = "lsq" /\ it < inst.iters /\ (k > 1 \/ ~AllSlack)
    /\ LET p  == Par(k)   c == Chi(k)
           tc == time[c] - cav[k][1]
           tp == time[p] - cav[k][2]
           adj == tc - tp
           fc == c \in inst.fixed   fp == p \in inst.fixed
           nc == IF adj > 0 /\ ~fc /\ ~fp THEN <<-(adj \div 2), adj \div 2>>
                 ELSE IF adj > 0 /\ fc /\ ~fp THEN <<0, adj>>
                 ELSE IF adj > 0 /\ ~fc /\ fp THEN <<-adj, 0>>
                 ELSE <<0, 0>>
       IN  /\ time' = [time EXCEPT ![c] = tc + nc[1], ![p] = tp + nc[2]]
           /\ cav' = [cav EXCEPT ![k] = nc]
    /\ IF k < NE THEN k' = k + 1 /\ it' = it /\ pc' = pc
       ELSE k' = 1 /\ it' = it + 1 /\ pc' = IF it + 1 = inst.iters THEN "force" ELSE "lsq"
    /\ UNCHANGED inst

(* ---------------- forced pass --------------------------------------------------- *)
Plus(c) == c + Eps
Raised(c) == IF ForceVariant = "succ" /\ Plus(c) <= c THEN c + 1 ELSE Plus(c)

Force ==
    /\ pc = "force"
    /\ LET p == Par(k)  c == Chi(k) IN
         time' = IF Plus(time[c]) >= time[p] THEN [time EXCEPT ![p] = Raised(time[c])] ELSE time
    /\ IF k < NE THEN k' = k + 1 /\ pc' = pc ELSE k' = k /\ pc' = "done"
    /\ UNCHANGED <<inst, cav, it>>

Next == Choose \/ EarlyExit \/ Project \/ Force

Spec == Init /\ [][Next]_vars

(* ================= properties ==================================================== *)
Done == pc = "done"
Out(u) == time[u]
In(u) == inst.mean[u] * Scale

(* C01 *)
Strict      == Done => \A e \in 1..NE : Out(Par(e)) > Out(Chi(e))
AtLeastPlus == Done => \A e \in 1..NE : Out(Par(e)) >= Plus(Out(Chi(e)))

(* C27: least fixpoint when the least-squares phase is off *)
RECURSIVE Lfp(_)
Lfp(u) == LET ks == { Chi(e) : e \in { x \in 1..NE : Par(x) = u } }
          IN  Max({In(u)} \cup { Raised(Lfp(c)) : c \in ks })
Minimal == (Done /\ inst.iters = 0) => \A u \in Nodes : Out(u) = Lfp(u)

Feasible == \A e \in 1..NE : In(Par(e)) - In(Chi(e)) > Eps
UnchangedIfFeasible == (Done /\ Feasible) => \A u \in Nodes : Out(u) = In(u)

(* C03 *)
ChildlessFixedKept ==
    \A u \in Nodes : (pc # "choose" /\ u \in inst.fixed /\ ~\E e \in 1..NE : Par(e) = u) => Out(u) = In(u)
FixedOnlyMinimallyPushed ==
    Done => \A u \in inst.fixed :
        \/ Out(u) = In(u)
        \/ /\ Out(u) > In(u)
           /\ \E e \in 1..NE : Par(e) = u /\ Out(u) = Raised(Out(Chi(e)))
           /\ \A e \in 1..NE : Par(e) = u => Out(u) >= Raised(Out(Chi(e)))
FixedNeverMovedByLsq ==
    \A u \in Nodes : (pc = "lsq" /\ u \in inst.fixed) => Out(u) = In(u)

(* halving stays exact: every adjustment halved in Project is even *)
Exact == pc = "lsq" =>
    LET adj == (time[Chi(k)] - cav[k][1]) - (time[Par(k)] - cav[k][2]) IN
      (adj > 0 /\ Chi(k) \notin inst.fixed /\ Par(k) \notin inst.fixed) => adj % 2 = 0

EmitInv == (Done /\ EmitDone) =>
    Emit("inst", [edges |-> inst.edges, mean |-> [u \in 1..N |-> inst.mean[u - 1]],
                  fixed |-> inst.fixed, eps |-> inst.eps, iters |-> inst.iters,
                  scale |-> Scale, out |-> [u \in 1..N |-> time[u - 1]]])
==========================================================================
