-------------------------------- MODULE Spans --------------------------------
(* The span tables behind tsdate's mixture prior (C15), declaratively.            *)
(*                                                                                *)
(* Instance: a forest sequence from TSGen under TreeFilter = "simplified" (samples *)
(* are leaves, no unary and no dangling nodes, isolated samples = missing data     *)
(* allowed) that satisfies the premises of the statement: exactly one root per     *)
(* tree and every non-sample node used somewhere.                                  *)
(*                                                                                *)
(*   Span(u, T, k) = total length of the local trees in which u is present (has    *)
(*                   children), T samples are attached to the topology and k of    *)
(*                   them descend from u                                           *)
(*   NodeSpan(u)   = total length of the local trees in which u is present         *)
(*   MixMean/MixVar(u) = moments of the span-weighted mixture of the conditional   *)
(*                   coalescent priors (CoalescentMoments!CMean/CVar at (T, k))    *)
(*                                                                                *)
(* TLC checks on every instance that the spans of a node sum to its node span,     *)
(* that 2 <= k <= T <= NS wherever a span is positive, that a root always has      *)
(* k = T, that mixture moments are positive and lie within the range of their      *)
(* components; each instance is emitted with these tables for replay into the real  *)
(* SpansBySamples / ConditionalCoalescentTimes / MixturePrior (vt/props/c15.py).    *)
EXTENDS TSGen, CoalescentMoments

CONSTANTS EmitDone,
          NeedMissing     \* TRUE: keep only instances where some sample is isolated somewhere

VARIABLES inst, pc
vars == <<g, inst, pc>>

Internal == Nodes \ Samples

Present(f, u) == ChildrenIn(f, Nodes, u) # {}
TreeT(f) == Cardinality({ s \in Samples : f[s] # NULL })
Below(f, u) == Cardinality(NodesBelow(f, Nodes, u) \cap Samples)

Premises(trees) ==
    /\ \A i \in 1..Len(trees) : Cardinality(Roots(trees[i])) = 1
    /\ \A u \in Internal : \E i \in 1..Len(trees) : Present(trees[i], u)
    /\ NeedMissing => \E i \in 1..Len(trees) : TreeT(trees[i]) < NS

(* TSGen!PFnsOK filters all of [Nodes -> Nodes \cup {NULL}] (8^7 functions for 7 nodes);  *)
(* the same set is built here node by node from the admissible parents of each node.   *)
AllowedParents(c) == {NULL} \cup { p \in Nodes : Time[p] > Time[c] }
RECURSIVE FnsUpTo(_)
FnsUpTo(c) == IF c < 0 THEN { <<>> }
              ELSE { fn @@ (c :> p) : fn \in FnsUpTo(c - 1), p \in AllowedParents(c) }
FastPFnsOK == { f \in FnsUpTo(N - 1) : TreeOK(f) }
ASSUME N <= 5 => FastPFnsOK = PFnsOK

FastGenTree == /\ g.phase = "trees" /\ Len(g.trees) < L
               /\ \E f \in FastPFnsOK : g' = [g EXCEPT !.trees = Append(@, f)]

Init == GenInit /\ inst = <<>> /\ pc = "choose"

Gen == /\ pc = "choose" /\ (FastGenTree \/ GenTreesDone)
       /\ UNCHANGED <<inst, pc>>

Pick == /\ pc = "choose" /\ GenReady /\ Premises(g.trees)
        /\ inst' = g.trees /\ pc' = "done"
        /\ UNCHANGED g

Next == Gen \/ Pick
Spec == Init /\ [][Next]_vars

(* ---- declarative tables ----------------------------------------------------------- *)
Where(u, T, k) == { i \in 1..L : /\ Present(inst[i], u) /\ TreeT(inst[i]) = T /\ Below(inst[i], u) = k }
Span(u, T, k) == 2 * Cardinality(Where(u, T, k))                 \* unit intervals have length 2
NodeSpan(u) == 2 * Cardinality({ i \in 1..L : Present(inst[i], u) })
Keys(u) == { tk \in (0..NS) \X (0..NS) : Span(u, tk[1], tk[2]) > 0 }
KeyLess(x, y) == x[1] < y[1] \/ (x[1] = y[1] /\ x[2] < y[2])
KeySeq(u) == SetToSortSeq(Keys(u), KeyLess)

(* span-weighted mixture of the conditional coalescent priors                           *)
WSum(u, Val(_, _)) ==
    LET ks == KeySeq(u)
    IN  RSumSeq([j \in 1..Len(ks) |-> RMul(RInt(Span(u, ks[j][1], ks[j][2])), Val(ks[j][1], ks[j][2]))])
MixMean(u) == RDiv(WSum(u, LAMBDA T, k : CMean(T, k)), RInt(NodeSpan(u)))
MixM2(u)   == RDiv(WSum(u, LAMBDA T, k : RAdd(CVar(T, k), RSq(CMean(T, k)))), RInt(NodeSpan(u)))
MixVar(u)  == RSub(MixM2(u), RSq(MixMean(u)))

(* ---- properties --------------------------------------------------------------------- *)
Done == pc = "done"
SpansSumToNodeSpan == Done => \A u \in Internal :
    /\ NodeSpan(u) > 0
    /\ FoldSet(LAMBDA tk, acc : acc + Span(u, tk[1], tk[2]), 0, Keys(u)) = NodeSpan(u)
KeyRange == Done => \A u \in Internal : \A tk \in Keys(u) : 2 <= tk[2] /\ tk[2] <= tk[1] /\ tk[1] <= NS
RootHasAll == Done => \A i \in 1..L : \A u \in Roots(inst[i]) : Below(inst[i], u) = TreeT(inst[i])
NestedCounts == Done => \A i \in 1..L : \A u \in Internal :
    (Present(inst[i], u) /\ inst[i][u] # NULL) => Below(inst[i], u) < Below(inst[i], inst[i][u])
MixtureSane == Done => \A u \in Internal :
    /\ RPos(MixMean(u)) /\ RPos(MixVar(u))
    /\ \E tk \in Keys(u) : RLe(CMean(tk[1], tk[2]), MixMean(u))
    /\ \E tk \in Keys(u) : RLe(MixMean(u), CMean(tk[1], tk[2]))
    /\ (Cardinality(Keys(u)) = 1 =>
           \A tk \in Keys(u) : MixMean(u) = CMean(tk[1], tk[2]) /\ MixVar(u) = CVar(tk[1], tk[2]))

EmitInv == (Done /\ EmitDone) =>
    Emit("inst", [N |-> N, NS |-> NS, L |-> L, time |-> [u \in 1..N |-> Time[u - 1]],
                  trees |-> TreesJson(inst), muts |-> <<>>,
                  treeT |-> [i \in 1..L |-> TreeT(inst[i])],
                  nodes |-> [j \in 1..NI |->
                      LET u == NS + j - 1  ks == KeySeq(u) IN
                      [u |-> u, nodespan |-> NodeSpan(u),
                       spans |-> [q \in 1..Len(ks) |-> <<ks[q][1], ks[q][2], Span(u, ks[q][1], ks[q][2])>>],
                       mean |-> MixMean(u), var |-> MixVar(u),
                       shape |-> GammaShape(MixMean(u), MixVar(u)), rate |-> GammaRate(MixMean(u), MixVar(u))]]])
=============================================================================
