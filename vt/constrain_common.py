"""Shared machinery for C01 / C03 / C27 (and the constraint part of C11): spec module
Constrain, replay of its behaviours into util._constrain_ages / constrain_ages, and
recording of real date() calls for ConstrainTrace."""

import json
import os

import numpy as np

ALL_INVARIANTS = ["Strict", "AtLeastPlus", "Minimal", "UnchangedIfFeasible", "ChildlessFixedKept",
                  "FixedOnlyMinimallyPushed", "FixedNeverMovedByLsq", "Exact"]

BASE = 2.0 ** 60  # ulp(BASE) = 256: adjacent floats realise adjacent lattice points
ULP = 256.0


def constants(N, T, iters, eps, max_edges, fixed_mode="any", variant="succ", emit=False):
    return {"N": N, "T": T, "Iters": "{" + ",".join(map(str, iters)) + "}",
            "EpsSet": "{" + ",".join(map(str, eps)) + "}", "MaxEdges": max_edges,
            "FixedMode": json.dumps(fixed_mode), "ForceVariant": json.dumps(variant),
            "EmitDone": "TRUE" if emit else "FALSE"}


def model_check(ctx, name, invariants=ALL_INVARIANTS, workers=16, **consts):
    cfg = ctx.write_cfg(name + ".cfg", constants=constants(**consts), invariants=invariants)
    return ctx.tlc("Constrain", cfg, workers=workers,
                   required_actions=("Choose", "Force") + (("Project",) if max(consts["iters"]) > 0 else ()))


def generate(ctx, name, **consts):
    consts["emit"] = True
    cfg = ctx.write_cfg(name + ".cfg", constants=constants(**consts), invariants=["EmitInv"])
    r = ctx.tlc("Constrain", cfg, workers=1, coverage=False)
    return r.rec("inst")


def realise(inst, mode):
    """abstract instance -> (nodes_time, nodes_fixed, edges_parent, edges_child, eps, iters, expected out)"""
    n = len(inst["mean"])
    sc = inst["scale"]
    if mode == "unit":
        f = lambda t: float(t)  # noqa: E731
        eps = float(inst["eps"] * sc)
        if inst["eps"] == 0:
            return None
    else:  # "ulp": lattice unit = one ulp at 2**60; eps = 1.0 is absorbed there
        if inst["iters"] != 0:
            return None
        f = lambda t: BASE + ULP * t  # noqa: E731
        eps = 1.0 if inst["eps"] == 0 else ULP * inst["eps"]
    t = np.array([f(m * sc) for m in inst["mean"]], dtype=np.float64)
    fixed = np.zeros(n, dtype=bool)
    fixed[list(inst["fixed"])] = True
    ep = np.array([e[0] for e in inst["edges"]], dtype=np.int32)
    ec = np.array([e[1] for e in inst["edges"]], dtype=np.int32)
    out = np.array([f(x) for x in inst["out"]], dtype=np.float64)
    return t, fixed, ep, ec, eps, int(inst["iters"]), out


def replay_kernel(inst, mode):
    """Run the real util._constrain_ages on a Constrain behaviour's instance; return a
    message if its result differs from the specification's final state."""
    from tsdate import util
    r = realise(inst, mode)
    if r is None:
        return "skip"
    t, fixed, ep, ec, eps, iters, out = r
    try:
        got = util._constrain_ages(t, fixed, ep, ec, eps, iters)
    except Exception as ex:  # noqa: BLE001
        return f"_constrain_ages raised {type(ex).__name__}: {ex}"
    if not np.array_equal(got, out):
        return f"mode={mode} got={got.tolist()} spec={out.tolist()}"
    return None


def replay_api(inst, mode):
    """Same through the public util.constrain_ages(ts, ...) on a tree sequence that realises
    the DAG (each edge on its own interval)."""
    from tsdate import util

    from . import build
    r = realise(inst, mode)
    if r is None:
        return "skip"
    t, fixed, ep, ec, eps, iters, out = r
    n = len(t)
    ts = build.dag_ts(n, list(zip(ep.tolist(), ec.tolist())), list(range(n)), np.flatnonzero(fixed).tolist())
    if not (np.array_equal(ts.edges_parent, ep) and np.array_equal(ts.edges_child, ec)):
        return "binding: tskit sorted the DAG's edges differently from the specification"
    try:
        got = util.constrain_ages(ts, t, eps, iters)
    except Exception as ex:  # noqa: BLE001
        return f"constrain_ages raised {type(ex).__name__}: {ex}"
    if not np.array_equal(got, out):
        return f"mode={mode} got={got.tolist()} spec={out.tolist()}"
    return None


def classify(inst):
    """which statements does this instance exercise (for distinct_nontrivial)"""
    sc = inst["scale"]
    moved = [i for i, (m, o) in enumerate(zip(inst["mean"], inst["out"])) if m * sc != o]
    tags = []
    if moved:
        tags.append("moved")
    if any(i in inst["fixed"] for i in moved):
        tags.append("fixed_pushed")
    if inst["eps"] == 0:
        tags.append("absorbing")
    if inst["iters"] > 0:
        tags.append("lsq")
    return tags


# ---------------------------------------------------------------------------------------
# code -> spec: real date() calls abstracted to ranks (A2) for ConstrainTrace
# ---------------------------------------------------------------------------------------

def rank_event(tid, ts_in, ts_out, mean, eps, iters, extra=None):
    """One trace event for ConstrainTrace: everything as dense ranks of the finite set of
    floats involved.  mean = unconstrained means (fixed nodes: their input time)."""
    out = ts_out.nodes_time
    ep, ec = ts_in.edges_parent, ts_in.edges_child
    plus = out[ec] + eps  # float64 sum, as the property states
    succ = np.nextafter(out[ec], np.inf)
    raised = np.maximum(plus, succ)
    vals = np.concatenate([mean, out, plus, raised, ts_in.nodes_time])
    if not np.all(np.isfinite(vals)):
        return None
    uniq = np.unique(vals)
    rk = lambda a: (np.searchsorted(uniq, a) + 1).tolist()  # noqa: E731
    fixed = np.zeros(ts_in.num_nodes, dtype=bool)
    fixed[ts_in.samples()] = True
    ev = {"tid": tid, "n": int(ts_in.num_nodes), "ep": (ep + 1).tolist(), "ec": (ec + 1).tolist(),
          "mean": rk(mean), "out": rk(out), "plus": rk(plus), "raised": rk(raised),
          "tin": rk(ts_in.nodes_time), "fixed": fixed.tolist(), "iters": int(iters)}
    if extra:
        ev.update(extra)
    return ev


def write_trace(path, events):
    with open(path, "w") as f:
        for e in events:
            f.write(json.dumps(e) + "\n")
    return path


def validate_traces(ctx, events, checks):
    """Run ConstrainTrace over the events (one per date() call).  Returns list of rejects."""
    if not events:
        return []
    path = write_trace(os.path.join(ctx.work, f"ctrace-{len(events)}-{ctx.traces}.ndjson"), events)
    cfg = ctx.write_cfg("ConstrainTrace.cfg", spec="TraceSpec",
                        constants={"Checks": "{" + ",".join(json.dumps(c) for c in checks) + "}"})
    r = ctx.tlc("ConstrainTrace", cfg, workers=1, coverage=False, env={"TRACE_FILE": path}, must_hold=False)
    acc = r.rec("accepted")
    rej = r.rec("reject")
    if not acc:
        raise RuntimeError("ConstrainTrace did not report acceptance:\n" + r.stdout[-3000:])
    n_ok = acc[-1]["accepted"]
    if n_ok + len({x["tid"] for x in rej}) != len(events):
        raise RuntimeError(f"ConstrainTrace accounted for {n_ok}+{len(rej)} of {len(events)} traces\n" + r.stdout[-2000:])
    ctx.traces += len(events)
    return rej
