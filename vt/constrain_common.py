"""Shared machinery for C01 / C03 / C27 (and the constraint part of C11): spec module
Constrain, replay of its behaviours into util._constrain_ages / constrain_ages, and
recording of real date() calls for ConstrainTrace."""

import json
import os

import numpy as np

ALL_INVARIANTS = ["Strict", "AtLeastPlus", "Minimal", "UnchangedIfFeasible", "ChildlessFixedKept",
                  "FixedOnlyMinimallyPushed", "FixedNeverMovedByLsq", "Exact"]

BASE = 2.0 ** 60  # ulp(BASE) = 256: adjacent floats realise adjacent lattice points
ULP = 256.0


def constants(N, T, iters, eps, max_edges, fixed_mode="any", variant="succ", emit=False):
    return {"N": N, "T": T, "Iters": "{" + ",".join(map(str, iters)) + "}",
            "EpsSet": "{" + ",".join(map(str, eps)) + "}", "MaxEdges": max_edges,
            "FixedMode": json.dumps(fixed_mode), "ForceVariant": json.dumps(variant),
            "EmitDone": "TRUE" if emit else "FALSE"}


def model_check(ctx, name, invariants=ALL_INVARIANTS, workers=16, **consts):
    cfg = ctx.write_cfg(name + ".cfg", constants=constants(**consts), invariants=invariants)
    return ctx.tlc("Constrain", cfg, workers=workers, timeout=900 if ctx.quick else 3000,
                   required_actions=("Choose", "Force") + (("Project",) if max(consts["iters"]) > 0 else ()))


def generate(ctx, name, **consts):
    consts["emit"] = True
    cfg = ctx.write_cfg(name + ".cfg", constants=constants(**consts), invariants=["EmitInv"])
    r = ctx.tlc("Constrain", cfg, workers=1, coverage=False)
    return r.rec("inst")


def realise(inst, mode):
    """abstract instance -> (nodes_time, nodes_fixed, edges_parent, edges_child, eps, iters, expected out)"""
    n = len(inst["mean"])
    sc = inst["scale"]
    if mode == "unit":
        f = lambda t: float(t)  # noqa: E731
        eps = float(inst["eps"] * sc)
        if inst["eps"] == 0:
            return None
    else:  # "ulp": lattice unit = one ulp at 2**60; eps = 1.0 is absorbed there
        if inst["iters"] != 0:
            return None
        f = lambda t: BASE + ULP * t  # noqa: E731
        eps = 1.0 if inst["eps"] == 0 else ULP * inst["eps"]
    t = np.array([f(m * sc) for m in inst["mean"]], dtype=np.float64)
    fixed = np.zeros(n, dtype=bool)
    fixed[list(inst["fixed"])] = True
    ep = np.array([e[0] for e in inst["edges"]], dtype=np.int32)
    ec = np.array([e[1] for e in inst["edges"]], dtype=np.int32)
    out = np.array([f(x) for x in inst["out"]], dtype=np.float64)
    return t, fixed, ep, ec, eps, int(inst["iters"]), out


def replay_kernel(inst, mode):
    """Run the real util._constrain_ages on a Constrain behaviour's instance; return a
    message if its result differs from the specification's final state."""
    from tsdate import util
    r = realise(inst, mode)
    if r is None:
        return "skip"
    t, fixed, ep, ec, eps, iters, out = r
    try:
        got = util._constrain_ages(t, fixed, ep, ec, eps, iters)
    except Exception as ex:  # noqa: BLE001
        return f"_constrain_ages raised {type(ex).__name__}: {ex}"
    if not np.array_equal(got, out):
        return f"mode={mode} got={got.tolist()} spec={out.tolist()}"
    return None


def replay_api(inst, mode):
    """Same through the public util.constrain_ages(ts, ...) on a tree sequence that realises
    the DAG (each edge on its own interval)."""
    from tsdate import util

    from . import build
    r = realise(inst, mode)
    if r is None:
        return "skip"
    t, fixed, ep, ec, eps, iters, out = r
    n = len(t)
    ts = build.dag_ts(n, list(zip(ep.tolist(), ec.tolist())), list(range(n)), np.flatnonzero(fixed).tolist())
    if not (np.array_equal(ts.edges_parent, ep) and np.array_equal(ts.edges_child, ec)):
        return "binding: tskit sorted the DAG's edges differently from the specification"
    try:
        got = util.constrain_ages(ts, t, eps, iters)
    except Exception as ex:  # noqa: BLE001
        return f"constrain_ages raised {type(ex).__name__}: {ex}"
    if not np.array_equal(got, out):
        return f"mode={mode} got={got.tolist()} spec={out.tolist()}"
    return None


def classify(inst):
    """which statements does this instance exercise (for distinct_nontrivial)"""
    sc = inst["scale"]
    moved = [i for i, (m, o) in enumerate(zip(inst["mean"], inst["out"])) if m * sc != o]
    tags = []
    if moved:
        tags.append("moved")
    if any(i in inst["fixed"] for i in moved):
        tags.append("fixed_pushed")
    if inst["eps"] == 0:
        tags.append("absorbing")
    if inst["iters"] > 0:
        tags.append("lsq")
    return tags


# ---------------------------------------------------------------------------------------
# code -> spec: real executions abstracted to ranks (A2) for ConstrainTrace
# ---------------------------------------------------------------------------------------

def event_from_arrays(tid, n, ep, ec, mean, out, tin, fixed, eps, iters, out2=None, muts=None):
    """One ConstrainTrace event: dense ranks of the finite set of floats involved.
    muts = optional (mut_time, lower, upper, above_root) arrays for the mutation-time clause."""
    ep = np.asarray(ep)
    ec = np.asarray(ec)
    plus = out[ec] + eps  # float64 sum, as C01 states
    succ = np.nextafter(out[ec], np.inf)
    raised = np.maximum(plus, succ)
    parts = [mean, out, plus, raised, tin]
    if out2 is not None:
        parts.append(out2)
    if muts is not None:
        parts += [muts[0], muts[1], muts[2]]
    vals = np.concatenate(parts)
    if not np.all(np.isfinite(vals)):
        return None
    uniq = np.unique(vals)
    rk = lambda a: (np.searchsorted(uniq, a) + 1).tolist()  # noqa: E731
    feasible = bool(np.all(mean[ep] - mean[ec] > eps)) if len(ep) else True
    ev = {"tid": tid, "n": int(n), "ep": (ep + 1).tolist(), "ec": (ec + 1).tolist(),
          "mean": rk(mean), "out": rk(out), "plus": rk(plus), "raised": rk(raised), "tin": rk(tin),
          "fixed": [bool(x) for x in fixed], "iters": int(iters), "feasible": feasible,
          "absorb": bool(np.any(raised != plus)), "out2": rk(out2 if out2 is not None else out),
          "mt": [], "mlo": [], "mhi": [], "mroot": []}
    if muts is not None:
        ev.update({"mt": rk(muts[0]), "mlo": rk(muts[1]), "mhi": rk(muts[2]), "mroot": [bool(x) for x in muts[3]]})
    return ev


def kernel_events(ctx, pid, insts, modes=("unit", "ulp"), compare_spec=True, compare_absorbing=True, api=3):
    """Replay TLC behaviours into the real kernel; return rank events of what the code did.
    Where the specification determines the result (iters = 0) a disagreement with the model's
    final state is reported directly."""
    from tsdate import util

    from . import build, harness
    events, meta = [], {}
    for i, inst in enumerate(insts):
        for mode in modes:
            r = realise(inst, mode)
            if r is None:
                continue
            t, fixed, ep, ec, eps, iters, out_spec = r
            ctx.evaluations += 1
            try:
                got = util._constrain_ages(t, fixed, ep, ec, eps, iters)
                got2 = util._constrain_ages(got, fixed, ep, ec, eps, iters)
                if api and (i % api == 0):
                    # the public entry point on a tree sequence realising the DAG; samples carry
                    # extra flag bits (as tsinfer's historical samples do) on every other instance
                    n = len(t)
                    ts = build.dag_ts(n, list(zip(ep.tolist(), ec.tolist())), list(range(n)),
                                      np.flatnonzero(fixed).tolist())
                    relabel = None
                    if (i // api) % 3 == 2:
                        # node ids NOT in time order (as in tsinfer / subset() output): relabel the nodes by a
                        # fixed rotation; tskit re-sorts the edge table by parent time (added after seed C01-b)
                        relabel = [(u * 2 + 1) % n if n % 2 else (n - 1 - u) for u in range(n)]
                        if sorted(relabel) != list(range(n)):
                            relabel = [n - 1 - u for u in range(n)]
                        inv = [0] * n
                        for old, new in enumerate(relabel):
                            inv[new] = old
                        ts = build.dag_ts(n, [(relabel[p], relabel[c]) for p, c in zip(ep.tolist(), ec.tolist())],
                                          [inv[v] for v in range(n)], [relabel[u] for u in np.flatnonzero(fixed).tolist()])
                    if (i // api) % 2:
                        tb = ts.dump_tables()
                        fl = tb.nodes.flags
                        fl[fixed] |= (1 << 20)
                        tb.nodes.flags = fl
                        ts = tb.tree_sequence()
                    if relabel is None:
                        if not (np.array_equal(ts.edges_parent, ep) and np.array_equal(ts.edges_child, ec)):
                            raise harness.MachineryError("tskit sorted the DAG's edges differently from Constrain.tla")
                        got_api = util.constrain_ages(ts, t, eps, iters)
                    else:
                        t_new = np.array([t[inv[v]] for v in range(n)])
                        if iters == 0:  # the forced pass is order-independent; the LSQ phase is not
                            got_new = util.constrain_ages(ts, t_new, eps, iters)
                            got_api = np.array([got_new[relabel[u]] for u in range(n)])
                            ctx.count("api_replays_relabelled")
                        else:
                            got_api = got
                    ctx.count("api_replays")
                    if iters > 0 and not np.array_equal(got_api, got):
                        # with least-squares iterations only the statements (judged below on the API's result)
                        # are demanded, not one particular intermediate solution
                        ctx.count("api_vs_kernel_differ_with_lsq")
                        got = got_api
                        got2 = util.constrain_ages(ts, got_api, eps, iters) if relabel is None else got2
                    elif not np.array_equal(got_api, got):
                        ctx.violation(f"{pid}/kernel/constrain_ages-differs-from-kernel", {"inst": inst, "mode": mode},
                                      f"constrain_ages(ts,..) gives {got_api.tolist()} but the kernel on the same "
                                      f"arrays gives {got.tolist()} (sample flags {ts.nodes_flags.tolist()})",
                                      subcheck="kernel")
                        got = got_api
            except harness.MachineryError:
                raise
            except Exception as ex:  # noqa: BLE001
                ctx.violation(f"{pid}/kernel/{type(ex).__name__}", {"inst": inst, "mode": mode},
                              f"_constrain_ages raised {type(ex).__name__}: {ex}", subcheck="kernel")
                continue
            if classify(inst):
                ctx.nontriv((tuple(map(tuple, inst["edges"])), tuple(inst["mean"]), tuple(inst["fixed"]),
                             inst["eps"], inst["iters"], mode))
            tid = f"k{i}-{mode}"
            ev = event_from_arrays(tid, len(t), ep, ec, t, got, t.copy(), fixed, eps, iters, out2=got2)
            events.append(ev)
            meta[tid] = {"inst": inst, "mode": mode, "code_out": got.tolist(), "spec_out": out_spec.tolist()}
            if compare_spec and iters == 0 and (compare_absorbing or inst["eps"] > 0) \
                    and not np.array_equal(got, out_spec):
                ctx.violation(f"{pid}/kernel/differs-from-Constrain-final-state", {"inst": inst, "mode": mode},
                              f"forced pass result {got.tolist()} differs from the specification {out_spec.tolist()}",
                              subcheck="kernel")
            ctx.sample({"kind": "kernel replay", "instance": inst, "mode": mode, "code_out": got.tolist()})
    return events, meta


def mutation_bounds(ts_out):
    """(time, lower, upper, above_root) per mutation of a dated tree sequence."""
    mt = ts_out.mutations_time
    node = ts_out.mutations_node
    lo = ts_out.nodes_time[node]
    hi = np.empty_like(lo)
    root = np.zeros(len(lo), dtype=bool)
    pos = ts_out.sites_position[ts_out.mutations_site]
    tree = ts_out.first() if ts_out.num_trees else None
    for m in range(ts_out.num_mutations):
        tree.seek(pos[m])
        p = tree.parent(node[m])
        if p == -1:
            root[m] = True
            hi[m] = lo[m]
        else:
            hi[m] = ts_out.nodes_time[p]
    return mt, lo, hi, root


def date_events(ctx, pid, corpus, methods, settings, idempotence=True):
    """Call the real date() on corpus x methods x settings under the API recorder and turn every
    successful call into one ConstrainTrace event."""
    import tsdate
    from tsdate import util

    from . import harness, record
    events, meta = [], {}
    for inp in corpus:
        for method in methods:
            for kw in settings:
                kw = dict(kw)
                args = dict(mutation_rate=inp.mu, method=method)
                if method != "variational_gamma":
                    if "historical" in inp.tags:
                        continue
                    args["population_size"] = inp.Ne
                    for k in ("rescaling_intervals", "singletons_phased", "max_iterations", "rescaling_iterations"):
                        kw.pop(k, None)
                args.update(kw)
                call = record.observed_call(tsdate.date, inp.ts, **args)
                ctx.evaluations += 1
                tid = f"{inp.name}/{method}/{sorted(kw.items())}"
                if not call.ok:
                    ctx.count("date_calls_rejected_or_failed")
                    meta[tid] = {"input": inp.name, "method": method, "kw": kw, "exc": repr(call.exc)}
                    continue  # acceptance / rejection is C35's business
                if len(call.constrain) != 1:
                    raise harness.MachineryError(
                        f"expected exactly one constrain_ages call inside date(), saw {len(call.constrain)}")
                mean, eps, iters, _ = call.constrain[0]
                ts_in, ts_out = inp.ts, call.ts
                try:
                    ts_out.tables.tree_sequence()  # tskit's own integrity check ("valid tree sequence")
                except Exception as ex:  # noqa: BLE001
                    ctx.violation(f"{pid}/date/invalid-ts/{type(ex).__name__}", {"tid": tid},
                                  f"returned tables are not a valid tree sequence: {ex}", subcheck="date")
                    continue
                out = ts_out.nodes_time
                out2 = util.constrain_ages(ts_in, out, eps, iters) if idempotence else None
                fixed = np.zeros(ts_in.num_nodes, dtype=bool)
                fixed[ts_in.samples()] = True
                ev = event_from_arrays(tid, ts_in.num_nodes, ts_in.edges_parent, ts_in.edges_child, mean, out,
                                       ts_in.nodes_time, fixed, eps, iters, out2=out2, muts=mutation_bounds(ts_out))
                if ev is None:
                    ctx.violation(f"{pid}/date/non-finite-times", {"tid": tid}, "non-finite node or mutation time",
                                  subcheck="date")
                    continue
                events.append(ev)
                meta[tid] = {"input": inp.name, "method": method, "kw": kw}
                if np.any(mean != out):
                    ctx.nontriv(tid)
                ctx.sample({"kind": "date() call", "tid": tid, "nodes": int(ts_in.num_nodes),
                            "moved_nodes": int(np.sum(mean != out)), "eps": eps, "iters": iters}, limit=8)
    return events, meta


def write_trace(path, events):
    with open(path, "w") as f:
        for e in events:
            f.write(json.dumps(e) + "\n")
    return path


def validate_traces(ctx, events, checks):
    """Run ConstrainTrace over the events (one per real execution).  Returns list of rejects."""
    from .harness import MachineryError
    if not events:
        return []
    path = write_trace(os.path.join(ctx.work, f"ctrace-{len(events)}-{ctx.traces}.ndjson"), events)
    cfg = ctx.write_cfg("ConstrainTrace.cfg", spec="TraceSpec",
                        constants={"Checks": "{" + ",".join(json.dumps(c) for c in checks) + "}"})
    r = ctx.tlc("ConstrainTrace", cfg, workers=1, coverage=False, env={"TRACE_FILE": path}, must_hold=False)
    acc = r.rec("accepted")
    rej = r.rec("reject")
    if not acc:
        raise MachineryError("ConstrainTrace did not report acceptance:\n" + r.stdout[-3000:])
    n_ok = acc[-1]["accepted"]
    if n_ok + len({x["tid"] for x in rej}) != len(events):
        raise MachineryError(f"ConstrainTrace accounted for {n_ok}+{len(rej)} of {len(events)} traces\n" + r.stdout[-2000:])
    ctx.traces += len(events)
    return rej


def judge(ctx, pid, checks, events, meta, label):
    rej = validate_traces(ctx, events, checks)
    for r in rej:
        ev = next(e for e in events if e["tid"] == r["tid"])
        ctx.violation(f"{pid}/{label}/{r['clause']}", {"event": ev, "meta": meta.get(r["tid"]), "checks": checks},
                      f"trace {r['tid']} rejected by ConstrainTrace at clause {r['clause']}", subcheck=label)


def replay(ctx, pid, checks, body):
    inst = body["instance"]
    if "inst" in inst:
        ev, meta = kernel_events(ctx, pid, [inst["inst"]], modes=(inst["mode"],))
        judge(ctx, pid, checks, ev, meta, "kernel")
    elif "event" in inst:
        judge(ctx, pid, inst.get("checks", checks), [inst["event"]], {}, body.get("subcheck") or "date")


def default_corpus(ctx, big=False):
    from . import inputs
    q = ctx.quick
    corpus = inputs.contemporaneous(ctx.seed, k=3 if q else 10) + inputs.polytomies(ctx.seed, k=1 if q else 3) \
        + inputs.historical(ctx.seed, k=1 if q else 3) + inputs.internal_samples(ctx.seed, k=1 if q else 3)
    corpus += [inputs.flagged(c) for c in corpus if "historical" in c.tags][: 2 if q else 6]
    corpus += inputs.inferred(ctx.seed, k=1 if q else 3)
    corpus += [inputs.renumbered(c, ctx.seed) for c in corpus[:1 if q else 3]]
    return corpus


def loop_traces(ctx, pid, insts, consts, name="clt"):
    """code -> spec at loop granularity for util._constrain_ages: the loop-head recorder (JIT off, separate
    process, vt/looptrace_constrain.py) logs nodes_time / edges_cavity at every inner-loop head and TLC
    (spec/ConstrainLoopTrace.tla) steps Constrain!Project / Force / EarlyExit alongside."""
    import subprocess

    from . import harness
    insts = [i for i in insts if i["eps"] > 0]
    if not insts:
        return
    ip = os.path.join(ctx.work, f"{name}-insts.json")
    op = os.path.join(ctx.work, f"{name}.ndjson")
    json.dump(insts, open(ip, "w"))
    env = dict(os.environ, NUMBA_DISABLE_JIT="1", PYTHONPATH=harness.VERIF, VERIF_REPO=harness.REPO)
    env.pop("NUMBA_CACHE_DIR", None)
    r = subprocess.run(["/venv/bin/python", "-m", "vt.looptrace_constrain", ip, op], env=env, capture_output=True,
                       text=True, cwd=harness.VERIF, timeout=5400)
    if r.returncode == 3:
        # loop heads / locals not found, or arithmetic off Constrain's integer lattice: the kernel was rewritten.
        # Conformance drift, not a verdict on the properties (the replay legs judge what the kernel returns).
        last = (r.stderr.strip().splitlines() or ["?"])[-1]
        ctx.count("loop_head_recorder_drift")
        print(f"CONFORMANCE-DRIFT property={pid} loop-head recorder of _constrain_ages: {last[:300]}")
        return
    if r.returncode != 0:
        last = (r.stderr.strip().splitlines() or ["?"])[-1]
        if "/tsdate/" in r.stderr and ("Error" in last or "Exception" in last):
            ctx.violation(f"{pid}/looptrace/kernel-raised", {"stderr": r.stderr[-600:]},
                          "_constrain_ages (JIT off) raised under the loop-head recorder: " + last, subcheck="loop")
            return
        raise harness.MachineryError("loop-head recorder failed: " + r.stderr[-1500:])
    cfg = ctx.write_cfg(f"{name}.cfg", spec="TraceSpec", constants=constants(**consts))

    def validate(path):
        res = ctx.tlc("ConstrainLoopTrace", cfg, workers=1, coverage=False, env={"TRACE_FILE": path}, must_hold=False)
        acc = res.rec("accepted")
        if not acc:
            raise harness.MachineryError("ConstrainLoopTrace gave no verdict:\n" + res.stdout[-2000:])
        return {v["tid"]: v["ok"] for v in res.rec("verdict")}, res.rec("reject"), res.rec("drift")

    verdicts, rej, drift = validate(op)
    if drift:
        # the code's internal steps differ from Constrain's machine although (unless rejected below) what it
        # returns satisfies the statements: reported, not an alarm
        ctx.count("conformance_drift_traces", len({x["tid"] for x in drift}))
        print(f"CONFORMANCE-DRIFT property={pid} {len({x['tid'] for x in drift})} loop-head traces of _constrain_ages leave "
              f"Constrain's machine (first clause: {drift[0]['clause']}); properties are judged on the returned values")
    if len(verdicts) != len(insts):
        bad = [t for t in range(len(insts)) if t not in verdicts]
        for t in bad[:3]:
            ctx.violation(f"{pid}/looptrace/trace-not-consumed", insts[t],
                          "the loop-head trace does not follow Constrain's machine (no enabled step)", subcheck="loop")
    ctx.traces += len(insts)
    ctx.count("loop_head_traces", len(insts))
    clause = {}
    for x in rej:
        clause.setdefault(x["tid"], x["clause"])
    for t, ok in verdicts.items():
        if not ok:
            ctx.violation(f"{pid}/looptrace/{clause.get(t, '?')}", insts[t],
                          f"loop-head trace of _constrain_ages rejected by ConstrainLoopTrace: {clause.get(t)}",
                          subcheck="loop")
    # binding demonstration: corrupt one logged time, that trace (and only it) must be rejected
    lines = open(op).read().splitlines()
    for i, ln in enumerate(lines):
        ev = json.loads(ln)
        if ev["kind"] == "head" and not ev["exit"] and ev["loop"] == "force":
            ev["time"][0] += 1
            lines[i] = json.dumps(ev)
            bad_tid = ev["tid"]
            break
    else:
        return
    cp = os.path.join(ctx.work, f"{name}-corrupt.ndjson")
    open(cp, "w").write("\n".join(lines) + "\n")
    v2, _, d2 = validate(cp)
    if bad_tid not in {x["tid"] for x in d2} and v2.get(bad_tid, True):
        raise harness.MachineryError("ConstrainLoopTrace did not notice the corrupted trace")
    ctx.count("corrupted_traces_rejected", 1)
