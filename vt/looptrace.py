"""Loop-head recorder (DESIGN 3.3), run as a separate process with NUMBA_DISABLE_JIT=1 so that the
numba kernels are plain Python and a sys.settrace line tracer can snapshot their locals at every
evaluation of the outer loop head.  Keyed on the *source text* of the loop-head line, not on line
numbers.  Usage:  python -m vt.looptrace <instances.json> <out.ndjson>
"""

import json
import os
import sys

HEAD_TEXT = "while a < num_edges or b < num_edges:"


def main():
    inst_path, out_path = sys.argv[1], sys.argv[2]
    assert os.environ.get("NUMBA_DISABLE_JIT") == "1"
    repo = os.environ.get("VERIF_REPO", "/repo")
    sys.path.insert(0, repo)
    sys.path.insert(0, os.path.dirname(os.path.dirname(os.path.abspath(__file__))))
    import inspect

    import numpy as np
    from tsdate import rescaling

    from vt import build
    src, first = inspect.getsourcelines(rescaling._count_mutations)
    heads = [first + i for i, l in enumerate(src) if l.strip() == HEAD_TEXT]
    if len(heads) != 1:
        print("DRIFT: loop head of _count_mutations not found in the source", file=sys.stderr)
        sys.exit(3)
    head_line = heads[0]
    code = rescaling._count_mutations.__code__
    events = []
    lost = []

    def local_tracer(frame, event, arg):
        if event == "line" and frame.f_lineno == head_line:
            try:
                snapshot(frame.f_locals)
            except (KeyError, TypeError, ValueError, IndexError) as ex:   # the kernel's locals were renamed / retyped
                lost.append(repr(ex))
                return None
        return local_tracer

    def snapshot(L):
        events.append({"kind": "head", "left": int(L["left"]), "a": int(L["a"]), "b": int(L["b"]), "d": int(L["d"]),
                       "emuts": [int(x) for x in L["edges_mutations"]], "espan": [int(x) for x in L["edges_span"]],
                       "ns": [int(x) for x in L["nodes_samples"]],
                       "ne": [int(x) + 1 for x in L["nodes_edge"]], "np": [int(x) for x in L["nodes_parent"]],
                       "medge": [int(x) + 1 for x in L["mutations_edge"]],
                       "order": [int(x) for x in L["indexes_mutation"]]})

    def tracer(frame, event, arg):
        if event == "call" and frame.f_code is code:
            return local_tracer
        return None

    insts = json.load(open(inst_path))
    with open(out_path, "w") as out:
        for tid, inst in enumerate(insts):
            ts = build.forest_ts(inst)
            mask = np.zeros(ts.num_nodes, dtype=bool)
            mask[list(inst["samp"])] = True
            del events[:]
            sys.settrace(tracer)
            try:
                stats, medge = rescaling._count_mutations(
                    mask, ts.mutations_node, ts.sites_position[ts.mutations_site], ts.edges_parent, ts.edges_child,
                    ts.edges_left, ts.edges_right, ts.indexes_edge_insertion_order, ts.indexes_edge_removal_order,
                    ts.sequence_length, bool(inst["sb"]))
            finally:
                sys.settrace(None)
            if lost:
                print("DRIFT: the locals of _count_mutations could not be read at the loop head: " + lost[0], file=sys.stderr)
                sys.exit(3)
            # mutation id (ts order) of each entry of the instance's sorted mutation sequence
            pos = ts.sites_position[ts.mutations_site]
            key = {(int(pos[m]), int(ts.mutations_node[m])): m for m in range(ts.num_mutations)}
            mids = [key[(int(x), int(u))] for x, u in inst["muts"]]
            out.write(json.dumps({"tid": tid, "kind": "begin", "trees": inst["trees"], "muts": inst["muts"],
                                  "sb": bool(inst["sb"]), "samp": sorted(inst["samp"]), "nheads": len(events)}) + "\n")
            for ev in events:
                ev["tid"] = tid
                ev["medge"] = [ev["medge"][m] for m in mids]   # re-indexed by the instance's mutation order
                del ev["order"]
                out.write(json.dumps(ev) + "\n")
            out.write(json.dumps({"tid": tid, "kind": "end", "emuts": [int(x) for x in stats[:, 0]],
                                  "espan": [int(x) for x in stats[:, 1]],
                                  "medge": [int(medge[m]) + 1 for m in mids]}) + "\n")


if __name__ == "__main__":
    main()
