"""Shared by C10 / C11 / C12 / C13 / C38: modules InsideOutside, IOMax, IOOrder, ProbSpace
<-> tsdate.discrete (Likelihoods, LogLikelihoods, BeliefPropagation) and the wrappers
tsdate.inside_outside / tsdate.maximization.

Binding devices
  * table doubles: subclasses of the real Likelihoods / LogLikelihoods that override only
    get_mut_lik_lower_tri / get_mut_lik_fixed_node to return the specification's abstract
    tables in the code's packed layout; everything else (index tables, make_*_tri, rowsum_*,
    get_inside / get_outside / get_fixed, inside_pass, outside_pass, to_probabilities) is real.
  * Poisson shim (maximisation only): outside_maximization calls scipy.stats.poisson itself;
    the shim replaces the name `scipy` seen by tsdate.discrete with a namespace whose
    poisson.pmf / logpmf look the value up in the specification's table (the spec's CONSTANT
    operator Lik).  Nothing else of the method is replaced.
  * mirror: transliteration of the specification's declarative operators (Marginal /
    Normaliser / DeclIgnored of InsideOutside, ArgmaxSet / Bound of IOMax), generic in the
    scalar type; used on real Poisson factors only after it reproduced TLC's emitted values
    on the integer scope in the same run (mirror_sync).
"""

import contextlib
import itertools
import json
import math
import types
from fractions import Fraction

import numpy as np
import tskit

from . import build, harness

LIN, LOG = "linear", "logarithmic"
SPACES = (LIN, LOG)
RTOL_DOUBLE = {LIN: 1e-12, LOG: 1e-9}     # exact rationals from TLC vs the code on table doubles
RTOL_POISSON = {LIN: 1e-9, LOG: 1e-7}     # close9 / close7 of DESIGN appendix C
TIE = 1e-9                                # guard no_tie


# =========================================================================================
# TLC configurations
# =========================================================================================
def tick(ctx, label):
    """wall time per phase, reported in the evidence (phase_s)"""
    import time
    now = time.time()
    last = getattr(ctx, "_bp_last", ctx.t0)
    ph = ctx.extra.setdefault("phase_s", {})
    ph[label] = round(ph.get(label, 0.0) + now - last, 2)
    ctx._bp_last = now


def tlc_timeout(ctx):
    return 900 if ctx.quick else 3000


def tla_set(xs):
    return "{" + ",".join(json.dumps(x) if isinstance(x, str) else str(x) for x in xs) + "}"


def io_consts(NS, NI, G, vals=(0, 1), ign=("none",), perms="id", min_kids=2, canon=True, mode="all",
              seeds=(0,), emit=False):
    return {"NS": NS, "NI": NI, "G": G, "Vals": tla_set(vals), "IgnoreModes": tla_set(ign),
            "PermMode": json.dumps(perms), "MinKids": min_kids, "CanonLeaves": "TRUE" if canon else "FALSE",
            "TableMode": json.dumps(mode), "Seeds": tla_set(seeds), "EmitDone": "TRUE" if emit else "FALSE"}


IO_INVARIANTS = ["PosteriorExact", "MarginalExact", "ImproperIffNoMass", "DivisionExact", "StandardisedInside",
                 "PosteriorIgnoreRoot"]
IO_ACTIONS = ("ChooseTopo", "ChooseTable", "Start", "InsideNode", "InsideFinish", "OutsideNode", "OutsideFinish")


def io_run(ctx, name, *, simulate=None, invariants=IO_INVARIANTS, must_hold=True, workers=8, **kw):
    """Model-check (or simulate) InsideOutside; returns (TLCResult, emitted instances)."""
    emit = kw.get("emit", False)
    cfg = ctx.write_cfg(name + ".cfg", constants=io_consts(**kw),
                        invariants=list(invariants) + (["EmitInv"] if emit else []))
    if simulate:
        r = ctx.tlc("InsideOutside", cfg, workers=workers, coverage=False, must_hold=must_hold,
                    simulate={"num": max(1, simulate // workers)}, depth=60, timeout=tlc_timeout(ctx))
    else:
        r = ctx.tlc("InsideOutside", cfg, workers=workers, must_hold=must_hold, timeout=tlc_timeout(ctx),
                    required_actions=tuple(a for a in IO_ACTIONS if a != "OutsideNode" or kw["NI"] >= 2)
                    if must_hold else ())
    return r, r.rec("inst")


def max_consts(NS, NI, G, mult=1, max_edges=3, ins=(0, 1), lik=(1, 2), emit=False):
    return {"NS": NS, "NI": NI, "G": G, "Mult": mult, "MaxEdges": max_edges, "InsVals": tla_set(ins),
            "LikVals": tla_set(lik), "EmitDone": "TRUE" if emit else "FALSE"}


MAX_INVARIANTS = ["MaxRule", "Ordered", "GridPoint", "EdgeOrderFree"]
MAX_ACTIONS = ("ChooseDag", "ChooseTable", "Start", "MaximizeNode", "Finish")


def max_run(ctx, name, *, simulate=None, workers=8, **kw):
    emit = kw.get("emit", False)
    cfg = ctx.write_cfg(name + ".cfg", constants=max_consts(**kw),
                        invariants=MAX_INVARIANTS + (["EmitInv"] if emit else []))
    if simulate:
        r = ctx.tlc("IOMax", cfg, workers=workers, coverage=False, simulate={"num": max(1, simulate // workers)},
                    depth=60, timeout=tlc_timeout(ctx))
    else:
        r = ctx.tlc("IOMax", cfg, workers=workers, required_actions=MAX_ACTIONS, timeout=tlc_timeout(ctx))
    return r, r.rec("inst")


ORDER_INVARIANTS = ["InsideAdmissible", "OutsideAdmissible", "MaxAdmissible", "SeqsSorted", "OldestRootIsOldestParent"]


def order_run(ctx, name, *, NS=2, NI=3, max_edges=6, tmax=3, perms="all", emit=False, invariants=ORDER_INVARIANTS,
              must_hold=True, workers=8):
    cfg = ctx.write_cfg(name + ".cfg",
                        constants={"NS": NS, "NI": NI, "MaxEdges": max_edges, "TMax": tmax,
                                   "PermMode": json.dumps(perms), "EmitDone": "TRUE" if emit else "FALSE"},
                        invariants=list(invariants) + (["EmitInv"] if emit else []))
    r = ctx.tlc("IOOrder", cfg, workers=workers, must_hold=must_hold, timeout=tlc_timeout(ctx),
                required_actions=("ChooseDag", "ChooseLabels") if must_hold else ())
    return r, r.rec("inst")


ALL_OPS = ("combine", "ratio", "rowsum_lower_tri", "rowsum_upper_tri", "marginalize", "scale_geometric",
           "force_space")


def prob_run(ctx, name, *, G=2, mode="finite", ops=ALL_OPS, max_len=3, emit=True, must_hold=True, workers=4):
    cfg = ctx.write_cfg(name + ".cfg",
                        constants={"G": G, "ClassMode": json.dumps(mode), "Ops": tla_set(ops), "MaxLen": max_len,
                                   "EmitDone": "TRUE" if emit else "FALSE"},
                        invariants=(["EmitInv"] if emit else []) + ["Commutes"])
    r = ctx.tlc("ProbSpace", cfg, workers=workers, must_hold=must_hold, timeout=tlc_timeout(ctx),
                required_actions=("PickOp", "PickArgs") if must_hold else ())
    return r, r.rec("case")


# =========================================================================================
# doubles of the real classes
# =========================================================================================
_CACHE = {}


def tsd():
    """(tsdate, discrete, NodeTimeValues) -- imported lazily, after harness.setup_repo_env."""
    if "m" not in _CACHE:
        import tsdate
        from tsdate import discrete
        from tsdate.node_time_class import NodeTimeValues
        _CACHE["m"] = (tsdate, discrete, NodeTimeValues)
    return _CACHE["m"]


def doubles():
    if "d" not in _CACHE:
        _, discrete, _ = tsd()

        class TableLik(discrete.Likelihoods):
            def get_mut_lik_lower_tri(self, edge):
                return self._tri[edge.child]

            def get_mut_lik_fixed_node(self, edge):
                return self._fix[edge.child]

        class TableLogLik(discrete.LogLikelihoods):
            def get_mut_lik_lower_tri(self, edge):
                return self._tri[edge.child]

            def get_mut_lik_fixed_node(self, edge):
                return self._fix[edge.child]

        _CACHE["d"] = {LIN: TableLik, LOG: TableLogLik}
    return _CACHE["d"]


def spies():
    """Real classes that only *record* the edges whose outside message is computed."""
    if "s" not in _CACHE:
        _, discrete, _ = tsd()

        class SpyLik(discrete.Likelihoods):
            def get_outside(self, arr, edge):
                self._seen.append((int(edge.parent), int(edge.child)))
                return super().get_outside(arr, edge)

        class SpyLogLik(discrete.LogLikelihoods):
            def get_outside(self, arr, edge):
                self._seen.append((int(edge.parent), int(edge.child)))
                return super().get_outside(arr, edge)

        _CACHE["s"] = {LIN: SpyLik, LOG: SpyLogLik}
    return _CACHE["s"]


def to_space(a, space):
    a = np.asarray(a, dtype=float)
    if space == LIN:
        return a
    with np.errstate(divide="ignore"):
        return np.log(a)


def from_space(a, space):
    a = np.asarray(a, dtype=float)
    return a if space == LIN else np.exp(a)


def pack_lower(rows):
    """(i, j)-indexed lower-triangular table -> the layout of timediff_lower_tri: row i = parent
    grid index holds child indices 0..i."""
    return [rows[i][j] for i in range(len(rows)) for j in range(i + 1)]


def close(got, exp, rtol):
    got = np.asarray(got, dtype=float)
    exp = np.asarray(exp, dtype=float)
    if got.shape != exp.shape:
        return False
    return bool(np.all(np.isfinite(got)) and np.allclose(got, exp, rtol=rtol, atol=0.0))


def normalise(row):
    s = sum(row)
    return [Fraction(x, s) for x in row]


# =========================================================================================
# InsideOutside instances -> real code
# =========================================================================================
def io_tables(inst):
    NS, NI = inst["NS"], inst["NI"]
    N = NS + NI
    perm = list(range(NS)) + [int(x) for x in inst["perm"]]      # canonical name -> id seen by the code
    return NS, NI, N, inst["G"], perm


def io_ts(inst):
    NS, NI, N, G, perm = io_tables(inst)
    return build.forest_ts({"N": N, "NS": NS, "L": 1, "time": [0] * NS + list(range(1, NI + 1)),
                            "trees": [list(inst["par"])], "muts": []}, perm=perm)


def io_fit(inst, space):
    """BeliefPropagation on the instance's tree with the table doubles (not yet run)."""
    _, discrete, NodeTimeValues = tsd()
    NS, NI, N, G, perm = io_tables(inst)
    ts = io_ts(inst)
    lik = doubles()[space](ts, np.arange(G, dtype=float), mutation_rate=1.0, eps=0)
    lik._fix = {perm[c]: to_space(inst["likf"][c], space) for c in range(NS)}
    lik._tri = {perm[NS + k]: to_space(pack_lower(inst["lik"][k]), space) for k in range(NI - 1)}
    internal_ids = np.array(sorted(perm[NS:]), dtype=np.int64)
    pri = NodeTimeValues(N, internal_ids, np.arange(G, dtype=float))
    for k in range(NI):
        pri[perm[NS + k]] = np.asarray(inst["prior"][k], dtype=float)
    return discrete.BeliefPropagation(pri, lik), ts, perm


def posterior_probabilities(fit, with_standardize):
    """The post-processing of InsideOutsideMethod.run, on a copy of fit.posterior_grid."""
    pg = fit.posterior_grid.clone_with_new_data(grid_data=fit.posterior_grid.grid_data.copy(), fixed_data=np.nan)
    with np.errstate(all="ignore"):
        if with_standardize:
            pg.standardize()
        pg.force_probability_space(LIN)
        pg.to_probabilities()
    return pg


def replay_io(ctx, pid, inst, space, *, outside_standardize=True, expect="decl", sig_extra="", posterior_sig=None):
    """Run the real inside_pass / outside_pass on a TLC instance and compare every observable
    with the specification's final state.  Returns True when the instance was compared."""
    if inst["status"] != "done":
        ctx.count("improper_instances_skipped")       # guard proper_model
        return False
    NS, NI, N, G, perm = io_tables(inst)
    ign = inst["ign"] != "none"
    rt = RTOL_DOUBLE[space]
    base = f"{pid}/double/{space}"
    try:
        fit, ts, perm = io_fit(inst, space)
        with np.errstate(all="ignore"):
            ml = fit.inside_pass()
            fit.outside_pass(standardize=outside_standardize, ignore_oldest_root=ign)
    except Exception as ex:  # noqa: BLE001
        ctx.violation(f"{base}/{type(ex).__name__}{sig_extra}", inst,
                      f"inside/outside pass raised {type(ex).__name__}: {ex} on a proper model", subcheck="double")
        return True
    Z = inst["Z"]
    want_ml = float(Z) if space == LIN else math.log(Z)
    if not close(ml, want_ml, rt):
        ctx.violation(f"{base}/marginal-likelihood{sig_extra}", inst,
                      f"inside_pass returned {ml!r}, specification normaliser {want_ml!r}", subcheck="double")
    for k in range(NI):
        u = perm[NS + k]
        want_in = [Fraction(x, inst["mx"][k]) for x in inst["U"][k]]
        got_in = from_space(fit.inside[u], space)
        if not close(got_in, [float(x) for x in want_in], rt):
            ctx.violation(f"{base}/inside{sig_extra}", inst,
                          f"inside[{u}] = {got_in.tolist()} but specification {[str(x) for x in want_in]}",
                          subcheck="double")
        want = inst[expect][k]
        want_p = [float(x) for x in normalise(want)]
        bad_sig = posterior_sig or f"{base}/posterior{sig_extra}"
        for with_std in (False, True):
            if with_std and sum(want[1:]) == 0:
                ctx.count("standardize_step_skipped_mass_on_timepoint_0")
                continue
            pg = posterior_probabilities(fit, with_std)
            got = np.asarray(pg[u], dtype=float)
            if not close(got, want_p, rt):
                ctx.violation(bad_sig, inst,
                              f"posterior[{u}] = {got.tolist()} but specification {want_p} "
                              f"(ignore_oldest_root={ign}, standardize step={with_std})", subcheck="double")
        if not ign or expect == "post":
            w = inst["W"][k]
            got_out = from_space(fit.outside[u], space)
            with np.errstate(all="ignore"):
                got_n = got_out / got_out.sum()
            if not close(got_n, [float(x) for x in normalise(w)], rt):
                ctx.violation(f"{base}/outside{sig_extra}", inst,
                              f"outside[{u}] = {got_out.tolist()} not proportional to specification {w}",
                              subcheck="double")
    ctx.evaluations += 1
    return True


def io_key(inst):
    return json.dumps([inst["par"], inst["perm"], inst["ign"], inst["prior"], inst["likf"], inst["lik"]])


def io_nontrivial(inst):
    """exercises the triangular sums: an internal child, and posterior mass on > 1 timepoint"""
    return inst["status"] == "done" and inst["NI"] >= 2 and any(sum(1 for x in row if x) > 1 for row in inst["post"])


# =========================================================================================
# mirror of the declarative operators of InsideOutside
# =========================================================================================
def mirror_marginals(S, par, internal, G, prior, edge):
    """Transliteration of Marginal(S, u, j) for every u in IntOf(S) and of the normaliser of
    the model restricted to S:  Weight(S, a) = prod prior(u, a[u]) * prod EdgeFactor(c, a).
      par[c]      parent of c (None for the root)
      prior(u, i) prior table;  edge(c, i, j) factor of the edge above c with the parent at
      grid index i and c at j (j is None when c is fixed); parents no younger than children.
    """
    ints = sorted(u for u in S if u in internal)
    edges = [c for c in sorted(S) if par.get(c) is not None and par[c] in S]
    marg = {u: [0] * G for u in ints}
    total = 0
    for combo in itertools.product(range(G), repeat=len(ints)):
        a = dict(zip(ints, combo))
        w = 1
        for u in ints:
            w = w * prior(u, a[u])
        for c in edges:
            p = par[c]
            if c not in internal:
                w = w * edge(c, a[p], None)
            elif a[p] >= a[c]:
                w = w * edge(c, a[p], a[c])
            else:
                w = 0
        for u in ints:
            marg[u][a[u]] = marg[u][a[u]] + w
        total = total + w
    return marg, total


def below(par, nodes, v):
    out = {v}
    frontier = [v]
    while frontier:
        x = frontier.pop()
        for c in nodes:
            if par.get(c) == x and c not in out:
                out.add(c)
                frontier.append(c)
    return out


def mirror_decl(nodes, par, internal, root, G, prior, edge, ignore_root):
    """Marginal(Nodes, u, .) for every internal u, or DeclIgnored(u, .) when ignore_root."""
    full, Z = mirror_marginals(set(nodes), par, internal, G, prior, edge)
    if not ignore_root:
        return full, Z
    out = {root: full[root]}
    for top in [c for c in nodes if par.get(c) == root and c in internal]:
        sub, _ = mirror_marginals(below(par, nodes, top), par, internal, G, prior, edge)
        out.update(sub)
    return out, Z


def mirror_sync_io(ctx, inst):
    """The mirror must reproduce what TLC emitted for this instance (exact integers)."""
    if inst["status"] != "done":
        return
    NS, NI, G = inst["NS"], inst["NI"], inst["G"]
    N = NS + NI
    par = {c: (p if p >= 0 else None) for c, p in enumerate(inst["par"])}
    internal = set(range(NS, N))

    def prior(u, i):
        return inst["prior"][u - NS][i]

    def edge(c, i, j):
        return inst["likf"][c][i] if j is None else inst["lik"][c - NS][i][j]

    decl, Z = mirror_decl(range(N), par, internal, N - 1, G, prior, edge, inst["ign"] != "none")
    got = [decl[NS + k] for k in range(NI)]
    if Z != inst["Z"] or got != [list(r) for r in inst["decl"]]:
        raise harness.MachineryError(f"mirror_sync failed: mirror {got}, Z={Z}; TLC {inst['decl']}, Z={inst['Z']}")
    ctx.count("mirror_sync")


# =========================================================================================
# real Poisson likelihoods on single trees (C10), against the synchronised mirror
# =========================================================================================
def tree_ts(par, times, muts, seqlen, samples):
    """Single tree: par[c] = parent or -1; `muts[c]` mutations on the edge above c."""
    tables = tskit.TableCollection(sequence_length=float(seqlen))
    for u, t in enumerate(times):
        tables.nodes.add_row(flags=tskit.NODE_IS_SAMPLE if u in samples else 0, time=float(t))
    for c, p in enumerate(par):
        if p >= 0:
            tables.edges.add_row(0.0, float(seqlen), int(p), int(c))
    total = int(sum(muts))
    k = 0
    for c, m in enumerate(muts):
        for _ in range(int(m)):
            k += 1
            s = tables.sites.add_row(position=seqlen * k / (total + 1), ancestral_state="0")
            tables.mutations.add_row(site=s, node=int(c), derived_state="1")
    tables.sort()
    tables.build_index()
    tables.compute_mutation_parents()
    return tables.tree_sequence()


def random_topology(rng, n_leaves, polytomy_p=0.3):
    """Random rooted tree on n leaves (ids 0..n-1), internal ids in time order, polytomies allowed."""
    active = list(range(n_leaves))
    par = {}
    nxt = n_leaves
    while len(active) > 1:
        k = 2
        while k < len(active) and rng.random() < polytomy_p:
            k += 1
        kids = rng.sample(active, k)
        for c in kids:
            par[c] = nxt
            active.remove(c)
        active.append(nxt)
        nxt += 1
    return [par.get(u, -1) for u in range(nxt)]


def poisson_case(ctx, pid, par, perm_internal, muts, G_or_grid, Ne, mu, eps, seqlen, space, prior_distr, rng_tag):
    """inside_outside (public wrapper) with a real prior grid and real Poisson likelihoods on a
    single tree, against the mirror of Marginal / Normaliser."""
    import scipy.stats
    tsdate, discrete, _ = tsd()
    N = len(par)
    leaves = [u for u in range(N) if u not in set(par)]
    NS = len(leaves)
    assert leaves == list(range(NS))
    perm = list(range(NS)) + list(perm_internal)
    par_new = [-1] * N
    muts_new = [0] * N
    times_new = [0.0] * N
    for c in range(N):
        par_new[perm[c]] = perm[par[c]] if par[c] >= 0 else -1
        muts_new[perm[c]] = muts[c]
        times_new[perm[c]] = 0.0 if c < NS else float(c - NS + 1)
    ts = tree_ts(par_new, times_new, muts_new, seqlen, set(range(NS)))
    inst = {"par": par, "perm": list(perm_internal), "muts": list(muts), "grid": G_or_grid, "Ne": Ne, "mu": mu,
            "eps": eps, "seqlen": seqlen, "space": space, "prior": prior_distr, "kind": "poisson", "tag": rng_tag}
    try:
        pri = tsdate.build_prior_grid(ts, Ne, timepoints=G_or_grid if isinstance(G_or_grid, int)
                                      else np.asarray(G_or_grid, dtype=float), prior_distribution=prior_distr)
    except Exception as ex:  # noqa: BLE001  (not this property's business)
        ctx.count("prior_grid_failed_" + type(ex).__name__)
        return False
    tp = np.array(pri.timepoints, dtype=float)
    G = len(tp)
    prior_rows = {int(u): np.array(pri[u], dtype=float).copy() for u in pri.nonfixed_nodes}
    try:
        with np.errstate(all="ignore"):
            _, fit, ml = tsdate.inside_outside(ts, mutation_rate=mu, priors=pri, eps=eps, probability_space=space,
                                               return_fit=True, return_likelihood=True)
    except Exception as ex:  # noqa: BLE001
        ctx.violation(f"{pid}/inside_outside/{space}/{type(ex).__name__}", inst,
                      f"inside_outside raised {type(ex).__name__}: {ex}", subcheck="poisson")
        return True
    parm = {c: (p if p >= 0 else None) for c, p in enumerate(par_new)}
    internal = set(range(N)) - set(range(NS))
    # mutation count per edge from the *instance* (mutations placed above the root lie on no edge and must
    # not be counted anywhere); not from the code under test (second seed C10-b)
    edge_muts = {int(c): int(muts_new[c]) for c in range(N) if par_new[c] >= 0}

    def prior(u, i):
        return float(prior_rows[u][i])

    def edge(c, i, j):
        dt = tp[i] - (tp[0] if j is None else tp[j]) + eps
        return float(scipy.stats.poisson.pmf(edge_muts[c], dt * mu * seqlen))

    root = par_new.index(-1)
    decl, Z = mirror_decl(range(N), parm, internal, root, G, prior, edge, False)
    if not (Z > 0 and np.isfinite(Z)):
        ctx.count("poisson_zero_mass_skipped")
        return False
    rt = RTOL_POISSON[space]
    want_ml = Z if space == LIN else math.log(Z)
    if not close(ml, want_ml, rt):
        ctx.violation(f"{pid}/inside_outside/{space}/marginal-likelihood", inst,
                      f"returned likelihood {ml!r}, exact normaliser {want_ml!r}", subcheck="poisson")
    post = fit.node_posteriors()
    post = np.array(post.tolist(), dtype=float).reshape(N, G)
    for u in sorted(internal):
        want = np.array(decl[u]) / sum(decl[u])
        # atol: the float mirror multiplies un-standardised factors and may underflow to 0 where
        # the code (which standardises after every node) keeps a denormal-scale probability
        if not (np.all(np.isfinite(post[u])) and np.allclose(post[u], want, rtol=rt, atol=1e-200)):
            ctx.violation(f"{pid}/inside_outside/{space}/posterior", inst,
                          f"node_posteriors()[{u}] = {post[u].tolist()} but exact marginal {want.tolist()}",
                          subcheck="poisson")
    for u in range(NS):
        if not np.all(np.isnan(post[u])):
            ctx.violation(f"{pid}/inside_outside/{space}/sample-row-not-nan", inst, f"row {u}: {post[u]}", "poisson")
    ctx.evaluations += 1
    if len(internal) >= 2 and sum(muts) > 0:
        ctx.nontriv(("poisson", json.dumps([par, list(perm_internal), list(muts), G, space])))
    return True


# =========================================================================================
# IOMax instances -> real outside_maximization (Poisson shim), and the mirror of the rule
# =========================================================================================
class _TablePoisson:
    """Stands for scipy.stats.poisson inside tsdate.discrete while a table instance is replayed:
    the call poisson(k, mu) made by outside_maximization has k = mut_edges[edge.id] (set to the
    edge id) and mu[j] = (i - j) for grid 0..G-1, eps = 0, rate 1, span 1; so i = mu[0]."""

    def __init__(self, tables):
        self.tables = tables
        self.calls = 0

    def _row(self, k, mu):
        mu = np.atleast_1d(np.asarray(mu, dtype=float))
        i = int(round(float(mu[0])))
        assert np.allclose(mu, i - np.arange(len(mu)))
        self.calls += 1
        return np.array([self.tables[int(k)][i][j] for j in range(len(mu))], dtype=float)

    def pmf(self, k, mu):
        return self._row(k, mu)

    def logpmf(self, k, mu):
        return np.log(self._row(k, mu))


@contextlib.contextmanager
def poisson_shim(tables):
    _, discrete, _ = tsd()
    real = discrete.scipy
    fake = _TablePoisson(tables)
    discrete.scipy = types.SimpleNamespace(stats=types.SimpleNamespace(poisson=fake))
    try:
        yield fake
    finally:
        discrete.scipy = real


def max_realise(inst):
    """DAG on internal nodes (each edge on its own unit interval) + one sample edge per internal
    node.  Returns ts and the ts edge id of each specification edge."""
    NS, NI, G = inst["NS"], inst["NI"], inst["G"]
    N = NS + NI
    tables = tskit.TableCollection(sequence_length=len(inst["edges"]) + NI)
    for u in range(N):
        tables.nodes.add_row(flags=tskit.NODE_IS_SAMPLE if u < NS else 0, time=0.0 if u < NS else float(u - NS + 1))
    for k, e in enumerate(inst["edges"]):
        tables.edges.add_row(k, k + 1, int(e[0]), int(e[1]))
    off = len(inst["edges"])
    for k in range(NI):
        tables.edges.add_row(off + k, off + k + 1, NS + k, k % NS)
    tables.sort()
    tables.build_index()
    ts = tables.tree_sequence()
    left = {int(e.left): e.id for e in ts.edges()}
    return ts, [left[k] for k in range(len(inst["edges"]))]


def replay_max(ctx, pid, inst, space):
    _, discrete, NodeTimeValues = tsd()
    NS, NI, G = inst["NS"], inst["NI"], inst["G"]
    N = NS + NI
    ts, eids = max_realise(inst)
    cls = discrete.Likelihoods if space == LIN else discrete.LogLikelihoods
    lik = cls(ts, np.arange(G, dtype=float), mutation_rate=1.0, eps=0)
    lik.mut_edges = np.arange(ts.num_edges)                 # k of poisson(k, mu) identifies the edge
    pri = NodeTimeValues(N, np.arange(NS, N, dtype=np.int64), np.arange(G, dtype=float))
    pri.grid_data[:] = 1.0
    fit = discrete.BeliefPropagation(pri, lik)
    fit.inside = fit.priors.clone_with_new_data(grid_data=to_space(np.array(inst["inside"], dtype=float), space),
                                                fixed_data=lik.identity_constant)
    tables = {eids[k]: inst["lik"][k] for k in range(len(eids))}
    sig = f"{pid}/outside_maximization/{space}"
    try:
        with poisson_shim(tables) as fake, np.errstate(all="ignore"):
            fit.outside_maximization(eps=0)
    except Exception as ex:  # noqa: BLE001
        ctx.violation(f"{sig}/{type(ex).__name__}", inst, f"outside_maximization raised {type(ex).__name__}: {ex}",
                      subcheck="shim")
        return
    pm = np.asarray(fit.posterior_mean, dtype=float)
    got = [int(round(x)) for x in pm[NS:]]
    if any(pm[NS + k] != got[k] or not (0 <= got[k] < G) for k in range(NI)):
        ctx.violation(f"{sig}/not-a-timepoint", inst, f"posterior_mean {pm.tolist()} not in the grid", subcheck="shim")
        return
    for e in inst["edges"]:
        if got[e[1] - NS] > got[e[0] - NS]:
            ctx.violation(f"{sig}/child-later-than-parent", inst,
                          f"edge {e}: child index {got[e[1] - NS]} > parent index {got[e[0] - NS]}", subcheck="shim")
    if got != list(inst["maxidx"]):
        # ties may be broken differently: judge by the rule relative to the code's own parents
        sets, _ = mirror_argmax_sets(inst, got)
        bad = [NS + k for k in range(NI) if got[k] not in sets[k]]
        if bad:
            ctx.violation(f"{sig}/not-the-documented-maximiser", inst,
                          f"code chose {got}, specification machine {inst['maxidx']}; nodes {bad} outside their "
                          f"arg-max sets {sets}", subcheck="shim")
        else:
            ctx.count("ties_broken_differently")
    ctx.evaluations += 1
    multi = sum(1 for u in range(NS, N) if sum(1 for e in inst["edges"] if e[1] == u) >= 2)
    if multi:
        ctx.nontriv(("max", json.dumps([inst["edges"], inst["inside"], inst["lik"]])))


def mirror_argmax_sets(inst, maxidx):
    """Transliteration of Bound / Score / ArgmaxSet of IOMax on an integer instance (exact)."""
    NS, NI, G = inst["NS"], inst["NI"], inst["G"]
    edges = [(int(e[0]), int(e[1]), k) for k, e in enumerate(inst["edges"])]
    sets, bounds = [], []
    for k in range(NI):
        c = NS + k
        into = [e for e in edges if e[1] == c]

        def inside(j, k=k):
            return Fraction(inst["inside"][k][j])

        def factor(e, j):
            return Fraction(inst["lik"][e[2]][maxidx[e[0] - NS]][j])

        b, s = argmax_set([maxidx[e[0] - NS] for e in into], G, inside, into, factor, lambda x, y: x * y, 0)
        sets.append(s)
        bounds.append(b)
    return sets, bounds


def argmax_set(parent_idx, G, inside, into, factor, combine, tol):
    """ArgmaxSet(c) = { j in 0..Bound(c) : Score(c, j) maximal },  Bound(c) = G-1 for a node that
    is never a child, else the least timepoint index of its parents;  Score(c, j) = inside(j)
    combined with factor(e, j) over the edges e into c.  `combine` is * (linear) or + (log);
    with tol > 0 every j whose score is within tol (relative, on the log scale) of the best is
    returned (guard no_tie)."""
    bound = G - 1 if not into else min(parent_idx)
    scores = []
    for j in range(bound + 1):
        s = inside(j)
        for e in into:
            s = combine(s, factor(e, j))
        scores.append(s)
    best = max(scores)
    if tol == 0:
        return bound, [j for j, s in enumerate(scores) if s == best]
    return bound, [j for j, s in enumerate(scores) if s >= best - tol * max(1.0, abs(best))]


def mirror_sync_max(ctx, inst):
    sets, bounds = mirror_argmax_sets(inst, list(inst["maxidx"]))
    if sets != [sorted(s) for s in inst["sets"]] or bounds != list(inst["bound"]):
        raise harness.MachineryError(f"mirror_sync failed: mirror sets {sets} bounds {bounds}; "
                                     f"TLC {inst['sets']} {inst['bound']}")
    ctx.count("mirror_sync")


def check_real_maximization(ctx, pid, inp_name, ts, fit, eps, mu, space, instance, report=True):
    """The documented rule on a real maximization fit: grid points, ordered along edges, and
    every choice in the arg-max set that the mirror computes from the real fit.inside and
    Poisson factors.  Returns the number of near-ties met (None on a violation)."""
    import scipy.stats
    tp = np.asarray(fit.lik.timepoints, dtype=float)
    G = len(tp)
    pm = np.asarray(fit.posterior_mean, dtype=float)
    fixed = set(int(x) for x in fit.fixednodes)
    nonfixed = [u for u in range(ts.num_nodes) if u not in fixed]
    in_edges = {u: False for u in nonfixed}
    for e in ts.edges():
        in_edges[e.parent] = True
        if e.child in in_edges:
            in_edges[e.child] = True
    idx = {}
    sig = f"{pid}/maximization/{space}"
    for u in nonfixed:
        if not in_edges[u]:
            continue
        w = np.flatnonzero(tp == pm[u])
        if len(w) != 1:
            report and ctx.violation(f"{sig}/not-a-timepoint", instance, f"{inp_name}: node {u} time {pm[u]!r} not in {tp}", "real")
            return None
        idx[u] = int(w[0])
    into = {u: [] for u in idx}
    for e in ts.edges():
        if e.child in idx:
            into[e.child].append(e)
            if idx[e.child] > idx[e.parent]:
                report and ctx.violation(f"{sig}/child-later-than-parent", instance,
                              f"{inp_name}: edge {e.id} child {e.child}@{idx[e.child]} parent {e.parent}@{idx[e.parent]}",
                              "real")
                return None
    mut_edges = fit.lik.mut_edges
    ties = 0
    multi = 0
    for u, edges in into.items():
        row = np.asarray(fit.inside[u], dtype=float)
        with np.errstate(divide="ignore"):
            lrow = np.log(row) if space == LIN else row

        def inside(j, lrow=lrow):
            return float(lrow[j])

        def factor(e, j):
            dt = tp[idx[e.parent]] - tp[j] + eps
            return float(scipy.stats.poisson.logpmf(mut_edges[e.id], dt * mu * e.span))

        _, near = argmax_set([idx[e.parent] for e in edges], G, inside, edges, factor, lambda x, y: x + y, TIE)
        if idx[u] not in near:
            report and ctx.violation(f"{sig}/not-the-documented-maximiser", instance,
                          f"{inp_name}: node {u} got timepoint index {idx[u]}, arg-max set {near} "
                          f"(parents at {[idx[e.parent] for e in edges]})", "real")
            return None
        if len(near) > 1:
            ties += 1
        if len({e.parent for e in edges}) >= 2:
            multi += 1
    if report:
        ctx.count("real_nodes_checked", len(into))
        ctx.count("real_nodes_with_several_parents", multi)
    return ties


# =========================================================================================
# IOOrder instances -> the real traversals and the set of outside messages actually used
# =========================================================================================
def order_realise(inst):
    N, NS = inst["N"], inst["NS"]
    perm = [int(x) for x in inst["perm"]]
    inv = [0] * N
    for old, new in enumerate(perm):
        inv[new] = old
    tables = tskit.TableCollection(sequence_length=len(inst["edges"]))
    for new in range(N):
        old = inv[new]
        tables.nodes.add_row(flags=tskit.NODE_IS_SAMPLE if old < NS else 0, time=float(inst["time"][old]))
    for k, (p, c) in enumerate(inst["edges"]):
        tables.edges.add_row(k, k + 1, perm[p], perm[c])
    tables.sort()
    tables.build_index()
    return tables.tree_sequence(), perm


def order_fit(ts, space, G=3, eps=1e-6, spy=True):
    _, discrete, NodeTimeValues = tsd()
    cls = spies()[space] if spy else (discrete.Likelihoods if space == LIN else discrete.LogLikelihoods)
    lik = cls(ts, np.arange(G, dtype=float), mutation_rate=1.0, eps=eps)
    lik._seen = []
    lik.precalculate_mutation_likelihoods()
    nonfixed = np.array([u for u in range(ts.num_nodes) if not ts.node(u).is_sample()], dtype=np.int64)
    pri = NodeTimeValues(ts.num_nodes, nonfixed, np.arange(G, dtype=float))
    pri.grid_data[:] = 1.0
    return discrete.BeliefPropagation(pri, lik)


def replay_order(ctx, pid, inst, space, *, ignore):
    """Traversal orders (C11) and the messages used by outside_pass (C11 / C38) on a DAG."""
    ts, perm = order_realise(inst)
    m = lambda pc: (perm[pc[0]], perm[pc[1]])  # noqa: E731
    fit = order_fit(ts, space)
    got_in = [(e.parent, e.child) for e in fit.edges_by_parent_asc(grouped=False)]
    if got_in != [m(x) for x in inst["inside"]]:
        raise harness.MachineryError(f"IOOrder.TableLess does not match tskit's edge order: {got_in} vs "
                                     f"{[m(x) for x in inst['inside']]}")
    if not ignore:
        got_out = [(e.parent, e.child) for e in fit.edges_by_child_desc(grouped=False)]
        if got_out != [m(x) for x in inst["outside"]]:
            ctx.violation(f"{pid}/edges_by_child_desc/order", inst,
                          f"code order {got_out}, specification {[m(x) for x in inst['outside']]}", "order")
        rank = {m(x): r for x, r in zip(inst["inside"], inst["maxrank"])}
        got_max = [(e.parent, e.child) for e in fit.edges_by_child_then_parent_desc(grouped=False)]
        ranks = [rank[x] for x in got_max]
        if sorted(got_max) != sorted(rank) or any(a > b for a, b in zip(ranks, ranks[1:])):
            ctx.violation(f"{pid}/edges_by_child_then_parent_desc/order", inst,
                          f"code order {got_max} has specification key ranks {ranks}", "order")
    try:
        with np.errstate(all="ignore"):
            fit.inside_pass()
            fit.outside_pass(standardize=True, ignore_oldest_root=ignore)
    except Exception as ex:  # noqa: BLE001
        ctx.violation(f"{pid}/outside_pass/{type(ex).__name__}", inst, f"raised {type(ex).__name__}: {ex}", "order")
        return
    NS = inst["NS"]
    allmsg = {m(x) for x in inst["edges"] if x[1] >= NS}
    want = allmsg - ({m(x) for x in inst["skipped"]} if ignore else set())
    seen = set(fit.lik._seen)
    if seen != want:
        if ignore and perm[inst["oldest"]] != inst["N"] - 1:
            ctx.violation("C38/outside_pass/ignored-node-is-highest-id-not-oldest-root/messages", inst,
                          f"messages used {sorted(seen)}; with the oldest root (node {perm[inst['oldest']]}, "
                          f"time {inst['time'][inst['oldest']]}) ignored they should be {sorted(want)}", "messages")
        else:
            ctx.violation(f"{pid}/outside_pass/messages", inst, f"messages used {sorted(seen)}, expected {sorted(want)}",
                          "messages")
    ctx.evaluations += 1


# =========================================================================================
# metamorphic pairs on real inputs (C11, C38): renumbering and re-timing of non-sample nodes
# =========================================================================================
def strip_mutation_times(ts):
    tables = ts.dump_tables()
    tables.mutations.time = np.full(tables.mutations.num_rows, tskit.UNKNOWN_TIME)
    return tables.tree_sequence()


def renumber(ts, rng, keep_samples_first=True):
    """A valid tree sequence with the non-sample nodes renumbered by a random permutation.
    Returns (new ts, perm) with perm[old id] = new id."""
    n = ts.num_nodes
    is_sample = [ts.node(u).is_sample() for u in range(n)]
    others = [u for u in range(n) if not is_sample[u]]
    if keep_samples_first:      # samples keep their ids, the others are permuted among the other ids
        it = iter(rng.sample(others, len(others)))
        new_order = [u if is_sample[u] else next(it) for u in range(n)]      # new id k holds old node new_order[k]
    else:
        new_order = rng.sample(range(n), n)
    tables = ts.dump_tables()
    tables.subset(np.array(new_order, dtype=np.int32), reorder_populations=False, remove_unreferenced=False)
    tables.sort()
    tables.build_index()
    tables.compute_mutation_parents()
    perm = [0] * n
    for new, old in enumerate(new_order):
        perm[old] = new
    return tables.tree_sequence(), perm


def retime(ts, rng):
    """Any input times for the non-sample nodes that keep the tree sequence valid: nodes are
    visited in a random topological order and placed a random amount above their oldest child
    (so unrelated nodes may swap order)."""
    n = ts.num_nodes
    kids = {u: set() for u in range(n)}
    for e in ts.edges():
        kids[e.parent].add(e.child)
    t = list(ts.nodes_time)
    order = sorted(range(n), key=lambda u: ts.nodes_time[u])
    scale = max(1e-3, float(np.max(ts.nodes_time))) / max(1, n)
    new = list(t)
    for u in order:
        if ts.node(u).is_sample() or not kids[u]:
            continue
        new[u] = max(new[c] for c in kids[u]) + scale * rng.choice([1e-3, 0.1, 1.0, 7.0]) * (0.5 + rng.random())
    tables = ts.dump_tables()
    tables.nodes.time = np.array(new)
    tables.sort()
    tables.build_index()
    tables.compute_mutation_parents()
    return tables.tree_sequence()


def run_method(method, ts, mu, Ne, space, **kw):
    tsdate, _, _ = tsd()
    f = tsdate.inside_outside if method == "inside_outside" else tsdate.maximization
    with np.errstate(all="ignore"):
        return f(ts, mutation_rate=mu, population_size=Ne, probability_space=space, return_fit=True, **kw)


def corpus(ctx, k_sim, k_poly, small=True):
    from . import inputs
    out = list(inputs.contemporaneous(ctx.seed, k=k_sim, small=small)) + list(inputs.polytomies(ctx.seed, k=k_poly))
    for inp in out:
        inp.ts = strip_mutation_times(inp.ts)
    return out


def sparse_corpus(ctx, k):
    """Simulated inputs with few mutations per edge and several trees, so that linear space does
    not underflow (the domain C12 quantifies over)."""
    from . import inputs
    rng = np.random.default_rng(ctx.seed + 4242)
    out = []
    tries = 0
    while len(out) < k and tries < 40 * k:
        tries += 1
        n = int(rng.integers(2, 6))
        L = int(rng.choice([30, 60, 120]))
        rho = float(rng.choice([0, 2e-3, 1e-2]))
        mu = float(rng.choice([3e-4, 1e-3]))
        ts = build.sim(n=n, L=L, rho=rho, mu=mu, Ne=50, seed=int(rng.integers(1, 2**31)))
        if ts.num_mutations == 0:
            continue
        out.append(inputs.Inp(f"sparse{ctx.seed}_{tries}", strip_mutation_times(ts), mu, 50,
                              {"contemp"} | ({"multitree"} if ts.num_trees > 1 else set())))
    return out


def ts_summary(ts):
    return {"nodes": ts.num_nodes, "edges": ts.num_edges, "trees": ts.num_trees, "mutations": ts.num_mutations,
            "samples": ts.num_samples}


def ts_instance(ts):
    """A replayable description of a small tree sequence."""
    return {"sequence_length": ts.sequence_length,
            "nodes": [[int(ts.node(u).flags), float(ts.node(u).time)] for u in range(ts.num_nodes)],
            "edges": [[float(e.left), float(e.right), int(e.parent), int(e.child)] for e in ts.edges()],
            "sites": [float(s.position) for s in ts.sites()],
            "mutations": [[int(m.site), int(m.node)] for m in ts.mutations()]}


def ts_from_instance(d):
    tables = tskit.TableCollection(sequence_length=d["sequence_length"])
    for fl, t in d["nodes"]:
        tables.nodes.add_row(flags=int(fl), time=float(t))
    for l, r, p, c in d["edges"]:
        tables.edges.add_row(l, r, int(p), int(c))
    for x in d["sites"]:
        tables.sites.add_row(position=x, ancestral_state="0")
    for s, u in d["mutations"]:
        tables.mutations.add_row(site=int(s), node=int(u), derived_state="1")
    tables.sort()
    tables.build_index()
    tables.compute_mutation_parents()
    return tables.tree_sequence()


# =========================================================================================
# ProbSpace cases -> the real primitive operations of both classes (C12)
# =========================================================================================
def class_value(v, log):
    tag = v[0]
    if tag == "N":
        return float("nan")
    if log:
        return {"NI": -math.inf, "PI": math.inf}.get(tag, None) if tag != "F" else math.log(v[1] / v[2])
    return {"Z": 0.0, "I": math.inf}.get(tag, None) if tag != "P" else v[1] / v[2]


def same_value(got, want, log):
    if math.isnan(want):
        return math.isnan(got)
    if math.isinf(want) or want == 0.0:
        return got == want
    if log:
        return abs(got - want) <= 1e-12 * max(1.0, abs(want))
    return abs(got - want) <= 1e-12 * abs(want)


def prob_objects(G):
    key = ("po", G)
    if key not in _CACHE:
        _, discrete, _ = tsd()
        ts = tree_ts([2, 2, -1], [0, 0, 1], [0, 0, 0], 1, {0, 1})
        tp = np.arange(G, dtype=float)
        _CACHE[key] = {LIN: discrete.Likelihoods(ts, tp, 1.0, eps=1e-6), LOG: discrete.LogLikelihoods(ts, tp, 1.0, eps=1e-6)}
    return _CACHE[key]


def replay_prob_case(ctx, pid, case):
    """One ProbSpace case into the real method of Likelihoods and of LogLikelihoods."""
    _, _, NodeTimeValues = tsd()
    op, flag = case["op"], bool(case["flag"])
    objs = prob_objects(case["G"])
    for space, args_key, res_key in ((LIN, "args", "lin"), (LOG, "largs", "log")):
        log = space == LOG
        obj = objs[space]
        x = np.array([class_value(v, log) for v in case[args_key]], dtype=float)
        want = [class_value(v, log) for v in case[res_key]]
        try:
            with np.errstate(all="ignore"):
                if op == "combine":
                    got = obj.combine(x[:1].copy(), x[1:2].copy())
                elif op == "ratio":
                    got = obj.ratio(x[:1].copy(), x[1:2].copy(), div_0_null=flag)
                elif op == "rowsum_lower_tri":
                    got = obj.rowsum_lower_tri(x.copy())
                elif op == "rowsum_upper_tri":
                    got = obj.rowsum_upper_tri(x.copy())
                elif op == "marginalize":
                    got = [obj.marginalize(x.copy())]
                elif op == "scale_geometric":
                    got = obj.scale_geometric(0.5 if flag else 1.0, x.copy())
                elif op == "force_space":
                    ntv = NodeTimeValues(1, np.array([0]), np.arange(1, dtype=float))
                    ntv.grid_data[:] = class_value(case["args"][0], False)
                    ntv.force_probability_space(LOG)
                    if not log:
                        ntv.force_probability_space(LIN)
                    got = ntv.grid_data[0]
                else:
                    raise harness.MachineryError(f"unknown op {op}")
            got = [float(g) for g in np.atleast_1d(np.asarray(got, dtype=float))]
        except harness.MachineryError:
            raise
        except Exception as ex:  # noqa: BLE001
            ctx.violation(f"{pid}/{op}/{space}/{type(ex).__name__}", case, f"{op} raised {type(ex).__name__}: {ex}", "ops")
            continue
        if len(got) != len(want) or not all(same_value(g, w, log) for g, w in zip(got, want)):
            ctx.violation(f"{pid}/{op}/{space}/differs-from-specification", case,
                          f"{type(obj).__name__}.{op}({x.tolist()}, flag={flag}) = {got}, specification {want}", "ops")
        ctx.evaluations += 1
