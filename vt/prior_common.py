"""Shared by C14 / C15 / C16 / C17: modules Rat, CoalescentMoments, Coalescent, Spans,
PriorGrid, Demography <-> tsdate/prior.py, tsdate/demography.py, NodeTimeValues.standardize.

Layout
  * `frac`, `close`, ...            helpers (rationals emitted by TLC are [num, den])
  * `Coal`                          mirror (fractions.Fraction) of the *declarative* operators
                                    of spec/CoalescentMoments.tla (same names); trusted only
                                    after `coalescent_tables` has shown it equal to what TLC
                                    printed in the same run ("mirror_sync")
  * `coalescent_tables(ctx, ...)`   runs module Coalescent, returns the exact rows
  * lognormal / gamma moment-matching predicates (A4, named tolerances)
"""

import math
from fractions import Fraction as F
from math import comb

from . import harness

# ---------------------------------------------------------------------------------------
# tolerances (DESIGN Appendix C)
# ---------------------------------------------------------------------------------------
RTOL12 = 1e-12


# a loaded machine spends more time in GC / JIT threads than in TLC; keep them few
JVM_ENV = {"JAVA_TOOL_OPTIONS": "-XX:ParallelGCThreads=2 -XX:CICompilerCount=2"}


def frac(x):
    """[num, den] as emitted by TLC (module Rat) -> Fraction"""
    return F(int(x[0]), int(x[1]))


def rat(x):
    x = F(x)
    return [x.numerator, x.denominator]


def relerr(got, want):
    """|got - want| / |want| with `want` exact (Fraction) and got a float"""
    got = float(got)
    if math.isnan(got) or math.isinf(got):
        return math.inf
    want = F(want)
    if want == 0:
        return 0.0 if got == 0 else math.inf
    return float(abs(F(got) - want) / abs(want))


def close(got, want, rtol=RTOL12):
    return relerr(got, want) <= rtol


def coal_rtol(n):
    """close12, widened to 4e-15 * n for big n: _marginalize_over_ancestors accumulates
    O(n) rounding errors in log space (measured 3e-16 * n on the unchanged tree)."""
    return max(RTOL12, 4e-15 * n)


# ---------------------------------------------------------------------------------------
# mirror of spec/CoalescentMoments.tla (declarative part only)
# ---------------------------------------------------------------------------------------
class Coal:
    """Per-n tables of the declarative operators TMean, TVar, TM2, PWeight, PClosed, CMean,
    CM2, CVar of module CoalescentMoments, in exact rationals."""

    _cache = {}

    def __init__(self, n):
        self.n = n
        tm = [F(0)] * (n + 1)
        tv = [F(0)] * (n + 1)
        for a in range(n - 1, 0, -1):  # TMean(n,a) = Sum_{j=a+1..n} 2/(j(j-1))
            r = F(2, (a + 1) * a)
            tm[a] = tm[a + 1] + r
            tv[a] = tv[a + 1] + r * r
        self.TMean, self.TVar = tm, tv
        self.TM2 = [v + m * m for m, v in zip(tm, tv)]
        self._mom = {}

    @classmethod
    def get(cls, n):
        c = cls._cache.get(n)
        if c is None:
            if len(cls._cache) > 64:
                cls._cache.clear()
            c = cls._cache[n] = Coal(n)
        return c

    def ARange(self, k):
        return range(1, 2) if k == self.n else range(2, self.n - k + 2)

    def PWeight(self, k, a):
        n = self.n
        return F((k - 1) * comb(n - k - 1, a - 2), comb(n - 1, a))

    def PClosed(self, k):
        """{a: Pr(a | k, n)}"""
        if k == self.n:
            return {1: F(1)}
        w = {a: self.PWeight(k, a) for a in self.ARange(k)}
        tot = sum(w.values())
        return {a: x / tot for a, x in w.items()}

    def moments(self, k):
        """(CMean(n,k), CVar(n,k))"""
        r = self._mom.get(k)
        if r is None:
            if k == self.n:
                m, m2 = self.TMean[1], self.TM2[1]
            else:
                w = [self.PWeight(k, a) for a in self.ARange(k)]
                tot = sum(w)
                m = sum(x * self.TMean[a] for x, a in zip(w, self.ARange(k))) / tot
                m2 = sum(x * self.TM2[a] for x, a in zip(w, self.ARange(k))) / tot
            r = self._mom[k] = (m, m2 - m * m)
        return r

    def CMean(self, k):
        return self.moments(k)[0]

    def CVar(self, k):
        return self.moments(k)[1]


def GammaShape(m, v):
    return m * m / v


def GammaRate(m, v):
    return m / v


def coalescent_tables(ctx, nmin, nmax, name="coal"):
    """Run module Coalescent for n in nmin..nmax (TLC counts the behaviours of the labelled
    jump chain and checks counts = closed form = transcribed code recursion), return
    {(n,k): row} with exact rationals, after mirror_sync of `Coal` against every row."""
    cfg = ctx.write_cfg(f"{name}_{nmin}_{nmax}.cfg", constants={"NMin": nmin, "NMax": nmax},
                        invariants=["IsPartition", "Levels", "UniformJump", "HistoryOK", "DoneIsRoot"],
                        postcondition="Post")
    r = ctx.tlc("Coalescent", cfg, workers=1, required_actions=("Merge", "Finish"), env=JVM_ENV)
    rows = {}
    for rec in r.rec("coal"):
        rows[(rec["n"], rec["k"])] = {
            "n": rec["n"], "k": rec["k"], "mean": frac(rec["mean"]), "var": frac(rec["var"]),
            "shape": frac(rec["shape"]), "rate": frac(rec["rate"]), "behaviours": rec["behaviours"],
            "pa": {a + 1: frac(p) for a, p in enumerate(rec["pa"])}}
    want = {(n, k) for n in range(nmin, nmax + 1) for k in range(2, n + 1)}
    if set(rows) != want:
        raise harness.MachineryError(f"Coalescent emitted rows for {sorted(rows)} instead of {sorted(want)}")
    # mirror_sync: the Fraction mirror must reproduce TLC's output exactly on the whole scope
    for (n, k), row in rows.items():
        c = Coal.get(n)
        m, v = c.moments(k)
        pa = c.PClosed(k)
        ok = (m == row["mean"] and v == row["var"] and GammaShape(m, v) == row["shape"]
              and GammaRate(m, v) == row["rate"]
              and all(pa.get(a, F(0)) == p for a, p in row["pa"].items()))
        if not ok:
            raise harness.MachineryError(f"mirror_sync: Coal mirror differs from TLC at (n,k)=({n},{k}): "
                                         f"{m} {v} vs {row['mean']} {row['var']}")
        ctx.count("mirror_sync_points")
    return rows


# ---------------------------------------------------------------------------------------
# moment matching (the second sentence of C14; also used by C15)
# ---------------------------------------------------------------------------------------
def gamma_matched(alpha, beta, mean, var, rtol):
    """gamma(shape alpha, rate beta) has mean alpha/beta and variance alpha/beta^2; `mean`,
    `var` exact.  Returns None or a message."""
    if not (close(alpha, GammaShape(mean, var), rtol) and close(beta, GammaRate(mean, var), rtol)):
        return (f"gamma alpha={alpha!r} beta={beta!r}, expected shape={float(GammaShape(mean, var))!r} "
                f"rate={float(GammaRate(mean, var))!r}")
    return None


def lognorm_matched(alpha, beta, mean, var, rtol):
    """lognormal(mu=alpha, sigma^2=beta) has mean exp(alpha + beta/2) and variance
    (exp(beta) - 1) exp(2 alpha + beta).  Checked in both directions: the closed-form
    transform of the exact moments (absolute tolerance scaled by the magnitude of the
    terms, because alpha = log(mean) - beta/2 may cancel) and the moments of (alpha, beta)."""
    m, v = float(mean), float(var)
    b = math.log1p(v / (m * m))
    a = math.log(m) - 0.5 * b
    scale = abs(math.log(m)) + 0.5 * b + 1e-300
    if not (abs(beta - b) <= 4 * rtol * b and abs(alpha - a) <= 4 * rtol * scale):
        return f"lognorm alpha={alpha!r} beta={beta!r}, expected alpha={a!r} beta={b!r}"
    back_m = math.exp(alpha + 0.5 * beta)
    back_v = math.expm1(beta) * back_m * back_m
    tol = 4 * rtol * (1 + scale)
    if not (abs(back_m - m) <= tol * m and abs(back_v - v) <= 2 * tol * v * (1 + m * m / v)):
        return f"lognorm(alpha={alpha!r}, beta={beta!r}) has mean {back_m!r} var {back_v!r}, expected {m!r} {v!r}"
    return None


def matched(distr, alpha, beta, mean, var, rtol):
    return (gamma_matched if distr == "gamma" else lognorm_matched)(float(alpha), float(beta), mean, var, rtol)


# ---------------------------------------------------------------------------------------
# mirror of spec/Demography.tla (declarative part: Overlap, IntegralOf, Integral, CoalBreaks,
# InvIntegral), exact on Fractions; floats convert to Fractions without rounding
# ---------------------------------------------------------------------------------------
def Overlap(B, i, t):
    hi = t if i == len(B) - 1 else min(t, B[i + 1])
    return hi - B[i] if B[i] < hi else F(0)


def IntegralOf(B, M, t):
    return sum((Overlap(B, i, t) / M[i] for i in range(len(B))), F(0))


def Integral(N, breaks, t):
    return IntegralOf([F(0)] + list(breaks), [2 * x for x in N], t)


def CoalBreaks(N, breaks):
    tb = [F(0)] + list(breaks)
    return [Integral(N, breaks, b) for b in tb]


def InvIntegral(N, breaks, x):
    return IntegralOf(CoalBreaks(N, breaks), [1 / (2 * y) for y in N], x)


DEMO_INVARIANTS = ["IsIntegral", "IsInverse", "FixesZero", "StrictlyIncreasing", "Continuous", "BreaksMapped",
                   "AsDictRoundTrip", "GammaConstant", "EmitInv"]


def demography_cases(ctx, name, max_epochs, size_nums, size_den, max_break, time_den, max_time_num,
                     gamma_nums=(1, 2, 6), gamma_den=2):
    """Run module Demography on every history in scope; return the emitted cases (Fractions)
    after mirror_sync of Integral / CoalBreaks / InvIntegral against each of them."""
    def tset(xs):
        return "{" + ",".join(str(x) for x in xs) + "}"
    cfg = ctx.write_cfg(name + ".cfg", constants={
        "MaxEpochs": max_epochs, "SizeNums": tset(size_nums), "SizeDen": size_den, "MaxBreak": max_break,
        "TimeDen": time_den, "MaxTimeNum": max_time_num, "GammaNums": tset(gamma_nums), "GammaDen": gamma_den,
        "EmitDone": "TRUE"}, invariants=DEMO_INVARIANTS)
    r = ctx.tlc("Demography", cfg, workers=8, required_actions=("Choose", "Construct", "Convert"), env=JVM_ENV)
    cases = []
    for rec in r.rec("demo"):
        c = {"N": [frac(x) for x in rec["N"]], "breaks": [frac(x) for x in rec["breaks"]],
             "times": [frac(x) for x in rec["times"]], "coal": [frac(x) for x in rec["coal"]],
             "nat": [frac(x) for x in rec["nat"]], "cb": [frac(x) for x in rec["cb"]],
             "cr": [frac(x) for x in rec["cr"]],
             "gamma": [(frac(g[0]), frac(g[1]), frac(g[2][0]), frac(g[2][1])) for g in rec["gamma"]]}
        for t, x, y in zip(c["times"], c["coal"], c["nat"]):
            if Integral(c["N"], c["breaks"], t) != x or InvIntegral(c["N"], c["breaks"], t) != y:
                raise harness.MachineryError(f"mirror_sync: Demography mirror differs from TLC on {rec}")
            ctx.count("mirror_sync_points")
        if CoalBreaks(c["N"], c["breaks"]) != c["cb"]:
            raise harness.MachineryError(f"mirror_sync: CoalBreaks differs from TLC on {rec}")
        cases.append(c)
    return cases


# ---------------------------------------------------------------------------------------
# mirror of spec/PriorGrid.tla (declarative part: Mass, MaxMass, Expected); works on
# Fractions (mirror_sync) and on floats (scipy's cdf values at the real grid)
# ---------------------------------------------------------------------------------------
def Mass(c, j):
    return c[j] - c[j - 1]


def MaxMass(c):
    return max(Mass(c, j) for j in range(1, len(c)))


def Expected(c):
    mx = MaxMass(c)
    zero = c[0] - c[0]
    return [zero if j == 0 else Mass(c, j) / mx for j in range(len(c))]


PRIORGRID_INVARIANTS = ["RowsAreMasses", "ZeroAtZero", "MaxIsOne", "NonNegative", "FilledSumsToOne", "RowsIndependent",
                        "EmitInv"]


def priorgrid_tables(ctx, name, G, max_c, nrows):
    """Module PriorGrid on every CDF table in scope -> [{"tab": [[int]], "rows": [[Fraction]]}]
    after mirror_sync of `Expected`."""
    cfg = ctx.write_cfg(name + ".cfg", constants={"G": G, "MaxC": max_c, "NRows": nrows, "EmitDone": "TRUE"},
                        invariants=PRIORGRID_INVARIANTS)
    r = ctx.tlc("PriorGrid", cfg, workers=8, required_actions=("Choose", "Fill", "Standardize"), env=JVM_ENV)
    out = []
    for rec in r.rec("grid"):
        rows = [[frac(x) for x in row] for row in rec["rows"]]
        for c, row in zip(rec["tab"], rows):
            if Expected([F(v) for v in c]) != row:
                raise harness.MachineryError(f"mirror_sync: PriorGrid mirror differs from TLC on table {c}: {row}")
            ctx.count("mirror_sync_points")
        out.append({"G": rec["G"], "tab": rec["tab"], "rows": rows})
    return out


# ---------------------------------------------------------------------------------------
# inputs with missing samples (C15, C16): a sample's ancestry is deleted over an interval
# and the result simplified, so the sample is isolated there and every tree keeps one root
# ---------------------------------------------------------------------------------------
def with_missing(ts, rng, max_holes=2):
    import numpy as np
    tables = ts.dump_tables()
    L = ts.sequence_length
    bps = sorted(set(ts.breakpoints(as_array=True).tolist()) | {L * 0.37, L * 0.61})
    holes = []
    for _ in range(int(rng.integers(1, max_holes + 1))):
        s = int(rng.choice(ts.samples()))
        i = int(rng.integers(0, len(bps) - 1))
        j = int(rng.integers(i + 1, len(bps)))
        holes.append((s, bps[i], bps[j]))
    edges = []
    for e in ts.edges():
        segs = [(e.left, e.right)]
        for s, lo, hi in holes:
            if e.child != s:
                continue
            nxt = []
            for a, b in segs:
                if hi <= a or b <= lo:
                    nxt.append((a, b))
                else:
                    if a < lo:
                        nxt.append((a, lo))
                    if hi < b:
                        nxt.append((hi, b))
            segs = nxt
        edges += [(a, b, e.parent, e.child) for a, b in segs]
    tables.edges.clear()
    tables.mutations.clear()  # priors do not read sites / mutations
    tables.sites.clear()
    for a, b, p, c in edges:
        tables.edges.add_row(a, b, p, c)
    tables.sort()
    tables.simplify(samples=ts.samples(), keep_unary=False, filter_nodes=True)
    out = tables.tree_sequence()
    # premises of C15: one root with descendants per tree, at least two attached samples everywhere
    for tree in out.trees():
        if sum(1 for r in tree.roots if tree.num_children(r) > 0) != 1:
            return None
    if np.any(out.nodes_time[out.samples()] != 0):
        return None
    return out


# ---------------------------------------------------------------------------------------
# mirror of spec/Spans.tla on a tskit tree sequence: Span(u, T, k), NodeSpan(u), MixMean,
# MixVar -- a direct per-tree count (no edge-diff bookkeeping)
# ---------------------------------------------------------------------------------------
def span_tables(ts):
    """{u: {(T, k): span}} and {u: node span} for the non-sample nodes, by direct counting:
    u is present in a tree when it has children there; T = samples with a parent in the tree;
    k = samples below u."""
    samples = [int(s) for s in ts.samples()]
    sample_set = set(samples)
    spans, nodespan = {}, {}
    for tree in ts.trees():
        T = sum(1 for s in samples if tree.parent(s) != -1)
        length = F(tree.interval.right) - F(tree.interval.left)
        for u in tree.nodes():
            if u in sample_set or tree.num_children(u) == 0:
                continue
            k = sum(1 for v in tree.nodes(u) if v in sample_set)
            d = spans.setdefault(u, {})
            d[(T, k)] = d.get((T, k), F(0)) + length
            nodespan[u] = nodespan.get(u, F(0)) + length
    return spans, nodespan


def mixture_moments(table):
    """(MixMean, MixVar) of {(T,k): span} with the Coal mirror"""
    tot = sum(table.values())
    m = sum(w * Coal.get(T).CMean(k) for (T, k), w in table.items()) / tot
    m2 = sum(w * (Coal.get(T).CVar(k) + Coal.get(T).CMean(k) ** 2) for (T, k), w in table.items()) / tot
    return m, m2 - m * m


SPANS_INVARIANTS = ["SpansSumToNodeSpan", "KeyRange", "RootHasAll", "NestedCounts", "MixtureSane", "EmitInv"]


def spans_instances(ctx, name, NS, NI, L, need_missing=False, simulate=None):
    """Module Spans: model-check (or simulate) and return the emitted instances; mirror_sync of
    span_tables / mixture_moments against every one of them (through build.forest_ts)."""
    from . import build
    cfg = ctx.write_cfg(name + ".cfg", constants={
        "NS": NS, "NI": NI, "L": L, "MaxMuts": 0, "TreeFilter": '"simplified"', "EmitDone": "TRUE",
        "NeedMissing": "TRUE" if need_missing else "FALSE"}, invariants=SPANS_INVARIANTS)
    if simulate:
        r = ctx.tlc("Spans", cfg, workers=4, coverage=False, simulate={"num": max(1, simulate // 4)}, depth=L + 4,
                    env=JVM_ENV)
    else:
        r = ctx.tlc("Spans", cfg, workers=8, required_actions=("Gen", "Pick"), env=JVM_ENV)
    seen, out = set(), []
    for rec in r.rec("inst"):
        key = json_key(rec["trees"])
        if key in seen:
            continue
        seen.add(key)
        ts = build.forest_ts(rec)
        spans, nodespan = span_tables(ts)
        for nd in rec["nodes"]:
            u = nd["u"]
            want = {(T, k): F(s) for T, k, s in nd["spans"]}
            if spans.get(u) != want or nodespan.get(u) != F(nd["nodespan"]):
                raise harness.MachineryError(f"mirror_sync: span_tables differs from TLC on {rec['trees']} node {u}: "
                                             f"{spans.get(u)} vs {want}")
            m, v = mixture_moments(want)
            if m != frac(nd["mean"]) or v != frac(nd["var"]):
                raise harness.MachineryError(f"mirror_sync: mixture_moments differs from TLC on {rec['trees']} node {u}")
            ctx.count("mirror_sync_points")
        rec["_ts"] = ts
        out.append(rec)
    return out


def json_key(x):
    import json
    return json.dumps(x, sort_keys=True)
