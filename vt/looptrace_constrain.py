"""Loop-head recorder for util._constrain_ages (JIT off, separate process; see vt/looptrace.py).
Both inner loops have the head text `for e in range(num_edges):`; the first one in the source is
the least-squares sweep, the second the forced pass.  A `for` head line is traced once per
iteration and once more when the loop ends, so each execution of a loop over E edges yields
E + 1 snapshots; the last one of an execution is tagged "exit".
Usage:  python -m vt.looptrace_constrain <instances.json> <out.ndjson>
"""

import json
import os
import sys

HEAD_TEXT = "for e in range(num_edges):"


def main():
    inst_path, out_path = sys.argv[1], sys.argv[2]
    assert os.environ.get("NUMBA_DISABLE_JIT") == "1"
    repo = os.environ.get("VERIF_REPO", "/repo")
    sys.path.insert(0, repo)
    sys.path.insert(0, os.path.dirname(os.path.dirname(os.path.abspath(__file__))))
    import inspect

    from tsdate import util

    from vt import constrain_common as cc
    src, first = inspect.getsourcelines(util._constrain_ages)
    heads = [first + i for i, l in enumerate(src) if l.strip() == HEAD_TEXT]
    if len(heads) != 2:
        print("DRIFT: the two loop heads of _constrain_ages were not found in the source", file=sys.stderr)
        sys.exit(3)
    which = {heads[0]: "lsq", heads[1]: "force"}
    code = util._constrain_ages.__code__
    events = []
    lost = []

    def local_tracer(frame, event, arg):
        if event == "line" and frame.f_lineno in which:
            L = frame.f_locals
            try:
                events.append({"loop": which[frame.f_lineno], "time": [float(x) for x in L["nodes_time"]],
                               "cav": [[float(a), float(b)] for a, b in L["edges_cavity"]]})
            except (KeyError, TypeError, ValueError, IndexError) as ex:   # the kernel's locals were renamed / retyped
                lost.append(repr(ex))
                return None
        return local_tracer

    def tracer(frame, event, arg):
        if event == "call" and frame.f_code is code:
            return local_tracer
        return None

    insts = json.load(open(inst_path))
    with open(out_path, "w") as out:
        for tid, inst in enumerate(insts):
            t, fixed, ep, ec, eps, iters, _ = cc.realise(inst, "unit")
            E = len(ep)
            del events[:]
            sys.settrace(tracer)
            try:
                res = util._constrain_ages(t, fixed, ep, ec, eps, iters)
            finally:
                sys.settrace(None)
            if lost:
                print("DRIFT: the locals of _constrain_ages could not be read at a loop head: " + lost[0], file=sys.stderr)
                sys.exit(3)

            def ints(xs):
                r = [int(round(x)) for x in xs]
                if any(abs(a - b) > 0 for a, b in zip(r, xs)):
                    # the unit realisation keeps Constrain's machine on integers; other values mean the kernel's
                    # arithmetic differs from the machine's -- conformance drift, judged elsewhere on what it returns
                    print(f"DRIFT: non-integer value in the unit realisation: {xs}", file=sys.stderr)
                    sys.exit(3)
                return r
            out.write(json.dumps({"tid": tid, "kind": "begin", "edges": [[int(p) + 1, int(c) + 1] for p, c in zip(ep, ec)],
                                  "mean": [int(m) for m in inst["mean"]], "fixed": sorted(int(f) + 1 for f in inst["fixed"]),
                                  "eps": int(inst["eps"]), "iters": int(inst["iters"]), "scale": int(inst["scale"]),
                                  "nevents": len(events)}) + "\n")
            count = {"lsq": 0, "force": 0}
            for ev in events:
                idx = count[ev["loop"]] % (E + 1)
                count[ev["loop"]] += 1
                out.write(json.dumps({"tid": tid, "kind": "head", "loop": ev["loop"], "exit": idx == E,
                                      "time": ints(ev["time"]), "cav": [ints(c) for c in ev["cav"]]}) + "\n")
            out.write(json.dumps({"tid": tid, "kind": "end", "time": ints(res)}) + "\n")


if __name__ == "__main__":
    main()
