"""Seeded corpus of realistic inputs for drivers that call the real date()."""

import numpy as np
import tskit

from . import build


class Inp:
    def __init__(self, name, ts, mu, Ne, tags=()):
        self.name, self.ts, self.mu, self.Ne, self.tags = name, ts, mu, Ne, set(tags)

    def __repr__(self):
        return f"<{self.name} n={self.ts.num_samples} trees={self.ts.num_trees} muts={self.ts.num_mutations}>"


def _ok_for_dating(ts):
    return ts.num_mutations > 0 and ts.num_trees >= 1


def contemporaneous(seed, k=6, small=True):
    """k simulated inputs with all samples at time 0, simplified, single root per tree."""
    rng = np.random.default_rng(seed)
    out = []
    i = 0
    while len(out) < k:
        i += 1
        n = int(rng.integers(2, 5 if small else 9))
        L = int(rng.choice([200, 1000, 3000]))
        rho = float(rng.choice([0, 1e-4, 5e-4]))
        mu = float(rng.choice([1e-3, 5e-3]))
        Ne = int(rng.choice([50, 200]))
        ts = build.sim(n=n, L=L, rho=rho, mu=mu, Ne=Ne, seed=int(rng.integers(1, 2**31)))
        if not _ok_for_dating(ts):
            continue
        out.append(Inp(f"sim{seed}_{i}", ts, mu, Ne, {"contemp"} | ({"multitree"} if ts.num_trees > 1 else set())))
    return out


def polytomies(seed, k=2):
    out = []
    rng = np.random.default_rng(seed + 77)
    i = 0
    while len(out) < k and i < 50:
        i += 1
        base = build.sim(n=int(rng.integers(3, 6)), L=1000, rho=2e-4, mu=4e-3, Ne=100, seed=int(rng.integers(1, 2**31)))
        ts = build.polytomise(base, 0.3, int(rng.integers(1, 2**31)))
        if not _ok_for_dating(ts) or max(t.num_roots for t in ts.trees()) > 1:
            continue
        if max((len(t.children(u)) for t in ts.trees() for u in t.nodes()), default=0) < 3:
            continue
        out.append(Inp(f"poly{seed}_{i}", ts, 4e-3, 100, {"contemp", "polytomy"}))
    return out


def historical(seed, k=2):
    """Inputs with non-zero-time samples (leaf historical samples)."""
    out = []
    rng = np.random.default_rng(seed + 991)
    i = 0
    while len(out) < k and i < 50:
        i += 1
        ts = build.sim(n=int(rng.integers(2, 4)), L=1000, rho=2e-4, mu=4e-3, Ne=100, seed=int(rng.integers(1, 2**31)),
                       historical=[(1, float(rng.choice([5.0, 40.0]))), (1, float(rng.choice([90.0, 300.0])))])
        if _ok_for_dating(ts):
            out.append(Inp(f"hist{seed}_{i}", ts, 4e-3, 100, {"historical"}))
    return out


def internal_samples(seed, k=2):
    """Inputs where a historical sample is an ancestor of other nodes (sample with children)."""
    out = []
    rng = np.random.default_rng(seed + 5)
    i = 0
    while len(out) < k and i < 100:
        i += 1
        ts = build.sim(n=int(rng.integers(3, 6)), L=600, rho=2e-4, mu=5e-3, Ne=100, seed=int(rng.integers(1, 2**31)))
        # promote an internal non-root node with children to a sample (keeps its time)
        cands = [u for u in range(ts.num_nodes) if not ts.node(u).is_sample()
                 and u in set(ts.edges_parent) and u in set(ts.edges_child)]
        if not cands:
            continue
        u = int(rng.choice(cands))
        tables = ts.dump_tables()
        flags = tables.nodes.flags
        flags[u] |= tskit.NODE_IS_SAMPLE
        tables.nodes.flags = flags
        ts2 = tables.tree_sequence()
        if _ok_for_dating(ts2):
            out.append(Inp(f"intsamp{seed}_{i}", ts2, 5e-3, 100, {"historical", "internal_sample"}))
    return out


def scaled(inp, c):
    """The same genealogy with every time multiplied by c and the mutation rate divided by c."""
    tables = inp.ts.dump_tables()
    tables.nodes.time = tables.nodes.time * c
    mt = tables.mutations.time
    tables.mutations.time = np.where(tskit.is_unknown_time(mt), mt, mt * c)
    return Inp(f"{inp.name}_x{c:g}", tables.tree_sequence(), inp.mu / c, inp.Ne * c, inp.tags | {"scaled"})


def diploid(seed, k=2):
    """Contemporaneous inputs whose samples are grouped in diploid individuals (msprime default)."""
    out = []
    rng = np.random.default_rng(seed + 31337)
    i = 0
    while len(out) < k and i < 50:
        i += 1
        ts = build.sim(n=int(rng.integers(2, 4)), L=800, rho=3e-4, mu=6e-3, Ne=100, seed=int(rng.integers(1, 2**31)))
        if _ok_for_dating(ts) and ts.num_individuals > 0:
            out.append(Inp(f"dip{seed}_{i}", ts, 6e-3, 100, {"contemp", "diploid"}))
    return out


def flagged(inp, bit=1 << 20):
    """Same input, with an extra flag bit on every non-contemporaneous sample (as tsinfer sets
    NODE_IS_HISTORICAL_SAMPLE); flags other than NODE_IS_SAMPLE carry no meaning for dating."""
    tables = inp.ts.dump_tables()
    fl = tables.nodes.flags
    is_s = (fl & tskit.NODE_IS_SAMPLE) != 0
    sel = is_s & (tables.nodes.time > 0)
    if not sel.any():
        sel = is_s
    fl[sel] |= bit
    tables.nodes.flags = fl
    return Inp(inp.name + "_flagged", tables.tree_sequence(), inp.mu, inp.Ne, inp.tags | {"flagged"})


def inferred(seed, k=2):
    """tsinfer-inferred inputs (polytomies, several roots possible before simplification,
    node flags set by tsinfer), simplified as tsdate's documentation recommends."""
    import tsinfer
    out = []
    rng = np.random.default_rng(seed + 4242)
    i = 0
    while len(out) < k and i < 30:
        i += 1
        base = build.sim(n=int(rng.integers(3, 6)), L=400, rho=1e-4, mu=5e-3, Ne=100, seed=int(rng.integers(1, 2**31)))
        if base.num_sites < 3:
            continue
        try:
            sd = tsinfer.SampleData.from_tree_sequence(base, use_sites_time=False)
            its = tsinfer.infer(sd)
            import tsdate
            ts = tsdate.preprocess_ts(its)
        except Exception:  # noqa: BLE001
            continue
        if _ok_for_dating(ts):
            out.append(Inp(f"inferred{seed}_{i}", ts, 5e-3, 100, {"contemp", "inferred"}))
    return out


def tiny_diploid(seed, k=3):
    """Very small diploid inputs (one or two trees, a handful of mutations of which one to three
    are singletons): on such inputs every unphased singleton may keep its block's first edge."""
    out = []
    rng = np.random.default_rng(seed + 777)
    i = 0
    while len(out) < k and i < 400:
        i += 1
        ts = build.sim(n=2, L=int(rng.choice([40, 80])), rho=float(rng.choice([0, 2e-4])), mu=float(rng.choice([2e-4, 5e-4])),
                       Ne=100, seed=int(rng.integers(1, 2**31)))
        if not _ok_for_dating(ts) or ts.num_trees > 2:
            continue
        is_s = np.zeros(ts.num_nodes, dtype=bool)
        is_s[ts.samples()] = True
        nsing = int(np.sum(is_s[ts.mutations_node]))
        if 1 <= nsing <= 3 and ts.num_mutations > nsing:
            out.append(Inp(f"tinydip{seed}_{i}", ts, 5e-4, 100, {"contemp", "diploid", "tiny"}))
    return out


def renumbered(inp, seed=0, keep_samples=True):
    """The same genealogy with non-sample node ids randomly permuted (so ids are no longer in
    time order, as in tsinfer / SLiM output or after subset())."""
    rng = np.random.default_rng(seed + 99)
    ts = inp.ts
    ids = np.arange(ts.num_nodes)
    is_s = (ts.nodes_flags & tskit.NODE_IS_SAMPLE) != 0
    if keep_samples:
        rest = ids[~is_s]
        order = np.concatenate([ids[is_s], rng.permutation(rest)])
    else:
        order = rng.permutation(ids)
    tables = ts.dump_tables()
    tables.subset(order.astype(np.int32), record_provenance=False, reorder_populations=False,
                  remove_unreferenced=False)
    tables.sort()
    tables.build_index()
    tables.compute_mutation_parents()
    return Inp(inp.name + "_renum", tables.tree_sequence(), inp.mu, inp.Ne, inp.tags | {"renumbered"})


def with_root_mutations(inp, k=2, seed=0):
    """The same input plus k sites that each carry one mutation above the root of the local tree
    (a fixed derived allele: such a mutation lies on no edge)."""
    rng = np.random.default_rng(seed + 606)
    ts = inp.ts
    tables = ts.dump_tables()
    taken = set(ts.sites_position.tolist())
    added = 0
    tries = 0
    while added < k and tries < 200:
        tries += 1
        x = float(int(rng.integers(0, int(ts.sequence_length))))
        if x in taken:
            continue
        tree = ts.at(x)
        if tree.num_roots != 1:
            continue
        s = tables.sites.add_row(position=x, ancestral_state="A")
        tables.mutations.add_row(site=s, node=tree.root, derived_state="T")
        taken.add(x)
        added += 1
    tables.sort()
    tables.build_index()
    tables.compute_mutation_parents()
    return Inp(inp.name + "_rootmut", tables.tree_sequence(), inp.mu, inp.Ne, inp.tags | {"root_mutations"})
