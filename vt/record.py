"""API recorder (harness only, no repo edits): wraps boundary functions while a real
date()/method call runs, so that the abstract state the specification talks about
(arguments and result of the constraint step, EP iterations via the guarded hook, ...)
is observed at the public call's return -- on the error path too."""

import contextlib
import logging

import numpy as np


class Call:
    """Result of one observed public call."""

    def __init__(self):
        self.ok = False
        self.exc = None
        self.ret = None
        self.ts = None
        self.fit = None
        self.lik = None
        self.constrain = []  # (nodes_time copy, eps, iters, result copy)
        self.ep_iters = []  # filled by the TSDATE_VERIF hook observer
        self.warnings = []
        self.kwargs = None
        self.method = None


class _ListHandler(logging.Handler):
    def __init__(self, sink):
        super().__init__(level=logging.WARNING)
        self.sink = sink

    def emit(self, record):
        self.sink.append(record.getMessage())


@contextlib.contextmanager
def patched_constrain(call):
    import tsdate.util as util
    orig = util.constrain_ages

    def wrapper(ts, nodes_time, epsilon=1e-6, max_iterations=0):
        res = orig(ts, nodes_time, epsilon, max_iterations)
        call.constrain.append((np.array(nodes_time, dtype=float), float(epsilon), int(max_iterations),
                               np.array(res, dtype=float)))
        return res

    util.constrain_ages = wrapper
    try:
        yield
    finally:
        util.constrain_ages = orig


def observed_call(fn, ts, *, ep_observer=None, **kwargs):
    """Call fn(ts, **kwargs) (tsdate.date or a named method) under the recorder."""
    import tsdate.variational as variational
    call = Call()
    call.kwargs = dict(kwargs)
    call.method = kwargs.get("method", getattr(fn, "__name__", "?"))
    h = _ListHandler(call.warnings)
    root = logging.getLogger()
    tl = logging.getLogger("tsdate")
    root.addHandler(h)
    old_obs = getattr(variational, "_verif_observer", None)
    if ep_observer is not None and hasattr(variational, "_verif_observer"):
        variational._verif_observer = lambda it, ep: ep_observer(call, it, ep)
    try:
        with patched_constrain(call):
            try:
                ret = fn(ts, **kwargs)
                call.ok = True
                call.ret = ret
                if isinstance(ret, tuple):
                    call.ts = ret[0]
                    rest = list(ret[1:])
                    if kwargs.get("return_fit"):
                        call.fit = rest.pop(0)
                    if kwargs.get("return_likelihood"):
                        call.lik = rest.pop(0)
                else:
                    call.ts = ret
            except Exception as ex:  # noqa: BLE001  (error path is part of the trace)
                call.exc = ex
    finally:
        root.removeHandler(h)
        if hasattr(variational, "_verif_observer"):
            variational._verif_observer = old_obs
        del tl
    return call


def exc_class(ex):
    if ex is None:
        return "ok"
    return type(ex).__name__
