"""SpansBySamples.first_pass as a state machine (spec/SpansIncr.tla) and its binding to the code.

model_check(ctx)      J1: the incremental edge-diff bookkeeping as modelled refines the declarative span
                      tables on every forest sequence in scope; three named deviations must be refuted.
record_first_pass(ts) loop-level recorder of the real first_pass (pure Python, so sys.settrace works in
                      process and with numba's JIT on): keyed on the *source text* of the last statement of
                      the tree loop and of the first statement after it.
trace_leg(ctx, ...)   J3: the recorded traces are stepped against SpansIncr's machine by
                      spec/SpansIncrTrace.tla (internal state = conformance drift, final tables = C15's
                      statement); one logged field is corrupted to show that the binding is live.
"""

import json
import math
import os
import sys

from . import harness

STATE_TEXT = "n_tips_per_tree[prev_tree.index + 1] = num_fixed_at_0_treenodes"
END_TEXT = "if self.has_unary:"
INVARIANTS = ["NoErrorBranch", "Bookkeeping", "TrackedIffPresent", "PendingConstant", "AccumulatedExact", "FinalExact"]
JVM_ENV = {"JAVA_TOOL_OPTIONS": "-XX:ParallelGCThreads=2 -XX:CICompilerCount=2"}


def _consts(NS, NI, L, variant="code"):
    return {"NS": NS, "NI": NI, "L": L, "MaxMuts": 0, "TreeFilter": '"simplified"', "Variant": json.dumps(variant)}


def model_check(ctx):
    q = ctx.quick
    scopes = [(3, 2, 3)] if q else [(3, 2, 3), (4, 2, 2), (4, 3, 2), (3, 2, 4)]
    for NS, NI, L in scopes:
        cfg = ctx.write_cfg(f"spansincr_{NS}{NI}{L}.cfg", spec="Spec", constants=_consts(NS, NI, L), invariants=INVARIANTS)
        ctx.tlc("SpansIncr", cfg, workers=8, required_actions=("Start", "Step", "Finish"), env=JVM_ENV)
    cfg = ctx.write_cfg("spansincr_sim.cfg", spec="Spec", constants=_consts(4, 3, 3), invariants=INVARIANTS)
    ctx.tlc("SpansIncr", cfg, workers=4, coverage=False, simulate={"num": 60 if q else 1500}, depth=12, env=JVM_ENV)
    # named deviations: the invariants are not vacuous, TLC refutes each of them
    for variant, scope in (("no-in-parents", (3, 2, 2)), ("keep-disappearing", (3, 2, 2)), ("no-resave", (4, 2, 2))):
        cfg = ctx.write_cfg(f"spansincr_{variant}.cfg", spec="Spec", constants=_consts(*scope, variant=variant),
                            invariants=INVARIANTS)
        r = ctx.tlc("SpansIncr", cfg, workers=4, coverage=False, must_hold=False, env=JVM_ENV)
        if not r.violated:
            raise harness.MachineryError(f"SpansIncr deviation {variant} was expected to violate an invariant in scope {scope}")
        ctx.count("spansincr_deviations_refuted_by_TLC")
        ctx.extra.setdefault("spansincr_deviations", {})[variant] = r.violated


def record_first_pass(ts):
    """-> (states, end) or None when the loop markers are not found in the source (a rewritten first_pass
    is not an alarm: the leg is skipped and says so)."""
    import inspect

    import numpy as np
    from tsdate import prior
    fn = prior.SpansBySamples.first_pass
    try:
        src, first = inspect.getsourcelines(fn)
    except (OSError, TypeError):
        return None
    st = [first + k for k, ln in enumerate(src) if ln.strip() == STATE_TEXT]
    en = [first + k for k, ln in enumerate(src) if ln.strip() == END_TEXT]
    if len(st) != 1 or len(en) != 1:
        return None
    code = fn.__code__
    states, final, holder = [], [], {}
    nonint = [False]

    def ival(x):
        if isinstance(x, float) and math.isnan(x):
            return -1
        r = int(round(float(x)))
        if r != float(x):
            nonint[0] = True
        return r

    def snap(frame):
        L = frame.f_locals
        holder["self"] = L["self"]
        acc = []
        for u, byT in L["self"]._spans.items():
            for T, byk in byT.items():
                for k, v in byk.items():
                    if float(v) != 0.0:
                        acc.append([int(u), int(T), int(k), ival(v)])
        return {"spos": [ival(x) for x in L["stored_pos"]], "nch": [int(x) for x in L["num_children"]],
                "T": int(L["num_fixed_at_0_treenodes"]), "nspan": [ival(x) for x in L["node_spans"]], "acc": sorted(acc)}

    def local_tracer(frame, event, arg):
        if event == "line":
            if frame.f_lineno == st[0]:
                states.append(snap(frame))
            elif frame.f_lineno == en[0]:
                final.append(snap(frame))
        return local_tracer

    def tracer(frame, event, arg):
        if event == "call" and frame.f_code is code:
            return local_tracer
        return None

    err = ""
    old = sys.gettrace()
    sys.settrace(tracer)
    try:
        prior.SpansBySamples(ts)
    except Exception as ex:  # noqa: BLE001
        err = f"{type(ex).__name__}: {ex}"[:200]
    finally:
        sys.settrace(old)
    if final:
        end = dict(final[0])
    elif states:
        end = dict(states[-1])
    else:
        end = {"spos": [], "nch": [], "T": 0, "nspan": [0] * ts.num_nodes, "acc": []}
        if not err:
            return None
    end["error"] = err
    end["nonint"] = nonint[0]
    _ = np
    return states, end


def write_trace(path, insts):
    """insts: Spans records (N, NS, L, trees, _ts).  -> list of tids written (index into insts), or None."""
    from . import build
    tids = []
    with open(path, "w") as out:
        for tid, rec in enumerate(insts):
            ts = rec.get("_ts") or build.forest_ts(rec)
            got = record_first_pass(ts)
            if got is None:
                return None
            states, end = got
            out.write(json.dumps({"tid": tid, "kind": "begin", "trees": rec["trees"]}) + "\n")
            for s in states:
                out.write(json.dumps(dict(s, tid=tid, kind="state")) + "\n")
            out.write(json.dumps(dict(end, tid=tid, kind="end")) + "\n")
            tids.append(tid)
    return tids


def _validate(ctx, cfg, path):
    res = ctx.tlc("SpansIncrTrace", cfg, workers=1, coverage=False, env=dict(JVM_ENV, TRACE_FILE=path), must_hold=False)
    if not res.rec("accepted"):
        raise harness.MachineryError("SpansIncrTrace gave no verdict:\n" + res.stdout[-2000:])
    return {v["tid"]: v["ok"] for v in res.rec("verdict")}, res.rec("reject"), res.rec("drift")


def trace_leg(ctx, pid, insts, cap=300):
    """Group the instances by scope, record the real first_pass on each and let TLC judge the traces."""
    groups = {}
    for rec in insts:
        groups.setdefault((rec["NS"], rec["N"] - rec["NS"], rec["L"]), []).append(rec)
    for (NS, NI, L), recs in sorted(groups.items()):
        if len(recs) > cap:
            recs = ctx.rng.sample(recs, cap)
        name = f"sit_{NS}{NI}{L}"
        path = os.path.join(ctx.work, name + ".ndjson")
        tids = write_trace(path, recs)
        if tids is None:
            ctx.count("first_pass_loop_markers_not_found")
            print(f"CONFORMANCE-DRIFT property={pid} the loop markers of SpansBySamples.first_pass were not found in the "
                  "source: the step-by-step leg is skipped, the span tables are judged by the replay legs")
            return
        cfg = ctx.write_cfg(name + ".cfg", spec="TraceSpec", constants=_consts(NS, NI, L))
        verdicts, rej, drift = _validate(ctx, cfg, path)
        ctx.traces += len(recs)
        ctx.count("first_pass_loop_traces", len(recs))
        if drift:
            n = len({x["tid"] for x in drift})
            ctx.count("conformance_drift_traces", n)
            print(f"CONFORMANCE-DRIFT property={pid} {n} loop traces of first_pass leave SpansIncr's machine (first clause: "
                  f"{drift[0]['clause']}); the statement is judged on the tables the code ends with")
        clause = {}
        for x in rej:
            clause.setdefault(x["tid"], x["clause"])
        for t, rec in enumerate(recs):
            inst = {"kind": "tlc", "N": rec["N"], "NS": rec["NS"], "L": rec["L"], "time": rec["time"], "trees": rec["trees"],
                    "muts": [], "treeT": rec["treeT"], "nodes": rec["nodes"]}
            if t not in verdicts:
                ctx.violation(f"{pid}/first_pass-trace/not-consumed", inst,
                              "the loop trace of first_pass could not be stepped by SpansIncrTrace", subcheck="loop")
            elif not verdicts[t]:
                ctx.violation(f"{pid}/first_pass-trace/{clause.get(t, '?')}", inst,
                              f"loop trace of SpansBySamples.first_pass rejected by SpansIncrTrace: {clause.get(t)}",
                              subcheck="loop")
            elif len(rec["trees"]) > 1 and any(a != b for a, b in zip(rec["trees"], rec["trees"][1:])):
                ctx.nontriv(("first_pass-trace", json.dumps(rec["trees"])))
        # binding demonstration: corrupt one logged stored_pos and one final table entry; both must be noticed
        lines = [json.loads(x) for x in open(path).read().splitlines()]
        k_state = next((k for k, ev in enumerate(lines) if ev["kind"] == "state"), None)
        k_end = next((k for k, ev in enumerate(lines) if ev["kind"] == "end" and ev["acc"]), None)
        if k_state is None or k_end is None:
            continue
        lines[k_state]["spos"][-1] += 2
        lines[k_end]["acc"][0][3] += 2
        bad = os.path.join(ctx.work, name + "-corrupt.ndjson")
        with open(bad, "w") as f:
            f.write("\n".join(json.dumps(x) for x in lines) + "\n")
        v2, rej2, drift2 = _validate(ctx, cfg, bad)
        if not any(x["tid"] == lines[k_state]["tid"] and x["clause"] == "stored_pos" for x in drift2):
            raise harness.MachineryError("corrupted stored_pos in a first_pass trace was not noticed by SpansIncrTrace")
        if v2.get(lines[k_end]["tid"], True) or not any(x["tid"] == lines[k_end]["tid"] for x in rej2):
            raise harness.MachineryError("corrupted final span table in a first_pass trace was not rejected by SpansIncrTrace")
        ctx.count("corrupted_traces_noticed", 2)
