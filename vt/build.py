"""Abstract instances (JSON emitted by TLC, or made by drivers) -> real tskit objects."""

import numpy as np
import tskit


def dag_ts(n, edges, times, samples, muts_per_edge=None):
    """A valid tree sequence realising an arbitrary DAG: edge k = (parent, child) occupies
    its own unit interval [k, k+1), so a child may have many parents.  `times[u]` are the
    input node times (must satisfy time[p] > time[c]); `samples` get the sample flag.
    muts_per_edge[k] mutations are put on edge k (at distinct positions inside its interval)."""
    tables = tskit.TableCollection(sequence_length=max(1, len(edges)))
    sset = set(samples)
    for u in range(n):
        tables.nodes.add_row(flags=tskit.NODE_IS_SAMPLE if u in sset else 0, time=float(times[u]))
    for k, (p, c) in enumerate(edges):
        tables.edges.add_row(left=k, right=k + 1, parent=int(p), child=int(c))
    if muts_per_edge is not None:
        for k, m in enumerate(muts_per_edge):
            for j in range(int(m)):
                s = tables.sites.add_row(position=k + (j + 1) / (m + 1), ancestral_state="0")
                tables.mutations.add_row(site=s, node=int(edges[k][1]), derived_state="1")
    tables.sort()
    tables.build_index()
    tables.compute_mutation_parents()
    return tables.tree_sequence()


def forest_tables(inst, perm=None, time_of=None):
    """Tree sequence from a TSGen instance:
         inst = {"N": int, "NS": int, "L": int, "time": [int]*N (1-based seq from TLC),
                 "trees": [[parent or -1]*N]*L, "muts": [[pos, node], ...],
                 "indiv": optional [individual or -1]*N}
       Coordinates: interval i (0-based) = [2i, 2i+2); mutation positions are integers in
       0..2L-1.  perm: optional node renumbering old->new (list); time_of: optional map of
       abstract integer time -> float.
    """
    N, L = inst["N"], inst["L"]
    time = list(inst["time"])
    trees = inst["trees"]
    perm = list(range(N)) if perm is None else list(perm)
    inv = [0] * N
    for old, new in enumerate(perm):
        inv[new] = old
    tf = (lambda t: float(t)) if time_of is None else time_of
    tables = tskit.TableCollection(sequence_length=2 * L)
    indiv = inst.get("indiv")
    if indiv is not None:
        for _ in range(max(indiv) + 1):
            tables.individuals.add_row()
    samples = set(inst.get("samples", range(inst["NS"])))
    for new in range(N):
        old = inv[new]
        tables.nodes.add_row(
            flags=tskit.NODE_IS_SAMPLE if old in samples else 0,
            time=tf(time[old]),
            individual=(indiv[old] if indiv is not None else -1),
        )
    for c in range(N):
        i = 0
        while i < L:
            p = trees[i][c]
            if p == -1:
                i += 1
                continue
            j = i
            while j + 1 < L and trees[j + 1][c] == p:
                j += 1
            tables.edges.add_row(left=2 * i, right=2 * (j + 1), parent=perm[p], child=perm[c])
            i = j + 1
    pos = sorted({m[0] for m in inst.get("muts", [])})
    site_of = {}
    for x in pos:
        site_of[x] = tables.sites.add_row(position=float(x), ancestral_state="0")
    for x, u in inst.get("muts", []):
        tables.mutations.add_row(site=site_of[x], node=perm[u], derived_state="1")
    tables.sort()
    tables.build_index()
    tables.compute_mutation_parents()
    return tables


def forest_ts(inst, **kw):
    return forest_tables(inst, **kw).tree_sequence()


def edge_rows(ts):
    return [[int(e.left), int(e.right), int(e.parent), int(e.child)] for e in ts.edges()]


# ---------------------------------------------------------------------------------------
# corpus of realistic inputs for drivers that call the real date()
# ---------------------------------------------------------------------------------------

def sim(n=4, L=1000, rho=2e-4, mu=2e-3, Ne=100, seed=1, model=None, historical=None, ploidy=2):
    import msprime
    if historical:
        samples = [msprime.SampleSet(n, time=0, ploidy=ploidy)] + [
            msprime.SampleSet(k, time=t, ploidy=ploidy) for k, t in historical]
    else:
        samples = [msprime.SampleSet(n, time=0, ploidy=ploidy)]
    ts = msprime.sim_ancestry(samples, sequence_length=L, recombination_rate=rho, random_seed=seed,
                              population_size=Ne, model=model)
    ts = msprime.sim_mutations(ts, rate=mu, random_seed=seed)
    return ts


def polytomise(ts, frac, seed):
    """Collapse a fraction of the oldest-parent internal edges to make polytomies (simplified)."""
    rng = np.random.default_rng(seed)
    tables = ts.dump_tables()
    internal = np.flatnonzero(~np.isin(ts.edges_child, ts.samples()))
    if internal.size == 0:
        return ts
    kill = set(ts.edges_child[rng.choice(internal, max(1, int(frac * internal.size)), replace=False)].tolist())
    # remove nodes in `kill` by attaching their children to their parents, tree by tree
    new_edges = []
    for tree in ts.trees():
        for u in tree.nodes():
            p = tree.parent(u)
            if p == tskit.NULL or u in kill:
                continue
            while p in kill and tree.parent(p) != tskit.NULL:
                p = tree.parent(p)
            if p in kill:
                continue
            new_edges.append((tree.interval.left, tree.interval.right, p, u))
    tables.edges.clear()
    for l, r, p, c in new_edges:
        tables.edges.add_row(l, r, p, c)
    # mutations on removed nodes move to nothing sensible: drop them
    keep = ~np.isin(tables.mutations.node, list(kill))
    tables.mutations.parent = np.full_like(tables.mutations.parent, tskit.NULL)
    tables.mutations.keep_rows(keep)
    tables.sort()
    tables.edges.squash()
    tables.sort()
    tables.build_index()
    tables.compute_mutation_parents()
    tables.simplify()
    return tables.tree_sequence()
