"""Which properties are claimed, with what technique and level (feeds MANIFEST.json)."""
# pid -> (technique, level text, level note, design ref)
CLAIMED = {}


def claim(pid, technique, text, note, ref="7"):
    CLAIMED[pid] = (technique, text, note, ref)


TB = ("trusted: TLC 1.8, tskit/numpy as instance builders, the abstraction functions of vt/ (ranks, interning, "
      "named tolerance predicates); small-scope hypothesis for the exhaustive bounds stated in the evidence")

claim("C27", "TLC model checking of spec/Constrain.tla (least fixpoint, feasible-unchanged, idempotence) + replay of "
      "every generated behaviour into util._constrain_ages + TLC trace validation (ConstrainTrace, rank abstraction) "
      "of constraint steps observed inside real date() calls",
      "exhaustive within the bounded scope of module Constrain for the design; every explored behaviour and every "
      "observed real execution is decided by TLC against the same statements",
      TB)

claim("C01", "TLC model checking of spec/Constrain.tla (Strict, AtLeastPlus; incl. the abstract image of float "
      "absorption) + replay into util._constrain_ages + TLC trace validation (ConstrainTrace on ranks: Strict, "
      "AtLeastPlus, MutationBounds) of real date() calls over methods x options x time scales 1e-6..1e12",
      "every explored model behaviour and every observed real date() result is decided by TLC; 'valid tree "
      "sequence' is tskit's own integrity check on the returned tables",
      TB)
claim("C03", "TLC model checking of spec/Constrain.tla over all fixed-node sets (ChildlessFixedKept, "
      "FixedNeverMovedByLsq, FixedOnlyMinimallyPushed) + replay into util._constrain_ages + TLC trace validation "
      "(ConstrainTrace) of real date() calls on inputs with historical and internal samples",
      "as C01; the time handed to the constraint step for each sample is also required to be its input time",
      TB)
claim("C24", "TLC model checking of spec/Sweep.tla (the edge-diff loop of _count_mutations, plain / size-biased / "
      "explicit sample set) against a declarative tally on every small tree sequence + exact replay of generated "
      "and simulated behaviours into count_mutations / mutation_span_array on real tskit tree sequences",
      "exhaustive in the bounded TSGen scope for the design; the code is compared exactly (integers) with the "
      "specification's final state on every replayed behaviour; TreeSeq's model of tskit is checked against tskit",
      TB)

claim("C36", "TLC model checking of spec/Cache.tla (3 concurrent runs, writer crashes, per-descriptor offsets; Safe, NoError, "
      "FinalNeverTorn, liveness under weak fairness) for the protocol variant detected in /repo + replay of TLC "
      "behaviours (counterexample or simulated) on the real code through gated file-system calls + TLC validation "
      "(CacheCrash) of crash experiments at every byte offset of the written file",
      "exhaustive over interleavings of 3 processes with one crash for the design; the code is stepped along TLC "
      "behaviours and its real file content / tables compared with the model state; crash offsets enumerated on "
      "the real file",
      TB + "; threads with gated fs calls stand for processes")

claim("C20", "TLC model checking of spec/EPStar.tla (exact rational transcription of the fixed-child EP update, damping, "
      "max_shape rescaling, visiting order, scale absorption: ExactUncapped, ShapeCapped, Book; CapScaled shown to "
      "fail) + replay of every generated star instance by stepping the real ExpectationPropagation.iterate() and "
      "comparing node_posterior with the model state after every iteration (rtol 1e-12), plus full "
      "variational_gamma() calls",
      "exhaustive over star-like instances in scope; code bound to the model after every iteration, so the "
      "statement is decided on the code both where it holds (uncapped) and where it fails (capped: recorded finding)",
      TB + "; float64 vs exact rationals compared at rtol 1e-12")
claim("C21", "TLC model checking of spec/EPAny.tla (Book / FixedUntouched / AbsorbKeepsPosterior for every projection "
      "outcome incl. skips, all five update branches, singleton blocks, prior update, scale absorption anywhere) and "
      "of Book on spec/EPStar.tla + stepping the real iterate() on star instances + TLC trace validation "
      "(spec/EPTrace.tla) of per-iteration observations made through the guarded hook inside real "
      "variational_gamma() calls",
      "algebraic bookkeeping identity checked exhaustively on the model for arbitrary projection outcomes; every "
      "iteration of every observed real call is decided by TLC on recorded predicates",
      TB + "; predicate 'book' = shapes and rates agree to rtol 1e-9")
claim("C05", "TLC model checking of spec/EPAny.tla (ShapeCapped, ProperOrNeverUpdated under every skip pattern) and "
      "spec/EPStar.tla (ShapeCapped) + TLC trace validation (spec/EPTrace.tla) of real variational_gamma() calls x "
      "max_iterations x max_shape x rescaling x singletons_phased: per-iteration cap/properness and the final "
      "node / mutation / phase post-conditions",
      "design-level exhaustive in scope; every observed real call decided by TLC on recorded predicates",
      TB)
claim("C22", "TLC model checking of spec/Blocks.tla (BlocksExact, NoPhantomBlock, RephaseSymmetric) + replay of Blocks "
      "behaviours into phasing.block_singletons + TLC trace validation (spec/EPTrace.tla: PhasedUnmoved, "
      "UnphasedMoves, RephaseInvariant) of real variational_gamma() calls on diploid inputs and random re-phasings",
      "block construction exhaustive in the TSGen scope; metamorphic re-phasing pairs on real inputs decided by TLC "
      "on recorded predicates (rtol 1e-6)",
      TB)
claim("C23", "TLC model checking of spec/Realloc.tla (TotalOne, FinalGetsLarger, OthersUnchanged; pre-repair variant "
      "'swapped' shown to violate) + TLC trace validation (spec/ReallocTrace.tla) recomputing expected per-edge "
      "counts from blocks, final placements and fitted phases recorded around rescale() in real "
      "variational_gamma(singletons_phased=False) calls",
      "reallocation rule exhaustive in the small scope; every observed real call recomputed by TLC in fixed point "
      "(1/65536) arithmetic",
      TB)

claim("C14", "TLC exploration of spec/Coalescent.tla (labelled Kingman jump chain; all complete behaviours counted, "
      "n <= 6 quick / 7 thorough) with POSTCONDITION: counted Pr(a|k,n) = closed form = transcribed "
      "_marginalize_over_ancestors recursion (spec/Rat.tla), exact mean/variance per (n,k) + replay of every row into "
      "conditional_coalescent_variance / ConditionalCoalescentTimes.add (both prior distributions) + Fraction mirror "
      "synced with TLC's rows in the same run for n up to 150 / 600",
      "behaviour-counted exact moments within the TLC scope; the code's tables compared with them (close12) and with "
      "the synced mirror beyond; alpha/beta judged by exact moment matching",
      TB)
claim("C15", "TLC model checking of spec/Spans.tla over TSGen forests (simplified, isolated samples allowed): declarative "
      "Span(u,T,k), SpansSumToNodeSpan, mixture moments in Rat + exact replay into SpansBySamples.get_spans / node_spans "
      "and mixture_expect_and_var / MixturePrior.prior_params + synced per-tree-count mirror on simulated inputs with "
      "polytomies and missing data + TLC model checking of spec/SpansIncr.tla (first_pass's incremental edge-diff "
      "bookkeeping as a state machine refining the declarative tables at every breakpoint; named deviations refuted) + "
      "TLC trace validation (spec/SpansIncrTrace.tla) of loop traces recorded from the real first_pass",
      "exhaustive in the TSGen scope; the code compared exactly with TLC's span tables and (close12) mixture moments; "
      "first_pass stepped against the SpansIncr machine (internal state = conformance drift, final tables = statement)",
      TB)
claim("C16", "TLC model checking of spec/PriorGrid.tla (FillRow + standardize over all abstract nondecreasing CDF tables) + "
      "replay of every table into the real fill_priors with scipy's cdf stubbed by the table + TLC trace validation "
      "(spec/PriorGridTrace.tla) of real build_prior_grid calls x timepoints x distributions x population-size forms",
      "grid structure exhaustive over abstract tables; masses on real calls compared with the mirror of the spec's "
      "Expected row applied to scipy's cdf (trusted primitive, rtol 1e-10)",
      TB + "; scipy cdf trusted")
claim("C17", "TLC model checking of spec/Demography.tla in exact rationals (code-shaped _change_time_measure = integral of "
      "1/(2N); inverse; continuity; monotonicity; as_dict round trip; constant-size gamma) + exact replay of every "
      "case into PopulationSizeHistory + hypothesis-generated float histories judged by the synced Fraction mirror "
      "with a backward-error bound; general gamma_to_natural vs scipy quadrature",
      "exhaustive over <= 3-4 epoch histories on small lattices; floats over 12 orders of magnitude through the "
      "mirror synced with TLC in the same run",
      TB + "; scipy quadrature trusted (rtol 1e-6)")
claim("C02", "TLC model checking of spec/Session.tla (get_modified_ts-shaped dating step over canonical columns: DateFrame, "
      "FrameDuringCall, FalseKeepsMetadata) + TLC trace validation (spec/SessionTrace.tla: Frame on 41 interned "
      "columns, MutNode on matched mutations) of real date()/named-method calls on decorated inputs x 3 methods x "
      "set_metadata x record_provenance x singletons_phased, and of the repository test-suite's calls (thorough)",
      "every observed real call is decided by TLC column by column; the model's frame condition is exhaustive over "
      "starting metadata kinds x methods x option sets within the bound",
      TB + "; canonical comparison under TableCollection.sort() re-ordering")
claim("C04", "TLC (spec/Metadata.tla: when time metadata is written) + TLC trace validation (SessionTrace Posterior clauses "
      "over interned mn/vr values after a codec round trip, named predicates prob_row / close12) of real "
      "date(return_fit=True) calls x schema kinds x methods, plus the test-suite's calls (thorough)",
      "every node and mutation value of every observed call compared by TLC (interned equality); grid predicates "
      "evaluated by the harness and demanded by the spec",
      TB)
claim("C32", "TLC model checking of spec/Metadata.tla (set_time_metadata procedure vs the statement's outcome table, 612 "
      "cells exhaustive) + replay of every cell on real table collections with outcome classification + TLC trace "
      "validation (MdPolicy clauses); the module's codec model is checked against tskit on every pair",
      "exhaustive over schema-consistent kind combinations; the code compared with the specification's expected "
      "class per cell",
      TB)
claim("C33", "TLC model checking of spec/Session.tla (AppendOnly action property, ProvPerCall) over all call histories "
      "<= 2 (simulated to 4) + replay of every emitted history as a prefix tree on real tree sequences + TLC trace "
      "validation (Prov clauses: prefix, count, command, valid record, every parameter) incl. numpy-typed values "
      "and the repository test-suite's calls (thorough)",
      "exhaustive histories within the bound; every real call decided by TLC",
      TB)

claim("C34", "TLC model checking of spec/CLI.tla (argparse model over the declared option table + dispatch; UsageExact, "
      "Faithful, NoInvention, Routing, RejectsIrrelevant, Verbosity; refutation self-test of the pre-repair parser) + "
      "replay of every emitted command line into tsdate.cli.tsdate_main under an API recorder, output file vs the "
      "direct Python call",
      "exhaustive up to <= 1 (quick) / <= 4 (thorough) simultaneously given options with method, mutation rate and "
      "all preprocess options free, simulated beyond; kwargs compared type-strictly, outputs table-equal modulo "
      "provenance timestamps/resources",
      TB + "; in-process tsdate_main stands for the console script")
claim("C35", "TLC model checking of spec/Validate.tla (decision procedure over parameter / input classes; NamedRejected, "
      "NoSpuriousRejection, DocRejected, ShapeDefined, AllowedClean) + replay of every emitted record into date() / "
      "variational_gamma / inside_outside / maximization on TLC-generated TSGen tree sequences, the seeded corpus, "
      "sparse-mutation and 1e-6..1e12-scaled inputs; the outcome class must be in the spec's allowed set",
      "parameter records exhaustive up to <= 1 / <= 3 non-standard classes, simulated beyond; inputs sampled; three "
      "open findings recorded with input-class-specific signatures",
      TB + "; parameter magnitudes finite and ordinary; undocumented parameters excluded")
claim("C25", "TLC model checking of spec/Rescale.tla (difference-array epochs = direct overlap with rational rates; "
      "breakpoints from the C26 defining inequality with free ties; map continuous / non-decreasing / fixes 0 / keeps "
      "fixed nodes; order preserved) + replay of every behaviour and of TLC-evaluated larger instances into "
      "mutational_area / mutational_timescale / piecewise_scale_point_estimate + TLC trace validation "
      "(spec/RescaleTrace.tla: ranks and named tolerances) of ExpectationPropagation.rescale inside real date() calls",
      "exhaustive in the bounded scope for the design; kernels compared bitwise or rel 1e-12 with the specification; "
      "every observed rescale() decided by TLC",
      TB + "; means ranked after rel-1e-12 clustering")
claim("C26", "TLC model checking of spec/Changepoints.tla (searchsorted as binary search vs the defining inequality, ties "
      "free; PELT DP column by column with exact rational-power costs vs the optimum over all feasible segmentations "
      "and a prefix-optimum loop invariant; variants incl. the pre-repair one, which TLC refutes) + exhaustive replay "
      "of instances and TLC-evaluated random larger instances into the compiled helpers",
      "exhaustive in scope; results compared exactly with TLC's admissible / optimal sets",
      TB + "; penalty = 2 ln K; zero-count deviance 0")
claim("C37", "TLC (Sweep tallies -> Rescale, file mode) computes the exact one-iteration result for TSGen tree sequences; "
      "rescale_tree_sequence replayed against it; TLC trace validation (spec/RescaleTrace.tla) of every successful "
      "call incl. multi-iteration and msprime inputs: valid, topology, sample times, non-decreasing ranks, mutation "
      "midpoints",
      "bounded TSGen scope exact; real calls decided by TLC on rank / interning abstraction",
      TB + "; AssertionErrors judged only where the specification decides them")

claim("C06", "TLC model checking of spec/Relational.tla (Units machine: the statement's recipe is the complete change of "
      "time unit per method, kernel arguments dimensionless and value-preserving, exponents 1 / 2 proved on the "
      "forced-pass and grid-moment sub-models) + replay of the TLC-emitted recipe into real date() calls + TLC trace "
      "validation (spec/RelationalTrace.tla) of every metamorphic pair",
      "every pair of real calls decided by TLC from named predicates (close12 for powers of two, 1e-4 / 1e-3 for "
      "other factors, arg-max near-ties discarded)",
      TB + "; mutation-level outputs compared in canonical order")
claim("C07", "as C06 with the 'genome' kind of spec/Relational.tla: exponent 0; recipe = all genomic coordinates x c and "
      "mutation rate / c; pairs of real calls validated by spec/RelationalTrace.tla",
      "every pair of real calls decided by TLC (close12 for powers of two, loose class otherwise)",
      TB)
claim("C08", "TLC model checking of spec/Relational.tla (Irr machine: all 2^11 subsets of the perturbation menu x 4 option "
      "records over the projection Inputs; controls shown to change Inputs) + replay of the emitted subsets on real "
      "inputs + spec/RelationalTrace.tla (TLC recomputes the verdict; outputs close12, observed bit-identical)",
      "exhaustive over the menu lattice in the model; quick replays singletons, pairs, the full set and a seeded "
      "sample, thorough all 2048 subsets",
      TB)
claim("C09", "TLC model checking of spec/LikPool.tla (all schedules of <= 4 keys x <= 3 workers: FinalCache, EachKeyOnce, "
      "NeverWrongRow; position-fill variant shown violating) and of the Hist machine of spec/Relational.tla (prior "
      "reuse histories <= 4 calls) + replay of schedules into the real multiprocessing pool and of histories on one "
      "real prior object + spec/LikPoolTrace.tla / RelationalTrace.tla validation of observed arrival orders (hook 2), "
      "repeat / fresh-process (PYTHONHASHSEED) / num_threads identity on interned ids",
      "every observed run decided by TLC; schedules exhaustive in the small scope",
      TB)

claim("C10", "TLC model checking of spec/InsideOutside.tla (inside / outside passes with the code's packed triangular "
      "layout and reduceat sums over abstract integer tables vs brute-force marginals and normaliser; all topologies "
      "<= 4 leaves, all schedules) + replay of explored instances into the real BeliefPropagation via table doubles "
      "in both probability spaces + inside_outside with real priors / Poisson likelihoods vs a mirror of the spec's "
      "Marginal / Normaliser synchronised with TLC in the same run",
      "exhaustive over small tables / grids within the stated scope; every replayed instance compared with TLC's "
      "exact rationals (rtol 1e-12 linear, 1e-9 log)",
      TB + "; guard proper_model (all-zero rows are a ValueError, allowed by C35)")
claim("C11", "TLC model checking of spec/IOOrder.tla (code-derived traversals admissible for every DAG x renumbering x "
      "re-timing), spec/InsideOutside.tla (confluence over schedules / permutations), spec/IOMax.tla (edge-order "
      "freedom) + replay of orders and message sets into the real iterators and outside_pass + metamorphic renumber / "
      "retime pairs on inside_outside and maximization (rtol 1e-9, arg-max ties guarded)",
      "traversal admissibility exhaustive for DAGs with <= 3 non-sample nodes; real pairs sampled",
      TB + "; multi-parent span scaling not modelled arithmetically in TLC")
claim("C12", "TLC model checking of spec/ProbSpace.tla (commuting diagram Exp o LogOp = LinOp o Exp for every primitive "
      "over value classes with IEEE conventions; +inf kept as a refuted deviation = the statement's overflow guard) + "
      "replay of every case into both Likelihoods classes + guarded linear / log run pairs of both methods",
      "exhaustive over value-class combinations (35k cases); run pairs compared at rtol 1e-7 under the statement's "
      "no-underflow guard",
      TB)
claim("C13", "TLC model checking of spec/IOMax.tla (literal outside_maximization loop vs the arg-max-set rule, Ordered, "
      "GridPoint, EdgeOrderFree on multi-parent DAGs) + replay into the real outside_maximization via a Poisson shim "
      "+ rule check on real maximization fits with a TLC-synchronised mirror",
      "exhaustive at grid 2, simulated at grid 3; every real node's choice must be a grid point, ordered along "
      "edges and inside the arg-max set computed from the real inside values",
      TB)
claim("C38", "TLC model checking of spec/InsideOutside.tla / IOOrder.tla with both readings of 'oldest root' (the "
      "implemented id-based reading is refuted) + replay through table doubles, a message spy on outside_pass and "
      "renumber pairs on the public inside_outside",
      "the statement is decided on the code by three independent legs; the violation on the unchanged tree is a "
      "recorded open finding (the repository's own test pins the id-based behaviour)",
      TB)
claim("C28", "TLC model checking of spec/Preprocess.tla (code-shaped interval computation vs Admissible / DesignCoverage "
      "over all site sets x minimum_gap x erase_flanks; declarative simplified output per unit cell) + replay of "
      "generated / simulated instances into preprocess_ts + TLC trace validation of provenance-recorded "
      "delete_intervals",
      "exhaustive in the bounded TSGen scope; every real call decided against TLC-emitted values and by TLC on "
      "recorded intervals",
      TB + "; 'no gap' read for non-sample nodes; genotypes = allelic states")
claim("C29", "TLC model checking of spec/SplitDisjoint.tla (segment labelling, copy allocation, relabelling, mutation "
      "sweep vs TreesPreserved / Contiguous / LeftmostKeepsId / MutationsFollow / GenotypesKept / Idempotent; "
      "pre-repair variant refuted with its exact crash class) + exact replay into split_disjoint_nodes",
      "exhaustive in the bounded scope (<= 5 intervals, >= 3 pieces); copy ids abstracted via node time",
      TB)
claim("C30", "TLC model checking of spec/Unary.tla (edge-diff detector state machine and per-tree detector vs the "
      "declarative unary statement, arbitrary masks, historical / internal samples) + replay into both detectors and "
      "accept / reject of variational_gamma / inside_outside / maximization / build_prior_grid",
      "exhaustive in the bounded scope; only the unary-specific ValueError is judged",
      TB)
claim("C31", "TLC model checking of spec/SiteTimes.tla (running-max loop vs the documented definition, exact doubled / "
      "squared arithmetic, mn metadata, errors, historical bound) + replay into sites_time_from_ts and "
      "add_sampledata_times (tsinfer SampleData)",
      "exhaustive in the bounded scope; equality (geometric rel 1e-12)",
      TB)
