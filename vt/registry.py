"""Which properties are claimed, with what technique and level (feeds MANIFEST.json)."""
# pid -> (technique, level text, level note, design ref)
CLAIMED = {}


def claim(pid, technique, text, note, ref="7"):
    CLAIMED[pid] = (technique, text, note, ref)


TB = ("trusted: TLC 1.8, tskit/numpy as instance builders, the abstraction functions of vt/ (ranks, interning, "
      "named tolerance predicates); small-scope hypothesis for the exhaustive bounds stated in the evidence")

claim("C27", "TLC model checking of spec/Constrain.tla (least fixpoint, feasible-unchanged, idempotence) + replay of "
      "every generated behaviour into util._constrain_ages + TLC trace validation (ConstrainTrace, rank abstraction) "
      "of constraint steps observed inside real date() calls",
      "exhaustive within the bounded scope of module Constrain for the design; every explored behaviour and every "
      "observed real execution is decided by TLC against the same statements",
      TB)
