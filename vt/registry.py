"""Which properties are claimed, with what technique and level (feeds MANIFEST.json)."""
# pid -> (technique, level text, level note, design ref)
CLAIMED = {}


def claim(pid, technique, text, note, ref="7"):
    CLAIMED[pid] = (technique, text, note, ref)


TB = ("trusted: TLC 1.8, tskit/numpy as instance builders, the abstraction functions of vt/ (ranks, interning, "
      "named tolerance predicates); small-scope hypothesis for the exhaustive bounds stated in the evidence")

claim("C27", "TLC model checking of spec/Constrain.tla (least fixpoint, feasible-unchanged, idempotence) + replay of "
      "every generated behaviour into util._constrain_ages + TLC trace validation (ConstrainTrace, rank abstraction) "
      "of constraint steps observed inside real date() calls",
      "exhaustive within the bounded scope of module Constrain for the design; every explored behaviour and every "
      "observed real execution is decided by TLC against the same statements",
      TB)

claim("C01", "TLC model checking of spec/Constrain.tla (Strict, AtLeastPlus; incl. the abstract image of float "
      "absorption) + replay into util._constrain_ages + TLC trace validation (ConstrainTrace on ranks: Strict, "
      "AtLeastPlus, MutationBounds) of real date() calls over methods x options x time scales 1e-6..1e12",
      "every explored model behaviour and every observed real date() result is decided by TLC; 'valid tree "
      "sequence' is tskit's own integrity check on the returned tables",
      TB)
claim("C03", "TLC model checking of spec/Constrain.tla over all fixed-node sets (ChildlessFixedKept, "
      "FixedNeverMovedByLsq, FixedOnlyMinimallyPushed) + replay into util._constrain_ages + TLC trace validation "
      "(ConstrainTrace) of real date() calls on inputs with historical and internal samples",
      "as C01; the time handed to the constraint step for each sample is also required to be its input time",
      TB)
claim("C24", "TLC model checking of spec/Sweep.tla (the edge-diff loop of _count_mutations, plain / size-biased / "
      "explicit sample set) against a declarative tally on every small tree sequence + exact replay of generated "
      "and simulated behaviours into count_mutations / mutation_span_array on real tskit tree sequences",
      "exhaustive in the bounded TSGen scope for the design; the code is compared exactly (integers) with the "
      "specification's final state on every replayed behaviour; TreeSeq's model of tskit is checked against tskit",
      TB)

claim("C36", "TLC model checking of spec/Cache.tla (3 concurrent runs, writer crashes, per-descriptor offsets; Safe, NoError, "
      "FinalNeverTorn, liveness under weak fairness) for the protocol variant detected in /repo + replay of TLC "
      "behaviours (counterexample or simulated) on the real code through gated file-system calls + TLC validation "
      "(CacheCrash) of crash experiments at every byte offset of the written file",
      "exhaustive over interleavings of 3 processes with one crash for the design; the code is stepped along TLC "
      "behaviours and its real file content / tables compared with the model state; crash offsets enumerated on "
      "the real file",
      TB + "; threads with gated fs calls stand for processes")

claim("C20", "TLC model checking of spec/EPStar.tla (exact rational transcription of the fixed-child EP update, damping, "
      "max_shape rescaling, visiting order, scale absorption: ExactUncapped, ShapeCapped, Book; CapScaled shown to "
      "fail) + replay of every generated star instance by stepping the real ExpectationPropagation.iterate() and "
      "comparing node_posterior with the model state after every iteration (rtol 1e-12), plus full "
      "variational_gamma() calls",
      "exhaustive over star-like instances in scope; code bound to the model after every iteration, so the "
      "statement is decided on the code both where it holds (uncapped) and where it fails (capped: recorded finding)",
      TB + "; float64 vs exact rationals compared at rtol 1e-12")
claim("C21", "TLC model checking of spec/EPAny.tla (Book / FixedUntouched / AbsorbKeepsPosterior for every projection "
      "outcome incl. skips, all five update branches, singleton blocks, prior update, scale absorption anywhere) and "
      "of Book on spec/EPStar.tla + stepping the real iterate() on star instances + TLC trace validation "
      "(spec/EPTrace.tla) of per-iteration observations made through the guarded hook inside real "
      "variational_gamma() calls",
      "algebraic bookkeeping identity checked exhaustively on the model for arbitrary projection outcomes; every "
      "iteration of every observed real call is decided by TLC on recorded predicates",
      TB + "; predicate 'book' = shapes and rates agree to rtol 1e-9")
claim("C05", "TLC model checking of spec/EPAny.tla (ShapeCapped, ProperOrNeverUpdated under every skip pattern) and "
      "spec/EPStar.tla (ShapeCapped) + TLC trace validation (spec/EPTrace.tla) of real variational_gamma() calls x "
      "max_iterations x max_shape x rescaling x singletons_phased: per-iteration cap/properness and the final "
      "node / mutation / phase post-conditions",
      "design-level exhaustive in scope; every observed real call decided by TLC on recorded predicates",
      TB)
claim("C22", "TLC model checking of spec/Blocks.tla (BlocksExact, NoPhantomBlock, RephaseSymmetric) + replay of Blocks "
      "behaviours into phasing.block_singletons + TLC trace validation (spec/EPTrace.tla: PhasedUnmoved, "
      "UnphasedMoves, RephaseInvariant) of real variational_gamma() calls on diploid inputs and random re-phasings",
      "block construction exhaustive in the TSGen scope; metamorphic re-phasing pairs on real inputs decided by TLC "
      "on recorded predicates (rtol 1e-6)",
      TB)
claim("C23", "TLC model checking of spec/Realloc.tla (TotalOne, FinalGetsLarger, OthersUnchanged; pre-repair variant "
      "'swapped' shown to violate) + TLC trace validation (spec/ReallocTrace.tla) recomputing expected per-edge "
      "counts from blocks, final placements and fitted phases recorded around rescale() in real "
      "variational_gamma(singletons_phased=False) calls",
      "reallocation rule exhaustive in the small scope; every observed real call recomputed by TLC in fixed point "
      "(1/65536) arithmetic",
      TB)
