"""Which properties are claimed, with what technique and level (feeds MANIFEST.json)."""
# pid -> (technique, level text, level note, design ref)
CLAIMED = {}


def claim(pid, technique, text, note, ref="7"):
    CLAIMED[pid] = (technique, text, note, ref)


TB = ("trusted: TLC 1.8, tskit/numpy as instance builders, the abstraction functions of vt/ (ranks, interning, "
      "named tolerance predicates); small-scope hypothesis for the exhaustive bounds stated in the evidence")

claim("C27", "TLC model checking of spec/Constrain.tla (least fixpoint, feasible-unchanged, idempotence) + replay of "
      "every generated behaviour into util._constrain_ages + TLC trace validation (ConstrainTrace, rank abstraction) "
      "of constraint steps observed inside real date() calls",
      "exhaustive within the bounded scope of module Constrain for the design; every explored behaviour and every "
      "observed real execution is decided by TLC against the same statements",
      TB)

claim("C01", "TLC model checking of spec/Constrain.tla (Strict, AtLeastPlus; incl. the abstract image of float "
      "absorption) + replay into util._constrain_ages + TLC trace validation (ConstrainTrace on ranks: Strict, "
      "AtLeastPlus, MutationBounds) of real date() calls over methods x options x time scales 1e-6..1e12",
      "every explored model behaviour and every observed real date() result is decided by TLC; 'valid tree "
      "sequence' is tskit's own integrity check on the returned tables",
      TB)
claim("C03", "TLC model checking of spec/Constrain.tla over all fixed-node sets (ChildlessFixedKept, "
      "FixedNeverMovedByLsq, FixedOnlyMinimallyPushed) + replay into util._constrain_ages + TLC trace validation "
      "(ConstrainTrace) of real date() calls on inputs with historical and internal samples",
      "as C01; the time handed to the constraint step for each sample is also required to be its input time",
      TB)
claim("C24", "TLC model checking of spec/Sweep.tla (the edge-diff loop of _count_mutations, plain / size-biased / "
      "explicit sample set) against a declarative tally on every small tree sequence + exact replay of generated "
      "and simulated behaviours into count_mutations / mutation_span_array on real tskit tree sequences",
      "exhaustive in the bounded TSGen scope for the design; the code is compared exactly (integers) with the "
      "specification's final state on every replayed behaviour; TreeSeq's model of tskit is checked against tskit",
      TB)

claim("C36", "TLC model checking of spec/Cache.tla (3 concurrent runs, writer crashes, per-descriptor offsets; Safe, NoError, "
      "FinalNeverTorn, liveness under weak fairness) for the protocol variant detected in /repo + replay of TLC "
      "behaviours (counterexample or simulated) on the real code through gated file-system calls + TLC validation "
      "(CacheCrash) of crash experiments at every byte offset of the written file",
      "exhaustive over interleavings of 3 processes with one crash for the design; the code is stepped along TLC "
      "behaviours and its real file content / tables compared with the model state; crash offsets enumerated on "
      "the real file",
      TB + "; threads with gated fs calls stand for processes")
