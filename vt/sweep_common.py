"""Shared by C24 / C22 / C23 / C30: module Sweep (and friends) <-> real kernels."""

import json

import numpy as np

from . import build


def consts(NS, NI, L, max_muts, biased=(True, False), custom=False, emit=False, tree_filter="any"):
    return {"NS": NS, "NI": NI, "L": L, "MaxMuts": max_muts, "TreeFilter": json.dumps(tree_filter),
            "Biased": "{" + ",".join("TRUE" if b else "FALSE" for b in biased) + "}",
            "CustomSets": "TRUE" if custom else "FALSE", "EmitDone": "TRUE" if emit else "FALSE"}


def model_check(ctx, name, **kw):
    cfg = ctx.write_cfg(name + ".cfg", constants=consts(**kw), invariants=["TalliesExact", "AllMutsSeen"],
                        properties=["CursorsMonotone"])
    return ctx.tlc("Sweep", cfg, workers=16, required_actions=("Gen", "Choose", "Step", "Finish"))


def generate(ctx, name, simulate=None, **kw):
    kw["emit"] = True
    cfg = ctx.write_cfg(name + ".cfg", constants=consts(**kw), invariants=["EmitInv", "TalliesExact"])
    if simulate:
        r = ctx.tlc("Sweep", cfg, workers=8, coverage=False, simulate={"num": max(1, simulate // 8)},
                    depth=4 * kw["L"] + kw["max_muts"] + 10)
    else:
        r = ctx.tlc("Sweep", cfg, workers=1, coverage=False)
    return r.rec("inst")


def ts_of(inst):
    return build.forest_ts(inst)


def check_binding(inst, ts):
    """The TreeSeq module's model of tskit (edge order, insertion / removal indexes) against
    tskit itself.  Returns a message on disagreement."""
    if build.edge_rows(ts) != [list(e) for e in inst["edges"]]:
        return f"edge table order: tskit {build.edge_rows(ts)} spec {inst['edges']}"
    if (ts.indexes_edge_insertion_order + 1).tolist() != list(inst["ins"]):
        return f"insertion order: tskit {(ts.indexes_edge_insertion_order + 1).tolist()} spec {inst['ins']}"
    if (ts.indexes_edge_removal_order + 1).tolist() != list(inst["rem"]):
        return f"removal order: tskit {(ts.indexes_edge_removal_order + 1).tolist()} spec {inst['rem']}"
    return None


def mutation_ids(inst, ts):
    """ts mutation id of each entry of the spec's sorted mutation sequence"""
    pos = ts.sites_position[ts.mutations_site]
    key = {(int(pos[m]), int(ts.mutations_node[m])): m for m in range(ts.num_mutations)}
    return [key[(int(x), int(u))] for x, u in inst["muts"]]


def inst_key(inst):
    return json.dumps([inst["trees"], inst["muts"], inst.get("sb"), sorted(inst.get("samp", []))])


def as_int_list(a):
    return [int(x) for x in np.asarray(a).tolist()]
