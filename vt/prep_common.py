"""Shared by C28 / C29 / C30 / C31: modules Unary, SplitDisjoint, Preprocess, SiteTimes
<-> the real functions of tsdate/util.py and tsdate/prior.py.

Instances are TSGen instances (see vt/build.forest_tables) with optional extras:
  "samples": node ids flagged as samples (time-0 nodes plus historical / internal ones)
  "sites":   integer positions of all sites (superset of the mutated positions)
Nothing here decides a property: these are builders, abstraction functions (node <-> time,
tree -> parent array per unit cell) and the TreeSeq-model-vs-tskit binding check.
"""

import json

import numpy as np
import tskit

from . import build
from .harness import MachineryError


def tla_set(vals):
    return "{" + ",".join(str(v) for v in vals) + "}"


def tla_bool(b):
    return "TRUE" if b else "FALSE"


def tla_strset(vals):
    return "{" + ",".join(json.dumps(v) for v in vals) + "}"


def gen_consts(NS, NI, L, max_muts, tree_filter="any"):
    return {"NS": NS, "NI": NI, "L": L, "MaxMuts": max_muts, "TreeFilter": json.dumps(tree_filter)}


def ts_of(inst, node_metadata=None, schema=None, populations=0, node_population=None):
    """Real tskit tree sequence of an instance.  Sites are created at inst["sites"] when
    present (else at the mutated positions); node_metadata: optional list of dicts/bytes."""
    tables = build.forest_tables(inst)
    extra = sorted(set(inst.get("sites", [])) - {int(p) for p in tables.sites.position})
    if extra:
        for x in extra:
            tables.sites.add_row(position=float(x), ancestral_state="0")
        tables.sort()
        tables.build_index()
        tables.compute_mutation_parents()
    if populations or node_metadata is not None or schema is not None:
        for _ in range(populations):
            tables.populations.add_row()
        nodes = tables.nodes.copy()
        tables.nodes.clear()
        if schema is not None:
            tables.nodes.metadata_schema = schema
        for u, row in enumerate(nodes):
            md = row.metadata if node_metadata is None else node_metadata[u]
            pop = row.population if node_population is None else node_population[u]
            tables.nodes.append(row.replace(metadata=md, population=pop))
    return tables.tree_sequence()


def check_binding(inst, ts):
    """spec/TreeSeq.tla's model of tskit (edge table order, insertion / removal indexes)
    against tskit itself; a disagreement is a machinery failure, never a verdict."""
    if "edges" in inst and build.edge_rows(ts) != [list(e) for e in inst["edges"]]:
        raise MachineryError(f"TreeSeq edge order: tskit {build.edge_rows(ts)} spec {inst['edges']}")
    if "ins" in inst and (ts.indexes_edge_insertion_order + 1).tolist() != list(inst["ins"]):
        raise MachineryError(f"TreeSeq insertion order: tskit "
                             f"{(ts.indexes_edge_insertion_order + 1).tolist()} spec {inst['ins']}")
    if "rem" in inst and (ts.indexes_edge_removal_order + 1).tolist() != list(inst["rem"]):
        raise MachineryError(f"TreeSeq removal order: tskit "
                             f"{(ts.indexes_edge_removal_order + 1).tolist()} spec {inst['rem']}")


def check_genotypes(inst, ts, key="geno"):
    """The spec's genotype model (sample carries the derived allele iff a mutation sits on
    it or on an ancestor in the local tree) against tskit's variants."""
    if key not in inst:
        return
    G = ts.genotype_matrix()
    pos = [int(p) for p in ts.sites_position]
    samples = [int(u) for u in ts.samples()]
    want = inst[key]  # {pos: [carrier node ids]}
    for j, x in enumerate(pos):
        got = sorted(samples[k] for k in range(len(samples)) if G[j, k] == 1)
        exp = sorted(want.get(str(x), []))
        if got != exp:
            raise MachineryError(f"genotype model: site {x} tskit carriers {got} spec {exp} ({inst['trees']}, "
                                 f"{inst['muts']})")


def mutation_ids(inst, ts):
    """ts mutation id of each entry of the spec's sorted mutation sequence [(pos, node)]"""
    pos = ts.sites_position[ts.mutations_site]
    key = {(int(pos[m]), int(ts.mutations_node[m])): m for m in range(ts.num_mutations)}
    return [key[(int(x), int(u))] for x, u in inst["muts"]]


def inst_key(inst, *extra):
    return json.dumps([inst["trees"], inst["muts"], sorted(inst.get("samples", [])), sorted(inst.get("sites", []))]
                      + [inst.get(k) for k in extra], sort_keys=True)


def parent_rows(ts, positions):
    """parent array of the local tree at each given coordinate (list of lists)"""
    out = []
    tree = tskit.Tree(ts)
    for x in positions:
        tree.seek(float(x))
        out.append([int(tree.parent(u)) for u in range(ts.num_nodes)])
    return out


def dedupe(insts, key=inst_key):
    seen, out = set(), []
    for i in insts:
        k = key(i)
        if k not in seen:
            seen.add(k)
            out.append(i)
    return out


def as_int_list(a):
    return [int(x) for x in np.asarray(a).tolist()]


# ---------------------------------------------------------------------------------------
# C29 / C28: abstraction of a (possibly split) output tree sequence back to input nodes
# ---------------------------------------------------------------------------------------

def decorate(inst, variant):
    """Instance decorations that the specs do not constrain (they must be *copied*): node
    populations, individuals, metadata and schema.  variant in 0..3."""
    import tskit
    N = inst["N"]
    d = {"populations": 0, "node_population": None, "indiv": None, "schema": None, "node_metadata": None}
    if variant in (1, 3):
        d["populations"] = 2
        d["node_population"] = [u % 2 for u in range(N)]
        d["indiv"] = [(u // 2) if u < inst["NS"] else (-1 if u % 2 else inst["NS"] // 2 + 1) for u in range(N)]
    if variant in (1, 2):
        d["schema"] = tskit.MetadataSchema.permissive_json()
        d["node_metadata"] = [{"name": f"n{u}"} if u % 2 == 0 else {} for u in range(N)]
    if variant == 3:
        d["node_metadata"] = [f"raw{u}".encode() for u in range(N)]
    return d


def decorated_ts(inst, variant):
    d = decorate(inst, variant)
    i2 = dict(inst)
    if d["indiv"] is not None:
        i2["indiv"] = d["indiv"]
    return ts_of(i2, node_metadata=d["node_metadata"], schema=d["schema"], populations=d["populations"],
                 node_population=d["node_population"])


def orig_by_time(inst, out_ts):
    """out node -> input node.  Ids below N map to themselves; a node with id >= N is a copy and
    is mapped to the unique input non-sample node with the same time (TSGen gives internal nodes
    pairwise distinct times), or None."""
    N = inst["N"]
    sset = set(inst["samples"])
    by_time = {}
    for u in range(N):
        if u not in sset:
            by_time.setdefault(float(inst["time"][u]), []).append(u)
    res = []
    for n in range(out_ts.num_nodes):
        if n < N:
            res.append(n)
        else:
            c = by_time.get(float(out_ts.nodes_time[n]), [])
            res.append(c[0] if len(c) == 1 else None)
    return res


def where_present(rows):
    """rows[i][n] = parent of n in cell i -> {n: sorted list of cells where n has a parent or a child}"""
    w = {}
    for i, row in enumerate(rows):
        for n, p in enumerate(row):
            if p != -1:
                w.setdefault(n, set()).add(i)
                w.setdefault(p, set()).add(i)
    return {n: sorted(s) for n, s in w.items()}


def is_run(cells):
    return not cells or cells == list(range(cells[0], cells[-1] + 1))
