"""Run TLC / SANY on modules under /verif/spec and parse what they print.

Conventions shared with the TLA+ side (spec/VT.tla):
  * `Emit(tag, rec)` prints one line  "@J <tag> <json>"  (as a TLA+ string literal)
  * trace specs print  "@J reject {...}"  for a failing conjunct and
    "@J accepted {...}" from their POSTCONDITION.
"""

import json
import os
import re
import shutil
import subprocess
import time

VERIF = os.path.dirname(os.path.dirname(os.path.abspath(__file__)))
SPEC = os.path.join(VERIF, "spec")
JAR = "/opt/veriftools/tla/tla2tools.jar"
DEPS = "/opt/veriftools/tla/CommunityModules-deps.jar"


class MachineryError(RuntimeError):
    """TLC/SANY failed for a reason that is not a property violation."""


class TLCResult:
    def __init__(self):
        self.generated = 0  # "states generated"  (= transitions explored + initial)
        self.distinct = 0  # "distinct states found"
        self.depth = 0
        self.records = {}  # tag -> [json objects] emitted with Emit
        self.violated = None  # name of violated invariant / property, if any
        self.error_trace = []  # list of raw state strings
        self.actions = {}  # action name -> (distinct, total) from -coverage
        self.wall = 0.0
        self.stdout = ""
        self.cmd = ""
        self.simulated_traces = 0

    def rec(self, tag):
        return self.records.get(tag, [])


_COV = re.compile(r"^<(\w+) line \d+, col \d+ to line \d+, col \d+ of module (\w+)>: (\d+):(\d+)")
_STATES = re.compile(r"(\d+) states generated(?: \(.*?\))?, (\d+) distinct states found")
_DEPTH = re.compile(r"The depth of the complete state graph search is (\d+)")
_SIMDONE = re.compile(r"The number of states generated: (\d+)")
_SIMTR = re.compile(r"Simulation using seed .* and aril .*")


def write_cfg(path, *, init="Init", next_="Next", spec=None, constants=None, invariants=(),
              properties=(), constraints=(), action_constraints=(), postcondition=None,
              view=None, deadlock=False, extra=""):
    lines = []
    if spec:
        lines.append(f"SPECIFICATION {spec}")
    else:
        lines.append(f"INIT {init}")
        lines.append(f"NEXT {next_}")
    if constants:
        lines.append("CONSTANTS")
        for k, v in constants.items():
            lines.append(f"  {k} {v}" if str(v).startswith("<-") else f"  {k} = {v}")
    for i in invariants:
        lines.append(f"INVARIANT {i}")
    for p in properties:
        lines.append(f"PROPERTY {p}")
    for c in constraints:
        lines.append(f"CONSTRAINT {c}")
    for c in action_constraints:
        lines.append(f"ACTION_CONSTRAINT {c}")
    if postcondition:
        lines.append(f"POSTCONDITION {postcondition}")
    if view:
        lines.append(f"VIEW {view}")
    lines.append(f"CHECK_DEADLOCK {'TRUE' if deadlock else 'FALSE'}")
    if extra:
        lines.append(extra)
    with open(path, "w") as f:
        f.write("\n".join(lines) + "\n")
    return path


def tla_value(v):
    """Python value -> TLA+ expression text usable in a cfg or a generated module."""
    if isinstance(v, bool):
        return "TRUE" if v else "FALSE"
    if isinstance(v, int):
        return str(v)
    if isinstance(v, str):
        return json.dumps(v)
    if isinstance(v, (list, tuple)):
        return "<<" + ", ".join(tla_value(x) for x in v) + ">>"
    if isinstance(v, (set, frozenset)):
        return "{" + ", ".join(tla_value(x) for x in sorted(v, key=repr)) + "}"
    if isinstance(v, dict):
        if not v:
            return "<<>>"
        if all(isinstance(k, str) for k in v):
            return "[" + ", ".join(f"{k} |-> {tla_value(x)}" for k, x in v.items()) + "]"
        return "(" + " @@ ".join(f"{tla_value(k)} :> {tla_value(x)}" for k, x in v.items()) + ")"
    raise TypeError(f"cannot convert {type(v)} to TLA+")


def run_tlc(module, cfg, workdir, *, workers=8, simulate=None, depth=None, seed=None,
            env=None, timeout=900, coverage=True, heap="4g", dfid=None, expect_violation=False,
            spec_dir=SPEC, extra_args=()):
    """Run TLC on spec_dir/module.tla with config file `cfg` (absolute or relative to spec_dir).

    simulate: None or dict(num=int) -> `-simulate num=N` with `-depth depth`.
    Returns TLCResult. Raises MachineryError when TLC itself fails (parse error, evaluation
    error, timeout) -- but an invariant/property violation is *returned*, not raised.
    """
    os.makedirs(workdir, exist_ok=True)
    meta = os.path.join(workdir, f"meta-{module}-{os.getpid()}-{int(time.time() * 1000) % 10**9}")
    if not os.path.isabs(cfg):
        cfg = os.path.join(spec_dir, cfg)
    cmd = ["java", f"-Xmx{heap}", "-XX:+UseParallelGC", "-cp", f"{JAR}:{DEPS}", "tlc2.TLC",
           "-workers", str(workers), "-metadir", meta, "-noGenerateSpecTE", "-config", cfg]
    if coverage and not simulate:
        cmd += ["-coverage", "1"]
    if simulate:
        cmd += ["-simulate", "num=%d" % simulate["num"]]
        cmd += ["-depth", str(depth or 50)]
    elif dfid:
        cmd += ["-dfid", str(dfid)]
    if seed is not None:
        cmd += ["-seed", str(seed)]
    cmd += list(extra_args)
    cmd.append(os.path.join(spec_dir, module + ".tla"))
    e = dict(os.environ)
    if env:
        e.update({k: str(v) for k, v in env.items()})
    t0 = time.time()
    try:
        p = subprocess.run(cmd, cwd=spec_dir, env=e, capture_output=True, text=True, timeout=timeout)
    except subprocess.TimeoutExpired as ex:
        shutil.rmtree(meta, ignore_errors=True)
        raise MachineryError(f"TLC timeout after {timeout}s: {' '.join(cmd)}") from ex
    finally:
        shutil.rmtree(meta, ignore_errors=True)
    r = TLCResult()
    r.wall = time.time() - t0
    r.stdout = p.stdout
    r.cmd = " ".join(cmd)
    in_trace = False
    cur = []
    for line in p.stdout.splitlines():
        if line.startswith('"@J '):
            try:
                s = json.loads(line)
                _, tag, payload = s.split(" ", 2)
                r.records.setdefault(tag, []).append(json.loads(payload))
            except Exception as ex:  # pragma: no cover
                raise MachineryError(f"cannot parse emitted line: {line[:200]}") from ex
            continue
        m = _STATES.search(line)
        if m:
            r.generated, r.distinct = int(m.group(1)), int(m.group(2))
        m = _DEPTH.search(line)
        if m:
            r.depth = int(m.group(1))
        m = _SIMDONE.search(line)
        if m:
            r.generated = max(r.generated, int(m.group(1)))
        m = _COV.match(line)
        if m:
            name = m.group(1)
            d, t = int(m.group(3)), int(m.group(4))
            od, ot = r.actions.get(name, (0, 0))
            r.actions[name] = (od + d, ot + t)
        if line.startswith("Error: Invariant "):
            r.violated = line.split()[2]
            in_trace = True
        elif line.startswith("Error: Action property ") or line.startswith("Error: Temporal properties"):
            r.violated = line.split(":", 1)[1].strip()
            in_trace = True
        elif line.startswith("Error: Deadlock reached"):
            r.violated = "Deadlock"
            in_trace = True
        if in_trace:
            if line.startswith("State ") or line.startswith("Error: The behavior"):
                if cur:
                    r.error_trace.append("\n".join(cur))
                cur = [line]
            elif cur and (line.startswith("/\\") or line.strip() == "" or line.startswith("  ")):
                if line.strip():
                    cur.append(line)
    if cur:
        r.error_trace.append("\n".join(cur))
    ok_end = ("Model checking completed" in p.stdout or "Finished in" in p.stdout
              or "The number of states generated" in p.stdout)
    if r.violated is None:
        if p.returncode != 0 or not ok_end or "Error:" in p.stdout:
            tail = "\n".join(p.stdout.splitlines()[-40:])
            raise MachineryError(f"TLC failed (rc={p.returncode}) for {module} / {cfg}:\n{tail}\n{p.stderr[-2000:]}")
    return r


def sany(module, spec_dir=SPEC):
    cmd = ["java", "-cp", f"{JAR}:{DEPS}", "tla2sany.SANY", os.path.join(spec_dir, module + ".tla")]
    p = subprocess.run(cmd, cwd=spec_dir, capture_output=True, text=True, timeout=120)
    ok = p.returncode == 0 and "Semantic errors" not in p.stdout and "***Parse Error***" not in p.stdout \
        and "Fatal errors" not in p.stdout
    return ok, p.stdout + p.stderr
