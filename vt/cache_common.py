"""C36 machinery: run several real `ConditionalCoalescentTimes(n)` constructions as gated
threads ("processes") whose file-system calls are released one at a time in the order a
TLC behaviour of spec/Cache.tla prescribes; observe the real file system after each step.

Only the *scheduling points* are shimmed (isfile / exists, genfromtxt, savetxt's open-write-
close, os.replace / os.rename, os.getpid); the operations themselves are the real ones.
"""

import os
import threading

import numpy as np

ROW = 50  # bytes per row written by np.savetxt("%.18e %.18e\n") for non-negative numbers


class Abandon(BaseException):
    pass


class World:
    """Gates + shims for one schedule replay in directory `cache_dir`."""

    def __init__(self, cache_dir, n):
        self.dir = os.path.realpath(cache_dir)
        self.n = n
        self.cv = threading.Condition()
        self.permit = {}
        self.arrivals = {}   # p -> number of gate arrivals
        self.at = {}         # p -> (gate name, info) or ("finished", None)
        self.events = []     # (p, gate, info) in real order
        self.watch = None    # a path whose on-disk content is recorded at every gate (-> self.seen)
        self.seen = []
        self.published = []  # (p, target name, bytes on disk in the source file when rename/replace is called)
        self.threads = {}
        self.results = {}
        self.errors = {}
        self.abort = False
        self.tl = threading.local()
        self._orig = {}

    # ---- gates -------------------------------------------------------------------
    def _proc(self):
        if getattr(self.tl, "inside", 0):
            return None  # nested call from inside a shimmed numpy / os operation
        return getattr(self.tl, "p", None)

    def _real(self, fn, *a, **kw):
        self.tl.inside = getattr(self.tl, "inside", 0) + 1
        try:
            return fn(*a, **kw)
        finally:
            self.tl.inside -= 1

    def _mine(self, path):
        try:
            return os.path.realpath(os.fspath(path)).startswith(self.dir)
        except TypeError:
            return False

    def gate(self, name, info=None):
        p = self._proc()
        if p is None:
            return
        if self.watch is not None:
            try:
                with open(self.watch, "rb") as f:
                    self.seen.append((p, name, f.read()))
            except OSError:
                self.seen.append((p, name, None))
        with self.cv:
            self.events.append((p, name, info))
            self.at[p] = (name, info)
            self.arrivals[p] = self.arrivals.get(p, 0) + 1
            self.cv.notify_all()
            while not self.permit.get(p) and not self.abort:
                self.cv.wait()
            if self.abort:
                raise Abandon()
            self.permit[p] = False

    # ---- shims -------------------------------------------------------------------
    def install(self):
        import os.path as osp
        w = self
        o = self._orig
        o["isfile"], o["exists"] = osp.isfile, osp.exists
        o["genfromtxt"], o["savetxt"] = np.genfromtxt, np.savetxt
        o["replace"], o["rename"], o["getpid"] = os.replace, os.rename, os.getpid

        def isfile(path):
            if w._proc() is not None and w._mine(path):
                w.gate("stat", os.path.basename(os.fspath(path)))
            return w._real(o["isfile"], path)

        def exists(path):
            if w._proc() is not None and w._mine(path) and os.path.realpath(os.fspath(path)) != w.dir:
                w.gate("stat", os.path.basename(os.fspath(path)))
            return w._real(o["exists"], path)

        def genfromtxt(fname, *a, **kw):
            if w._proc() is not None and w._mine(fname):
                w.gate("read", os.path.basename(os.fspath(fname)))
            return w._real(o["genfromtxt"], fname, *a, **kw)

        class GatedFile:
            def __init__(self, path):
                w.gate("open", os.path.basename(path))
                self.fd = os.open(path, os.O_WRONLY | os.O_CREAT | os.O_TRUNC, 0o644)
                self.closed = False

            def write(self, s):
                if not s:
                    return 0
                w.gate("write", len(s))
                b = s.encode() if isinstance(s, str) else s
                os.write(self.fd, b)
                return len(s)

            def flush(self):
                pass

            def close(self):
                if not self.closed:
                    w.gate("close")
                    os.close(self.fd)
                    self.closed = True

        def savetxt(fname, X, *a, **kw):
            if w._proc() is not None and not hasattr(fname, "write") and w._mine(fname):
                fh = GatedFile(os.fspath(fname))
                try:
                    o["savetxt"](fh, X, *a, **kw)
                    fh.close()
                except Abandon:
                    if not fh.closed:
                        os.close(fh.fd)
                    raise
                return None
            return o["savetxt"](fname, X, *a, **kw)

        def on_disk(a):
            """what another process (or a later run, if this one stops right after the rename) finds in the file:
            the bytes that have reached the file system, not what still sits in a user-space buffer"""
            def rd():
                with open(a, "rb") as f:
                    return f.read()
            try:
                return w._real(rd)
            except OSError:
                return None

        def replace(a, b, *x, **kw):
            if w._proc() is not None and w._mine(b):
                w.published.append((w._proc(), os.path.basename(os.fspath(b)), on_disk(a)))
                w.gate("rename", (os.path.basename(os.fspath(a)), os.path.basename(os.fspath(b))))
            return o["replace"](a, b, *x, **kw)

        def rename(a, b, *x, **kw):
            if w._proc() is not None and w._mine(b):
                w.published.append((w._proc(), os.path.basename(os.fspath(b)), on_disk(a)))
                w.gate("rename", (os.path.basename(os.fspath(a)), os.path.basename(os.fspath(b))))
            return o["rename"](a, b, *x, **kw)

        def getpid():
            p = w._proc()
            return o["getpid"]() if p is None else 100000 + int(p)

        osp.isfile, osp.exists = isfile, exists
        np.genfromtxt, np.savetxt = genfromtxt, savetxt
        os.replace, os.rename, os.getpid = replace, rename, getpid

    def uninstall(self):
        import os.path as osp
        o = self._orig
        osp.isfile, osp.exists = o["isfile"], o["exists"]
        np.genfromtxt, np.savetxt = o["genfromtxt"], o["savetxt"]
        os.replace, os.rename, os.getpid = o["replace"], o["rename"], o["getpid"]

    # ---- processes -----------------------------------------------------------------
    def spawn(self, p):
        from tsdate import prior

        def body():
            self.tl.p = p
            try:
                cct = prior.ConditionalCoalescentTimes(self.n)
                self.results[p] = np.array(cct.approx_priors, dtype=float)
            except Abandon:
                pass
            except BaseException as ex:  # noqa: BLE001
                self.errors[p] = ex
            finally:
                with self.cv:
                    self.at[p] = ("finished", None)
                    self.arrivals[p] = self.arrivals.get(p, 0) + 1
                    self.cv.notify_all()

        t = threading.Thread(target=body, daemon=True)
        self.threads[p] = t
        with self.cv:
            before = self.arrivals.get(p, 0)
            t.start()
            self._wait_arrival(p, before)

    def _wait_arrival(self, p, before, timeout=600):
        ok = self.cv.wait_for(lambda: self.arrivals.get(p, 0) > before, timeout=timeout)
        if not ok:
            raise RuntimeError(f"process {p} did not reach a gate")

    def step(self, p):
        """release p from its current gate; returns the gate it was at"""
        with self.cv:
            where = self.at[p]
            if where[0] == "finished":
                raise RuntimeError(f"process {p} already finished")
            before = self.arrivals[p]
            self.permit[p] = True
            self.cv.notify_all()
            self._wait_arrival(p, before)
            return where

    def teardown(self):
        with self.cv:
            self.abort = True
            self.cv.notify_all()
        for t in self.threads.values():
            t.join(timeout=10)
        self.uninstall()


def correct_table(n):
    """the table a fresh computation produces (real code, no file system)"""
    from tsdate import prior
    t = np.zeros((n, 2))
    tips = np.arange(2, n + 1)
    t[1:, 0] = tips / n
    t[1:, 1] = prior.conditional_coalescent_variance(n + 1)[tips]
    return t


def chunks_of_file(path, correct_bytes, n):
    """file content -> list of chunk ids.  A chunk is one write() of the reference file (one line: a
    table row, or a header line if the code writes one).  id = line index + 1 if the line equals the
    reference line, 0 for a hole of NULs, -2 for anything else.  Lines need not have a fixed width."""
    if not os.path.exists(path):
        return None
    b = open(path, "rb").read()
    ref = correct_bytes.splitlines(keepends=True)
    out = []
    pos = 0
    k = 0
    while pos < len(b):
        want = ref[k] if k < len(ref) else None
        if want is not None and b[pos:pos + len(want)] == want:
            out.append(k + 1)
            pos += len(want)
        elif want is not None and b[pos:pos + len(want)].strip(b"\0") == b"" and len(b[pos:pos + len(want)]) == len(want):
            out.append(0)
            pos += len(want)
        else:
            out.append(-2)
            nl = b.find(b"\n", pos)
            pos = len(b) if nl < 0 else nl + 1
        k += 1
    return out


def chunks_of_table(arr, correct, header_chunks=0):
    """in-memory table -> chunk ids as Cache.tla counts them (header chunks first)"""
    if arr is None:
        return None
    head = list(range(1, header_chunks + 1))
    if np.size(arr) == 0:
        return head if header_chunks else []
    arr = np.atleast_2d(arr)
    out = list(head)
    for k in range(arr.shape[0]):
        if arr.ndim == 2 and arr.shape[1] == 2 and k < correct.shape[0] and np.array_equal(arr[k], correct[k]):
            out.append(header_chunks + k + 1)
        else:
            out.append(-2)
    return out
