"""C13 -- maximization picks ordered grid timepoints by the documented rule.

J1  TLC, module IOMax: outside_maximization as a state machine over DAGs whose nodes may have
    several parents and parallel edges (the literal loop over a child's edges: running minimum
    youngest_par_index, slicing, per-factor normalisation, stale tail of `result`, np.argmax
    taking the first maximiser) against the documented rule with arg-max *sets* (ties free):
    invariants MaxRule, Ordered (child index <= parent index on every edge), GridPoint and
    EdgeOrderFree (the choice does not depend on the order of the child's edges), for every
    admissible node schedule.
J2  every explored instance is replayed into the real BeliefPropagation.outside_maximization in
    both probability spaces: `fit.inside` is set to the instance's table and scipy's Poisson
    pmf/logpmf seen by tsdate.discrete is replaced by a lookup in the instance's factor table
    (the spec's CONSTANT operator); the chosen indices must equal the specification machine's,
    or, where float ties break differently, lie in the spec rule's arg-max sets (mirror,
    synchronised with TLC's emitted sets in the same run).
    Real runs: tsdate.maximization(return_fit=True) on simulated multi-tree inputs (nodes with
    several parents) and polytomies, each also with its non-sample node ids randomly permuted (ids
    not in age order), both spaces: fit.posterior_mean is a grid point, ordered
    along every edge, and lies in the mirror's arg-max set computed from the real fit.inside and
    Poisson factors (relative tie tolerance 1e-9).
"""

import json

from .. import bp_common as bp
from .. import harness

PID = "C13"


def replay_inst(ctx, inst):
    for space in bp.SPACES:
        bp.replay_max(ctx, PID, inst, space)
    ctx.traces += 1
    ctx.sample({"kind": "IOMax behaviour replayed into outside_maximization (both spaces)", "edges": inst["edges"],
                "inside": inst["inside"], "lik": inst["lik"], "maxidx": inst["maxidx"], "argmax_sets": inst["sets"]},
               limit=3)


def real_run(ctx, name, ts, mu, Ne, space, eps):
    inst = {"kind": "real", "name": name, "ts": bp.ts_instance(ts), "mu": mu, "Ne": Ne, "space": space, "eps": eps}
    try:
        dated, fit = bp.run_method("maximization", ts, mu, Ne, space, eps=eps)
    except Exception as ex:  # noqa: BLE001
        ctx.count("maximization_raised_" + type(ex).__name__)
        return
    ties = bp.check_real_maximization(ctx, PID, name, ts, fit, eps, mu, space, inst)
    ctx.evaluations += 1
    ctx.traces += 1
    if ties is not None:
        ctx.count("real_near_ties", ties)
        if ts.num_trees > 1:
            ctx.nontriv(("real", name, space, eps))
        ctx.sample({"kind": "maximization on a simulated input", "name": name, "space": space, **bp.ts_summary(ts)},
                   limit=5)


def run(ctx):
    harness.setup_repo_env(ctx.work)
    q = ctx.quick
    ctx.rule = ("table instances: DAG on <= 4 non-sample nodes (<= 5 edges, parallel edges) x inside tables x positive "
                "factor tables x grid 2..3; non-trivial when some node has >= 2 parent edges (running minimum and "
                "slicing exercised); real runs: inputs with more than one tree (nodes with several parents); distinct "
                "by (edges, tables) resp. (input, space, eps)")
    ctx.assumptions = [
        "factor tables are positive (the code adds eps > 0 to every time difference, so Poisson factors are positive "
        "unless they underflow) and every inside row has a positive entry (standardised rows have maximum 1)",
        "arg-max ties are free (statement); near-ties within 1e-9 (relative, log scale) are accepted on real runs",
        "Poisson logpmf (scipy) is a trusted primitive of the mirror; mirror proved equal to TLC on the integer scope per run",
    ]
    _, insts = bp.max_run(ctx, "c13_a", NS=2, NI=3, G=2, mult=1, max_edges=2 if q else 3, ins=(0, 1), lik=(1, 2),
                          emit=True)
    _, more = bp.max_run(ctx, "c13_b", simulate=900 if q else 24000, NS=2, NI=4, G=3, mult=2, max_edges=5,
                         ins=(0, 1, 2), lik=(1, 2, 3), emit=True)
    sim = list(more)
    if not q:
        _, more = bp.max_run(ctx, "c13_c", NS=2, NI=3, G=2, mult=2, max_edges=2, ins=(0, 1), lik=(1, 2), emit=True)
        insts += more
    bp.tick(ctx, "tlc")
    bp.tsd()
    bp.tick(ctx, "import_tsdate")
    cap = 1000 if q else 10000
    ctx.exhaustive = len(insts) <= cap
    if len(insts) > cap:
        multi = [i for i in insts if len(i["edges"]) >= 2]
        insts = ctx.rng.sample(multi, min(cap, len(multi)))
    seen = set()
    for inst in insts + sim:
        k = json.dumps([inst["edges"], inst["inside"], inst["lik"]])
        if k in seen:
            continue
        seen.add(k)
        bp.mirror_sync_max(ctx, inst)
        replay_inst(ctx, inst)
    bp.tick(ctx, "replay_shim")
    inputs = bp.corpus(ctx, 8 if q else 40, 1 if q else 8, small=q) + (bp.sparse_corpus(ctx, 40) if not q else [])
    import random
    for k, inp in enumerate(inputs):
        # node ids that do not follow age (added after seed C13-b: the traversal "children before parents" was
        # ordered by child id instead of child age, which only shows when a node has a larger id than its parent)
        ts_r, _ = bp.renumber(inp.ts, random.Random(ctx.seed + 7 * k))
        for space in bp.SPACES:
            # eps from negligible up to the order of the grid spacing (large values added after seed C13-a:
            # eps as a floor instead of an offset only matters when eps is comparable to the spacing)
            eps = (1e-8, 1e-3, 0.02 * inp.Ne, 0.3 * inp.Ne)[k % 4]
            real_run(ctx, inp.name, inp.ts, inp.mu, inp.Ne, space, eps)
            real_run(ctx, inp.name + "/renumbered", ts_r, inp.mu, inp.Ne, space, eps)
    bp.tick(ctx, "real_runs")


def replay(ctx, body):
    harness.setup_repo_env(ctx.work)
    inst = body["instance"]
    if inst.get("kind") == "real":
        real_run(ctx, inst["name"], bp.ts_from_instance(inst["ts"]), inst["mu"], inst["Ne"], inst["space"], inst["eps"])
    else:
        replay_inst(ctx, inst)
