"""C26 -- changepoint helpers meet their specification.

J1  TLC: module Changepoints.
      fixed:   numpy's searchsorted(side="right") as a binary search over cross-multiplied
               integers with one tie bit per boundary, plus the two post-processing lines,
               against the defining inequality (last index with Y[i]/Y[n] <= k/E; either
               neighbour at an exact tie), for every count vector x epochs in scope.
      poisson: the PELT dynamic programme transcribed column by column (F, candidate
               dictionary, strict-< minimise, prune) with costs as exact rational powers
               (penalty = 2 ln K), against the optimum over all feasible segmentations and
               the prefix-optimum loop invariant.  Variants: deviance 0 vs NaN for zero
               counts; pruning as written / off / only without minimum constraints.  TLC is
               additionally *expected to refute* optimality for the variants that mirror
               the code where the design is unsound (reported in the evidence).
J2  every finished behaviour (instance, admissible results) is replayed into the real
    _fixed_changepoints / _poisson_changepoints (compiled); the result must be admissible.
J3  seeded larger random instances are run through the real helpers and judged by TLC
    (module Changepoints with Source = "file": TLC computes the admissible sets).
"""

from .. import harness
from .. import rescale_common as rc

PID = "C26"
VARIANTS = ("zero/off", "zero/noconstr", "zero/impl", "nan/impl")


def run(ctx):
    harness.setup_repo_env(ctx.work)
    q = ctx.quick
    ctx.rule = ("instances = count vectors (entries >= 0, total > 0) x epochs for the fixed helper; count vectors x "
                "positive offset vectors (0 allowed when min_offset >= 1) x penalty 2 ln K x min_counts x min_offset "
                "with the whole vector feasible, for the Poisson helper; non-trivial = fixed: >= 2 observations and "
                ">= 2 epochs; poisson: >= 2 feasible segmentations; distinct by instance")
    ctx.assumptions = ["penalties are 2 ln K for integer K so that exp(-cost/2) is rational",
                       "a zero-count segment has deviance 0 (limit y log y -> 0)",
                       "offsets are positive unless min_offset >= 1 makes a zero-offset segment infeasible",
                       "instances without any feasible segmentation are outside the statement",
                       "floating point decides the comparison only at exact rational ties (either side accepted)"]
    # J3 instances: larger seeded random ones; TLC computes their admissible sets (Source "file" / "both")
    rows = rc.random_cp_instances(ctx.rng, 60 if q else 600, 40 if q else 400)
    path = rc.write_ndjson(rc.work_file(ctx, "c26_inst.ndjson"), rows)
    # J1 + generation for J2 in one exhaustive run (quick: the random instances ride along, to save a JVM start)
    scope = dict(max_len=3 if q else 4, max_count=3, max_total=3 if q else 4, epochs=(1, 2, 3, 4),
                 ks=(1, 2) if q else (1, 3), mcs=(0, 1) if q else (0, 1, 2), mos=(0, 1),
                 offs=(1, 2), variants=VARIANTS[1:], emit=True)
    acts = ("Pick", "AddCount", "AddOff", "RunFixed", "StartPoisson", "Column")
    if q:
        r = rc.cp_run(ctx, "c26_j1", rc.SOUND_INVARIANTS + ["EmitInv"], workers=8, inst_file=path, source="both",
                      required=acts + ("Load",), **scope)
    else:
        r = rc.cp_run(ctx, "c26_j1", rc.SOUND_INVARIANTS + ["EmitInv"], workers=8, required=acts, **scope)
    fixed = [g for g in rc.group_fixed(r.rec("fixed")) if g["id"] == 0]
    pois = [g for g in rc.group_poisson(r.rec("pois")) if g["id"] == 0]
    fixed_big = [g for g in rc.group_fixed(r.rec("fixed")) if g["id"] != 0]
    pois_big = [g for g in rc.group_poisson(r.rec("pois")) if g["id"] != 0]
    ctx.exhaustive = True
    if not q:
        r2 = rc.cp_run(ctx, "c26_j1b", rc.SOUND_INVARIANTS + ["EmitInv"], workers=8, kinds=("fixed",), max_len=5,
                       max_count=4, max_total=8, epochs=(2, 3, 4, 5, 6), emit=True, required=("RunFixed",))
        fixed += rc.group_fixed(r2.rec("fixed"))
        # the programme without any pruning (plain optimal partitioning), K = 2
        rc.cp_run(ctx, "c26_j1c", rc.SOUND_INVARIANTS, workers=8, kinds=("poisson",), max_len=4, max_count=3,
                  max_total=4, ks=(2,), mcs=(0, 1), mos=(0, 1), variants=VARIANTS[:1], required=("Column",))
        # expected refutations: the design as first implemented is unsound (DESIGN section 9 item 10)
        for name, variant, extra in (("prune", "zero/impl", dict(mcs=(1,), mos=(0,))),
                                     ("zero", "nan/impl", dict(mcs=(0,), mos=(0,)))):
            rr = rc.cp_run(ctx, "c26_refute_" + name, ["PoissonOptimalAnyVariant"], must_hold=False, workers=2,
                           kinds=("poisson",), max_len=4 if name == "prune" else 2, max_count=3, max_total=4, ks=(1,),
                           offs=(1,), variants=(variant,), **extra)
            ctx.count("model_refuted_" + variant.replace("/", "_"), 1 if rr.violated else 0)
            if not rr.violated:
                raise harness.MachineryError(f"TLC was expected to refute optimality of variant {variant}")
        r3 = rc.cp_run(ctx, "c26_j3", ["FixedMonotone", "ResultIsSegmentation", "DictOK", "EmitInv"], inst_file=path,
                       source="file", emit=True, workers=8, required=("Load",))
        fixed_big = rc.group_fixed(r3.rec("fixed"))
        pois_big = rc.group_poisson(r3.rec("pois"))
    if not (fixed and pois and fixed_big and pois_big):
        raise harness.MachineryError("vacuous run: an instance class is empty")
    ctx.count("random_instances_judged_by_tlc", len(fixed_big) + len(pois_big))

    for inst in fixed + fixed_big:
        rc.check_fixed(ctx, PID, inst)
        ctx.traces += 1
    for inst in pois + pois_big:
        rc.check_poisson(ctx, PID, inst)
        ctx.traces += 1
    ctx.count("fixed_instances", len(fixed) + len(fixed_big))
    ctx.count("poisson_instances", len(pois) + len(pois_big))


def replay(ctx, body):
    harness.setup_repo_env(ctx.work)
    b = body["instance"]
    if b["kind"] == "fixed":
        rc.check_fixed(ctx, PID, b["inst"])
    else:
        rc.check_poisson(ctx, PID, b["inst"])
