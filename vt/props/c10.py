"""C10 -- inside-outside is exact on a single tree.

J1  TLC, module InsideOutside: inside_pass / outside_pass with the code's packed
    lower-triangular layout, index tables and reduceat row/column sums, over abstract integer
    prior / likelihood tables, on every single-tree topology in scope (polytomies, unary nodes)
    and every admissible node schedule; invariants: posterior numerators = brute-force marginal
    of the discretised model, running marginal likelihood (product of the standardisation
    maxima times the root sum) = brute-force normaliser, every division exact, a NaN row
    ("dangling nodes") exactly when the model has no mass.
J2  the explored instances are replayed into the real BeliefPropagation through table doubles
    of Likelihoods and LogLikelihoods (only the two likelihood getters are replaced): inside
    rows, outside rows, normalised posteriors and the returned marginal likelihood must equal
    the exact rationals TLC emitted (rtol 1e-12 linear, 1e-9 logarithmic).
    Then the public tsdate.inside_outside with real prior grids and real Poisson likelihoods on
    random single trees against the mirror of the spec's Marginal / Normaliser operators, which
    must first reproduce TLC's values on the integer scope (mirror_sync).
"""

import random

from .. import bp_common as bp
from .. import harness

PID = "C10"


def replay_double(ctx, inst):
    done = False
    for space in bp.SPACES:
        for std in ((True, False) if inst.get("NI", 0) >= 2 else (True,)):
            done = bp.replay_io(ctx, PID, inst, space, outside_standardize=std) or done
    if done:
        ctx.traces += 1
        if bp.io_nontrivial(inst):
            ctx.nontriv(bp.io_key(inst))
            ctx.sample({"kind": "InsideOutside behaviour replayed into BeliefPropagation (both spaces)",
                        "par": inst["par"], "prior": inst["prior"], "likf": inst["likf"], "lik": inst["lik"],
                        "posterior_numerators": inst["post"], "normaliser": inst["Z"]}, limit=3)


def poisson_cases(ctx, n):
    rng = random.Random(ctx.seed * 7919 + 11)
    k = 0
    tries = 0
    while k < n and tries < 5 * n:
        tries += 1
        leaves = rng.choice([2, 3, 3, 4, 4, 5, 6])
        par = bp.random_topology(rng, leaves)
        NI = len(par) - leaves
        G = rng.choice([3, 4, 5]) if NI <= 4 else 3
        perm_internal = list(range(leaves, len(par)))
        rng.shuffle(perm_internal)
        # the root may carry mutations too: they lie above the root, on no edge (second seed C10-b)
        muts = [rng.choice([0, 0, 1, 2, 3, 5]) if p >= 0 else rng.choice([0, 0, 1, 2]) for p in par]
        grid = G if rng.random() < 0.6 else sorted({0.0} | {round(rng.uniform(0.05, 3.0), 3) for _ in range(G - 1)})
        if not isinstance(grid, int) and len(grid) < 3:
            continue
        args = dict(par=par, perm_internal=perm_internal, muts=muts, G_or_grid=grid, Ne=rng.choice([0.5, 1.0, 10.0]),
                    mu=rng.choice([0.1, 1.0, 2.5]), eps=rng.choice([1e-6, 1e-3, 0.25]), seqlen=rng.choice([1, 2, 10]),
                    prior_distr=rng.choice(["lognorm", "gamma"]), rng_tag=tries)
        ok = False
        for space in bp.SPACES:
            ok = bp.poisson_case(ctx, PID, space=space, **args) or ok
        if ok:
            k += 1
            ctx.traces += 1
            ctx.sample({"kind": "inside_outside on a single tree vs mirror of Marginal/Normaliser", "par": par,
                        "muts": muts, "grid": grid}, limit=5)


def run(ctx):
    harness.setup_repo_env(ctx.work)
    q = ctx.quick
    ctx.rule = ("instance = single rooted tree (<= 4 leaves, <= 3 internal nodes, polytomies and unary nodes) x integer "
                "prior / edge-likelihood tables over a grid of 2..3 timepoints; counted as non-trivial when the "
                "model is proper (positive mass), has an internal child (so the triangular packing is used) and "
                "some posterior row has mass on more than one timepoint; Poisson cases: >= 2 internal nodes and "
                ">= 1 mutation; distinct by (topology, numbering, tables) resp. (topology, mutations, grid, space)")
    ctx.assumptions = [
        "small-scope: TLC scope is <= 4 leaves, <= 3 internal nodes, grid <= 3, table entries 0..2",
        "inputs have >= 2 samples (BeliefPropagation finds roots with ts.trees(root_threshold=2))",
        "outside rows are modelled up to the positive per-row scalar the code divides by (cancels in to_probabilities)",
        "guard proper_model: instances whose model has no mass (NaN row / 'dangling nodes' ValueError) are not compared",
        "the standardize() step of the wrapper is compared only when the posterior has mass beyond timepoint 0 "
        "(it divides by the row maximum over timepoints 1..; real prior grids have no mass at timepoint 0)",
        "Poisson pmf (scipy) is a trusted primitive of the mirror; mirror proved equal to TLC on the integer scope per run",
    ]
    # J1 + J2, exhaustive small scope
    _, insts = bp.io_run(ctx, "c10_a", NS=3, NI=2, G=2, vals=(0, 1), emit=True)
    # every topology with 2..4 leaves on pseudo-random tables, all schedules
    _, more = bp.io_run(ctx, "c10_b", NS=4, NI=2, G=3, vals=(0, 1, 2), mode="hash", seeds=range(1, 9 if q else 40),
                        canon=False, emit=True)
    insts2 = list(more)
    _, more = bp.io_run(ctx, "c10_c", simulate=1200 if q else 20000, NS=4, NI=3, G=3, vals=(0, 1, 2), min_kids=1,
                        canon=False, emit=True)
    insts2 += more
    if not q:
        _, more = bp.io_run(ctx, "c10_d", NS=2, NI=1, G=3, vals=(0, 1, 2), emit=True)
        insts += more
        for ns, ni in ((2, 1), (3, 1), (4, 1), (3, 2), (4, 3)):
            _, more = bp.io_run(ctx, f"c10_e{ns}{ni}", NS=ns, NI=ni, G=3, vals=(0, 1, 2), mode="hash",
                                seeds=range(1, 25), canon=False, emit=True)
            insts2 += more
    bp.tick(ctx, "tlc")
    proper = [i for i in insts if i["status"] == "done"]
    ctx.count("instances_emitted", len(insts) + len(insts2))
    ctx.count("improper_instances_emitted", len(insts) - len(proper) + sum(1 for i in insts2 if i["status"] != "done"))
    cap = 2000 if q else 20000
    ctx.exhaustive = len(proper) <= cap
    if len(proper) > cap:
        proper = ctx.rng.sample(proper, cap)
    seen = set()
    todo = []
    for i in proper + [i for i in insts2 if i["status"] == "done"]:
        k = bp.io_key(i)
        if k not in seen:
            seen.add(k)
            todo.append(i)
    for inst in todo:
        bp.mirror_sync_io(ctx, inst)
    bp.tick(ctx, "mirror_sync")
    bp.tsd()
    bp.tick(ctx, "import_tsdate")
    for inst in todo:
        replay_double(ctx, inst)
    bp.tick(ctx, "replay_doubles")
    poisson_cases(ctx, 28 if q else 500)
    bp.tick(ctx, "poisson_cases")


def replay(ctx, body):
    harness.setup_repo_env(ctx.work)
    inst = body["instance"]
    if inst.get("kind") == "poisson":
        bp.poisson_case(ctx, PID, par=inst["par"], perm_internal=inst["perm"], muts=inst["muts"], G_or_grid=inst["grid"],
                        Ne=inst["Ne"], mu=inst["mu"], eps=inst["eps"], seqlen=inst["seqlen"], space=inst["space"],
                        prior_distr=inst["prior"], rng_tag=inst.get("tag"))
    else:
        replay_double(ctx, inst)
