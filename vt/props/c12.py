"""C12 -- linear and logarithmic probability spaces agree.

J1  TLC, module ProbSpace: for every primitive of tsdate/discrete.py that differs between
    class Likelihoods and class LogLikelihoods (combine, ratio with and without div_0_null,
    rowsum_lower_tri, rowsum_upper_tri, marginalize / the streaming logsumexp loop,
    scale_geometric, and NodeTimeValues.force_probability_space) the commuting diagram
    Exp(LogOp(Log x)) = LinOp(x) over all combinations of the value classes {0, positive, NaN}
    with IEEE conventions -- the classes that occur when linear space neither underflows nor
    overflows.  With +inf admitted (overflow) TLC must find the diagram broken (named deviation:
    logsumexp of two +inf is NaN, their linear sum is +inf).
J2  every case is replayed into the real methods of both classes: each must return what the
    specification's linear resp. logarithmic operator returns (class and value, rel 1e-12).
    The InsideOutside instances of C10 bind the composite passes in both spaces.
Real pairs of runs (tsdate.inside_outside, tsdate.maximization) in linear and logarithmic
    space on simulated inputs: node times, posteriors (inside_outside) and chosen timepoints
    (maximization, unless within 1e-9 of an arg-max tie) agree (rtol 1e-7); guard from the
    statement: pairs where the linear run has 0 / inf / NaN in inside, outside or g_i where
    the logarithmic run is finite are skipped and counted.
"""

import numpy as np

from .. import bp_common as bp
from .. import harness

PID = "C12"


def guard_no_underflow(f_lin, f_log, names):
    bad = 0
    for nm in names:
        a = getattr(f_lin, nm, None)
        b = getattr(f_log, nm, None)
        if a is None or b is None:
            continue
        a = np.asarray(a.grid_data if hasattr(a, "grid_data") else a, dtype=float)
        b = np.asarray(b.grid_data if hasattr(b, "grid_data") else b, dtype=float)
        bad += int(np.sum(np.isfinite(b) & ((a == 0) | ~np.isfinite(a))))
    return bad


def space_pair(ctx, name, ts, mu, Ne, method, eps, cache_inside):
    inst = {"kind": "pair", "name": name, "ts": bp.ts_instance(ts), "mu": mu, "Ne": Ne, "method": method, "eps": eps,
            "cache_inside": cache_inside}
    kw = {"eps": eps}
    if cache_inside:
        kw["cache_inside"] = True
    try:
        d_log, f_log = bp.run_method(method, ts, mu, Ne, bp.LOG, **kw)
    except Exception as ex:  # noqa: BLE001
        ctx.count("log_run_raised_" + type(ex).__name__)
        return
    try:
        d_lin, f_lin = bp.run_method(method, ts, mu, Ne, bp.LIN, **kw)
    except Exception as ex:  # noqa: BLE001   (linear space gave up: under/overflow is the usual cause)
        ctx.count("guard_skipped_linear_run_raised_" + type(ex).__name__)
        return
    names = ["inside"] + (["outside"] if method == "inside_outside" else []) + (["g_i"] if cache_inside else [])
    if guard_no_underflow(f_lin, f_log, names):
        ctx.count("guard_skipped_pairs_linear_under_or_overflow")
        return
    sig = f"{PID}/{method}"
    if method == "maximization":
        ties = bp.check_real_maximization(ctx, PID, name, ts, f_log, eps, mu, bp.LOG, inst, report=False)
        if ties is not None and ties > 0:      # (None: the rule itself is broken -- C13's business; compare anyway)
            ctx.count("guard_skipped_pairs_argmax_tie")
            return
        a, b = np.asarray(f_lin.posterior_mean), np.asarray(f_log.posterior_mean)
        if not np.array_equal(a, b):
            ctx.violation(f"{sig}/timepoints-differ", inst,
                          f"{name}: chosen timepoints differ at nodes {np.flatnonzero(a != b).tolist()[:8]}", "pairs")
    else:
        pa = np.asarray(f_lin.posterior_grid.grid_data, dtype=float)
        pb = np.asarray(f_log.posterior_grid.grid_data, dtype=float)
        if pa.shape != pb.shape or not np.allclose(pa, pb, rtol=1e-7, atol=1e-13):
            ctx.violation(f"{sig}/posteriors-differ", inst,
                          f"{name}: posterior grids differ, max abs diff {float(np.nanmax(np.abs(pa - pb))):.3g}", "pairs")
    ta, tb = np.asarray(d_lin.nodes_time), np.asarray(d_log.nodes_time)
    if not np.allclose(ta, tb, rtol=1e-7, atol=0):
        w = int(np.argmax(np.abs(ta - tb)))
        ctx.violation(f"{sig}/node-times-differ", inst, f"{name}: node {w}: linear {ta[w]!r} logarithmic {tb[w]!r}", "pairs")
    ctx.evaluations += 1
    ctx.traces += 1
    ctx.nontriv(("pair", name, method, eps, cache_inside))
    ctx.sample({"kind": "linear/logarithmic run pair", "name": name, "method": method, **bp.ts_summary(ts)}, limit=4)


def run(ctx):
    harness.setup_repo_env(ctx.work)
    q = ctx.quick
    ctx.rule = ("primitive cases: (operation, flag, tuple of value classes from {0, 1/2, 1, 2, NaN} resp. perfect squares "
                "for scale_geometric), all combinations, rows of the triangular sums for grid 2 (quick) and 3 "
                "(thorough); every case is non-trivial when it contains a 0 or NaN argument or more than one "
                "positive one; run pairs: one per (input, method, eps, cache_inside) that passes the statement's guard")
    ctx.assumptions = [
        "float64 arithmetic on the special values follows IEEE-754 (modelled in ProbSpace on value classes)",
        "positive values are exact rationals in the model; the code is compared with rel. tolerance 1e-12",
        "guard from the statement: no 0/inf/NaN in the linear run's inside/outside/g_i where the logarithmic run is finite",
    ]
    _, cases = bp.prob_run(ctx, "c12_a", G=2, mode="finite", max_len=3 if q else 5)
    if not q:
        _, more = bp.prob_run(ctx, "c12_b", G=3, mode="finite", ops=("rowsum_lower_tri", "rowsum_upper_tri"), max_len=1)
        cases += more
    r, inf_cases = bp.prob_run(ctx, "c12_inf", G=2, mode="withinf", ops=("marginalize", "combine", "ratio"), max_len=2,
                               must_hold=False, workers=1)
    if r.violated != "Commutes":
        raise harness.MachineryError(f"with +inf admitted the diagram was expected to break; TLC reported {r.violated}")
    ctx.count("deviation_overflow_refuted_by_TLC")
    cases += inf_cases                      # the model's IEEE conventions for +inf are bound to the code as well
    bad = [c for c in cases if not c["commutes"] and not any(v[0] == "I" for v in c["args"])]
    if bad:
        raise harness.MachineryError(f"non-commuting case without +inf emitted: {bad[0]}")
    ctx.exhaustive = True
    # the composite passes in both spaces on the same table instances (module InsideOutside)
    _, io = bp.io_run(ctx, "c12_io", NS=4, NI=3, G=3, vals=(0, 1, 2), mode="hash", seeds=range(1, 4 if q else 30),
                      canon=True, min_kids=1, emit=True)
    bp.tick(ctx, "tlc")
    bp.tsd()
    bp.tick(ctx, "import_tsdate")
    for case in cases:
        bp.replay_prob_case(ctx, PID, case)
        ctx.traces += 1
        tags = [v[0] for v in case["args"]]
        if any(t in ("Z", "N", "I") for t in tags) or sum(1 for t in tags if t == "P") > 1:
            ctx.nontriv(("case", case["op"], case["G"], bool(case["flag"]), str(case["args"])))
    ctx.sample({"kind": "ProbSpace case replayed into both classes", **{k: cases[len(cases) // 2][k]
                for k in ("op", "flag", "args", "lin", "log")}})
    for inst in [i for i in io if i["status"] == "done"][:150 if q else 4000]:
        ok = False
        for space in bp.SPACES:
            ok = bp.replay_io(ctx, PID, inst, space) or ok
        if ok:
            ctx.traces += 1
            if bp.io_nontrivial(inst):
                ctx.nontriv(bp.io_key(inst))
    bp.tick(ctx, "replay_cases")
    inputs = bp.sparse_corpus(ctx, 24 if q else 150) + bp.corpus(ctx, 2 if q else 16, 1 if q else 6, small=q)
    for k, inp in enumerate(inputs):
        for method in ("inside_outside", "maximization"):
            space_pair(ctx, inp.name, inp.ts, inp.mu, inp.Ne, method, 1e-8 if k % 2 == 0 else 1e-3,
                       cache_inside=(method == "inside_outside" and k % 3 == 0))
    bp.tick(ctx, "pairs")


def replay(ctx, body):
    harness.setup_repo_env(ctx.work)
    inst = body["instance"]
    if inst.get("kind") == "pair":
        space_pair(ctx, inst["name"], bp.ts_from_instance(inst["ts"]), inst["mu"], inst["Ne"], inst["method"],
                   inst["eps"], inst["cache_inside"])
    else:
        bp.replay_prob_case(ctx, PID, inst)
