"""C27 -- constraint enforcement is minimal and idempotent.

J1  TLC model-checks module Constrain (Minimal / UnchangedIfFeasible / ... on every DAG,
    mean vector, fixed set, eps, iteration count in scope).
J2  every behaviour of a smaller scope is replayed into the real util._constrain_ages and
    util.constrain_ages.
J3  every real execution (replays, and constraint steps observed inside real date() calls)
    is abstracted to ranks and validated by TLC against ConstrainTrace with the
    statements of C27 switched on.
"""

import numpy as np

from .. import constrain_common as cc
from .. import harness, inputs, record

CHECKS = ["Minimal", "UnchangedIfFeasible", "Idempotent"]


def event_from_arrays(tid, n, ep, ec, mean, out, tin, fixed, eps, iters, out2=None):
    plus = out[ec] + eps
    succ = np.nextafter(out[ec], np.inf)
    raised = np.maximum(plus, succ)
    vals = np.concatenate([mean, out, plus, raised, tin] + ([out2] if out2 is not None else []))
    uniq = np.unique(vals)
    rk = lambda a: (np.searchsorted(uniq, a) + 1).tolist()  # noqa: E731
    feasible = bool(np.all(mean[ep] - mean[ec] > eps)) if len(ep) else True
    return {"tid": tid, "n": int(n), "ep": (np.asarray(ep) + 1).tolist(), "ec": (np.asarray(ec) + 1).tolist(),
            "mean": rk(mean), "out": rk(out), "plus": rk(plus), "raised": rk(raised), "tin": rk(tin),
            "fixed": [bool(x) for x in fixed], "iters": int(iters), "feasible": feasible,
            "absorb": bool(np.any(raised != plus)), "out2": rk(out2 if out2 is not None else out)}


def kernel_events(ctx, insts, modes=("unit", "ulp")):
    """Replay TLC behaviours into the real kernel; yield rank events of what the code did,
    and report disagreement with the specification's final state where the property
    determines the result (iters = 0)."""
    from tsdate import util
    events, meta = [], []
    for i, inst in enumerate(insts):
        for mode in modes:
            r = cc.realise(inst, mode)
            if r is None:
                continue
            t, fixed, ep, ec, eps, iters, out_spec = r
            ctx.evaluations += 1
            try:
                got = util._constrain_ages(t, fixed, ep, ec, eps, iters)
                got2 = util._constrain_ages(got, fixed, ep, ec, eps, iters)
            except Exception as ex:  # noqa: BLE001
                ctx.violation(f"C27/kernel/{type(ex).__name__}", {"inst": inst, "mode": mode},
                              f"_constrain_ages raised {type(ex).__name__}: {ex}", subcheck="kernel")
                continue
            tags = cc.classify(inst)
            if tags:
                ctx.nontriv((tuple(map(tuple, inst["edges"])), tuple(inst["mean"]), tuple(inst["fixed"]),
                             inst["eps"], inst["iters"], mode))
            tin = t.copy()
            tid = f"k{i}-{mode}"
            events.append(event_from_arrays(tid, len(t), ep, ec, t, got, tin, fixed, eps, iters, out2=got2))
            meta.append((tid, inst, mode, got.tolist(), out_spec.tolist()))
            if iters == 0 and not np.array_equal(got, out_spec) and not (inst["eps"] == 0):
                ctx.violation("C27/kernel/not-least-fixpoint", {"inst": inst, "mode": mode},
                              f"forced pass result {got.tolist()} differs from the least fixpoint {out_spec.tolist()}",
                              subcheck="kernel")
            ctx.sample({"kind": "kernel replay", "instance": inst, "mode": mode, "code_out": got.tolist()})
    return events, meta


def date_events(ctx, corpus, methods, settings):
    import tsdate
    from tsdate import util
    events, meta = [], []
    for inp in corpus:
        for method in methods:
            for kw in settings:
                args = dict(mutation_rate=inp.mu, method=method, **kw)
                if method != "variational_gamma":
                    if "historical" in inp.tags:
                        continue
                    args["population_size"] = inp.Ne
                call = record.observed_call(tsdate.date, inp.ts, **args)
                ctx.evaluations += 1
                if not call.ok:
                    continue  # acceptance/rejection is C35's business
                if len(call.constrain) != 1:
                    raise harness.MachineryError(
                        f"expected exactly one constrain_ages call inside date(), saw {len(call.constrain)}")
                mean, eps, iters, _ = call.constrain[0]
                ts_in, ts_out = inp.ts, call.ts
                out = ts_out.nodes_time
                out2 = util.constrain_ages(ts_in, out, eps, iters)
                fixed = np.zeros(ts_in.num_nodes, dtype=bool)
                fixed[ts_in.samples()] = True
                tid = f"{inp.name}/{method}/{sorted(kw.items())}"
                ev = event_from_arrays(tid, ts_in.num_nodes, ts_in.edges_parent, ts_in.edges_child, mean, out,
                                       ts_in.nodes_time, fixed, eps, iters, out2=out2)
                events.append(ev)
                meta.append((tid, inp.name, method, kw))
                if np.any(mean != out):
                    ctx.nontriv(tid)
    return events, meta


def judge(ctx, events, meta, label):
    rej = cc.validate_traces(ctx, events, CHECKS)
    by = {m[0]: m for m in meta}
    for r in rej:
        m = by.get(r["tid"])
        ev = next(e for e in events if e["tid"] == r["tid"])
        ctx.violation(f"C27/{label}/{r['clause']}", {"event": ev, "meta": m},
                      f"trace {r['tid']} rejected by ConstrainTrace at clause {r['clause']}", subcheck=label)


def run(ctx):
    harness.setup_repo_env(ctx.work)
    ctx.rule = ("instances = all (DAG, unconstrained times, fixed set, eps, iterations) of module Constrain in the "
                "bounded scope, replayed into the real kernel in two float realisations (unit lattice / adjacent "
                "floats at 2^60), plus constraint steps observed inside real date() calls; non-trivial = the "
                "constraint moved at least one node")
    ctx.assumptions = ["rank abstraction A2 (vt/constrain_common.py) is order-isomorphic",
                       "absorbing instances (fl(c+eps)=c) are judged by C01, not by C27's literal max(mean, c+eps)"]
    quick = ctx.quick
    # J1
    cc.model_check(ctx, "c27_j1", N=4, T=2 if quick else 3, iters=[0, 1] if quick else [0, 1, 2], eps=[0, 1],
                   max_edges=4 if quick else 5)
    if not quick:
        cc.model_check(ctx, "c27_j1b", N=5, T=2, iters=[0], eps=[0, 1, 2], max_edges=5, fixed_mode="leaves")
    # J2 + J3 (kernel)
    insts = cc.generate(ctx, "c27_j2", N=3 if quick else 4, T=2, iters=[0, 1], eps=[0, 1],
                        max_edges=3 if quick else 4)
    if quick and len(insts) > 1500:
        insts = ctx.rng.sample(insts, 1500)
    elif len(insts) > 20000:
        insts = ctx.rng.sample(insts, 20000)
    ctx.exhaustive = False
    ev, meta = kernel_events(ctx, insts)
    judge(ctx, ev, meta, "kernel")
    # J3 (real date())
    corpus = inputs.contemporaneous(ctx.seed, k=3 if quick else 10) + inputs.polytomies(ctx.seed, k=1 if quick else 3) \
        + inputs.historical(ctx.seed, k=1 if quick else 3) + inputs.internal_samples(ctx.seed, k=1 if quick else 3)
    corpus += [inputs.scaled(corpus[0], 1e9), inputs.scaled(corpus[1], 1e-5)]
    settings = [{}, {"constr_iterations": 0}, {"constr_iterations": 3}, {"min_branch_length": 1.0}]
    if not quick:
        settings += [{"min_branch_length": 1e-12}, {"constr_iterations": 100, "min_branch_length": 0.5}]
    ev, meta = date_events(ctx, corpus, ["variational_gamma", "inside_outside", "maximization"], settings)
    judge(ctx, ev, meta, "date")
    ctx.count("date_calls_traced", len(ev))


def replay(ctx, body):
    harness.setup_repo_env(ctx.work)
    inst = body["instance"]
    if body["subcheck"] == "kernel" and "inst" in inst:
        ev, meta = kernel_events(ctx, [inst["inst"]], modes=(inst["mode"],))
        judge(ctx, ev, meta, "kernel")
    elif "event" in inst:
        judge(ctx, [inst["event"]], [(inst["event"]["tid"],)], body["subcheck"] or "date")
