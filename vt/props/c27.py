"""C27 -- constraint enforcement is minimal and idempotent.

J1  TLC model-checks module Constrain (Minimal / UnchangedIfFeasible / ... on every DAG,
    mean vector, fixed set, eps, iteration count in scope).
J2  every behaviour of a smaller scope is replayed into the real util._constrain_ages.
J3  every real execution (replays, and constraint steps observed inside real date() calls)
    is abstracted to ranks and validated by TLC against ConstrainTrace with the
    statements of C27 switched on.
"""

from .. import constrain_common as cc
from .. import harness, inputs

PID = "C27"
CHECKS = ["Minimal", "UnchangedIfFeasible", "Idempotent"]


def run(ctx):
    harness.setup_repo_env(ctx.work)
    ctx.rule = ("instances = all (DAG, unconstrained times, fixed set, eps, iterations) of module Constrain in the "
                "bounded scope, replayed into the real kernel in two float realisations (unit lattice / adjacent "
                "floats at 2^60), plus constraint steps observed inside real date() calls; non-trivial = the "
                "constraint moved at least one node")
    ctx.assumptions = ["rank abstraction A2 (vt/constrain_common.py) is order-isomorphic",
                       "where fl(c+eps)=c (absorption) the least fixpoint uses max(fl(c+eps), nextafter(c)), the "
                       "only reading compatible with C01; traces with absorption skip the Minimal clause"]
    quick = ctx.quick
    cc.model_check(ctx, "c27_j1", N=4, T=2 if quick else 3, iters=[0, 1] if quick else [0, 1, 2], eps=[0, 1],
                   max_edges=4)
    if not quick:
        cc.model_check(ctx, "c27_j1b", N=5, T=2, iters=[0], eps=[0, 1, 2], max_edges=5, fixed_mode="leaves")
    insts = cc.generate(ctx, "c27_j2", N=3 if quick else 4, T=2, iters=[0, 1], eps=[0, 1, 2],
                        max_edges=3 if quick else 4)
    ctx.exhaustive = True
    cap = 1500 if quick else 20000
    if len(insts) > cap:
        insts = ctx.rng.sample(insts, cap)
        ctx.exhaustive = False
    ev, meta = cc.kernel_events(ctx, PID, insts, compare_absorbing=False)
    cc.judge(ctx, PID, CHECKS, ev, meta, "kernel")
    # step-by-step binding of the kernel (least-squares sweeps included) through loop-head traces
    lt = [i for i in insts if i["eps"] > 0]
    lt = ctx.rng.sample(lt, min(len(lt), 150 if quick else 3000))
    cc.loop_traces(ctx, PID, lt, dict(N=3 if quick else 4, T=2, iters=[0, 1], eps=[0, 1, 2], max_edges=3 if quick else 4))
    corpus = cc.default_corpus(ctx)
    corpus += [inputs.scaled(corpus[0], 1e9), inputs.scaled(corpus[1], 1e-5)]
    settings = [{}, {"constr_iterations": 0}, {"constr_iterations": 3}, {"min_branch_length": 1.0}]
    if not quick:
        settings += [{"min_branch_length": 1e-12}, {"constr_iterations": 100, "min_branch_length": 0.5}]
    ev, meta = cc.date_events(ctx, PID, corpus, ["variational_gamma", "inside_outside", "maximization"], settings)
    cc.judge(ctx, PID, CHECKS, ev, meta, "date")
    ctx.count("date_calls_traced", len(ev))


def replay(ctx, body):
    harness.setup_repo_env(ctx.work)
    cc.replay(ctx, PID, CHECKS, body)
