"""C06 -- changing time units rescales all outputs exactly.

J1  TLC, module Relational (Units machine): every input quantity of every method carries a
    dimension; the recipe of the statement (mutation rate / c, min_branch_length * c, and for the
    discrete methods population_size, eps, timepoints (and epoch breaks) * c, sample times * c) is
    *exactly* the change of time unit (RecipeComplete: no dimensional input forgotten), every
    argument a kernel feeds to a transcendental is dimensionless and keeps its value for c in Cs
    (exact rationals), and the outputs scale with exponent 1 (times, means) / 2 (variances).
J2  TLC emits recipe and output exponents per method; the driver applies *that* recipe.
J3  every metamorphic pair of real date() calls (corpus x 3 methods x option settings x 6 .. 9
    factors) becomes one RelationalTrace line of named predicates (A4); TLC demands close12 for
    dyadic c and the loose class closeL (1e-4, variances 1e-3) otherwise; maximisation pairs within 1e-9 of an arg-max
    tie are discarded.
"""

from .. import harness
from .. import meta_common as mc

PID = "C06"
KIND = "time"


def run(ctx):
    harness.setup_repo_env(ctx.work)
    ctx.rule = ("metamorphic pairs (input, method, option setting, c): both calls returned, the pair was not "
                "discarded for an arg-max near-tie, and at least one non-sample node has a positive base time; "
                "distinct by (input, method, options, c)")
    ctx.assumptions = ["A4 predicates: dyadic c is judged with close12 (observed: exact), other c with closeL = rel 1e-4, variances "
                       "1e-3 (DESIGN planned close6 / 2e-6; the unchanged tree shows up to 6.2e-7 / 3.5e-6 for variational_gamma on "
                       "historical inputs because its Newton solves stop at sqrt(machine eps))",
                       "eps and min_branch_length are passed explicitly (their defaults are absolute numbers)",
                       "pairs where both calls are rejected are not judged (C35)"]
    q = ctx.quick
    # 2^-40 and 1e-10: very small time units (added after seed C06-a, whose absolute 1e-8 tolerance only
    # bites when times are below ~1e-7)
    exact = [2.0 ** -10, 2.0, 2.0 ** 20, 2.0 ** -40]
    other = [3.7, 1e-3, 1e6, 1e-10] if q else [3.7, 1e-3, 1e6, 1e-10, 1.0 / 3.0, 1e-6, 12345.678, 1e-12, 1e9]
    mc.scaling_run(ctx, PID, KIND, exact, other)


def replay(ctx, body):
    harness.setup_repo_env(ctx.work)
    mc.scaling_replay(ctx, PID, KIND, body)
