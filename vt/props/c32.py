"""C32 -- time metadata writing follows the set_metadata policy.

J1  TLC: module Metadata: the procedure of EstimationMethod.set_time_metadata (try / except /
    drop / install default schema / retry) against the outcome table of the statement, for every
    schema kind (12) x content kind (6, schema-consistent pairs only) x set_metadata (3) x method
    (3) x table (2): OutcomeIsStatement, WrittenRowsAllCarry, MergeKeepsFieldsAndSchema,
    UntouchedIsUntouched, DefaultInstalled, FalseNeverTouches, TrueAlwaysWrites,
    FieldsLostOnlyWhenForced.
J2  the same run emits every cell with its expected outcome class; each is realised on a real
    table collection (node and mutation table independently), dated with the real method, and
    the real outcome is classified (untouched / untouched+warning / merged keeping schema and
    other fields / default schema installed with only mn, vr) and compared with the
    specification's.  The module's model of the codecs (CanEncode) is checked against tskit on
    every cell first (binding check).
J3  every such call (and, thorough, every dating call of the repository's test-suite) is also
    decided by SessionTrace (clause group MdPolicy: what the statement says without knowing the
    schema kind; "whenever written every row carries mn, vr").
"""


from .. import harness
from .. import session_common as sc

PID = "C32"
CHECKS = ["MdPolicy"]
ALL_SCHEMAS = ["none", "perm", "jopen", "jclosed", "jclosed_mnvr", "jreq", "jmnstr", "struct_mnvr", "struct_x_mnvr",
               "struct_x", "struct_xdef_mnvr", "dflt"]
METHODS = ["variational_gamma", "inside_outside", "maximization"]
MD_INVS = ["OutcomeIsStatement", "WrittenRowsAllCarry", "MergeKeepsFieldsAndSchema", "UntouchedIsUntouched",
           "DefaultInstalled", "FalseNeverTouches", "TrueAlwaysWrites", "FieldsLostOnlyWhenForced"]
NUM = {"type": "number"}


def schema_of(kind, table):
    import tsdate.schemas as schemas
    D = "d"
    if kind == "none":
        return None
    if kind == "dflt":
        return (schemas.default_node_schema if table == "nodes" else schemas.default_mutation_schema).schema
    return {
        "perm": {"codec": "json"},
        "jopen": {"codec": "json", "type": "object", "properties": {"foo": NUM}},
        "jclosed": {"codec": "json", "type": "object", "properties": {"foo": NUM}, "additionalProperties": False},
        "jclosed_mnvr": {"codec": "json", "type": "object", "properties": {"foo": NUM, "mn": NUM, "vr": NUM},
                         "additionalProperties": False},
        "jreq": {"codec": "json", "type": "object", "properties": {"foo": NUM}, "required": ["foo"]},
        "jmnstr": {"codec": "json", "type": "object", "properties": {"mn": {"type": "string"}}},
        "struct_mnvr": {"codec": "struct", "type": "object", "properties": {
            "mn": {"type": "number", "binaryFormat": D}, "vr": {"type": "number", "binaryFormat": D}}},
        "struct_x_mnvr": {"codec": "struct", "type": "object", "properties": {
            "x": {"type": "integer", "binaryFormat": "i"},
            "mn": {"type": "number", "binaryFormat": D}, "vr": {"type": "number", "binaryFormat": D}}},
        "struct_x": {"codec": "struct", "type": "object", "properties": {"x": {"type": "integer", "binaryFormat": "i"}}},
        "struct_xdef_mnvr": {"codec": "struct", "type": "object", "properties": {
            "x": {"type": "integer", "binaryFormat": "i", "default": 9},
            "mn": {"type": "number", "binaryFormat": "f"}, "vr": {"type": "number", "binaryFormat": "f"}}},
    }[kind]


def row_of(skind, ckind, i):
    """python value (to be encoded by the schema) or bytes of row i; None = no metadata at all"""
    struct = skind.startswith("struct")
    if ckind == "empty":
        return None
    if ckind == "raw":
        return b"xyz%d" % i
    if ckind == "nonobject":
        # non-object JSON values.  Successive tables cycle through all-falsy, all-truthy and mixed
        # rows (a table in which *every* row is falsy was needed to expose seeded change C32-a)
        v = _NONOBJ["n"] % 3
        if v == 0:
            return ([], 0, "", False)[i % 4]
        if v == 1:
            return ([1, i], "abc", 7)[i % 3]
        return ([1, i], [], 0, "", False, "abc", 7)[i % 7]
    if ckind == "other":
        return {"x": i} if struct else {"foo": i}
    if ckind == "mnvr":
        if skind == "struct_mnvr":
            return {"mn": 1.0, "vr": 2.0}
        return {"x": i, "mn": 1.0, "vr": 2.0} if struct else {"foo": i, "mn": 1.0, "vr": 2.0}
    if ckind == "partial":
        return {"foo": i} if i % 2 else b""
    raise ValueError(ckind)


_NONOBJ = {"n": 0}


def set_kind(tab, table, skind, ckind):
    import tskit
    if ckind == "nonobject":
        _NONOBJ["n"] += 1
    tab.drop_metadata()
    sch = schema_of(skind, table)
    if sch is not None:
        tab.metadata_schema = tskit.MetadataSchema(sch)
    rows = [row_of(skind, ckind, i) for i in range(tab.num_rows)]
    if ckind != "empty":
        tab.packset_metadata([r if isinstance(r, bytes) else tab.metadata_schema.validate_and_encode_row(r)
                              for r in rows])
    return rows


def codec_can_encode(tab, rows):
    """tskit's own answer to `CanEncode`: every existing row with numeric mn, vr added is accepted"""
    schema = tab.metadata_schema
    if schema.schema is None:
        return False
    try:
        for r in rows:
            if r is None or r == b"":
                r = {}
            if not isinstance(r, dict):
                return False
            d = dict(r)
            d.update({"mn": 1.5, "vr": 2.5})
            back = schema.decode_row(schema.validate_and_encode_row(d))
            if not (isinstance(back, dict) and back.get("mn") == 1.5 and back.get("vr") == 2.5):
                return False
    except Exception:  # noqa: BLE001
        return False
    return True


def base_inputs(ctx):
    from .. import build
    out = []
    k = 1 if ctx.quick else 3
    i = 0
    while len(out) < k:
        i += 1
        ts = build.sim(n=2, L=100, rho=0 if i % 2 else 2e-3, mu=1e-3, Ne=100, seed=ctx.seed % 10 ** 6 + i)
        if ts.num_mutations >= 3:
            out.append((f"md{ctx.seed}_{i}", ts))
    return out


def one_call(ctx, name, ts, m, p, ncell, mcell, events, meta):
    """date `ts` with node table in kind ncell and mutation table in kind mcell; classify both"""
    t = ts.dump_tables()
    set_kind(t.nodes, "nodes", *ncell)
    set_kind(t.mutations, "mutations", *mcell)
    ts2 = t.tree_sequence()
    kw = {"mutation_rate": 1e-3, "method": m}
    if m != "variational_gamma":
        kw["population_size"] = 100
    if p != "none":
        kw["set_metadata"] = (p == "true")
    tid = f"{name}/{m}/{p}/nodes={ncell[0]}:{ncell[1]}/mutations={mcell[0]}:{mcell[1]}"
    rec = sc.SessionRec(tid, events)
    obs = rec.call("date", ts2, lite=True, **kw)
    ctx.evaluations += 1
    meta[(tid, 1)] = {"recipe": {"name": name, "m": m, "p": p, "ncell": list(ncell), "mcell": list(mcell)}}
    if obs.ok:
        return {T: sc.md_class(obs.event["md"][T]) for T in ("nodes", "mutations")}, obs
    return {T: "raised-" + type(obs.exc).__name__ for T in ("nodes", "mutations")}, obs


def judge_cell(ctx, cell, got, name, partner, obs):
    want = cell["expected"]
    ok = got == want or (want == "untouched" and got == "untouched_warn")
    key = (cell["T"], cell["m"], cell["p"], cell["s"], cell["c"])
    if ok:
        ctx.nontriv(key)
        if want in ("merged", "default"):
            ctx.count("cells_written")
        elif want == "untouched_warn":
            ctx.count("cells_untouched_with_warning")
        else:
            ctx.count("cells_untouched")
        return
    head = got.split(":")[0]
    inst = {"kind": "cell", "cell": cell, "input": name, "partner": partner}
    msg = (f"{cell['T']} table with schema kind {cell['s']} / content {cell['c']}, method {cell['m']}, set_metadata="
           f"{cell['p']}: specification says '{want}', the code did '{got}'"
           + (f" ({type(obs.exc).__name__}: {obs.exc})" if obs is not None and obs.exc is not None else ""))
    ctx.violation(f"C32/replay/{cell['T']}/{cell['s']}-{cell['c']}/set_metadata-{cell['p']}/expected-{want}/got-{head}",
                  inst, msg, subcheck="replay")


NEUTRAL = ("none", "empty")


def replay_cells(ctx, cells, inputs_, events, meta, pairing_seed=0):
    import random
    rng = random.Random(pairing_seed)
    by = {}
    for c in cells:
        by.setdefault((c["m"], c["p"]), {"nodes": [], "mutations": []})[c["T"]].append(c)
    for (m, p), d in sorted(by.items()):
        nc, mc = list(d["nodes"]), list(d["mutations"])
        rng.shuffle(nc)
        rng.shuffle(mc)
        n = max(len(nc), len(mc))
        for k in range(n):
            a = nc[k] if k < len(nc) else None
            b = mc[k] if k < len(mc) else None
            name, ts = inputs_[k % len(inputs_)]
            ncell = (a["s"], a["c"]) if a else NEUTRAL
            mcell = (b["s"], b["c"]) if b else NEUTRAL
            got, obs = one_call(ctx, name, ts, m, p, ncell, mcell, events, meta)
            if obs.ok:
                if a:
                    judge_cell(ctx, a, got["nodes"], name, list(mcell), obs)
                if b:
                    judge_cell(ctx, b, got["mutations"], name, list(ncell), obs)
                continue
            # the call raised: find out which table is responsible by dating each with the other neutral
            for cell, T, cl in ((a, "nodes", (ncell, NEUTRAL)), (b, "mutations", (NEUTRAL, mcell))):
                if cell is None:
                    continue
                g1, o1 = one_call(ctx, name, ts, m, p, cl[0], cl[1], events, meta)
                judge_cell(ctx, cell, g1[T], name, list(NEUTRAL), o1)


def run(ctx):
    sc.setup(ctx)
    q = ctx.quick
    ctx.rule = ("cells = schema kind x content kind (schema-consistent pairs) x set_metadata x method x table, emitted by "
                "TLC with the expected outcome; each realised on a real table collection and dated; non-trivial = the "
                "call returned and the observed class equals the specification's (counted per distinct cell)")
    ctx.assumptions = [
        "schema-inconsistent combinations (rows tskit itself cannot decode under their schema) are not inputs (DESIGN 7 "
        "C32 Scope)",
        "a table the method has no posterior variances for (mutations of the discrete methods; everything for "
        "maximization) is expected untouched whatever set_metadata says (C04)",
        "for set_metadata=False and tables without posteriors only 'untouched' is required (a warning is not an error)",
        "CanEncode (the module's model of the tskit codecs) is compared with tskit on every (schema, content) pair"]
    cfg = ctx.write_cfg("c32_md.cfg", spec="MdSpec",
                        constants={"CellSchemas": sc.tla_set(ALL_SCHEMAS), "CellMethods": sc.tla_set(METHODS),
                                   "EmitCells": "TRUE"}, invariants=MD_INVS + ["EmitInv"])
    r = ctx.tlc("Metadata", cfg, workers=4,
                required_actions=("MdChoose", "MdStart", "MdTry1", "MdExcept", "MdDrop", "MdInstall", "MdTry2"))
    cells = r.rec("cell")
    uniq = {}
    for c in cells:
        uniq[(c["T"], c["m"], c["p"], c["s"], c["c"])] = c
    cells = [uniq[k] for k in sorted(uniq)]
    ctx.count("cells", len(cells))
    if len(cells) < 600:
        raise harness.MachineryError(f"Metadata emitted only {len(cells)} cells")
    ctx.exhaustive = True
    inputs_ = base_inputs(ctx)
    # binding check: the module's CanEncode against tskit
    name, ts = inputs_[0]
    for T in ("nodes", "mutations"):
        seen = set()
        for c in cells:
            if c["T"] != T or (c["s"], c["c"]) in seen:
                continue
            seen.add((c["s"], c["c"]))
            t = ts.dump_tables()
            tab = getattr(t, T)
            rows = set_kind(tab, T, c["s"], c["c"])
            t.tree_sequence()
            real = codec_can_encode(tab, rows)
            if real != bool(c["can"]):
                raise harness.MachineryError(f"Metadata.CanEncode({c['s']}, {c['c']}) = {c['can']} but tskit says {real} "
                                             f"({T})")
            ctx.count("codec_model_pairs_checked")
    events, meta = [], {}
    for rep in range(1 if q else 3):
        replay_cells(ctx, cells, inputs_, events, meta, pairing_seed=ctx.seed + rep)
    ok_events = [e for e in events if e["outcome"] == "ok"]
    sc.judge(ctx, PID, CHECKS, ok_events, meta, "trace")
    if not q:
        evs, rc, tail = sc.run_suite(ctx, ["tests/test_inference.py", "tests/test_noncontemporary.py",
                                           "tests/test_util.py", "tests/test_phasing.py", "tests/test_cli.py"])
        ctx.extra["suite_pytest_summary"] = tail
        ok = [e for e in evs if e["outcome"] == "ok" and e["ev"] == "Date"]
        ctx.count("suite_calls_judged", len(ok))
        sc.judge(ctx, PID, CHECKS, ok, {}, "suite")


def replay(ctx, body):
    sc.setup(ctx)
    inst = body["instance"]
    if inst.get("kind") == "cell":
        cell = inst["cell"]
        ctx.tier = body.get("tier", "quick")
        inputs_ = dict(base_inputs(ctx))
        name = inst["input"] if inst["input"] in inputs_ else next(iter(inputs_))
        events, meta = [], {}
        ncell = (cell["s"], cell["c"]) if cell["T"] == "nodes" else tuple(inst["partner"])
        mcell = (cell["s"], cell["c"]) if cell["T"] == "mutations" else tuple(inst["partner"])
        got, obs = one_call(ctx, name, inputs_[name], cell["m"], cell["p"], ncell, mcell, events, meta)
        judge_cell(ctx, cell, got[cell["T"]], name, inst["partner"], obs)
        return
    sc.judge(ctx, PID, inst.get("checks", CHECKS), [inst["event"]], {}, body.get("subcheck") or "trace")


