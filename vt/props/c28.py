"""C28 -- preprocessing removes only data-free regions and preserves genotypes.

J1  TLC: module Preprocess.  The interval computation of util.preprocess_ts as the code
    performs it (actions FlanksStep, Gap per pair of consecutive sites, Sort) over every site
    set of the positions x minimum_gap x erase_flanks, against the property-level statement
    (IntervalsAdmissible: sorted, disjoint, site-free, only in flanks / inside gaps of at
    least minimum_gap) and the design reading (DesignCoverage); SimplifyKeepsClades checks
    the spec's own model of simplification.
J2  every emitted behaviour (TSGen instance + sites + options, auto / user intervals /
    both -> ValueError) is replayed into the real preprocess_ts; compared with values the
    spec produced: delete_intervals recorded in the provenance, kept sites, samples in order,
    genotype matrix at kept sites, local tree of every unit cell mapped back to input nodes
    (empty in deleted cells, the simplified input tree elsewhere), retained nodes and their
    times, number of pieces per node and contiguity with split_disjoint, simplify() no-op.
J3  the recorded delete_intervals of every real call are validated by TLC (trace mode of
    module Preprocess) against the statement itself: WellFormed, SiteFree,
    OnlyFlanksAndBigGaps, or ExactlyUserIntervals.
"""

import json
import os

import numpy as np

from .. import harness
from .. import prep_common as pc

PID = "C28"


def consts(NS, NI, L, max_muts, tree_filter="any", mgs=(1, 2, 3), flanks=(True, False), usermax=0,
           splits=(True, False), free=False, extra=0, emit=False):
    c = pc.gen_consts(NS, NI, L, max_muts, tree_filter)
    c.update({"MinGaps": pc.tla_set(mgs), "Flanks": "{" + ",".join(pc.tla_bool(b) for b in flanks) + "}",
              "UserMax": usermax, "Splits": "{" + ",".join(pc.tla_bool(b) for b in splits) + "}",
              "FreeSites": pc.tla_bool(free), "MaxExtra": extra, "EmitDone": pc.tla_bool(emit)})
    return c


INV = ["IntervalsAdmissible", "DesignCoverage", "SimplifyKeepsClades"]


def tlc(ctx, name, simulate=None, emit=False, required=("Gen", "PickSites", "PickOpts", "Start", "FlanksStep", "Gap",
                                                       "Sort"), **kw):
    cfg = ctx.write_cfg(name + ".cfg", init="FullInit", next_="FullNext", constants=consts(emit=emit, **kw),
                        invariants=INV + (["EmitInv"] if emit else []))
    if simulate:
        r = ctx.tlc("Preprocess", cfg, workers=8, coverage=False, simulate={"num": max(1, simulate // 8)},
                    depth=3 * kw["L"] + 2 * kw["max_muts"] + 16)
    else:
        r = ctx.tlc("Preprocess", cfg, workers=8, coverage=not emit, required_actions=() if emit else required)
    return r.rec("inst")


def absent_class(ts):
    """the C29 defect class evaluated on a real tree sequence (used only to name the signature)"""
    last = ts.edges_right.max() if ts.num_edges else 0.0
    for m in ts.mutations():
        x = ts.sites_position[m.site]
        touched = np.any(((ts.edges_parent == m.node) | (ts.edges_child == m.node)) & (ts.edges_left <= x))
        if x >= last or not touched:
            return True
    return False


def replay_one(ctx, inst, events, variant=None, flt=None):
    from tsdate import util
    if variant is None:
        variant = (len(inst["muts"]) + len(inst["sites"]) + inst["mg"]) % 4
    if flt is None:
        flt = (len(inst["sites"]) + len(inst["D"])) % 3 == 0
    ts = pc.decorated_ts(inst, variant)
    inst = dict(inst, variant=variant, flt=flt)
    N, L = inst["N"], inst["L"]
    kw = {"split_disjoint": bool(inst["sd"])}
    if inst["mode"] in ("auto", "both"):
        kw.update(minimum_gap=inst["mg"], erase_flanks=bool(inst["ef"]))
    if inst["mode"] in ("user", "both"):
        kw["delete_intervals"] = [list(map(float, d)) for d in inst["user"]]
    if flt:
        kw.update(filter_populations=True, filter_individuals=True)
    mode = inst["mode"]

    def v(suffix, msg):
        ctx.violation(f"C28/preprocess_ts/{suffix}", inst, msg + f" [kwargs {kw}]", "preprocess")

    ctx.evaluations += 1
    try:
        out = util.preprocess_ts(ts, **kw)
    except ValueError as ex:
        if not inst["err"]:
            v(f"{mode}/unexpected-ValueError", f"ValueError: {ex}")
        else:
            ctx.nontriv(("err", mode, len(inst["sites"]) > 0))
        return
    except Exception as ex:  # noqa: BLE001
        cls = type(ex).__name__
        if inst["sd"] and not inst["err"]:
            try:
                mid = util.preprocess_ts(ts, **dict(kw, split_disjoint=False))
                if absent_class(mid):
                    ctx.violation("C28/preprocess_ts/split_disjoint/mutation-on-node-absent-from-tree", inst,
                                  f"preprocess_ts(split_disjoint=True) raised {cls}: {ex}; without splitting it returns a "
                                  f"tree sequence with a mutation at/after the end of the last edge or on a node no edge "
                                  f"has touched yet (the C29 defect of split_disjoint_nodes) [kwargs {kw}]", "preprocess")
                    return
            except Exception:  # noqa: BLE001
                pass
        v(f"{mode}/{cls}", f"raised {cls}: {ex}")
        return
    if inst["err"]:
        v(f"{mode}/no-ValueError", "expected ValueError (no sites, or delete_intervals together with minimum_gap)")
        return
    # ---- provenance-recorded intervals: design conformance, and an event for TLC (J3)
    prov = json.loads(out.provenance(out.num_provenances - 1).record)["parameters"]
    rec = prov.get("delete_intervals")
    ok_rec = prov.get("command") == "preprocess_ts" and isinstance(rec, list) and all(
        isinstance(d, list) and len(d) == 2 and all(float(x) == int(x) for x in d) for d in rec)
    if not ok_rec:
        v("provenance/delete_intervals-not-recorded", f"provenance parameters {prov}")
        return
    rec = [[int(d[0]), int(d[1])] for d in rec]
    events.append({"tid": len(events), "mode": mode, "sites": list(inst["sites"]), "mg": inst["mg"], "ef": inst["ef"],
                   "seqlen": 2 * L, "d": rec, "user": [list(d) for d in inst["user"]], "_inst": inst})
    if rec != [list(d) for d in inst["D"]]:
        v(f"{mode}/intervals-differ-from-design", f"recorded delete_intervals {rec}, design {inst['D']} "
                                                  f"(sites {inst['sites']})")
        return  # what follows is derived from the design's intervals
    # ---- sites, samples, genotypes
    if [int(p) for p in out.sites_position] != list(inst["kept"]) or \
            any(float(p) != int(p) for p in out.sites_position):
        v(f"{mode}/sites", f"sites {out.sites_position.tolist()}, expected {inst['kept']}")
        return
    NS = inst["NS"]
    if [int(u) for u in out.samples()] != list(range(NS)) or \
            any(out.nodes_time[u] != ts.nodes_time[u] for u in range(NS)):
        v(f"{mode}/samples", f"samples {out.samples().tolist()} times {out.nodes_time[:NS].tolist()}")
        return
    # allelic states as determined by the mutations: a sample whose only ancestors are unary nodes becomes
    # isolated by simplification and tskit would report it as missing by default
    Gin = ts.genotype_matrix(isolated_as_missing=False)
    Gout = out.genotype_matrix(isolated_as_missing=False)
    pos_in = [int(p) for p in ts.sites_position]
    for j, car in enumerate(inst["geno"]):
        if sorted(k for k in range(NS) if Gin[j, k] == 1) != sorted(car):
            raise harness.MachineryError(f"genotype model differs from tskit: {inst['trees']} {inst['muts']}")
    rows_in = [pos_in.index(x) for x in inst["kept"]]
    if not np.array_equal(Gout, Gin[rows_in, :]):
        v(f"{mode}/genotypes", f"genotypes at kept sites {Gout.tolist()}, input "
                               f"{Gin[rows_in, :].tolist()}")
    # ---- nodes: times, retained set, pieces
    by_time = {float(inst["time"][u]): u for u in range(NS, N)}
    orig = []
    for n in range(out.num_nodes):
        if n < NS:
            orig.append(n)
        else:
            orig.append(by_time.get(float(out.nodes_time[n])))
    if any(o is None for o in orig) or any(out.node(n).is_sample() for n in range(NS, out.num_nodes)):
        v(f"{mode}/node-times", f"output node times {out.nodes_time.tolist()} / extra samples; input {inst['time']}")
        return
    if sorted(set(orig)) != sorted(inst["retained"]):
        v(f"{mode}/retained-nodes", f"output nodes stand for {sorted(set(orig))}, spec retains {sorted(inst['retained'])}")
    for u in sorted(set(orig)):
        cnt = sum(1 for o in orig if o == u)
        want = 1 if (u < NS or not inst["sd"]) else max(1, inst["pieces"][u])
        if cnt != want:
            v(f"{mode}/pieces", f"{cnt} output nodes stand for node {u}, expected {want} "
                                f"(split_disjoint={inst['sd']}, pieces {inst['pieces']})")
    # ---- local trees per unit cell
    rows = pc.parent_rows(out, list(range(2 * L)))
    for x in range(2 * L):
        got = [-1] * N
        seen = set()
        bad = False
        for n, p in enumerate(rows[x]):
            if p != -1:
                if orig[n] in seen:
                    bad = True
                seen.add(orig[n])
                got[orig[n]] = orig[p]
        if bad:
            v(f"{mode}/two-pieces-in-one-tree", f"cell {x}: two output nodes stand for the same input node")
        if got != list(inst["strees"][x]):
            deleted = any(d[0] <= x < d[1] for d in inst["D"])
            v(f"{mode}/{'topology-in-deleted-region' if deleted else 'local-tree'}",
              f"cell [{x},{x + 1}): tree under orig {got}, spec {inst['strees'][x]} (deleted={deleted}, D={inst['D']})")
            break
    if inst["sd"]:
        where = pc.where_present(rows)
        for n in range(NS, out.num_nodes):
            if not pc.is_run(where.get(n, [])):
                v(f"{mode}/gap-in-node", f"node {n} (orig {orig[n]}) is present in cells {where.get(n, [])}")
    # ---- simplified
    s2, nm = out.simplify(map_nodes=True, filter_populations=False, filter_individuals=False, filter_sites=False)
    if (nm == -1).any() or s2.num_edges != out.num_edges or s2.num_mutations != out.num_mutations \
            or s2.num_nodes != out.num_nodes:
        v(f"{mode}/not-simplified", f"simplify() changes the output: nodes {out.num_nodes}->{s2.num_nodes}, edges "
                                    f"{out.num_edges}->{s2.num_edges}")
    if any(len(d) for d in [inst["D"]]) and inst["muts"]:
        ctx.nontriv(pc.inst_key(inst, "mode", "mg", "ef", "user", "sd"))
    if inst["D"] and len(inst["muts"]) > 1:
        ctx.sample({"kind": "Preprocess behaviour replayed", "trees": inst["trees"], "muts": inst["muts"],
                    "sites": inst["sites"], "kwargs": {k: (x if not isinstance(x, np.generic) else x.item())
                                                       for k, x in kw.items()},
                    "D": inst["D"], "kept": inst["kept"], "pieces": inst["pieces"]}, limit=4)


def validate_traces(ctx, events):
    """J3: TLC decides the recorded intervals of the real calls against the statement."""
    if not events:
        return
    path = os.path.join(ctx.work, "c28_trace.ndjson")
    with open(path, "w") as f:
        for ev in events:
            f.write(json.dumps({k: x for k, x in ev.items() if k != "_inst"}) + "\n")
    cfg = ctx.write_cfg("c28_trace.cfg", init="TraceInit", next_="TraceNext",
                        constants=consts(NS=1, NI=0, L=1, max_muts=0))
    r = ctx.tlc("Preprocess", cfg, workers=1, coverage=False, env={"TRACE_FILE": path}, must_hold=False)
    acc, rej = r.rec("accepted"), r.rec("reject")
    if not acc or acc[-1]["lines"] != len(events) or acc[-1]["accepted"] + len({x["tid"] for x in rej}) != len(events):
        raise harness.MachineryError("Preprocess trace mode did not account for every trace:\n" + r.stdout[-2000:])
    ctx.count("interval_traces_validated_by_tlc", acc[-1]["accepted"])
    for x in rej:
        ev = events[x["tid"]]
        ctx.violation(f"C28/preprocess_ts/{ev['mode']}/intervals/{x['clause']}", ev["_inst"],
                      f"recorded delete_intervals {ev['d']} violate {x['clause']} (sites {ev['sites']}, minimum_gap "
                      f"{ev['mg']}, erase_flanks {ev['ef']}, user {ev['user']})", "intervals")


def run(ctx):
    harness.setup_repo_env(ctx.work)
    q = ctx.quick
    ctx.rule = ("interval logic: every subset of the integer positions as site set x minimum_gap x erase_flanks; "
                "replay: forest sequences (isolated samples, empty regions, unary and dangling nodes) x mutation sets "
                "x optional mutation-free site x {minimum_gap, erase_flanks | user delete_intervals | both} x "
                "split_disjoint x filter flags; non-trivial = something is deleted and there are mutations; distinct "
                "by (trees, mutations, sites, options)")
    ctx.assumptions = ["integer site positions and interval ends (exact in float64)",
                       "'no node's ancestry has a gap' is read for non-sample nodes (DESIGN C28)",
                       "output nodes are matched to input nodes through node time (pairwise distinct for non-sample "
                       "nodes in the generated instances)",
                       "filter_sites is left at its default (False)",
                       "genotypes are the allelic states determined by the mutations (isolated_as_missing=False)"]
    # J1: interval logic over all site sets
    tlc(ctx, "c28_j1a", NS=1, NI=0, L=4 if q else 5, max_muts=0, mgs=(1, 2, 3, 4), free=True, splits=(False,))
    if q:
        tlc(ctx, "c28_j1b", NS=2, NI=1, L=2, max_muts=2, extra=1, mgs=(2,))
    else:
        tlc(ctx, "c28_j1b", NS=2, NI=2, L=2, max_muts=1, extra=1, mgs=(1, 3))
    if not q:
        tlc(ctx, "c28_j1c", NS=1, NI=0, L=6, max_muts=0, mgs=(2, 5), free=True, splits=(False,), flanks=(True,))
        tlc(ctx, "c28_j1d", NS=3, NI=2, L=2, max_muts=1, extra=1, mgs=(2,), flanks=(True,), splits=(True,))
    # J2
    insts = tlc(ctx, "c28_j2a", emit=True, NS=2, NI=2, L=2, max_muts=1, extra=0 if q else 1,
                mgs=(3,) if q else (1, 3))
    insts += tlc(ctx, "c28_j2b", emit=True, NS=2, NI=1, L=2, max_muts=1, mgs=(2,), usermax=2 if not q else 1,
                 flanks=(True,))
    insts += tlc(ctx, "c28_j2c", emit=True, NS=2, NI=1, L=3, max_muts=1 if q else 2, mgs=(2, 3),
                 tree_filter="nodangling")
    cap = 2500 if q else 40000
    ctx.exhaustive = len(insts) <= cap
    if len(insts) > cap:
        insts = ctx.rng.sample(insts, cap)
    n = 400 if q else 6000
    insts += tlc(ctx, "c28_j2s", emit=True, simulate=n, NS=3, NI=2, L=4, max_muts=3, mgs=(1, 2, 3, 4), extra=1,
                 usermax=2)
    insts += tlc(ctx, "c28_j2t", emit=True, simulate=n, NS=3, NI=2, L=5, max_muts=3, mgs=(2, 3, 5),
                 tree_filter="completeunary")
    events = []
    for inst in insts:
        replay_one(ctx, inst, events)
        ctx.traces += 1
    validate_traces(ctx, events)


def replay(ctx, body):
    harness.setup_repo_env(ctx.work)
    inst = body["instance"]
    events = []
    replay_one(ctx, inst, events, variant=inst.get("variant"), flt=inst.get("flt"))
    validate_traces(ctx, events)
