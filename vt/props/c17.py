"""C17 -- population-size time transforms are exact and mutually inverse.

J1  TLC (module Demography, exact rationals): for every history with <= 3 epochs, sizes in
    {1/2,1,2,3}, integer breaks in 1..4 and every time of a half-integer lattice, the
    code-shaped _change_time_measure (searchsorted right + cumulative step) equals the
    declarative integral of 1/(2N), both directions are mutually inverse, continuous at the
    breaks, strictly increasing, fix 0; as_dict() rebuilds the same object; a constant size
    maps gamma(shape, rate) to gamma(shape, rate/(2N)).
J2  every case TLC emitted is replayed into the real PopulationSizeHistory (exact equality
    when all values are dyadic, close12 otherwise).
J2' hypothesis-generated histories (1..6 epochs, sizes / breaks / times over 12 orders of
    magnitude) are judged by the Fraction mirror of the declarative Integral / InvIntegral
    (mirror_sync'd against TLC's cases in the same run) with a backward-error bound;
    gamma_to_natural in general is judged against quadrature of the mirror's definition,
    directly and through build_parameter_grid rows.
"""

import math
from fractions import Fraction as F

import numpy as np

from .. import harness
from .. import prior_common as pc

PID = "C17"
EPS = 2.0 ** -52
KBOUND = 16  # measured <= 1.9 on the unchanged tree (3000 random histories)


def is_dyadic(x):
    d = F(x).denominator
    return d & (d - 1) == 0


def fl(xs):
    return np.array([float(x) for x in xs], dtype=float)


def make(N, breaks):
    from tsdate import demography
    return demography.PopulationSizeHistory(fl(N), fl(breaks) if len(breaks) else None)


# ---- J2: replay of TLC's cases ------------------------------------------------------------
def replay_case(ctx, c):
    inst = {"kind": "tlc-case", "N": [pc.rat(x) for x in c["N"]], "breaks": [pc.rat(x) for x in c["breaks"]]}
    ne = len(c["N"])
    cls = f"{ne}-epoch"
    try:
        psh = make(c["N"], c["breaks"])
        t = fl(c["times"])
        coal = psh.to_coalescent_timescale(t)
        nat = psh.to_natural_timescale(t)
        back = psh.to_natural_timescale(coal)
        fwd = psh.to_coalescent_timescale(nat)
        d = psh.as_dict()
        again = type(psh)(**d)
    except Exception as ex:  # noqa: BLE001
        ctx.violation(f"C17/PopulationSizeHistory/{type(ex).__name__}", inst, f"{type(ex).__name__}: {ex}", "replay")
        return
    exact = all(is_dyadic(x) for x in c["coal"] + c["nat"] + c["cb"] + c["cr"])

    def same(got, want):
        got = np.asarray(got, dtype=float)
        if got.shape != (len(want),):
            return False
        if exact:
            return all(float(w) == g for g, w in zip(got, want))
        return all(pc.close(g, w) for g, w in zip(got, want))

    checks = [("to_coalescent_timescale/integral", same(coal, c["coal"])),
              ("to_natural_timescale/inverse-integral", same(nat, c["nat"])),
              ("round-trip/natural", same(back, c["times"])),
              ("round-trip/coalescent", same(fwd, c["times"])),
              ("coalescent_breaks", same(psh.coalescent_breaks, c["cb"])),
              ("coalescent_rate", same(psh.coalescent_rate, c["cr"])),
              ("fixes-zero", coal[0] == 0.0 and nat[0] == 0.0),
              ("strictly-increasing", bool(np.all(np.diff(coal) > 0) and np.all(np.diff(nat) > 0))),
              ("as_dict/content", [float(x) for x in d["population_size"]] == [float(x) for x in c["N"]]
               and [float(x) for x in d.get("time_breaks", [])] == [float(x) for x in c["breaks"]]
               and (("time_breaks" in d) == (ne > 1))),
              ("as_dict/rebuild", all(np.array_equal(getattr(again, a), getattr(psh, a)) for a in
                                      ("time_breaks", "population_size", "coalescent_breaks", "coalescent_rate")))]
    for name, ok in checks:
        if not ok:
            ctx.violation(f"C17/{name}/{cls}", inst,
                          f"N={[str(x) for x in c['N']]} breaks={[str(x) for x in c['breaks']]}: {name} fails; "
                          f"coal={np.asarray(coal).tolist()} want {[str(x) for x in c['coal']]}; nat={np.asarray(nat).tolist()} "
                          f"want {[str(x) for x in c['nat']]}; back={np.asarray(back).tolist()}", "replay")
    for s, r, s2, r2 in c["gamma"]:
        try:
            got = psh.gamma_to_natural(float(s), float(r))
        except Exception as ex:  # noqa: BLE001
            ctx.violation(f"C17/gamma_to_natural/{type(ex).__name__}", dict(inst, shape=pc.rat(s), rate=pc.rat(r)),
                          f"{type(ex).__name__}: {ex}", "gamma-constant")
            continue
        if not (pc.close(got[0], s2, 1e-10) and pc.close(got[1], r2, 1e-10)):
            ctx.violation("C17/gamma_to_natural/constant-size", dict(inst, shape=pc.rat(s), rate=pc.rat(r)),
                          f"N={c['N'][0]}: gamma_to_natural({float(s)}, {float(r)}) = {got.tolist()}, exact "
                          f"({float(s2)}, {float(r2)})", "gamma-constant")
        ctx.evaluations += 1
    ctx.evaluations += 1
    ctx.traces += 1
    if ne > 1 and len(set(c["N"])) > 1:
        ctx.nontriv(("case", tuple(c["N"]), tuple(c["breaks"])))
    ctx.sample({"kind": "Demography case replayed", "N": [str(x) for x in c["N"]], "breaks": [str(x) for x in c["breaks"]],
                "times": [str(x) for x in c["times"]], "spec_coal": [str(x) for x in c["coal"]],
                "code_coal": np.asarray(coal).tolist()}, limit=2)


# ---- J2': float histories over many orders of magnitude, through the mirror ------------------
def s1(tb, M, t):
    """magnitude of the terms of the code-shaped forward formula at t (for the error bound)"""
    i = sum(1 for b in tb if b <= t) - 1
    return t / M[i] + sum(tb[j] * (1 / M[j - 1] + 1 / M[j]) for j in range(1, i + 1)), i


def judge_float_history(N, br, times):
    """None, or (failure class, message).  N, br, times: lists of floats."""
    try:
        psh = make(N, br)
        t = np.array(times, dtype=float)
        x = psh.to_coalescent_timescale(t)
        back = psh.to_natural_timescale(x)
        d = psh.as_dict()
        again = type(psh)(**d)
    except Exception as ex:  # noqa: BLE001
        return type(ex).__name__, f"{type(ex).__name__}: {ex}"
    NF, BF = [F(v) for v in N], [F(v) for v in br]
    tb = [F(0)] + BF
    M = [2 * v for v in NF]
    if not (np.all(np.isfinite(x)) and np.all(np.isfinite(back))):
        return "non-finite", f"x={x.tolist()} back={back.tolist()}"
    for tj, xj, bj in zip(times, x.tolist(), back.tolist()):
        ft = F(tj)
        want = pc.Integral(NF, BF, ft)
        S, idx = s1(tb, M, ft)
        if abs(F(xj) - want) > KBOUND * EPS * S:
            return "integral", (f"to_coalescent_timescale({tj!r}) = {xj!r}, integral of 1/(2N) = {float(want)!r}; error "
                                f"{float(abs(F(xj) - want)):.3g} > bound {float(KBOUND * EPS * S):.3g}")
        top = min(idx + 1, len(tb) - 1)
        B = max(M[idx], M[top]) * S + sum(s1(tb, M, tb[j])[0] * (M[j - 1] + M[j]) for j in range(1, top + 1))
        if abs(F(bj) - ft) > KBOUND * EPS * B:
            return "round-trip", (f"to_natural(to_coalescent({tj!r})) = {bj!r}; error {float(abs(F(bj) - ft)):.3g} > "
                                  f"bound {float(KBOUND * EPS * B):.3g}")
        if tj == 0.0 and (xj != 0.0 or bj != 0.0):
            return "fixes-zero", f"0 -> {xj!r} -> {bj!r}"
    # order: exact monotonicity is decided by TLC on the rational model; the float maps are required to be
    # monotone up to the same backward-error bound (adjacent floats across a break may swap by an ulp) and
    # strictly increasing wherever the exact images differ by more than that bound
    order = np.argsort(t, kind="stable")
    ts, xs, bs = t[order], x[order], back[order]
    for j in range(len(ts) - 1):
        S, idx = s1(tb, M, F(ts[j + 1]))
        bound = float(2 * KBOUND * EPS * S)
        top = min(idx + 1, len(tb) - 1)
        bbound = float(2 * KBOUND * EPS * (max(M[idx], M[top]) * S
                                           + sum(s1(tb, M, tb[i])[0] * (M[i - 1] + M[i]) for i in range(1, top + 1))))
        if xs[j + 1] < xs[j] - bound or bs[j + 1] < bs[j] - bbound:
            return "monotone", (f"{ts[j]!r} <= {ts[j + 1]!r} but images {xs[j]!r}, {xs[j + 1]!r} (bound {bound:.3g}); "
                                f"round trips {bs[j]!r}, {bs[j + 1]!r} (bound {bbound:.3g})")
        gap = pc.Integral(NF, BF, F(ts[j + 1])) - pc.Integral(NF, BF, F(ts[j]))
        if gap > 2 * bound and not xs[j + 1] > xs[j]:
            return "strictly-increasing", f"{ts[j]!r} < {ts[j + 1]!r} but images {xs[j]!r} >= {xs[j + 1]!r}"
    if not ([float(v) for v in d["population_size"]] == list(N) and [float(v) for v in d.get("time_breaks", [])] == list(br)
            and all(np.array_equal(getattr(again, a), getattr(psh, a)) for a in
                    ("time_breaks", "population_size", "coalescent_breaks", "coalescent_rate"))):
        return "as_dict", f"as_dict() = {d}"
    return None


def float_histories(ctx, n_examples):
    from hypothesis import HealthCheck, assume, given, seed, settings
    from hypothesis import strategies as st
    mag = st.floats(min_value=-3, max_value=9).map(lambda e: 10.0 ** e)

    @st.composite
    def history(draw):
        ne = draw(st.integers(1, 6))
        style = draw(st.sampled_from(["wild", "tame", "integers"]))
        if style == "integers":
            N = [float(draw(st.integers(1, 10 ** 6))) for _ in range(ne)]
            br = sorted({float(draw(st.integers(1, 10 ** 6))) for _ in range(ne - 1)})
        elif style == "tame":  # one overall scale, sizes within two orders of magnitude
            sc, tsc = draw(mag), draw(mag)
            N = [sc * draw(st.floats(1, 100)) for _ in range(ne)]
            br = sorted({tsc * draw(st.floats(0.01, 100)) for _ in range(ne - 1)})
        else:
            N = [draw(mag) for _ in range(ne)]
            br = sorted({draw(mag) for _ in range(ne - 1)})
        N = N[:len(br) + 1]
        # guard (listed in the assumptions): every epoch is resolvable in float64 on both time scales
        cbx = pc.CoalBreaks([F(v) for v in N], [F(v) for v in br])
        assume(all(b2 > b1 * (1 + 1e-9) for b1, b2 in zip(br, br[1:]))
               and all(c2 > c1 * (1 + F(1, 10 ** 9)) for c1, c2 in zip(cbx[1:], cbx[2:])))
        extra = [draw(st.floats(min_value=-4, max_value=10).map(lambda e: 10.0 ** e)) for _ in range(4)]
        times = [0.0] + br + [float(np.nextafter(b, 0)) for b in br] + [b * (1 + 1e-9) for b in br] + extra
        return N, br, times

    fails = []

    @settings(max_examples=n_examples, deadline=None, database=None, derandomize=False,
              suppress_health_check=list(HealthCheck))
    @seed(ctx.seed)
    @given(history())
    def prop(hh):
        N, br, times = hh
        r = judge_float_history(N, br, times)
        ctx.evaluations += 1
        if len(N) > 1:
            ctx.nontriv(("float", tuple(N), tuple(br)))
        if r is not None:
            fails.append((hh, r))
            raise AssertionError(r[1])

    try:
        prop()
    except AssertionError:
        pass
    if fails:
        (N, br, times), (cls, msg) = fails[-1]  # hypothesis replays the shrunk example last
        ctx.violation(f"C17/float/{cls}/{len(N)}-epoch", {"kind": "float-history", "N": N, "breaks": br, "times": times},
                      f"N={N} breaks={br}: {msg}", "float")


# ---- gamma_to_natural in general: moments of the transformed variable by quadrature ---------
def gamma_moments_quadrature(N, br, shape, rate):
    """E[Y], Var[Y] for Y = InvIntegral(X), X ~ gamma(shape, rate) on the coalescent scale;
    InvIntegral is linear on each [cb_i, cb_{i+1}] so integrate piece by piece (scipy.quad,
    trusted primitive)."""
    import scipy.integrate
    import scipy.stats
    NF, BF = [F(v) for v in N], [F(v) for v in br]
    cb = pc.CoalBreaks(NF, BF)
    tb = [F(0)] + BF
    pdf = scipy.stats.gamma(shape, scale=1.0 / rate).pdf
    m1 = m2 = 0.0
    for i in range(len(cb)):
        lo = float(cb[i])
        hi = float(cb[i + 1]) if i + 1 < len(cb) else math.inf
        a, slope = float(tb[i]), float(2 * NF[i])

        def y(x, lo=lo, a=a, slope=slope):
            return a + slope * (x - lo)
        mode = max((shape - 1) / rate, 0.0)
        pts = [p for p in (mode, shape / rate) if lo < p < hi]
        if math.isinf(hi):
            # split the unbounded piece at a point well beyond the bulk
            cut = max(lo, shape / rate + 40 * math.sqrt(shape) / rate)
            segs = [(lo, cut, pts), (cut, math.inf, None)] if cut > lo else [(lo, math.inf, None)]
        else:
            segs = [(lo, hi, pts)]
        for s_lo, s_hi, p in segs:
            kw = {"points": p} if p else {}
            m1 += scipy.integrate.quad(lambda x: y(x) * pdf(x), s_lo, s_hi, epsabs=0, epsrel=1e-11, limit=400, **kw)[0]
            m2 += scipy.integrate.quad(lambda x: y(x) ** 2 * pdf(x), s_lo, s_hi, epsabs=0, epsrel=1e-11, limit=400, **kw)[0]
    return m1, m2 - m1 * m1


def judge_gamma(N, br, shape, rate, rtol=1e-6):
    try:
        got = make(N, br).gamma_to_natural(shape, rate)
    except Exception as ex:  # noqa: BLE001
        return type(ex).__name__, f"{type(ex).__name__}: {ex}"
    mn, va = gamma_moments_quadrature(N, br, shape, rate)
    gm, gv = got[0] / got[1], got[0] / got[1] ** 2
    if not (abs(gm - mn) <= rtol * mn and abs(gv - va) <= 2 * rtol * va * max(1.0, mn * mn / va * 1e-3)):
        return "moments", (f"gamma_to_natural({shape!r}, {rate!r}) = {got.tolist()} has mean {gm!r} var {gv!r}; the mapped "
                           f"coalescent-scale gamma has mean {mn!r} var {va!r}")
    return None


def gamma_general(ctx, count):
    rng = np.random.default_rng(ctx.seed + 17)
    for _ in range(count):
        ne = int(rng.integers(1, 5))
        sc = 10.0 ** rng.uniform(0, 5)
        N = (sc * 10.0 ** rng.uniform(-1, 1, ne)).tolist()
        shape = float(10.0 ** rng.uniform(-0.5, 1.5))
        # put the bulk of the gamma among the epochs: choose breaks around its mean (generations ~ 2N * x)
        rate = float(10.0 ** rng.uniform(-2, 2))
        centre = 2 * sc * shape / rate
        br = np.sort(centre * 10.0 ** rng.uniform(-1, 0.7, ne - 1)).tolist()
        if len(set(br)) != len(br):
            continue
        r = judge_gamma(N, br, shape, rate)
        ctx.evaluations += 1
        if ne > 1:
            ctx.nontriv(("gamma", tuple(N), tuple(br), shape, rate))
        if r is not None:
            ctx.violation(f"C17/gamma_to_natural/{r[0]}/{ne}-epoch",
                          {"kind": "gamma", "N": N, "breaks": br, "shape": shape, "rate": rate},
                          f"N={N} breaks={br}: {r[1]}", "gamma")


def parameter_grid_rows(ctx, count):
    """build_parameter_grid rows are gamma_to_natural of the node's coalescent-scale gamma prior."""
    import tsdate
    from tsdate import prior
    from .. import build
    rng = np.random.default_rng(ctx.seed + 23)
    for i in range(count):
        ts = build.sim(n=int(rng.integers(2, 5)), L=400, rho=5e-4, mu=1e-3, Ne=100, seed=int(rng.integers(1, 2 ** 31)))
        ne = int(rng.integers(1, 4))
        N = (10.0 ** rng.uniform(1, 4, ne)).tolist()
        br = np.sort(10.0 ** rng.uniform(1, 4, ne - 1)).tolist()
        inst = {"kind": "parameter-grid", "sim_seed_index": i, "N": N, "breaks": br}
        try:
            psh = make(N, br)
            grid = tsdate.build_parameter_grid(ts, psh if ne > 1 or i % 2 else float(N[0]))
            mp = prior.MixturePrior(ts, prior_distribution="gamma")
        except Exception as ex:  # noqa: BLE001
            ctx.violation(f"C17/build_parameter_grid/{type(ex).__name__}", inst, f"{type(ex).__name__}: {ex}", "grid")
            continue
        samples = set(ts.samples().tolist())
        if sorted(grid.nonfixed_nodes.tolist()) != [u for u in range(ts.num_nodes) if u not in samples]:
            ctx.violation("C17/build_parameter_grid/nonfixed-nodes", inst, f"nonfixed_nodes={grid.nonfixed_nodes.tolist()}", "grid")
        for u in grid.nonfixed_nodes.tolist()[:6]:
            a, b = (float(v) for v in mp.prior_params[u])
            row = np.asarray(grid[u])
            mn, va = gamma_moments_quadrature(N, br, a, b)
            gm, gv = row[0] / row[1], row[0] / row[1] ** 2
            if not (abs(gm - mn) <= 1e-6 * mn and abs(gv - va) <= 1e-5 * va):
                ctx.violation("C17/build_parameter_grid/moments", dict(inst, node=u),
                              f"node {u}: row {row.tolist()} (mean {gm!r} var {gv!r}) for coalescent gamma ({a!r},{b!r}); "
                              f"mapped moments {mn!r} {va!r}", "grid")
            ctx.evaluations += 1


def run(ctx):
    harness.setup_repo_env(ctx.work)
    q = ctx.quick
    ctx.rule = ("size histories: every (sizes, breaks) of module Demography's scope replayed into the real class, plus "
                "hypothesis-generated float histories (1..6 epochs, 12 orders of magnitude) and random (history, gamma) "
                "pairs; non-trivial = at least two epochs (with different sizes for TLC cases); distinct by (sizes, breaks"
                "[, gamma parameters])")
    ctx.assumptions = [
        "TLC cases: exact equality when every expected value is dyadic, close12 otherwise (A1)",
        f"float histories: |code - exact| <= {KBOUND} eps * (sum of the magnitudes of the terms of the code-shaped "
        "formula) -- a backward-error bound, since t/m + step cancels when sizes differ by orders of magnitude; the exact "
        "value is the Fraction mirror of Demography!Integral, mirror_sync'd with TLC in the same run",
        "float histories: consecutive breaks, and their exact coalescent images, differ by more than 1e-9 relative (an "
        "epoch that collapses to zero length in float64 coalescent units trips the strict-monotonicity assert of "
        "_change_time_measure; not counted as a violation)",
        "gamma_to_natural (general): scipy.integrate.quad / scipy.stats.gamma.pdf are trusted primitives; rtol 1e-6 on "
        "the mean, 2e-6 (scaled by shape/1000 when the shape is large) on the variance; shapes in [0.3, 32]",
    ]
    if q:
        cases = pc.demography_cases(ctx, "demo_q", 3, (1, 2, 6), 2, 3, 2, 8)
    else:
        cases = pc.demography_cases(ctx, "demo_t", 3, (1, 2, 4, 6), 2, 4, 2, 10)
        cases += pc.demography_cases(ctx, "demo_t4", 4, (1, 4), 2, 5, 4, 22, gamma_nums=(3,), gamma_den=4)
    for c in cases:
        replay_case(ctx, c)
    ctx.exhaustive = True
    float_histories(ctx, 300 if q else 4000)
    gamma_general(ctx, 40 if q else 600)
    parameter_grid_rows(ctx, 3 if q else 12)


def replay(ctx, body):
    harness.setup_repo_env(ctx.work)
    inst = body["instance"]
    kind = inst.get("kind")
    if kind == "tlc-case":
        # the mirror was synchronised with TLC when the violation was found; replay uses it directly
        N = [pc.frac(x) for x in inst["N"]]
        br = [pc.frac(x) for x in inst["breaks"]]
        times = [F(i, 2) for i in range(11)]
        c = {"N": N, "breaks": br, "times": times, "coal": [pc.Integral(N, br, t) for t in times],
             "nat": [pc.InvIntegral(N, br, t) for t in times], "cb": pc.CoalBreaks(N, br),
             "cr": [1 / (2 * x) for x in N], "gamma": []}
        replay_case(ctx, c)
    elif kind == "float-history":
        r = judge_float_history(inst["N"], inst["breaks"], inst["times"])
        if r:
            ctx.violation(f"C17/float/{r[0]}/{len(inst['N'])}-epoch", inst, r[1], "float")
    elif kind == "gamma":
        r = judge_gamma(inst["N"], inst["breaks"], inst["shape"], inst["rate"])
        if r:
            ctx.violation(f"C17/gamma_to_natural/{r[0]}/{len(inst['N'])}-epoch", inst, r[1], "gamma")
    else:
        parameter_grid_rows(ctx, 3)
