"""C33 -- provenance records each call exactly once.

J1  TLC: module Session (provenance only): every history of up to MaxCalls public calls over
    {date x 3 methods, the 3 named methods, preprocess_ts, split_disjoint_nodes} x
    record_provenance in {True, False, default} x option sets; action property AppendOnly
    ([][IsPrefix(prov, prov') /\\ Len(prov') <= Len(prov) + 1]_prov over every step of the
    get_modified_ts-shaped model) and invariant ProvPerCall (exactly one record appended iff
    recording, record = command + parameters as given with the wrappers' defaults filled in).
J2  the same run emits every history; they are replayed as a prefix tree on real tree sequences
    (each call applied to the tree sequence the previous call returned), and the number of
    records after each step is compared with the specification's.
J3  every replayed call is one SessionTrace line: provenance rows interned before / after (A3:
    timestamp + record text), abstraction of the newest record (command, software name,
    tskit.validate_provenance verdict, parameters as canonical JSON texts) and the keyword
    arguments as given; TLC computes the expected parameters (module Session: defaults, aliases,
    computed intervals) and decides prefix / count / command / every parameter.  Calls with
    numpy-typed argument values and (thorough) every call of the repository's test-suite are
    judged the same way; a call that fails *inside* provenance recording is a violation.
"""

import json
import random

import numpy as np

from .. import harness
from .. import session_common as sc

PID = "C33"
CHECKS = ["Prov"]


def history_input(seed):
    from .. import build
    i = 0
    while True:
        i += 1
        ts = build.sim(n=2, L=40, rho=5e-3, mu=1e-3, Ne=100, seed=seed % 10 ** 6 + 17 * i)
        pos = ts.sites_position
        if ts.num_sites >= 8 and ts.num_mutations >= 10 and np.sum(pos > 4) >= 6 and ts.num_trees >= 2:
            return ts


def hkey(hist):
    return json.dumps([[c["fn"], c["rec"], c["opt"]] for c in hist])


def generate(ctx, name, *, max_calls, fns, rec_modes, nopts, simulate=None):
    cfg = sc.session_cfg(ctx, name, max_calls=max_calls, fns=fns, rec_modes=rec_modes, nopts=nopts, track=False,
                         emit=True, invariants=["ProvPerCall"], properties=[] if simulate else ["AppendOnly"])
    if simulate:
        r = ctx.tlc("Session", cfg, workers=1, simulate={"num": simulate}, depth=30 * max_calls, timeout=1500)
    else:
        r = ctx.tlc("Session", cfg, workers=8, timeout=1500,
                    required_actions=("Begin", "RecordProv", "Preprocess", "Return", "MdRun"))
    steps = {}
    for s in r.rec("step"):
        steps[hkey(s["hist"])] = s
    return steps


def replay_tree(ctx, steps, ts0, events, meta, label):
    snap0 = sc.Snap(ts0)
    n0 = len(snap0.prov)
    state = {"[]": (ts0, snap0)}
    maxlen = max((len(s["hist"]) for s in steps.values()), default=0)
    for key in sorted(steps, key=lambda k: (len(steps[k]["hist"]), k)):
        s = steps[key]
        hist = s["hist"]
        pkey = hkey(hist[:-1])
        if pkey not in state:
            ctx.count("history_steps_skipped_parent_missing_or_failed")
            continue
        ts, snap = state[pkey]
        fn_name, kwargs = sc.fn_and_kwargs(hist[-1], s["given"])
        rec = sc.SessionRec(f"{label}:{key}", events)
        obs = rec.call(fn_name, ts, before=snap, lite=True, **kwargs)
        ctx.evaluations += 1
        meta[(rec.tid, 1)] = {"recipe": {"hist": hist}, "exc": repr(obs.exc) if obs.exc else None}
        if not obs.ok:
            if not obs.event["prov"]["raised"]:  # failures inside provenance recording are judged by SessionTrace
                sc.note_failure(ctx, PID, label, fn_name, rec.tid, obs, meta[(rec.tid, 1)])
            continue
        ctx.nontriv(key)
        got = len(obs.after.prov) - n0
        if got != s["nprov"]:
            ctx.violation(f"C33/{label}/{fn_name}/record-count-differs-from-Session",
                          {"kind": "history", "hist": hist},
                          f"after history {key} the real provenance table has {got} new records, the specification "
                          f"{s['nprov']}", subcheck=label)
        if len(hist) < maxlen:
            state[key] = (obs.ts, obs.after)
        ctx.sample({"kind": "history step", "hist": [[c["fn"], c["rec"], c["opt"]] for c in hist],
                    "records_spec": s["nprov"], "records_real": got,
                    "newest": obs.event["prov"]["last"]["command"]}, limit=5)
    return state


def linear_sessions(ctx, steps, ts0, events, meta, n, label="session"):
    """whole histories replayed as one chained session each (the next call must start from the
    provenance rows the previous call returned)"""
    rng = random.Random(ctx.seed)
    full = [k for k in steps if len(steps[k]["hist"]) == max(len(s["hist"]) for s in steps.values())]
    for key in rng.sample(full, min(n, len(full))):
        hist = steps[key]["hist"]
        rec = sc.SessionRec(f"{label}:{key}", events)
        ts = ts0
        for j in range(len(hist)):
            s = steps.get(hkey(hist[:j + 1]))
            if s is None:
                break
            fn_name, kwargs = sc.fn_and_kwargs(hist[j], s["given"])
            obs = rec.call(fn_name, ts, chained=j > 0, lite=True, **kwargs)
            ctx.evaluations += 1
            meta[(rec.tid, rec.seq)] = {"recipe": {"hist": hist[:j + 1]}}
            if not obs.ok:
                break
            ts = obs.ts


def value_calls(ctx, ts0, events, meta):
    """argument values as users hold them: numpy scalars / arrays, PopulationSizeHistory objects"""
    import tsdate
    mu = 0.005
    cases = [
        ("variational_gamma", dict(mutation_rate=np.float64(mu), max_iterations=3)),
        ("variational_gamma", dict(mutation_rate=mu, max_iterations=np.int64(3))),
        ("variational_gamma", dict(mutation_rate=mu, rescaling_intervals=np.int64(10), max_iterations=2)),
        ("date", dict(mutation_rate=mu, method="inside_outside", population_size=np.float64(100))),
        ("inside_outside", dict(mutation_rate=mu, population_size=tsdate.demography.PopulationSizeHistory(
            np.array([100.0, 300.0]), np.array([40.0])))),
        ("maximization", dict(mutation_rate=mu, population_size={"population_size": np.array([100, 200]),
                                                                 "time_breaks": np.array([50])})),
        ("maximization", dict(mutation_rate=mu, population_size=100, eps=np.float64(1e-6))),
        ("preprocess_ts", dict(minimum_gap=np.int64(20))),
        ("preprocess_ts", dict(minimum_gap=np.float64(20.0), erase_flanks=np.bool_(False))),
        ("preprocess_ts", dict(delete_intervals=np.array([[0.0, 3.0]]))),
        ("preprocess_ts", dict(delete_intervals=[(0, 3)])),
        ("preprocess_ts", dict(delete_intervals=[[np.float64(0), np.float64(3)]])),
    ]
    for i, (fn_name, kw) in enumerate(cases):
        for rp in (True, False):
            tid = f"values:{i}:{fn_name}:{'on' if rp else 'off'}"
            rec = sc.SessionRec(tid, events)
            obs = rec.call(fn_name, ts0, lite=True, record_provenance=rp, **kw)
            ctx.evaluations += 1
            meta[(tid, 1)] = {"recipe": {"values": i, "rp": rp}, "kwargs": {k: repr(v) for k, v in kw.items()},
                              "exc": repr(obs.exc) if obs.exc else None}
            if obs.ok:
                ctx.nontriv(tid)
            else:
                ctx.count("value_calls_failed")


def run(ctx):
    sc.setup(ctx)
    q = ctx.quick
    ctx.rule = ("histories of public calls emitted by TLC (all of them up to the stated length, plus simulated longer "
                "ones) replayed as a prefix tree on real tree sequences; one SessionTrace line per real call; "
                "non-trivial = the call returned (distinct histories) ")
    ctx.assumptions = [
        "timestamps and resources of records differ from run to run and are never compared across calls; a record row "
        "is interned as (timestamp, record text), so 'earlier records kept' is byte equality of the earlier rows",
        "parameters are compared as canonical JSON texts (integral numbers print as integers; numpy values are "
        "converted to Python values first); delete_intervals computed by preprocess_ts is only required to be present",
        "keyword arguments that tsdate does not put into the record at all (min_branch_length, constr_iterations, "
        "set_metadata, return_*, allow_unary; simplify's **kwargs) are not demanded: only recorded keys are compared",
        "split_disjoint_nodes is not named by the statement; it is driven and judged like preprocess_ts because its "
        "record_provenance argument is documented the same way"]
    fns = sc.ALL_MODEL_FNS
    steps = generate(ctx, "c33_j12", max_calls=2, fns=fns, rec_modes=["on", "off"], nopts=2 if q else 3)
    ctx.count("histories", len(steps))
    ctx.exhaustive = True
    ts0 = history_input(ctx.seed)
    events, meta = [], {}
    with sc.phase(ctx, "replay"):
        replay_tree(ctx, steps, ts0, events, meta, "history")
        linear_sessions(ctx, steps, ts0, events, meta, 10 if q else 60)
    # the default (record_provenance not passed) and longer histories: simulated behaviours
    sim = generate(ctx, "c33_sim", max_calls=3 if q else 4, fns=fns, rec_modes=["on", "off", "default"], nopts=4,
                   simulate=40 if q else 300)
    ctx.count("simulated_history_steps", len(sim))
    replay_tree(ctx, sim, ts0, events, meta, "simulated")
    if not q:
        linear_sessions(ctx, sim, ts0, events, meta, 60, label="simsession")
    sc.require_results(ctx, events)
    value_calls(ctx, ts0, events, meta)
    sc.judge(ctx, PID, CHECKS, events, meta, lambda ev: ev["tid"].split(":")[0])
    if not q:
        evs, rc, tail = sc.run_suite(ctx, ["tests/test_provenance.py", "tests/test_inference.py", "tests/test_util.py",
                                           "tests/test_noncontemporary.py", "tests/test_cli.py", "tests/test_phasing.py"])
        ctx.extra["suite_pytest_summary"] = tail
        ok = [e for e in evs if e["outcome"] == "ok"]
        ctx.count("suite_calls_judged", len(ok))
        for e in ok:
            ctx.nontriv(e["tid"])
        sc.judge(ctx, PID, CHECKS, ok, {}, "suite")


def replay(ctx, body):
    sc.setup(ctx)
    inst = body["instance"]
    label = body.get("subcheck") or "history"
    recipe = (inst.get("meta") or {}).get("recipe") or {}
    hist = inst.get("hist") or recipe.get("hist")
    ts0 = history_input(ctx.seed)
    if hist:
        # re-run the whole history on real objects and judge every call of it
        steps = generate(ctx, "c33_replay", max_calls=len(hist), fns=sorted({c["fn"] for c in hist}),
                         rec_modes=sorted({c["rec"] for c in hist}), nopts=4)
        want = {hkey(hist[:j + 1]) for j in range(len(hist))}
        steps = {k: v for k, v in steps.items() if k in want}
        if len(steps) != len(hist):
            raise harness.MachineryError("cannot regenerate the history from module Session")
        events, meta = [], {}
        replay_tree(ctx, steps, ts0, events, meta, label)
        sc.judge(ctx, PID, CHECKS, events, meta, label)
        return
    if "values" in recipe:
        ev2, meta2 = [], {}
        value_calls(ctx, ts0, ev2, meta2)
        keep = [e for e in ev2 if e["tid"].startswith(f"values:{recipe['values']}:")]
        sc.judge(ctx, PID, CHECKS, keep, meta2, "values")
        return
    sc.judge(ctx, PID, inst.get("checks", CHECKS), [inst["event"]], {}, label)
