"""C04 -- reported posteriors in metadata equal the fit object's posteriors.

J1  TLC: module Metadata decides, for every schema kind x content kind x set_metadata x method x
    table, whether time metadata is written ("when time metadata is written ..."), including
    that the maximization method and the mutation table of the discrete methods never are.
J3  code -> spec: real date(return_fit=True, set_metadata in {None, True}) calls over corpus x
    3 methods x metadata schemas (none, permissive JSON with other fields, struct with double /
    single precision) x singletons_phased.  The recorder interns (A3) the mn / vr values found in
    the returned node / mutation metadata and the values fit.node_posteriors() /
    fit.mutation_posteriors() give after a round trip through the table's own codec (NaN = NaN,
    missing key = 0); for inside_outside it evaluates the named predicates (A4) prob_row, close12,
    var_close12 on the posterior grid rows.  SessionTrace states which equalities / predicates
    must hold for which method and decides.
    thorough: additionally every dating call of the repository's test-suite (the plugin asks for
    the fit object and strips it from the returned value).
"""

import json


from .. import session_common as sc

PID = "C04"
CHECKS = ["Posterior"]

STRUCT_D = {"codec": "struct", "type": "object", "properties": {
    "mn": {"type": "number", "binaryFormat": "d"}, "vr": {"type": "number", "binaryFormat": "d"}}}
STRUCT_F = {"codec": "struct", "type": "object", "properties": {
    "x": {"type": "integer", "binaryFormat": "i", "default": 9},
    "mn": {"type": "number", "binaryFormat": "f"}, "vr": {"type": "number", "binaryFormat": "f"}}}
CLOSED = {"codec": "json", "type": "object", "properties": {"foo": {"type": "number"}}, "additionalProperties": False}


def with_schema(ts, kind):
    """the same tree sequence with node and mutation metadata under another schema kind"""
    import tskit
    if kind == "asis":
        return ts
    t = ts.dump_tables()
    for tab in (t.nodes, t.mutations):
        tab.drop_metadata()
        if kind == "none":
            continue
        schema = {"struct_d": STRUCT_D, "struct_f": STRUCT_F, "closed": CLOSED}[kind]
        tab.metadata_schema = tskit.MetadataSchema(schema)
        if kind == "struct_d":
            tab.packset_metadata([tab.metadata_schema.validate_and_encode_row({"mn": 1.0, "vr": 2.0})] * tab.num_rows)
        elif kind == "closed":
            tab.packset_metadata([tab.metadata_schema.validate_and_encode_row({"foo": 1})] * tab.num_rows)
    return t.tree_sequence()


def variants(ctx, corpus):
    kinds = ["asis", "none", "struct_d", "struct_f", "closed"]
    out = []
    for i, inp in enumerate(corpus):
        ks = [kinds[i % len(kinds)], kinds[(i + 2) % len(kinds)]] if ctx.quick else kinds
        for k in dict.fromkeys(ks):
            out.append((inp, k, with_schema(inp.ts, k)))
    return out


def drive(ctx, corpus, only=None):
    events, meta = [], {}
    for i, (inp, kind, ts) in enumerate(variants(ctx, corpus)):
        before = None
        for method in ("variational_gamma", "inside_outside", "maximization"):
            if method != "variational_gamma" and not sc.discrete_ok(inp):
                continue
            settings = [{}, {"set_metadata": True}]
            if method == "variational_gamma":
                settings.append({"singletons_phased": False, "set_metadata": True if i % 2 else None})
                if not ctx.quick:
                    settings.append({"rescaling_intervals": 0, "max_iterations": 2})
            if method == "inside_outside" and (i % 2 or not ctx.quick):
                settings.append({"probability_space": "linear", "ignore_oldest_root": bool(i % 4 == 1)})
            for kw in settings:
                kw = {k: v for k, v in kw.items() if v is not None}
                tid = f"{inp.name}/{kind}/{method}/{json.dumps(kw, sort_keys=True)}"
                if only is not None and tid != only:
                    continue
                args = dict(mutation_rate=inp.mu, method=method, return_fit=True, **kw)
                if method != "variational_gamma":
                    args["population_size"] = inp.Ne
                if before is None:
                    before = sc.Snap(ts)
                rec = sc.SessionRec(tid, events)
                obs = rec.call("date", ts, before=before, **args)
                ctx.evaluations += 1
                meta[(tid, 1)] = {"recipe": {"tid": tid}, "exc": repr(obs.exc) if obs.exc else None}
                if not obs.ok:
                    sc.note_failure(ctx, PID, "date", "date", tid, obs, meta[(tid, 1)])
                    continue
                P = obs.event["post"]
                if P["nodes_written"] or P["muts_written"] or method == "maximization":
                    ctx.nontriv(tid)
                ctx.count("node_values_compared", len(P["md_mn"]))
                ctx.count("mutation_values_compared", len(P["mmd_mn"]))
                ctx.count("nan_mutation_posteriors", obs.info.get("nan_mutations", 0))
                ctx.count("posterior_grid_rows_checked", obs.info.get("grid_rows", 0))
                if not (P["nodes_written"] or method == "maximization"):
                    ctx.count("calls_where_node_metadata_was_not_written")
                ctx.sample({"kind": "date(return_fit=True)", "tid": tid, "nodes_written": P["nodes_written"],
                            "muts_written": P["muts_written"], "nodes": len(P["md_mn"]),
                            "distinct_values": int(len(set(P["md_mn"]) | set(P["md_vr"])))}, limit=6)
    return events, meta


def run(ctx):
    sc.setup(ctx)
    q = ctx.quick
    ctx.rule = ("real date(return_fit=True, set_metadata in {None, True}) calls over corpus x metadata schema kinds x 3 "
                "methods x options; non-trivial = time metadata was written (or the method is maximization, which must "
                "write none); every node / mutation value is compared")
    ctx.assumptions = [
        "equality is exact float equality after a round trip through the table's own metadata codec (exact for JSON and "
        "double-precision struct fields; single-precision struct fields are compared after the codec's rounding)",
        "mutation metadata travels with its mutation when sort() re-orders a site: fit rows (input order) and metadata "
        "rows (output order) are compared as multisets per (site, derived_state)",
        "the timepoints of the inside_outside grid are the field names of fit.node_posteriors()",
        "predicates: " + json.dumps(sc.PREDICATES)]
    cfg = ctx.write_cfg("c04_md.cfg", spec="MdSpec",
                        constants={"CellSchemas": sc.tla_set(sorted(ALL_SCHEMAS)), "CellMethods": sc.tla_set(METHODS),
                                   "EmitCells": "FALSE"}, invariants=MD_INVS)
    ctx.tlc("Metadata", cfg, workers=4, required_actions=("MdChoose", "MdStart", "MdTry1", "MdExcept", "MdTry2"))
    corpus = sc.frame_corpus(ctx, k=1 if q else 3, big=not q)
    events, meta = drive(ctx, corpus)
    sc.require_results(ctx, events)
    sc.judge(ctx, PID, CHECKS, events, meta, "date")
    if not q:
        evs, rc, tail = sc.run_suite(ctx, ["tests/test_inference.py", "tests/test_noncontemporary.py",
                                           "tests/test_util.py", "tests/test_phasing.py"])
        ctx.extra["suite_pytest_summary"] = tail
        ok = [e for e in evs if e["outcome"] == "ok" and e["ev"] == "Date" and e["post"]["judged"]]
        ctx.count("suite_calls_judged", len(ok))
        for e in ok:
            if e["post"]["nodes_written"] or e["opts"]["method"] == "maximization":
                ctx.nontriv(e["tid"])
        sc.judge(ctx, PID, CHECKS, ok, {}, "suite")


ALL_SCHEMAS = ["none", "perm", "jopen", "jclosed", "jclosed_mnvr", "jreq", "jmnstr", "struct_mnvr", "struct_x_mnvr",
               "struct_x", "struct_xdef_mnvr", "dflt"]
METHODS = ["variational_gamma", "inside_outside", "maximization"]
MD_INVS = ["OutcomeIsStatement", "WrittenRowsAllCarry", "MergeKeepsFieldsAndSchema", "UntouchedIsUntouched",
           "DefaultInstalled", "FalseNeverTouches", "TrueAlwaysWrites", "FieldsLostOnlyWhenForced"]


def replay(ctx, body):
    sc.setup(ctx)
    inst = body["instance"]
    label = body.get("subcheck") or "date"
    tid = ((inst.get("meta") or {}).get("recipe") or {}).get("tid")
    if tid and label == "date":
        ctx.tier = body.get("tier", "quick")
        corpus = sc.frame_corpus(ctx, k=1 if ctx.quick else 3, big=not ctx.quick)
        events, meta = drive(ctx, corpus, only=tid)
        if events:
            sc.judge(ctx, PID, CHECKS, events, meta, label)
            return
    sc.judge(ctx, PID, inst.get("checks", CHECKS), [inst["event"]], {}, label)
