"""C14 -- conditional coalescent prior moments are exact.

J1  TLC explores every behaviour of the labelled Kingman jump chain (module Coalescent)
    for n <= 6 (quick) / 7 (thorough), counts in how many behaviours a given clade of k
    tips forms when `a` lineages remain, and checks (POSTCONDITION) that the resulting
    Pr(a|k,n), mean and variance equal (i) the closed form of module CoalescentMoments and
    (ii) prior._marginalize_over_ancestors / conditional_coalescent_variance / tau_expect
    transcribed into exact rationals.
J2  every (n, k) row TLC emitted is replayed into the real code:
    ConditionalCoalescentTimes(None, distr).add(n) rows (mean, var, alpha, beta for both
    distributions), conditional_coalescent_variance(n), and the exactly computed MRCA row
    of the approximate-prior path.
J2' beyond TLC's scope the Fraction mirror of the closed form (mirror_sync'd against
    TLC's rows in the same run) is the oracle, for all n <= 150 (quick) / a cover of
    n <= 600 (thorough).
"""

import math

import numpy as np

from .. import harness
from .. import prior_common as pc

PID = "C14"
DISTRS = ("lognorm", "gamma")


def expected_rows(n, rows=None, ks=None):
    """[(k, mean, var, source)]: TLC's rows when it has them, else the mirror"""
    out = []
    c = None
    for k in (range(2, n + 1) if ks is None else ks):
        if rows is not None and (n, k) in rows:
            out.append((k, rows[(n, k)]["mean"], rows[(n, k)]["var"], "tlc"))
        else:
            c = c or pc.Coal.get(n)
            out.append((k, c.CMean(k), c.CVar(k), "mirror"))
    return out


def check_n(ctx, n, rows=None, distrs=DISTRS, inst_extra=None, ks=None):
    """Real tsdate tables for total sample count n against the exact moments (all k, or `ks`)."""
    from tsdate import prior
    rtol = pc.coal_rtol(n)
    exp = expected_rows(n, rows, ks)
    inst = {"n": n, "kind": "exact-prior"}
    inst.update(inst_extra or {})
    try:
        v = prior.conditional_coalescent_variance(np.uint64(n))
        tables = {}
        for d in distrs:
            cct = prior.ConditionalCoalescentTimes(None, d)
            cct.add(n)
            tables[d] = np.array(cct[n])
    except Exception as ex:  # noqa: BLE001
        ctx.violation(f"C14/add/{type(ex).__name__}", inst, f"n={n}: {type(ex).__name__}: {ex}", "moments")
        return
    if v.shape != (n + 1,) or any(t.shape != (n + 1, 4) for t in tables.values()):
        ctx.violation("C14/add/shape", inst, f"n={n}: table shapes {v.shape} {[t.shape for t in tables.values()]}",
                      "moments")
        return
    for k, mean, var, src in exp:
        if not pc.close(v[k], var, rtol):
            ctx.violation("C14/conditional_coalescent_variance/value", dict(inst, k=k),
                          f"conditional_coalescent_variance({n})[{k}] = {v[k]!r}, exact {float(var)!r} "
                          f"(from {src}), rel.err {pc.relerr(v[k], var):.3g}", "moments")
        for d, t in tables.items():
            alpha, beta, m, vv = (float(x) for x in t[k])
            if not pc.close(m, mean, rtol):
                ctx.violation("C14/add/mean", dict(inst, k=k, distr=d),
                              f"n={n} k={k}: prior mean {m!r}, exact {float(mean)!r} (from {src})",
                              "moments")
            if not pc.close(vv, var, rtol):
                ctx.violation("C14/add/var", dict(inst, k=k, distr=d),
                              f"n={n} k={k}: prior var {vv!r}, exact {float(var)!r} (from {src}), "
                              f"rel.err {pc.relerr(vv, var):.3g}", "moments")
            msg = pc.matched(d, alpha, beta, mean, var, rtol)
            if msg:
                ctx.violation(f"C14/add/{d}-params", dict(inst, k=k, distr=d), f"n={n} k={k}: {msg}", "moment-match")
            ctx.evaluations += 1
        ctx.nontriv(("nk", n, k))
    if n in (5, 37):
        k, mean, var, src = exp[len(exp) // 2]
        ctx.sample({"kind": "ConditionalCoalescentTimes row vs exact", "n": n, "k": k, "oracle": src,
                    "exact_mean": str(mean), "exact_var": str(var),
                    "lognorm_row": tables["lognorm"][k].tolist() if "lognorm" in tables else None,
                    "gamma_row": tables["gamma"][k].tolist() if "gamma" in tables else None})


def check_mrca_approx(ctx, n, approx_n, rows=None):
    """The approximate-prior path computes the MRCA row exactly (tau_var_mrca): bind that row."""
    from tsdate import prior
    inst = {"n": n, "kind": "approx-mrca", "approx_n": approx_n}
    try:
        cct = prior.ConditionalCoalescentTimes(approx_n, "gamma")
        cct.add(n, approximate=True)
        row = cct[n][n]
        direct = float(prior.ConditionalCoalescentTimes.tau_var_mrca(n))
    except Exception as ex:  # noqa: BLE001
        ctx.violation(f"C14/approx-mrca/{type(ex).__name__}", inst, f"n={n}: {type(ex).__name__}: {ex}", "mrca")
        return
    k, mean, var, src = expected_rows(n, rows)[-1]
    rtol = pc.coal_rtol(n)
    if not (pc.close(row[2], mean, rtol) and pc.close(row[3], var, rtol) and pc.close(direct, var, rtol)):
        ctx.violation("C14/approx-mrca/value", inst,
                      f"n={n}: MRCA row of the approximate prior mean={row[2]!r} var={row[3]!r} tau_var_mrca={direct!r}; "
                      f"exact {float(mean)!r} {float(var)!r}", "mrca")
    msg = pc.matched("gamma", row[0], row[1], mean, var, rtol)
    if msg:
        ctx.violation("C14/approx-mrca/gamma-params", inst, f"n={n}: {msg}", "mrca")
    ctx.evaluations += 1


def run(ctx):
    harness.setup_repo_env(ctx.work)
    q = ctx.quick
    ctx.rule = ("pairs (n, k), 2 <= k <= n; a pair is counted when the real ConditionalCoalescentTimes row and "
                "conditional_coalescent_variance entry for it were compared with the exact value (TLC's behaviour "
                "count for n <= 7, the mirror_sync'd closed form beyond); distinct by (n, k)")
    ctx.assumptions = [
        "time unit of the prior tables: pairwise coalescence rate 1 (tau_expect(n,n) = 2(1-1/n))",
        "tolerance close12 (rtol 1e-12), widened to 4e-15*n for n > 250 (O(n) log-space roundings)",
        "lognormal parameters are judged by the closed-form transform and by the moments of (alpha, beta) with "
        "absolute tolerances scaled by |log mean| + beta/2 (A4)",
        "beyond n = 7 the oracle is the Fraction mirror of CoalescentMoments!CMean/CVar, shown equal to TLC's "
        "output for every (n,k) in TLC's scope in the same run",
    ]
    nmax_tlc = 6 if q else 7
    rows = pc.coalescent_tables(ctx, 2, nmax_tlc)
    ctx.traces += len(rows)  # behaviours' statistics replayed row by row
    for n in range(2, nmax_tlc + 1):
        check_n(ctx, n, rows)
    ctx.count("tlc_rows_replayed", len(rows))
    # beyond TLC: mirror
    if q:
        ns = list(range(nmax_tlc + 1, 151))
    else:
        ns = list(range(nmax_tlc + 1, 201)) + sorted(ctx.rng.sample(range(201, 600), 24)) + [600]
    for n in ns:
        check_n(ctx, n, None)
    # large n (the statement quantifies "up to a large bound on n"): selected k, where the recursion
    # over ancestors has the most terms (small k) and at the ends; added after seeded change C14-a
    big = [1100, 1600] if q else [1100, 1300, 1600, 2500, 4000]
    for n in big:
        ks = sorted({2, 3, 5, 17, n // 3, n - 1, n})
        check_n(ctx, n, None, ks=ks, inst_extra={"ks": ks})
    ctx.count("largest_n", max(ns + big))
    for n in ([3, 12, 40] if q else [2, 3, 12, 40, 97, 250]):
        check_mrca_approx(ctx, n, approx_n=25 if q else 60, rows=rows)
    ctx.exhaustive = True  # every (n,k) with n <= 150 (quick) / n <= 200 (thorough) is covered


def replay(ctx, body):
    harness.setup_repo_env(ctx.work)
    inst = body["instance"]
    if inst.get("kind") == "exact-prior" and inst.get("ks"):
        check_n(ctx, inst["n"], None, ks=inst["ks"], inst_extra={"ks": inst["ks"]})
        return
    n = int(inst["n"])
    rows = pc.coalescent_tables(ctx, 2, max(2, min(n, 6))) if n <= 6 else None
    if inst.get("kind") == "approx-mrca":
        check_mrca_approx(ctx, n, inst.get("approx_n", 25), rows)
    else:
        check_n(ctx, n, rows)
