"""C23 -- rescaling credits each unphased singleton to its branches by phase probability.

J1  TLC: spec/Realloc.tla -- TotalOne, FinalGetsLarger, OthersUnchanged for the specified
    reallocation over all small block / singleton / phase configurations; the pre-repair
    behaviour ("swapped") is kept as a named variant that TLC shows to violate
    FinalGetsLarger.
J3  real variational_gamma(singletons_phased=False) calls with the mutation-count table
    snapshotted around rescale(); TLC (spec/ReallocTrace.tla) recomputes the expected counts
    from the recorded blocks, final placements and fitted phases and compares; the rescaling step is
    then run once more on the returned fit object and judged by the same clauses.
"""

import json
import os

import numpy as np

from .. import ep_common as ec
from .. import harness, inputs

PID = "C23"


def validate(ctx, events):
    if not events:
        return []
    path = os.path.join(ctx.work, f"realloc-{len(events)}.ndjson")
    with open(path, "w") as f:
        for e in events:
            f.write(json.dumps(e) + "\n")
    cfg = ctx.write_cfg("ReallocTrace.cfg", spec="TraceSpec")
    r = ctx.tlc("ReallocTrace", cfg, workers=1, coverage=False, env={"TRACE_FILE": path}, must_hold=False)
    acc = r.rec("accepted")
    if not acc:
        raise harness.MachineryError("ReallocTrace gave no verdict\n" + r.stdout[-2000:])
    rej = r.rec("reject")
    if acc[-1]["accepted"] + len({x["tid"] for x in rej}) != len(events):
        raise harness.MachineryError("ReallocTrace verdict count mismatch")
    ctx.traces += len(events)
    return rej


def run(ctx):
    harness.setup_repo_env(ctx.work)
    q = ctx.quick
    ctx.rule = ("Realloc: all configurations of <= 2 blocks over 4 edges, <= 2-3 singletons, phases in quarters; real "
                "calls on diploid inputs with randomly re-phased singletons x rescaling settings; non-trivial = call "
                "with at least one singleton finally placed on its block's second edge (switched)")
    ctx.assumptions = ["phases and counts rounded to 1/65536; slack of one unit per singleton touching an edge"]
    base = {"NEdges": 4, "MaxSing": 2 if q else 3, "Unit": 4, "Phases": "{2,3,4}"}
    cfg = ctx.write_cfg("realloc_spec.cfg", constants=dict(base, Variant='"specified"'),
                        invariants=["TotalOne", "FinalGetsLarger"], properties=["OthersUnchanged"])
    ctx.tlc("Realloc", cfg, workers=8, required_actions=("AddBlock", "AddSing", "Start", "Reallocate"))
    cfg = ctx.write_cfg("realloc_swapped.cfg", constants=dict(base, Variant='"swapped"'), invariants=["FinalGetsLarger"])
    r = ctx.tlc("Realloc", cfg, workers=4, must_hold=False, coverage=False)
    ctx.extra["swapped_variant_violates_FinalGetsLarger"] = r.violated is not None
    rng = np.random.default_rng(ctx.seed)
    corpus = inputs.diploid(ctx.seed, k=2 if q else 8) + inputs.tiny_diploid(ctx.seed, k=4 if q else 12)
    events = []
    settings = [{"max_iterations": 3}, {"max_iterations": 2, "match_segregating_sites": True, "rescaling_intervals": 5}]
    if not q:
        settings += [{}, {"max_iterations": 10, "rescaling_iterations": 2}]
    for inp in corpus:
        for rep in range(2 if q else 4):
            ts, moved = ec.rephase(inp.ts, rng) if rep else (inp.ts, 0)
            for kw in settings:
                ev, call = ec.observe_realloc(ts, inp.mu, **kw)
                ctx.evaluations += 1
                if ev is None:
                    ctx.count("calls_rejected_or_failed" if not call.ok else "calls_without_rescale")
                    if not call.ok:
                        # internal errors are C35's subject (e.g. the open finding "Use fewer rescaling intervals")
                        ctx.extra.setdefault("failed_calls", {})[f"{inp.name}/{sorted(kw.items())}"] = repr(call.exc)[:160]
                    continue
                ev["tid"] = f"{inp.name}/rephase{rep}/{sorted(kw.items())}"
                after2 = ev.pop("after2", None)
                events.append(ev)
                if after2 is not None:
                    events.append(dict(ev, after=after2, tid=ev["tid"] + "/second-rescale"))
                    ctx.count("second_rescale_steps_traced")
                if ev["n_switched"] > 0:
                    ctx.nontriv(ev["tid"])
                elif ev["sing"]:
                    ctx.count("calls_without_switched_singleton")
                    ctx.nontriv(ev["tid"])
                ctx.sample({"tid": ev["tid"], "blocks": len(ev["blocks"]), "singletons": len(ev["sing"]),
                            "switched": ev["n_switched"]}, limit=6)
    rej = validate(ctx, events)
    by = {e["tid"]: e for e in events}
    for x in rej:
        ctx.violation(f"C23/date/{x['clause'].split(':')[0]}", {"event": by[x["tid"]]},
                      f"trace {x['tid']} rejected by ReallocTrace: {x['clause']}", subcheck="date")
    ctx.count("calls_traced", len(events))
    ctx.extra["switched_singletons_seen"] = sum(e["n_switched"] for e in events)


def replay(ctx, body):
    harness.setup_repo_env(ctx.work)
    rej = validate(ctx, [body["instance"]["event"]])
    for x in rej:
        ctx.violation(body["signature"], body["instance"], f"replay rejected: {x['clause']}", subcheck="date")
