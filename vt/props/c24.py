"""C24 -- per-edge mutation, span and singleton-block tallies are exact.

J1  TLC: module Sweep (the edge-diff loop of rescaling._count_mutations, plain and
    size-biased, default and explicit sample sets) against the declarative tally, on
    every forest sequence / mutation placement in scope; module Blocks likewise for
    phasing._block_singletons.
J2  every behaviour of a smaller scope (and simulated behaviours of a larger one) is
    replayed: the instance becomes a real tskit tree sequence, the real
    count_mutations / mutation_span_array / block_singletons / mutation_frequency run
    on it, and the results must equal the specification's final state exactly (A1).
    The TreeSeq module's model of tskit's edge order and indexes is checked on the way.
"""

import numpy as np

from .. import harness
from .. import sweep_common as sc

PID = "C24"


def replay_one(ctx, inst):
    from tsdate import rescaling, util
    ts = sc.ts_of(inst)
    msg = sc.check_binding(inst, ts)
    if msg:
        raise harness.MachineryError("TreeSeq module does not match tskit: " + msg)
    mids = sc.mutation_ids(inst, ts)
    default_set = sorted(inst["samp"]) == list(range(inst["NS"]))
    sig = ("sb" if inst["sb"] else "plain") + ("" if default_set else "/custom-sample-set")
    try:
        if default_set:
            stats, medge = rescaling.count_mutations(ts, size_biased=bool(inst["sb"]))
        else:
            mask = np.zeros(ts.num_nodes, dtype=bool)
            mask[list(inst["samp"])] = True
            stats, medge = rescaling.count_mutations(ts, node_is_sample=mask, size_biased=bool(inst["sb"]))
    except Exception as ex:  # noqa: BLE001
        ctx.violation(f"C24/count_mutations/{sig}/{type(ex).__name__}", inst,
                      f"count_mutations raised {type(ex).__name__}: {ex}", subcheck="count")
        return
    got_m = sc.as_int_list(stats[:, 0])
    got_s = sc.as_int_list(stats[:, 1])
    got_e = [int(medge[m]) + 1 for m in mids]
    if not (np.all(stats == np.round(stats))):
        ctx.violation(f"C24/count_mutations/{sig}/non-integer", inst, f"non-integer tallies {stats.tolist()}", "count")
    if got_m != list(inst["emuts"]) or got_s != list(inst["espan"]) or got_e != list(inst["medge"]):
        ctx.violation(f"C24/count_mutations/{sig}/tally-mismatch", inst,
                      f"code muts={got_m} span={got_s} medge={got_e}; spec muts={inst['emuts']} span={inst['espan']} "
                      f"medge={inst['medge']}", subcheck="count")
    if default_set and not inst["sb"]:
        ms, me = util.mutation_span_array(ts)
        if sc.as_int_list(ms[:, 0]) != list(inst["emuts"]) or sc.as_int_list(ms[:, 1]) != list(inst["espan"]) \
                or [int(me[m]) + 1 for m in mids] != list(inst["medge"]):
            ctx.violation("C24/mutation_span_array/tally-mismatch", inst,
                          f"code {ms.tolist()} {me.tolist()} vs spec", subcheck="count")
    ctx.evaluations += 1
    if inst["muts"] and len(inst["edges"]) > 0:
        ctx.nontriv(sc.inst_key(inst))
    ctx.sample({"kind": "Sweep behaviour replayed", "trees": inst["trees"], "muts": inst["muts"], "sb": inst["sb"],
                "samp": inst["samp"], "edges": inst["edges"], "emuts": inst["emuts"], "espan": inst["espan"]}, limit=4)


def run(ctx):
    harness.setup_repo_env(ctx.work)
    q = ctx.quick
    ctx.rule = ("forest sequences = all sequences of L parent functions over NS samples + NI internal nodes "
                "(isolated nodes, empty regions, polytomies, unary nodes included) x mutation sets (positions on and "
                "between breakpoints, above roots, on isolated nodes) x size_biased x sample sets; non-trivial = at "
                "least one mutation and one edge; distinct by (trees, mutations, flags)")
    ctx.assumptions = ["integer coordinates / counts are exact in float64 (A1)"]
    sc.model_check(ctx, "c24_j1a", NS=2, NI=2, L=2, max_muts=1 if q else 2)
    sc.model_check(ctx, "c24_j1b", NS=3, NI=2, L=2, max_muts=1 if q else 2, biased=(True,) if q else (True, False))
    sc.model_check(ctx, "c24_j1c", NS=2, NI=1, L=2 if q else 3, max_muts=2, custom=True)
    if not q:
        sc.model_check(ctx, "c24_j1d", NS=2, NI=2, L=3, max_muts=1)
    insts = sc.generate(ctx, "c24_j2a", NS=2, NI=2, L=2, max_muts=1)
    insts += sc.generate(ctx, "c24_j2b", NS=2, NI=1, L=2, max_muts=2, custom=True)
    cap = 4000 if q else 60000
    ctx.exhaustive = len(insts) <= cap
    if len(insts) > cap:
        insts = ctx.rng.sample(insts, cap)
    insts += sc.generate(ctx, "c24_j2s", simulate=400 if q else 6000, NS=3, NI=3, L=3, max_muts=3, custom=True)
    for inst in insts:
        replay_one(ctx, inst)
        ctx.traces += 1


def replay(ctx, body):
    harness.setup_repo_env(ctx.work)
    replay_one(ctx, body["instance"])
