"""C24 -- per-edge mutation, span and singleton-block tallies are exact.

J1  TLC: module Sweep (the edge-diff loop of rescaling._count_mutations, plain and
    size-biased, default and explicit sample sets) against the declarative tally, on
    every forest sequence / mutation placement in scope; module Blocks likewise for
    phasing._block_singletons.
J2  every behaviour of a smaller scope (and simulated behaviours of a larger one) is
    replayed: the instance becomes a real tskit tree sequence, the real
    count_mutations / mutation_span_array / block_singletons / mutation_frequency run
    on it, and the results must equal the specification's final state exactly (A1).
    The TreeSeq module's model of tskit's edge order and indexes is checked on the way.
"""

import numpy as np

from .. import harness
from .. import sweep_common as sc

PID = "C24"


def replay_one(ctx, inst):
    from tsdate import rescaling, util
    ts = sc.ts_of(inst)
    msg = sc.check_binding(inst, ts)
    if msg:
        raise harness.MachineryError("TreeSeq module does not match tskit: " + msg)
    mids = sc.mutation_ids(inst, ts)
    default_set = sorted(inst["samp"]) == list(range(inst["NS"]))
    sig = ("sb" if inst["sb"] else "plain") + ("" if default_set else "/custom-sample-set")
    try:
        if default_set:
            stats, medge = rescaling.count_mutations(ts, size_biased=bool(inst["sb"]))
        else:
            mask = np.zeros(ts.num_nodes, dtype=bool)
            mask[list(inst["samp"])] = True
            stats, medge = rescaling.count_mutations(ts, node_is_sample=mask, size_biased=bool(inst["sb"]))
    except Exception as ex:  # noqa: BLE001
        ctx.violation(f"C24/count_mutations/{sig}/{type(ex).__name__}", inst,
                      f"count_mutations raised {type(ex).__name__}: {ex}", subcheck="count")
        return
    got_m = sc.as_int_list(stats[:, 0])
    got_s = sc.as_int_list(stats[:, 1])
    got_e = [int(medge[m]) + 1 for m in mids]
    if not (np.all(stats == np.round(stats))):
        ctx.violation(f"C24/count_mutations/{sig}/non-integer", inst, f"non-integer tallies {stats.tolist()}", "count")
    if got_m != list(inst["emuts"]) or got_s != list(inst["espan"]) or got_e != list(inst["medge"]):
        ctx.violation(f"C24/count_mutations/{sig}/tally-mismatch", inst,
                      f"code muts={got_m} span={got_s} medge={got_e}; spec muts={inst['emuts']} span={inst['espan']} "
                      f"medge={inst['medge']}", subcheck="count")
    if default_set and not inst["sb"]:
        ms, me = util.mutation_span_array(ts)
        if sc.as_int_list(ms[:, 0]) != list(inst["emuts"]) or sc.as_int_list(ms[:, 1]) != list(inst["espan"]) \
                or [int(me[m]) + 1 for m in mids] != list(inst["medge"]):
            ctx.violation("C24/mutation_span_array/tally-mismatch", inst,
                          f"code {ms.tolist()} {me.tolist()} vs spec", subcheck="count")
    ctx.evaluations += 1
    if inst["muts"] and len(inst["edges"]) > 0:
        ctx.nontriv(sc.inst_key(inst))
    ctx.sample({"kind": "Sweep behaviour replayed", "trees": inst["trees"], "muts": inst["muts"], "sb": inst["sb"],
                "samp": inst["samp"], "edges": inst["edges"], "emuts": inst["emuts"], "espan": inst["espan"]}, limit=4)


def loop_traces(ctx, insts, name, **dims):
    """code -> spec at loop granularity: record the kernel's locals at every loop head (JIT off, separate
    process) and let TLC (spec/SweepTrace.tla) step module Sweep's machine alongside."""
    import json
    import os
    import subprocess
    if not insts:
        return
    ip = os.path.join(ctx.work, f"{name}-insts.json")
    op = os.path.join(ctx.work, f"{name}.ndjson")
    json.dump(insts, open(ip, "w"))
    env = dict(os.environ, NUMBA_DISABLE_JIT="1", PYTHONPATH=harness.VERIF, VERIF_REPO=harness.REPO)
    env.pop("NUMBA_CACHE_DIR", None)
    r = subprocess.run(["/venv/bin/python", "-m", "vt.looptrace", ip, op], env=env, capture_output=True, text=True,
                       cwd=harness.VERIF, timeout=5400)
    if r.returncode == 3:
        # loop head / locals not found: the kernel was rewritten.  Conformance drift, not a verdict on the tallies
        # (the replay legs judge the arrays the kernel returns).
        last = (r.stderr.strip().splitlines() or ["?"])[-1]
        ctx.count("loop_head_recorder_drift")
        print(f"CONFORMANCE-DRIFT property=C24 loop-head recorder of _count_mutations: {last[:300]}")
        return
    if r.returncode != 0:
        last = (r.stderr.strip().splitlines() or ["?"])[-1]
        if "/tsdate/" in r.stderr and ("Error" in last or "Exception" in last):
            ctx.violation("C24/looptrace/kernel-raised", {"stderr": r.stderr[-800:]},
                          "_count_mutations (JIT off) raised under the loop-head recorder: " + r.stderr[-300:], subcheck="loop")
            return
        raise harness.MachineryError("loop-head recorder failed: " + r.stderr[-1500:])
    cfg = ctx.write_cfg(f"{name}.cfg", spec="TraceSpec", constants=sc.consts(**dims))

    def validate(path):
        res = ctx.tlc("SweepTrace", cfg, workers=1, coverage=False, env={"TRACE_FILE": path}, must_hold=False)
        acc = res.rec("accepted")
        if not acc:
            raise harness.MachineryError("SweepTrace gave no verdict:\n" + res.stdout[-2000:])
        return acc[-1]["accepted"], res.rec("reject"), res.rec("drift")

    nacc, rej, drift = validate(op)
    if drift:
        ctx.count("conformance_drift_traces", len({x["tid"] for x in drift}))
        print(f"CONFORMANCE-DRIFT property=C24 {len({x['tid'] for x in drift})} loop-head traces of _count_mutations leave "
              f"Sweep's machine (first clause: {drift[0]['clause']}); the tallies are judged on the returned arrays")
    if nacc + len({x["tid"] for x in rej}) != len(insts):
        raise harness.MachineryError(f"SweepTrace accounted for {nacc}+{len(rej)} of {len(insts)} traces")
    ctx.traces += len(insts)
    ctx.count("loop_head_traces", len(insts))
    for x in rej:
        inst = insts[x["tid"]]
        ctx.violation(f"C24/looptrace/{x['clause']}", inst,
                      f"loop-head trace of _count_mutations rejected by SweepTrace at line {x['line']}: {x['clause']}",
                      subcheck="count")
    # binding demonstration: corrupt one logged cursor, the trace must be rejected
    lines = open(op).read().splitlines()
    for i, ln in enumerate(lines):
        ev = json.loads(ln)
        if ev["kind"] == "head" and ev["left"] > 0:
            ev["b"] += 1
            lines[i] = json.dumps(ev)
            bad_tid = ev["tid"]
            break
    else:
        return
    cp = os.path.join(ctx.work, f"{name}-corrupt.ndjson")
    open(cp, "w").write("\n".join(lines) + "\n")
    nacc2, rej2, drift2 = validate(cp)
    if bad_tid not in {x["tid"] for x in drift2} | {x["tid"] for x in rej2}:
        raise harness.MachineryError("SweepTrace did not notice the corrupted trace")
    ctx.count("corrupted_traces_rejected", 1)


def replay_freq(ctx, inst):
    """Freq.tla behaviour -> real phasing.mutation_frequency(ts, [sample set])."""
    from tsdate import phasing
    ts = sc.ts_of(inst)
    mids = sc.mutation_ids(inst, ts)
    ctx.evaluations += 1
    if ts.num_edges == 0:
        return  # the edge-less corner is outside the sweep (see Freq!AllSeen)
    try:
        got = np.atleast_1d(phasing.mutation_frequency(ts, [sorted(inst["sset"])]))
    except Exception as ex:  # noqa: BLE001
        ctx.violation(f"C24/mutation_frequency/{type(ex).__name__}", inst, f"{type(ex).__name__}: {ex}", subcheck="freq")
        return
    code = [int(got[m]) for m in mids]
    if code != list(inst["decl"]):
        ctx.violation("C24/mutation_frequency/count-mismatch", inst,
                      f"code {code}; declarative (samples of the set below the mutation's node) {inst['decl']}; "
                      f"model {inst['freq']}", subcheck="freq")
    if inst["muts"]:
        ctx.nontriv("F" + sc.inst_key(inst) + str(sorted(inst["sset"])))


def freq_consts(NS, NI, L, max_muts, tree_filter="any", emit=False):
    import json
    return {"NS": NS, "NI": NI, "L": L, "MaxMuts": max_muts, "TreeFilter": json.dumps(tree_filter),
            "EmitDone": "TRUE" if emit else "FALSE"}


def blocks_consts(NS, NI, L, max_muts, num_ind, tree_filter, emit=False):
    import json
    return {"NS": NS, "NI": NI, "L": L, "MaxMuts": max_muts, "TreeFilter": json.dumps(tree_filter),
            "NumInd": num_ind, "EmitDone": "TRUE" if emit else "FALSE"}


def replay_blocks(ctx, inst):
    """Blocks.tla behaviour -> real phasing.block_singletons on the same tree sequence."""
    from tsdate import phasing
    ts = sc.ts_of(inst)
    if build_edge_rows(ts) != [list(e) for e in inst["edges"]]:
        raise harness.MachineryError("TreeSeq module does not match tskit (edge order) in Blocks replay")
    unph = np.zeros(ts.num_individuals, dtype=bool)
    unph[list(inst["unph"])] = True
    mids = sc.mutation_ids(inst, ts)
    phantom = inst["nblocks"] != len(inst["rows"])
    decl = sorted((sorted(r["edges"]), r["span"], r["sing"]) for r in inst["decl"])
    model = sorted((sorted([r["e1"], r["e2"]]), r["span"], r["sing"]) for r in inst["rows"])
    cls = "one-node-isolated" if phantom else ("singleton-outside-any-block" if model != decl else "regular")
    ctx.evaluations += 1
    try:
        stats, bedges, mblock = phasing.block_singletons(ts, unph)
    except AssertionError as ex:
        ctx.violation(f"C24/block_singletons/AssertionError/{cls}", inst,
                      f"block_singletons raised AssertionError {ex} (model: {inst['nblocks']} ids handed out, "
                      f"{len(inst['rows'])} blocks flushed)", subcheck="blocks")
        return
    except Exception as ex:  # noqa: BLE001
        ctx.violation(f"C24/block_singletons/{type(ex).__name__}/{cls}", inst, f"{type(ex).__name__}: {ex}", subcheck="blocks")
        return
    got = sorted((sorted((int(bedges[k, 0]) + 1, int(bedges[k, 1]) + 1)), int(stats[k, 1]), int(stats[k, 0]))
                 for k in range(stats.shape[0]))
    if got != decl:
        ctx.violation(f"C24/block_singletons/tally-mismatch/{cls}", inst,
                      f"code blocks (edges, span, singletons) {got}; declarative {decl}; as-implemented model {model}",
                      subcheck="blocks")
    else:
        # every mutation on a tracked node inside a block points at that block's row
        for dd, m in enumerate(mids):
            b = int(mblock[m])
            x, u = inst["muts"][dd]
            if b >= 0:
                e1, e2 = int(bedges[b, 0]), int(bedges[b, 1])
                on = [e for e in (e1, e2) if ts.edges_child[e] == u and ts.edges_left[e] <= x < ts.edges_right[e]]
                if not on:
                    ctx.violation(f"C24/block_singletons/mutation-block/{cls}", inst,
                                  f"mutation {inst['muts'][dd]} assigned to block {b} with edges {(e1, e2)}", "blocks")
    if inst["rows"]:
        ctx.nontriv("B" + sc.inst_key(inst) + str(sorted(inst["unph"])))
    ctx.sample({"kind": "Blocks behaviour replayed", "trees": inst["trees"], "muts": inst["muts"],
                "unphased": inst["unph"], "blocks": decl}, limit=6)


def build_edge_rows(ts):
    from .. import build
    return build.edge_rows(ts)


def run(ctx):
    harness.setup_repo_env(ctx.work)
    q = ctx.quick
    ctx.rule = ("forest sequences = all sequences of L parent functions over NS samples + NI internal nodes "
                "(isolated nodes, empty regions, polytomies, unary nodes included) x mutation sets (positions on and "
                "between breakpoints, above roots, on isolated nodes) x size_biased x sample sets; non-trivial = at "
                "least one mutation and one edge; distinct by (trees, mutations, flags)")
    ctx.assumptions = ["integer coordinates / counts are exact in float64 (A1)"]
    sc.model_check(ctx, "c24_j1a", NS=2, NI=2, L=2, max_muts=1 if q else 2)
    sc.model_check(ctx, "c24_j1b", NS=3, NI=2, L=2, max_muts=1 if q else 2, biased=(True,) if q else (True, False))
    sc.model_check(ctx, "c24_j1c", NS=2, NI=1, L=2 if q else 3, max_muts=2, custom=True)
    if not q:
        sc.model_check(ctx, "c24_j1d", NS=2, NI=2, L=3, max_muts=1)
    insts = sc.generate(ctx, "c24_j2a", NS=2, NI=2, L=2, max_muts=1)
    insts += sc.generate(ctx, "c24_j2b", NS=2, NI=1, L=2, max_muts=2, custom=True)
    cap = 4000 if q else 60000
    ctx.exhaustive = len(insts) <= cap
    if len(insts) > cap:
        insts = ctx.rng.sample(insts, cap)
    insts += sc.generate(ctx, "c24_j2s", simulate=400 if q else 6000, NS=3, NI=3, L=3, max_muts=3, custom=True)
    for inst in insts:
        replay_one(ctx, inst)
        ctx.traces += 1
    small = [i for i in insts if i["N"] == 4 and i["L"] == 2 and sorted(i["samp"]) == [0, 1]]
    loop_traces(ctx, ctx.rng.sample(small, min(len(small), 150 if q else 3000)), "lt_a", NS=2, NI=2, L=2, max_muts=1)
    big = [i for i in insts if i["N"] == 6 and i["L"] == 3]
    loop_traces(ctx, big[: 60 if q else 1500], "lt_b", NS=3, NI=3, L=3, max_muts=3, custom=True)
    # mutation frequencies (phasing._mutation_frequency)
    cfg = ctx.write_cfg("freq_j1.cfg", constants=freq_consts(2, 2, 2, 1 if q else 2), invariants=["FreqExact", "AllSeen"])
    ctx.tlc("Freq", cfg, workers=8, required_actions=("Gen", "Choose", "Step", "Finish"))
    if not q:
        cfg = ctx.write_cfg("freq_j1b.cfg", constants=freq_consts(3, 2, 2, 1), invariants=["FreqExact", "AllSeen"])
        ctx.tlc("Freq", cfg, workers=8)
    cfg = ctx.write_cfg("freq_j2.cfg", constants=freq_consts(2, 2, 2, 1, emit=True), invariants=["EmitInv"])
    finsts = ctx.tlc("Freq", cfg, workers=4, coverage=False).rec("inst")
    cfg = ctx.write_cfg("freq_j2s.cfg", constants=freq_consts(3, 3, 3, 3, emit=True), invariants=["EmitInv"])
    finsts += ctx.tlc("Freq", cfg, workers=8, coverage=False, simulate={"num": 40 if q else 500}, depth=30).rec("inst")
    capf = 1500 if q else 30000
    if len(finsts) > capf:
        finsts = ctx.rng.sample(finsts, capf)
    for inst in finsts:
        replay_freq(ctx, inst)
        ctx.traces += 1
    # singleton blocks (phasing._block_singletons)
    musts = ["BlocksExact", "NoPhantomBlock", "MutBlockExact"]
    cfg = ctx.write_cfg("blocks_j1.cfg", constants=blocks_consts(2, 2, 2 if q else 3, 1 if q else 2, 1, "any"),
                        invariants=musts)
    ctx.tlc("Blocks", cfg, workers=8, required_actions=("Gen", "Choose", "Step", "Finish"))
    if q:
        cfg = ctx.write_cfg("blocks_j1p.cfg", constants=blocks_consts(2, 2, 3, 1, 1, "pairs"), invariants=musts)
        ctx.tlc("Blocks", cfg, workers=8)
    cfg = ctx.write_cfg("blocks_j1b.cfg", constants=blocks_consts(4, 2, 2, 1, 2, "completeunary"), invariants=musts)
    ctx.tlc("Blocks", cfg, workers=8)
    cfg = ctx.write_cfg("blocks_j2.cfg", constants=blocks_consts(2, 2, 3 if not q else 2, 1, 1, "any", emit=True),
                        invariants=["EmitInv"])
    binsts = ctx.tlc("Blocks", cfg, workers=4, coverage=False).rec("inst")
    cfg = ctx.write_cfg("blocks_j2b.cfg", constants=blocks_consts(4, 2, 2, 2, 2, "completeunary", emit=True),
                        invariants=["EmitInv"])
    binsts += ctx.tlc("Blocks", cfg, workers=8, coverage=False, simulate={"num": 40 if q else 400}, depth=30).rec("inst")
    capb = 2500 if q else 40000
    if len(binsts) > capb:
        binsts = ctx.rng.sample(binsts, capb)
        ctx.exhaustive = False
    for inst in binsts:
        replay_blocks(ctx, inst)
        ctx.traces += 1


def replay(ctx, body):
    harness.setup_repo_env(ctx.work)
    if body.get("subcheck") == "freq":
        replay_freq(ctx, body["instance"])
    elif body.get("subcheck") == "blocks":
        replay_blocks(ctx, body["instance"])
    else:
        replay_one(ctx, body["instance"])
