"""C38 -- ignore_oldest_root ignores exactly the oldest root.

J1  TLC, module InsideOutside with IgnoreModes = {"spec"}: the outside pass that skips the
    messages of the oldest root (greatest input time) yields, for every renumbering of the
    internal ids, the declarative posterior DeclIgnored (root: its full-model marginal; every
    other node: its marginal in the subtree hanging off the root).  The reading implemented
    by the code, IgnoreModes = {"impl"} (skip edge.parent == num_nodes - 1), is kept as a named
    deviation: TLC must find PosteriorIgnoreRoot violated for it.  Module IOOrder: on DAGs with
    several roots, renumberings and re-timings, the oldest root is the parent of the last
    edge-table row, and `ImplIgnoresOldestRoot` is violated (named deviation).
J2  (a) InsideOutside instances x renumberings replayed into the real outside_pass(
    ignore_oldest_root=True) through the table doubles: posterior = DeclIgnored;
    (b) IOOrder instances: the set of edges whose outside message the real outside_pass
    computes (recorded by a spy subclass) = all messages except those of the oldest root;
    (c) metamorphic pairs on simulated inputs: tsdate.inside_outside(ignore_oldest_root=True)
    before / after renumbering the non-sample nodes, node times mapped through the permutation
    (rtol 1e-9).
"""

import random

import numpy as np

from .. import bp_common as bp
from .. import harness

PID = "C38"
SIG = "C38/outside_pass/ignored-node-is-highest-id-not-oldest-root"


def replay_double(ctx, inst):
    ok = False
    moved = inst["perm"][-1] != inst["NS"] + inst["NI"] - 1        # the oldest root does not carry the highest id
    for space in bp.SPACES:
        ok = bp.replay_io(ctx, PID, inst, space, expect="decl", posterior_sig=(SIG + "/double") if moved else None) or ok
    if ok:
        ctx.traces += 1
        root_new = inst["perm"][-1]
        if root_new != inst["NS"] + inst["NI"] - 1 and inst["NI"] >= 2:
            ctx.nontriv(bp.io_key(inst))
            ctx.sample({"kind": "renumbered tree, oldest root is not the highest id", "par": inst["par"],
                        "perm": inst["perm"], "expected_posterior_numerators": inst["decl"]}, limit=3)


def pair(ctx, name, ts, mu, Ne, space, seed):
    rng = random.Random(seed)
    ts2, perm = bp.renumber(ts, rng)
    inst = {"kind": "pair", "name": name, "ts": bp.ts_instance(ts), "mu": mu, "Ne": Ne, "space": space, "seed": seed}
    try:
        d1, f1 = bp.run_method("inside_outside", ts, mu, Ne, space, ignore_oldest_root=True)
        d2, f2 = bp.run_method("inside_outside", ts2, mu, Ne, space, ignore_oldest_root=True)
    except Exception as ex:  # noqa: BLE001
        ctx.count("pair_raised_" + type(ex).__name__)
        return
    t1 = np.asarray(d1.nodes_time)
    t2 = np.asarray(d2.nodes_time)[perm]
    ctx.evaluations += 1
    ctx.traces += 1
    oldest_root = int(ts.edges_parent[-1]) if ts.num_edges else -1
    if perm[oldest_root] != ts.num_nodes - 1 or oldest_root != ts.num_nodes - 1:
        ctx.nontriv(("pair", name, seed, space))
    if not np.allclose(t1, t2, rtol=1e-9, atol=0):
        worst = int(np.argmax(np.abs(t1 - t2) / np.maximum(np.abs(t1), 1e-300)))
        moved = perm[oldest_root] != ts.num_nodes - 1 or oldest_root != ts.num_nodes - 1
        ctx.violation((SIG if moved else "C38/inside_outside") + "/renumber-pair", inst,
                      f"{name}: inside_outside(ignore_oldest_root=True) changes under renumbering: node {worst} "
                      f"{t1[worst]!r} vs {t2[worst]!r}; oldest root {oldest_root} -> id {perm[oldest_root]} of "
                      f"{ts.num_nodes}", subcheck="pair")


def real_messages(ctx, name, ts, space):
    """On a real multi-tree input: exactly the edges whose parent is the oldest root are left out of the
    outside pass, every other edge into a non-sample child is used exactly once (added after seed C38-a:
    a child may have several edges to the oldest root)."""
    from collections import Counter
    fit = bp.order_fit(ts, space, G=3)
    used = []
    orig = fit.lik.get_outside

    def get_outside(arr, edge):
        used.append(int(edge.id))
        return orig(arr, edge)

    fit.lik.get_outside = get_outside
    roots = sorted(set(ts.edges_parent.tolist()) - set(ts.edges_child.tolist()))
    if not roots:
        return
    tmax = max(ts.nodes_time[r] for r in roots)
    oldest = [r for r in roots if ts.nodes_time[r] == tmax]
    if len(oldest) != 1:
        return
    oldest = oldest[0]
    try:
        with np.errstate(all="ignore"):
            fit.inside_pass()
            fit.outside_pass(standardize=True, ignore_oldest_root=True)
    except Exception as ex:  # noqa: BLE001
        ctx.count("real_messages_raised_" + type(ex).__name__)
        return
    samples = set(ts.samples().tolist())
    want = Counter(e.id for e in ts.edges() if e.child not in samples and e.parent != oldest)
    ctx.evaluations += 1
    ctx.traces += 1
    multi = Counter((e.parent, e.child) for e in ts.edges() if e.parent == oldest)
    if any(v > 1 for v in multi.values()):
        ctx.nontriv(("real-messages", name, space))
    if Counter(used) != want:
        extra = sorted((Counter(used) - want).elements())
        missing = sorted((want - Counter(used)).elements())
        sig = (SIG + "/messages-real") if oldest != ts.num_nodes - 1 else "C38/outside_pass/messages-from-oldest-root-used"
        ctx.violation(sig, {"kind": "real-messages", "name": name, "ts": bp.ts_instance(ts), "space": space},
                      f"{name}: oldest root {oldest} (highest id: {oldest == ts.num_nodes - 1}); edges used although "
                      f"their parent is the oldest root: {[(e, int(ts.edges_parent[e]), int(ts.edges_child[e])) for e in extra][:6]}; "
                      f"edges not used: {missing[:6]}", subcheck="real-messages")


def run(ctx):
    harness.setup_repo_env(ctx.work)
    q = ctx.quick
    ctx.rule = ("instance = (tree or DAG, renumbering of the non-sample ids, tables / times); non-trivial when the "
                "oldest root does not carry the highest node id (so the two readings differ) and there is an internal "
                "child; pairs: the renumbering or the input moves the oldest root away from id num_nodes-1")
    ctx.assumptions = [
        "arithmetic model restricted to single trees (span fractions 1); several roots are covered by IOOrder "
        "(which messages are skipped) and by the metamorphic pairs",
        "the oldest root is taken to be unique (instances with tied oldest roots are not judged)",
    ]
    # as specified: holds for every renumbering
    _, insts = bp.io_run(ctx, "c38_a", NS=3, NI=2, G=2, vals=(0, 1, 2), ign=("spec",), perms="all", mode="hash",
                         seeds=range(1, 30 if q else 500), canon=False, min_kids=1, emit=True)
    _, more = bp.io_run(ctx, "c38_b", NS=4, NI=3, G=3, vals=(0, 1, 2), ign=("spec",), perms="all", mode="hash",
                        seeds=range(1, 3 if q else 100), canon=True, min_kids=1, emit=True)
    insts += more
    # as implemented: named deviation, TLC must refute it
    r, _ = bp.io_run(ctx, "c38_impl", NS=3, NI=2, G=2, vals=(0, 1, 2), ign=("impl",), perms="all", mode="hash",
                     seeds=range(1, 12), canon=True, invariants=["PosteriorIgnoreRoot"], must_hold=False)
    if r.violated != "PosteriorIgnoreRoot":
        raise harness.MachineryError("the as-implemented reading (id == num_nodes-1) was expected to violate "
                                     f"PosteriorIgnoreRoot in the model; TLC reported {r.violated}")
    ctx.count("deviation_impl_refuted_by_TLC")
    _, dags = bp.order_run(ctx, "c38_o", NS=2, NI=3, max_edges=5 if q else 6, tmax=3, emit=True,
                           invariants=["OldestRootIsOldestParent"])
    if not q:
        _, more = bp.order_run(ctx, "c38_o3", NS=3, NI=3, max_edges=5, tmax=3, emit=True,
                               invariants=["OldestRootIsOldestParent"])
        dags += more
    r, _ = bp.order_run(ctx, "c38_oi", NS=2, NI=3, max_edges=5, tmax=3, invariants=["ImplIgnoresOldestRoot"],
                        must_hold=False)
    if r.violated != "ImplIgnoresOldestRoot":
        raise harness.MachineryError(f"ImplIgnoresOldestRoot expected to be violated, TLC reported {r.violated}")
    ctx.count("deviation_impl_selection_refuted_by_TLC")

    bp.tick(ctx, "tlc")
    bp.tsd()
    bp.tick(ctx, "import_tsdate")
    proper = [i for i in insts if i["status"] == "done"]
    cap = 1000 if q else 20000
    if len(proper) > cap:
        proper = ctx.rng.sample(proper, cap)
    for inst in proper:
        bp.mirror_sync_io(ctx, inst)
        replay_double(ctx, inst)
    bp.tick(ctx, "replay_doubles")
    dags = [d for d in dags if d["unique"]]
    cap = 1000 if q else 20000
    ctx.exhaustive = False
    if len(dags) > cap:
        dags = ctx.rng.sample(dags, cap)
    for k, d in enumerate(dags):
        bp.replay_order(ctx, PID, d, bp.SPACES[k % 2], ignore=True)
        ctx.traces += 1
        if d["perm"][d["oldest"]] != d["N"] - 1 and d["skipped"]:
            ctx.nontriv(("dag", str(d["edges"]), str(d["perm"]), str(d["time"])))
    bp.tick(ctx, "replay_orders")
    inputs = bp.corpus(ctx, 4 if q else 40, 1 if q else 8) + (bp.sparse_corpus(ctx, 40) if not q else [])
    for k, inp in enumerate(inputs):
        for s in range(1 if q else 3):
            pair(ctx, inp.name, inp.ts, inp.mu, inp.Ne, bp.SPACES[(k + s) % 2], ctx.seed + 101 * s + k)
    bp.tick(ctx, "pairs")
    for k, inp in enumerate(inputs + bp.corpus(ctx, 6 if q else 30, 0, small=False)):
        real_messages(ctx, inp.name, inp.ts, bp.SPACES[k % 2])
    bp.tick(ctx, "real_messages")


def replay(ctx, body):
    harness.setup_repo_env(ctx.work)
    inst = body["instance"]
    if inst.get("kind") == "real-messages":
        real_messages(ctx, inst["name"], bp.ts_from_instance(inst["ts"]), inst["space"])
    elif inst.get("kind") == "pair":
        pair(ctx, inst["name"], bp.ts_from_instance(inst["ts"]), inst["mu"], inst["Ne"], inst["space"], inst["seed"])
    elif "skipped" in inst:
        for space in bp.SPACES:
            bp.replay_order(ctx, PID, inst, space, ignore=True)
    else:
        replay_double(ctx, inst)
