"""C03 -- sample times are kept, except for the minimal push above dated children.

J1  TLC: ChildlessFixedKept (every state), FixedNeverMovedByLsq, FixedOnlyMinimallyPushed of
    module Constrain over all fixed-node sets (fixed internal nodes included).
J2  replay of generated behaviours with fixed internal nodes into util._constrain_ages.
J3  real date() calls on inputs with historical samples, some of them ancestors of other
    nodes, decided by TLC on ranks (ConstrainTrace: ChildlessFixedKept, FixedMinPush,
    FixedMeanIsInput = the time handed to the constraint step for a sample is its input time).
"""

from .. import constrain_common as cc
from .. import harness, inputs

PID = "C03"
CHECKS = ["ChildlessFixedKept", "FixedMinPush", "FixedMeanIsInput"]


def run(ctx):
    harness.setup_repo_env(ctx.work)
    q = ctx.quick
    ctx.rule = ("Constrain behaviours with arbitrary fixed sets replayed into the kernel; real date() calls on "
                "inputs with historical / internal samples x methods x constr_iterations; non-trivial = instance "
                "has a fixed node with children, or the constraint moved a node")
    ctx.assumptions = ["rank abstraction A2", "discrete-time methods reject non-contemporaneous samples (not judged)"]
    cc.model_check(ctx, "c03_j1", invariants=["ChildlessFixedKept", "FixedOnlyMinimallyPushed",
                                              "FixedNeverMovedByLsq", "Exact"],
                   N=4, T=2 if q else 3, iters=[0, 1, 2] if q else [0, 1, 2, 3], eps=[0, 1], max_edges=4)
    insts = cc.generate(ctx, "c03_j2", N=3 if q else 4, T=2, iters=[0, 1, 2], eps=[0, 1, 2], max_edges=3 if q else 4)
    insts = [i for i in insts if any(any(e[0] == f for e in i["edges"]) for f in i["fixed"])]
    cap = 1200 if q else 20000
    ctx.exhaustive = len(insts) <= cap
    if len(insts) > cap:
        insts = ctx.rng.sample(insts, cap)
    ev, meta = cc.kernel_events(ctx, PID, insts, compare_spec=False)
    cc.judge(ctx, PID, ["ChildlessFixedKept", "FixedMinPush"], ev, meta, "kernel")
    # step-by-step binding of the least-squares sweeps (fixed nodes must never move there) and the forced pass
    lt = [i for i in insts if i["eps"] > 0]
    lt = ctx.rng.sample(lt, min(len(lt), 150 if q else 3000))
    cc.loop_traces(ctx, PID, lt, dict(N=3 if q else 4, T=2, iters=[0, 1, 2], eps=[0, 1, 2], max_edges=3 if q else 4))

    k = 2 if q else 6
    corpus = inputs.historical(ctx.seed, k=k) + inputs.internal_samples(ctx.seed, k=k) \
        + inputs.contemporaneous(ctx.seed, k=2 if q else 5)
    corpus += [inputs.flagged(c) for c in corpus[: 2 * k]]
    corpus += [inputs.scaled(corpus[0], 1e9), inputs.scaled(corpus[k], 1e-4)]
    settings = [{}, {"constr_iterations": 0}, {"constr_iterations": 5, "min_branch_length": 0.5},
                {"rescaling_intervals": 1}, {"min_branch_length": 200.0}]
    if not q:
        settings += [{"constr_iterations": 100}, {"min_branch_length": 10.0, "constr_iterations": 0},
                     {"max_iterations": 1}]
    ev, meta = cc.date_events(ctx, PID, corpus, ["variational_gamma", "inside_outside", "maximization"], settings,
                              idempotence=False)
    for e in ev:
        if any(f and any(p == u + 1 for p in e["ep"]) for u, f in enumerate(e["fixed"])):
            ctx.nontriv("internal-fixed:" + e["tid"])
    cc.judge(ctx, PID, CHECKS, ev, meta, "date")
    ctx.count("date_calls_traced", len(ev))


def replay(ctx, body):
    harness.setup_repo_env(ctx.work)
    cc.replay(ctx, PID, CHECKS, body)
