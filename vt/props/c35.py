"""C35 -- invalid inputs are rejected cleanly and valid ones never crash.

J1  TLC: module Validate.  Parameter classes (positive / zero / negative / missing ...,
    entry through date() or the named wrapper, method incl. unknown, return_fit /
    return_likelihood, packs of valid non-default options) x input class (mutations or
    not) are decided by a machine that performs the checks in the order of the code;
    invariants: every invalid parameter named by the statement is rejected whatever else
    is passed (NamedRejected), every rejection has a documented reason, results have the
    documented shape, and the allowed outcome classes never contain an internal error.
J2  every emitted instance is replayed into the real tsdate.date / variational_gamma /
    inside_outside / maximization on inputs from three sources: tree sequences generated
    by TLC from module TSGen (isolated samples, empty regions, mutations above roots,
    unary nodes, edges without mutations; emitted through Sweep), seeded msprime inputs
    (healthy, sparse mutations, polytomies, historical and internal samples, diploid) and
    the same at time scales 1e-6 .. 1e12.  The observed outcome class (returns with shape /
    exception type) must be in the set the specification allows: any exception other than
    ValueError / NotImplementedError is a violation, a result for a named-invalid
    parameter is a violation, a result of the wrong shape is a violation.
"""

import base64
import json
import numbers
import os
import tempfile
import traceback

import numpy as np

from .. import build, harness, inputs, record
from .. import cli_common as cc
from .. import sweep_common as sc

PID = "C35"
VG = "variational_gamma"
EXTRA = {
    VG: {"nd1": {"rescaling_intervals": 5, "rescaling_iterations": 2, "match_segregating_sites": True},
         "nd2": {"singletons_phased": False, "regularise_roots": False, "rescaling_intervals": 0,
                 "set_metadata": False, "allow_unary": True, "time_units": "years"}},
    "inside_outside": {"nd1": {"probability_space": "linear", "num_threads": 1, "outside_standardize": False},
                       "nd2": {"ignore_oldest_root": True, "allow_unary": True, "set_metadata": True,
                               "time_units": "years", "record_provenance": False}},
    "maximization": {"nd1": {"probability_space": "linear", "num_threads": 1},
                     "nd2": {"allow_unary": True, "set_metadata": False, "time_units": "years"}},
    "unknown": {"nd1": {}, "nd2": {"time_units": "years"}},
}


# --------------------------------------------------------------------------- TLC side
def consts(max_dev, emit_upto=0, emit=False):
    return {"MaxDev": max_dev, "EmitUpTo": emit_upto, "EmitOn": "TRUE" if emit else "FALSE"}


INVS = ["TypeOK", "NamedRejected", "NoSpuriousRejection", "DocRejected", "ShapeDefined", "AllowedClean"]


def decide(ctx, name, max_dev, emit_upto):
    cfg = ctx.write_cfg(name + ".cfg", constants=consts(max_dev, emit_upto, True), invariants=INVS + ["EmitInv"])
    r = ctx.tlc("Validate", cfg, workers=4, required_actions=("Pick", "Start", "Check"))
    return dedupe(r.rec("case"))


def decide_sim(ctx, name, num):
    cfg = ctx.write_cfg(name + ".cfg", constants=consts(20, 20, True), invariants=INVS + ["EmitInv"])
    r = ctx.tlc("Validate", cfg, workers=4, coverage=False, simulate={"num": max(1, num // 4)}, depth=30)
    return dedupe(r.rec("case"))


def dedupe(recs):
    seen, out = set(), []
    for c in recs:
        k = tuple(c["pick"])
        if k not in seen:
            seen.add(k)
            c["cls"] = dict(zip(c["names"], c["params"]))
            out.append(c)
    return out


# --------------------------------------------------------------------------- inputs
class In:
    def __init__(self, name, ts, mu, Ne, source):
        self.name, self.ts, self.mu, self.Ne, self.source = name, ts, float(mu), float(Ne), source
        self.muts = "some" if ts.num_mutations > 0 else "none"
        self._priors = None

    def priors(self):
        """a prior grid for this input (None when it cannot be built: prior.py rejects the input)"""
        import tsdate
        if self._priors is None:
            try:
                self._priors = tsdate.build_prior_grid(self.ts, population_size=self.Ne)
            except (ValueError, NotImplementedError):
                self._priors = False
        return self._priors or None

    def blob(self):
        with tempfile.NamedTemporaryFile(suffix=".trees") as f:
            self.ts.dump(f.name)
            return base64.b64encode(open(f.name, "rb").read()).decode()


def strip_mutations(inp):
    return In(inp.name + "_nomut", inp.ts.delete_sites(np.arange(inp.ts.num_sites)), inp.mu, inp.Ne, inp.source + "/nomut")


def strip_mutations_keep_sites(inp):
    """all mutations removed but the (now monomorphic) sites kept -- added after seeded change C35-a"""
    t = inp.ts.dump_tables()
    t.mutations.clear()
    return In(inp.name + "_nomut_sites", t.tree_sequence(), inp.mu, inp.Ne, inp.source + "/nomut-sites")


def tsgen_inputs(ctx, insts):
    out, seen = [], set()
    for inst in insts:
        k = json.dumps([inst["trees"], inst["muts"]])
        if k in seen:
            continue
        seen.add(k)
        try:
            ts = build.forest_ts(inst)
        except Exception as ex:  # noqa: BLE001
            raise harness.MachineryError(f"TSGen instance is not a valid tree sequence: {ex}") from ex
        out.append(In(f"tsgen{len(out)}", ts, 0.1, 1.0, "tsgen"))
    return out


def sparse_inputs(seed, k):
    rng = np.random.default_rng(seed + 4242)
    out = []
    while len(out) < k:
        n = int(rng.integers(2, 6))
        mu = float(rng.choice([1e-5, 2e-5, 5e-5, 1e-4]))
        ts = build.sim(n=n, L=1000, rho=float(rng.choice([0, 2e-4, 5e-4])), mu=mu, Ne=100, seed=int(rng.integers(1, 2**31)))
        if ts.num_mutations == 0:
            continue
        out.append(In(f"sparse{seed}_{len(out)}", ts, mu, 100, "sparse"))
    return out


def corpus_inputs(seed, quick):
    c = inputs.contemporaneous(seed, k=4 if quick else 10) + inputs.polytomies(seed, k=1 if quick else 3) + \
        inputs.historical(seed, k=1 if quick else 3) + inputs.internal_samples(seed, k=1 if quick else 3) + \
        inputs.diploid(seed, k=1 if quick else 3)
    base = [In(i.name, i.ts, i.mu, i.Ne, "corpus/" + "+".join(sorted(i.tags))) for i in c]
    scales = [1e-6, 1e6, 1e12] if quick else [1e-6, 1e-3, 1e3, 1e6, 1e9, 1e12]
    out = list(base)
    for j, s in enumerate(scales):
        for b in ([c[j % len(c)]] if quick else [c[j % len(c)], c[(j + 3) % len(c)], c[(j + 7) % len(c)]]):
            i = inputs.scaled(b, s)
            out.append(In(i.name, i.ts, i.mu, i.Ne, f"scaled/{s:g}"))
    return out


# --------------------------------------------------------------------------- one call
def call_args(case, inp):
    """parameter classes -> the real call (function name, kwargs); None if not realisable"""
    c = case["cls"]
    m = c["method"]
    kw = {}
    kw["mutation_rate"] = {"pos": inp.mu, "zero": 0.0, "neg": -inp.mu, "none": None}[c["mu"]]
    if c["mbl"] != "default":
        kw["min_branch_length"] = {"pos": 1e-3, "zero": 0.0, "neg": -1e-3}[c["mbl"]]
    if c["citer"] != "default":
        kw["constr_iterations"] = {"zero": 0, "pos": 3, "neg": -1, "nonint": 1.5}[c["citer"]]
    if c["maxit"] != "default":
        kw["max_iterations"] = {"pos": 3, "zero": 0, "neg": -2}[c["maxit"]]
    needs = m in ("inside_outside", "maximization")
    pop = {"std": inp.Ne if needs else None, "other": None if needs else inp.Ne, "zero": 0, "neg": -10}[c["popsize"]]
    if pop is not None:
        kw["population_size"] = pop
    if c["priors"] == "given":
        pri = inp.priors()
        if pri is None:
            return None
        kw["priors"] = pri
    if c["eps"] == "pos":
        kw["eps"] = 1e-4
    if c["rec"] == "pos":
        kw["recombination_rate"] = 1e-8
    if c["rfit"] == "yes":
        kw["return_fit"] = True
    if c["rlik"] == "yes":
        kw["return_likelihood"] = True
    if c["extra"] != "default":
        for k, v in EXTRA[m][c["extra"]].items():
            kw.setdefault(k, v)
    if c["entry"] == "date":
        kw["method"] = "no_such_method" if m == "unknown" else m
        return "date", kw
    return m, kw


def site_of(ex):
    """where an unexpected exception comes from: its message, else the innermost tsdate frame"""
    msg = str(ex).strip().split("\n")[0][:60]
    if msg:
        return msg
    frames = [f for f in traceback.extract_tb(ex.__traceback__) if os.sep + "tsdate" + os.sep in f.filename]
    if frames:
        return f"{os.path.basename(frames[-1].filename)}:{frames[-1].name}"
    return "?"


def named_invalid(case, kw, inp):
    """the invalid parameters named by the statement that this call carries"""
    named = [f"{k}-{v}" for k, v in case["cls"].items()
             if (k, v) in {("mu", "zero"), ("mu", "neg"), ("mbl", "zero"), ("mbl", "neg"), ("citer", "neg"),
                           ("maxit", "zero"), ("maxit", "neg"), ("method", "unknown")}]
    if case["cls"]["method"] == VG:
        named += [n for n, on in (("population-size-unused", "population_size" in kw), ("priors-unused", "priors" in kw),
                                  ("eps", "eps" in kw), ("no-mutations", inp.muts == "none")) if on]
    return named


def shown(kw):
    return {k: ("<priors>" if k == "priors" else v) for k, v in kw.items()}


def check_call(ctx, case, inp, fn_name, kw):
    import tsdate
    import tskit
    fn = getattr(tsdate, fn_name)
    m = case["cls"]["method"]
    label = fn_name if m == "unknown" else m
    call = record.observed_call(fn, inp.ts, **kw)
    ctx.evaluations += 1

    def instance():
        return {"case": {k: case[k] for k in ("pick", "params", "names", "allowed", "must_reject", "shape")},
                "input": {"name": inp.name, "source": inp.source, "mu": inp.mu, "Ne": inp.Ne, "trees": inp.blob()},
                "call": [fn_name, shown(kw)]}
    head = f"tsdate.{fn_name}(<{inp.name}: {inp.ts.num_samples} samples, {inp.ts.num_trees} trees, " \
           f"{inp.ts.num_mutations} mutations>, **{shown(kw)})"
    if not call.ok:
        cls = type(call.exc).__name__
        ctx.count("outcome_" + cls)
        if cls not in case["allowed"]:
            ctx.count(f"crash[{label}/{cls}]@{inp.source.split('/')[0]}")
            sig = f"C35/{label}/{cls}/{site_of(call.exc)}/{inp.source.split('/')[0]}"
            if case["must_reject"]:  # an invalid parameter got through validation and crashed further down
                sig += "/invalid:" + "+".join(named_invalid(case, kw, inp))
            ctx.violation(sig, instance(),
                          f"{head} raised {cls}: {str(call.exc)[:120]} [input class {inp.source}]", subcheck="class")
            return False
        if not str(call.exc).strip():
            ctx.violation(f"C35/{label}/{cls}/empty-message", instance(), f"{head} raised {cls} without a message", "class")
            return False
        return True
    ctx.count("outcome_returns")
    if "returns" not in case["allowed"]:
        named = named_invalid(case, kw, inp)
        ctx.violation(f"C35/{label}/invalid-accepted/{'+'.join(named)}", instance(),
                      f"{head} returned a result although {named} must be rejected", subcheck="reject")
        return False
    ret = call.ret
    parts = list(ret) if isinstance(ret, tuple) else [ret]
    want = case["shape"]
    ok = len(parts) == len(want) and (isinstance(ret, tuple) == (len(want) > 1))
    if ok:
        for what, v in zip(want, parts):
            if what == "ts":
                ok &= isinstance(v, tskit.TreeSequence)
            elif what == "fit":
                ok &= (v is not None) and not isinstance(v, (tskit.TreeSequence, numbers.Number)) and \
                    hasattr(v, "node_posteriors")
            elif v is None:
                # variational_gamma's marginal likelihood is an unimplemented stub returning None: the
                # position is what the statement fixes, the value is not judged (counted in the evidence)
                ctx.count("likelihood_slot_is_None")
            else:
                ok &= isinstance(v, (numbers.Real, np.floating)) and not isinstance(v, bool)
    if not ok:
        ctx.violation(f"C35/{label}/shape/{'+'.join(want)}", instance(),
                      f"{head} returned {[type(p).__name__ for p in parts]} but {want} is documented", subcheck="shape")
        return False
    return True


# --------------------------------------------------------------------------- driver
def run(ctx):
    harness.setup_repo_env(ctx.work)
    q = ctx.quick
    ctx.rule = ("instances = (parameter-class record of module Validate, input); inputs = TLC-generated TSGen tree "
                "sequences (any / complete-with-unary topologies, <= 3 mutations anywhere) + seeded msprime corpus "
                "(healthy, sparse-mutation, polytomies, historical, internal samples, diploid, mutation-free copies) + "
                "time scales 1e-6..1e12; non-trivial = distinct (parameter classes, input) pairs on which the real "
                "function was called; parameter records exhaustive up to the stated number of non-standard classes "
                "(entry, method, input class, return_fit, return_likelihood always vary freely), simulated beyond")
    ctx.assumptions = [
        "parameter values are well-typed finite numbers of ordinary magnitude (rates 1e-15..1, population sizes "
        "1e-4..1e14); inf / nan / 1e300 and the deliberately undocumented parameters (max_shape, cache_inside) are "
        "outside the quantifier",
        "max_iterations / rescaling options are parameters of variational_gamma only; passing them to the discrete "
        "functions is a Python TypeError (unknown keyword), not judged",
        "only the rejections named in the statement are required; other documented rejections (recombination rate, "
        "missing population size ...) and pathological inputs may be accepted or rejected, but never with an "
        "internal error",
    ]
    jobs = [
        lambda c: decide(c, "c35_dec", max_dev=1 if q else 3, emit_upto=1 if q else 2),
        lambda c: decide_sim(c, "c35_sim", 120 if q else 5000),
        lambda c: sc.generate(c, "c35_gen_any", simulate=64 if q else 1600, NS=3, NI=2, L=2 if q else 3,
                              max_muts=3, biased=(False,)),
        lambda c: sc.generate(c, "c35_gen_cu", simulate=64 if q else 1600, NS=3, NI=2, L=2 if q else 3, max_muts=3,
                              biased=(False,), tree_filter="completeunary"),
        lambda c: sc.generate(c, "c35_gen_small", simulate=48 if q else 800, NS=2, NI=2, L=2, max_muts=2,
                              biased=(False,), tree_filter="nodangling"),
    ]

    def warm():
        import tsdate  # noqa: F401

    res = cc.parallel(ctx, jobs, also=warm)
    cases = res[0]
    have = {tuple(c["pick"]) for c in cases}
    cases += [c for c in res[1] if tuple(c["pick"]) not in have]
    ctx.exhaustive = False
    seed = ctx.seed % 100000
    gen = tsgen_inputs(ctx, res[2] + res[3] + res[4])
    corpus = corpus_inputs(seed, q)
    sparse = sparse_inputs(seed, 12 if q else 150)
    nomut = [strip_mutations(i) for i in corpus[:2 if q else 6]]
    nomut += [strip_mutations_keep_sites(i) for i in corpus[:2 if q else 6]]
    pool = gen + corpus + sparse + nomut
    by_muts = {"some": [i for i in pool if i.muts == "some"], "none": [i for i in pool if i.muts == "none"]}
    ctx.count("inputs_tsgen", len(gen))
    ctx.count("inputs_corpus_and_scaled", len(corpus))
    ctx.count("inputs_sparse", len(sparse))
    ctx.count("inputs_without_mutations", len(by_muts["none"]))
    if not by_muts["none"] or not by_muts["some"]:
        raise harness.MachineryError("input pool lacks a class")

    def one(case, inp):
        a = call_args(case, inp)
        if a is None:
            ctx.count("prior_not_buildable_for_input")
            return
        check_call(ctx, case, inp, *a)
        ctx.traces += 1
        ctx.nontriv((tuple(case["pick"]), inp.name))

    k_dev = 1 if q else 6
    for case in cases:
        c = case["cls"]
        cand = by_muts[c["muts"]]
        sweep = case["dev"] == 0 or (case["dev"] == 1 and c["extra"] != "default")
        if sweep and c["entry"] == "date" and c["method"] != "unknown" and c["rfit"] == "no" and c["rlik"] == "no":
            chosen = cand  # "valid ones never crash": standard and non-default option packs on the whole pool
        else:
            chosen = ctx.rng.sample(cand, min(k_dev, len(cand)))
        for inp in chosen:
            one(case, inp)
        if case["dev"] <= 1:
            ctx.sample({"params": c, "allowed": case["allowed"], "shape": case["shape"]}, limit=3)
    if ctx.extra.get("outcome_returns", 0) < 50:
        raise harness.MachineryError("vacuous replay: hardly any call returned a result")


def replay(ctx, body):
    import tskit
    harness.setup_repo_env(ctx.work)
    inst = body["instance"]
    case = dict(inst["case"])
    case["cls"] = dict(zip(case["names"], case["params"]))
    d = inst["input"]
    with tempfile.NamedTemporaryFile(suffix=".trees") as f:
        f.write(base64.b64decode(d["trees"]))
        f.flush()
        ts = tskit.load(f.name)
    inp = In(d["name"], ts, d["mu"], d["Ne"], d["source"])
    a = call_args(case, inp)
    if a is not None:
        check_call(ctx, case, inp, *a)
