"""C08 -- dates depend only on topology, sample times and mutation placement.

J1  TLC, module Relational (Irr machine): the input is a record of components, every item of the
    11-item perturbation menu is defined by the components it rewrites, Inputs(ts, opts) is the
    projection the statement names (edges, node times, sample flags, mutation (position, node), and
    node -> individual only for unphased singletons).  Over the whole subset lattice (2^11 subsets,
    items applied in any order) and all option records: an allowed subset leaves Inputs -- hence the
    free term Date(Inputs, opts) -- unchanged; the two control perturbations (move a mutation,
    change a sample time) and "individuals" under unphased singletons change it.
J2  TLC emits every subset with its verdict per option record ("same" / "free" = the statement is
    silent); the driver applies the selected subsets to real inputs (singletons, pairs, the full
    set and a seeded sample in quick; all 2^11 in thorough) and calls the real date().
J3  every (base, perturbed) pair of real calls is one RelationalTrace line; TLC recomputes the
    verdict from the logged subset and demands close12 on every output where it is "same"
    (bit-identity is what is observed and counted; close12 is what the statement supports).
"""

import numpy as np

from .. import harness
from .. import meta_common as mc
from ..harness import MachineryError

PID = "C08"
OPTKEYS = ("variational_gamma", "variational_gamma/unphased", "inside_outside", "maximization")


def call_opt(inp, ts, optkey):
    method = optkey.split("/")[0]
    kw = {"mutation_rate": inp.mu}
    if method == "variational_gamma":
        if optkey.endswith("unphased"):
            kw["singletons_phased"] = False
    else:
        kw["population_size"] = inp.Ne
    return mc.call(ts, method, **kw)


METHOD_OUTPUTS = {  # only for the bit-identity *count*; what is demanded comes from Relational!OutputsOf
    "variational_gamma": mc.OUTPUTS,
    "inside_outside": ("node_time", "mutation_time", "node_mn", "node_vr", "mutation_node"),
    "maximization": ("node_time", "mutation_time", "mutation_node")}


def one_pair(ctx, inp, optkey, S, base=None, silent=False):
    """silent: the statement says nothing about this (options, S) -- Verdict = "free" in the spec"""
    method = optkey.split("/")[0]
    S = sorted(S)
    tid = f"{inp.name}/{optkey}/{'+'.join(S) or 'none'}"
    control = any(i in mc.CONTROLS for i in S)
    a = base if base is not None else call_opt(inp, inp.ts, optkey)
    ts2 = mc.perturb(inp.ts, S, mc.sub_rng(ctx.seed, inp.name, S))
    if not control and "individuals" not in S and not mc.projection_equal(inp.ts, ts2):
        raise MachineryError(f"perturbation {S} changed the projection Inputs(ts) of {inp.name}")
    if not control and "individuals" in S and not mc.projection_equal(inp.ts, ts2):
        raise MachineryError(f"perturbation {S} changed the phased projection of {inp.name}")
    b = call_opt(inp, ts2, optkey)
    ctx.evaluations += 1
    meta = {"input": inp.name, "optkey": optkey, "S": S, "cls": optkey}
    if not (a.ok and b.ok):
        if control:
            ctx.count("controls_changed_outcome" if a.ok != b.ok else "controls_rejected")
            return a, None, meta
        if silent:
            ctx.count("silent_pairs_with_different_outcome" if a.ok != b.ok else "pairs_both_rejected")
        elif a.ok != b.ok or type(a.exc) is not type(b.exc):
            mc.error_violation(ctx, PID, "irrelevant", tid, meta, a, b)
        else:
            ctx.count("pairs_both_rejected")
        return a, None, meta
    ev, worst = mc.pair_event(tid, "control" if control else "irrelevant", method, a, b, optkey=optkey, S=S)
    ev["discard"] = False  # no tolerance is at stake here: ties are broken identically on identical inputs
    meta["worst"] = worst
    identical = all(np.array_equal(a.out[q], b.out[q], equal_nan=True) for q in METHOD_OUTPUTS[method])
    if control:
        ctx.count("controls_detected" if not all(ev["c12"].values()) else "controls_not_detected")
    else:
        ctx.count("pairs_bit_identical" if identical else "pairs_not_bit_identical")
        ctx.nontriv(tid)
    return a, ev, meta


def select_subsets(ctx, recs):
    allowed = [frozenset(r["S"]) for r in recs if not set(r["S"]) & set(mc.CONTROLS)]
    if not ctx.quick:
        return allowed, True
    single = [s for s in allowed if len(s) == 1]
    pairs = [s for s in allowed if len(s) == 2]
    full = [s for s in allowed if len(s) == len(mc.MENU)]
    rest = [s for s in allowed if len(s) > 2 and len(s) < len(mc.MENU)]
    rest.sort(key=lambda s: sorted(s))
    sample = ctx.rng.sample(rest, 10)
    return single + pairs + full + sample, False


def run(ctx):
    harness.setup_repo_env(ctx.work)
    ctx.rule = ("(input, option record, perturbation subset S) with S in the statement's menu for those options, "
                "both calls returned and the perturbed tables satisfy Inputs(ts') = Inputs(ts) while differing from "
                "ts in the perturbed columns; distinct by (input, options, S)")
    ctx.assumptions = ["close12 (DESIGN Appendix C) is demanded; bit-identity is reported as a count",
                       "mutation-level outputs are compared in canonical (site, node, occurrence) order",
                       "node times of non-sample nodes are not in the menu (C11 owns that, discrete methods only)"]
    q = ctx.quick
    recs = mc.irr_model(ctx)
    verdict = {frozenset(r["S"]): r["verdict"] for r in recs}
    subsets, exhaustive = select_subsets(ctx, recs)
    ctx.exhaustive = exhaustive
    corpus = mc.corpus(ctx.seed, q)
    corpus.sort(key=lambda i: i.ts.num_mutations + i.ts.num_nodes)
    small = corpus[:2] if q else corpus[:1]
    events, metas = [], {}
    bases = {}

    def do(inp, optkey, S):
        method = optkey.split("/")[0]
        if not mc.applicable(inp, method):
            return
        k = (inp.name, optkey)
        if k not in bases:
            bases[k] = call_opt(inp, inp.ts, optkey)
        _, ev, meta = one_pair(ctx, inp, optkey, S, base=bases[k], silent=verdict[frozenset(S)][optkey] == "free")
        if ev is not None:
            events.append(ev)
            metas[ev["tid"]] = meta
            if len(S) >= 2:
                ctx.sample({"input": inp.name, "options": optkey, "S": sorted(S), "verdict": verdict[frozenset(S)][optkey],
                            "worst_relative_difference": max(meta["worst"].values())}, limit=5)

    # every singleton and the full set on every input; the other subsets round-robin over the small inputs
    done = set()
    for inp in corpus:
        for optkey in OPTKEYS:
            for S in [s for s in subsets if len(s) == 1 or len(s) == len(mc.MENU)]:
                do(inp, optkey, S)
                done.add((inp.name, optkey, S))
    others = [s for s in subsets if 1 < len(s) < len(mc.MENU)] + [frozenset()]
    for j, S in enumerate(others):
        for optkey in OPTKEYS:
            if not q and optkey.endswith("unphased") and 2 < len(S) < len(mc.MENU) - 1 and j % 8:
                continue  # thorough: the unphased variant on the small / large subsets and every 8th other one
            targets = small if not q else [small[j % len(small)]]
            for inp in targets:
                if (inp.name, optkey, S) not in done:
                    do(inp, optkey, S)
    # controls: relevant changes must be visible to the comparison
    for inp in corpus[:3]:
        for optkey in OPTKEYS:
            do(inp, optkey, frozenset(["move_mutation"]))
        do(inp, "variational_gamma", frozenset(["sample_time"]))
    if ctx.extra.get("controls_detected", 0) + ctx.extra.get("controls_changed_outcome", 0) == 0:
        raise MachineryError("no control perturbation changed any output: the comparison is blind")
    free = sum(1 for e in events if e["kind"] == "irrelevant" and verdict[frozenset(e["S"])][e["optkey"]] == "free")
    ctx.count("pairs_where_statement_is_silent", free)
    ctx.count("subsets_applied", len(set(frozenset(e["S"]) for e in events if e["kind"] == "irrelevant")))
    mc.judge(ctx, PID, events, metas, ["irrelevant", "control"], "irrelevant")
    ctx.count("pairs_judged", len(events))


def replay(ctx, body):
    harness.setup_repo_env(ctx.work)
    meta = body["instance"]["meta"]
    inp = mc.find_input(body.get("seed", ctx.seed), meta["input"])
    _, ev, m = one_pair(ctx, inp, meta["optkey"], meta["S"])  # not silent: only demanded pairs are ever reported
    if ev is not None:
        mc.judge(ctx, PID, [ev], {ev["tid"]: m}, ["irrelevant", "control"], "irrelevant")
