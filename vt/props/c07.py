"""C07 -- rescaling genome coordinates and mutation rate together leaves dates unchanged.

J1  TLC, module Relational (Units machine, kind "genome"): the recipe (sequence length, edge
    endpoints, site positions * c; mutation rate / c) is exactly the change of length unit, the
    kernel arguments (mu * span * dt, span fractions) are dimensionless and keep their value, and
    every output has exponent 0.
J2  the driver applies the TLC-emitted recipe to real inputs.
J3  every pair of real date() calls is one RelationalTrace line; TLC demands close12 for dyadic c
    and the loose class closeL (1e-4, variances 1e-3) otherwise (non-dyadic c changes the rounding of spans).
"""

from .. import harness
from .. import meta_common as mc

PID = "C07"
KIND = "genome"


def run(ctx):
    harness.setup_repo_env(ctx.work)
    ctx.rule = ("metamorphic pairs (input, method, option setting, c): both calls returned, not discarded for an "
                "arg-max near-tie, at least one non-sample node with positive base time; distinct by "
                "(input, method, options, c)")
    ctx.assumptions = ["A4 predicates: dyadic c is judged with close12 (observed: exact), other c with closeL = rel 1e-4, variances "
                       "1e-3 (see C06)",
                       "preprocess_ts is not part of the statement (its minimum_gap is absolute by documentation)"]
    q = ctx.quick
    # 2^-20 and 1e-6: coordinates in very small units, e.g. Mb instead of bp (added after seed C07-a)
    exact = [0.5, 2.0, 2.0 ** -20]
    other = [10.0, 1000.0 / 3.0, 1e-6] if q else [10.0, 1000.0 / 3.0, 1e-6, 1e-3, 7.3, 1e5]
    if not q:
        exact += [2.0 ** 10, 2.0 ** -7]
    mc.scaling_run(ctx, PID, KIND, exact, other)


def replay(ctx, body):
    harness.setup_repo_env(ctx.work)
    mc.scaling_replay(ctx, PID, KIND, body)
