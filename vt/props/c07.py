"""C07 -- rescaling genome coordinates and mutation rate together leaves dates unchanged.

J1  TLC, module Relational (Units machine, kind "genome"): the recipe (sequence length, edge
    endpoints, site positions * c; mutation rate / c) is exactly the change of length unit, the
    kernel arguments (mu * span * dt, span fractions) are dimensionless and keep their value, and
    every output has exponent 0.
J2  the driver applies the TLC-emitted recipe to real inputs.
J3  every pair of real date() calls is one RelationalTrace line; TLC demands close12 for dyadic c
    and the loose class closeL (1e-4, variances 1e-3) otherwise (non-dyadic c changes the rounding of spans).
"""

from .. import harness
from .. import meta_common as mc

PID = "C07"
KIND = "genome"


def run(ctx):
    harness.setup_repo_env(ctx.work)
    ctx.rule = ("metamorphic pairs (input, method, option setting, c): both calls returned, not discarded for an "
                "arg-max near-tie, at least one non-sample node with positive base time; distinct by "
                "(input, method, options, c)")
    ctx.assumptions = ["A4 predicates: dyadic c is judged with close12 (observed: exact), other c with closeL = rel 1e-4, variances "
                       "1e-3 (see C06)",
                       "preprocess_ts is not part of the statement (its minimum_gap is absolute by documentation)"]
    q = ctx.quick
    # 2^-20 and 1e-6: coordinates in very small units, e.g. Mb instead of bp (added after seed C07-a)
    exact = [0.5, 2.0, 2.0 ** -20]
    other = [10.0, 1000.0 / 3.0, 1e-6] if q else [10.0, 1000.0 / 3.0, 1e-6, 1e-3, 7.3, 1e5]
    if not q:
        exact += [2.0 ** 10, 2.0 ** -7]
    mc.scaling_run(ctx, PID, KIND, exact, other)
    ratemap_leg(ctx)


def ratemap_leg(ctx):
    """Growth beyond the listed statement: util.transform_coordinates_by_ratemap (the general,
    piecewise-constant change of genome coordinates; a constant map is C07's rescaling) against
    spec/RateMap.tla on TSGen tree sequences."""
    import json

    import numpy as np
    import tskit
    from tsdate import util

    from .. import build
    q = ctx.quick
    consts = {"NS": 2, "NI": 2, "L": 2 if q else 3, "MaxMuts": 1, "TreeFilter": json.dumps("any"),
              "Rates": "{0,1,3}", "EmitDone": "FALSE"}
    cfg = ctx.write_cfg("ratemap_j1.cfg", constants=consts, invariants=["Monotone", "SitesStayDistinct", "EdgesWellFormed"])
    ctx.tlc("RateMap", cfg, workers=8, required_actions=("Gen", "PickRates"))
    consts.update(EmitDone="TRUE", L=2)
    cfg = ctx.write_cfg("ratemap_j2.cfg", constants=consts, invariants=["EmitInv"])
    insts = ctx.tlc("RateMap", cfg, workers=4, coverage=False).rec("inst")
    insts = ctx.rng.sample(insts, min(len(insts), 1200 if q else 20000))
    for k, inst in enumerate(insts):
        ts = build.forest_ts(inst)
        rates = [float(r) for r in inst["rate"]]
        if k % 3 == 0:  # NaN (missing) rate behaves like a zero rate
            if rates[0] == 0:
                rates[0] = np.nan
            if rates[-1] == 0:
                rates[-1] = np.nan
        rm = tskit.RateMap(position=[2.0 * i for i in range(inst["L"] + 1)], rate=rates)
        ctx.evaluations += 1
        ctx.traces += 1
        try:
            out = util.transform_coordinates_by_ratemap(ts, rm)
        except Exception as ex:  # noqa: BLE001
            ctx.violation(f"C07/ratemap/{type(ex).__name__}", inst, f"{type(ex).__name__}: {ex}", subcheck="ratemap")
            continue
        edges = sorted((int(e.left), int(e.right), int(e.parent), int(e.child)) for e in out.edges())
        muts = sorted((int(out.sites_position[m.site]), int(m.node)) for m in out.mutations())
        want_e = sorted(tuple(x) for x in inst["edges"])
        want_m = sorted(tuple(x) for x in inst["newmuts"])
        if (int(out.sequence_length) != inst["seqlen"] or edges != want_e or muts != want_m
                or out.num_nodes != ts.num_nodes or out.num_sites != len({m[0] for m in want_m})):
            ctx.violation("C07/ratemap/differs-from-RateMap", inst,
                          f"code seqlen {out.sequence_length} edges {edges} muts {muts} sites {out.num_sites}; "
                          f"spec seqlen {inst['seqlen']} edges {want_e} muts {want_m}", subcheck="ratemap")
        if 0 in inst["rate"] and inst["muts"]:
            ctx.nontriv("R" + json.dumps([inst["trees"], inst["muts"], inst["rate"]]))
    ctx.count("ratemap_replays", len(insts))


def replay(ctx, body):
    harness.setup_repo_env(ctx.work)
    if body.get("subcheck") == "ratemap":
        ratemap_leg(ctx)  # the generated scope is small: re-run the whole leg
        return
    mc.scaling_replay(ctx, PID, KIND, body)
