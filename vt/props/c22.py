"""C22 -- unphased singleton handling only re-phases singletons and ignores input phase.

J1  TLC: spec/Blocks.tla -- singleton blocks equal the declarative definition, which is
    symmetric in the two nodes of an individual (RephaseSymmetric: block statistics are the
    same for every re-phasing of the singletons in scope).
J2  block_singletons on the real code replayed from Blocks behaviours (shared with C24).
J3  real variational_gamma calls: singletons_phased=True never changes a mutation's node;
    singletons_phased=False changes nodes only within a diploid contemporary individual; and
    for random re-phasings of the input's singletons the outputs agree (times and metadata to
    rtol 1e-6, mutation placement exactly).  TLC (spec/EPTrace.tla) decides the recorded
    predicates together with the EP control skeleton.
"""

import numpy as np

from .. import ep_common as ec
from .. import harness, inputs
from . import c24

PID = "C22"
CHECKS = ["PhasedUnmoved", "UnphasedMoves", "RephaseInvariant"]


def run(ctx):
    harness.setup_repo_env(ctx.work)
    q = ctx.quick
    ctx.rule = ("Blocks scope as C24 plus all re-phasings of <= 2 singletons; real calls on diploid inputs x "
                "{phased, unphased} x random re-phasings; non-trivial = unphased call on an input where re-phasing "
                "moved at least one singleton")
    ctx.assumptions = ["metamorphic pairs compared at rtol 1e-6 (times, mn), 2e-6 (vr); mutation placement exact"]
    musts = ["BlocksExact", "NoPhantomBlock", "RephaseSymmetric"]
    cfg = ctx.write_cfg("blocks_sym.cfg", constants=c24.blocks_consts(2, 2, 2, 2, 1, "pairs"), invariants=musts)
    ctx.tlc("Blocks", cfg, workers=8, required_actions=("Gen", "Choose", "Step", "Finish"))
    if not q:
        cfg = ctx.write_cfg("blocks_sym2.cfg", constants=c24.blocks_consts(4, 2, 2, 2, 2, "completeunary"), invariants=musts)
        ctx.tlc("Blocks", cfg, workers=8)
    cfg = ctx.write_cfg("blocks_gen.cfg", constants=c24.blocks_consts(2, 2, 2, 2, 1, "pairs", emit=True), invariants=["EmitInv"])
    binsts = ctx.tlc("Blocks", cfg, workers=4, coverage=False).rec("inst")
    binsts = ctx.rng.sample(binsts, min(len(binsts), 400 if q else 5000))
    for inst in binsts:
        c24.replay_blocks(ctx, inst)
        ctx.traces += 1
    # re-route C24-signatures of the shared replay to this property
    for v in ctx.violations:
        v[0] = v[0].replace("C24/", "C22/")
    rng = np.random.default_rng(ctx.seed)
    corpus = inputs.diploid(ctx.seed, k=2 if q else 8)
    events, meta = [], {}
    kws = [{"max_iterations": 3 if q else 5}, {"max_iterations": 2, "match_segregating_sites": True}]
    if not q:
        kws.append({"max_iterations": 3, "rescaling_intervals": 5, "max_shape": 50.0})
    for inp in corpus:
      for ki, kw in enumerate(kws):
        ev, call = ec.observe_vgamma(inp.ts, inp.mu, singletons_phased=True, **kw)
        ctx.evaluations += 1
        if ev is not None:
            ev["tid"] = f"{inp.name}/kw{ki}/phased"
            events.append(ev)
        base_ev, base = ec.observe_vgamma(inp.ts, inp.mu, singletons_phased=False, **kw)
        ctx.evaluations += 1
        if base_ev is None:
            ctx.count("calls_rejected_or_failed")
            continue
        for rep in range(2 if q else 5):
            ts2, moved = ec.rephase(inp.ts, rng, prob=0.5 if rep else 1.0)
            ev2, call2 = ec.observe_vgamma(ts2, inp.mu, singletons_phased=False, **kw)
            ctx.evaluations += 1
            if ev2 is None:
                ctx.violation("C22/date/rephased-input-rejected", {"input": inp.name, "exc": repr(call2.exc)},
                              f"re-phased input rejected: {call2.exc!r}", subcheck="date")
                continue
            ok, why = ec.outputs_close(base.ts, call2.ts)
            a = sorted(zip(base.ts.mutations_site.tolist(), base.ts.mutations_node.tolist()))
            b = sorted(zip(call2.ts.mutations_site.tolist(), call2.ts.mutations_node.tolist()))
            ev2["final"]["rephase_equal"] = bool(ok and a == b)
            ev2["final"]["rephase_why"] = why if not ok else ("" if a == b else "mutation placement differs")
            ev2["tid"] = f"{inp.name}/kw{ki}/unphased/rephase{rep}"
            events.append(ev2)
            if moved:
                ctx.nontriv(ev2["tid"])
        base_ev["tid"] = f"{inp.name}/kw{ki}/unphased/base"
        events.append(base_ev)
    ec.judge_ep(ctx, PID, CHECKS, events, meta, "date")
    ctx.count("calls_traced", len(events))


def replay(ctx, body):
    harness.setup_repo_env(ctx.work)
    inst = body["instance"]
    if body.get("subcheck") == "blocks":
        c24.replay_blocks(ctx, inst)
    elif "event" in inst:
        ec.judge_ep(ctx, PID, CHECKS, [inst["event"]], {}, "date")
