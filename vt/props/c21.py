"""C21 -- EP message bookkeeping is consistent after every iteration.

J1  TLC: spec/EPAny.tla -- Book (posterior = scale x sum of all messages addressed to the
    node) in every state, for every outcome of every projection incl. skips, with
    _rescale_factors enabled anywhere, on graphs covering the five update branches and
    twin / two-parent singleton blocks; FixedUntouched; AbsorbKeepsPosterior.  Plus Book
    on the exact star model (spec/EPStar.tla).
J2  star behaviours replayed by stepping the real iterate(); the bookkeeping identity is
    evaluated on the real factors after every step.
J3  real variational_gamma() calls observed through the guarded per-iteration hook; TLC
    (spec/EPTrace.tla) validates the control skeleton and the per-iteration predicates.
"""

from .. import ep_common as ec
from .. import harness

PID = "C21"
CHECKS = ["Book", "FixedUntouched", "SamplesExact"]


def run(ctx):
    harness.setup_repo_env(ctx.work)
    q = ctx.quick
    ctx.rule = ("EPAny: 5 graphs x projection outcomes (skip / 3 increments) x caps, <= 3-4 updates; star instances "
                "stepped on the real code; real variational_gamma calls on corpus x settings observed per iteration; "
                "non-trivial = at least 2 free nodes and 1 iteration observed")
    ctx.assumptions = ["predicate book = shapes and rates of node_posterior and _assemble_factors(factors) agree to "
                       "rtol 1e-9 (observed residual on the unchanged tree < 1e-14)"]
    cfg = ctx.write_cfg("epany.cfg", constants={"Graphs": "{1,2,3,4,5}", "IncrIds": "{1,2,3}", "Caps": "{2,1000}" if q else "{2,3,1000}",
                                                "MaxVisits": 3},
                        invariants=["Book", "FixedUntouched", "ProperOrNeverUpdated", "ShapeCapped"],
                        properties=["AbsorbKeepsPosterior"], constraints=["Bounded"])
    ctx.tlc("EPAny", cfg, workers=8 if q else 16, timeout=900 if q else 3400, required_actions=("Choose",))
    base = dict(max_parents=2, max_edges=3, counts=[0, 1, 2], spans=[1, 2], mu_halves=[2, 1], caps=[2, 3, 1000],
                max_iters=2)
    cfg = ctx.write_cfg("epstar_book.cfg", constants=ec.star_consts(**base), invariants=["Book", "NoOverflow"])
    ctx.tlc("EPStar", cfg, workers=8, timeout=900 if q else 3400)
    gen = dict(base)
    gen.update(emit=True, caps=[3, 1000], counts=[0, 2], max_iters=2)
    cfg = ctx.write_cfg("epstar_gen.cfg", constants=ec.star_consts(**gen), invariants=["EmitInv"])
    insts = ctx.tlc("EPStar", cfg, workers=4, coverage=False).rec("inst")
    insts = ctx.rng.sample(insts, min(len(insts), 150 if q else 2000))
    from tsdate import variational
    import numpy as np
    for inst in insts:
        ts = ec.star_ts(inst)
        ep = variational.ExpectationPropagation(ts, mutation_rate=float(ec.frac(inst["mu"])), allow_unary=True)
        for i in range(inst["iters"]):
            ep.iterate(max_shape=float(ec.frac(inst["cap"])), regularise=(i % 2 == 1))
            rec = ec.iteration_record(i + 1, ep, float(ec.frac(inst["cap"])))
            if not (rec["book"] and rec["scale_one"] and rec["fixed_untouched"]):
                ctx.violation("C21/star/Book", inst, f"after iterate() #{i + 1}: {rec}", subcheck="star")
        ctx.traces += 1
        ctx.evaluations += 1
    # stress instance: a 60-leaf polytomy with ~100 mutations per edge and max_shape = 2 drives a node's
    # accumulated scale below TINY inside one sweep, so _rescale_factors fires *mid-iteration*
    # (EPAny!AbsorbScale at an arbitrary point); added after second seed C21-b
    stress = {"edges": [{"p": 1, "y": 100 + (i % 7), "span": 1} for i in range(60)], "mu": [1, 1], "cap": [2, 1], "iters": 4}
    ts = ec.star_ts(stress)
    ep = variational.ExpectationPropagation(ts, mutation_rate=1.0, allow_unary=True)
    seen_mid = False
    for i in range(stress["iters"]):
        ep.iterate(max_shape=2.0, regularise=False)
        rec = ec.iteration_record(i + 1, ep, 2.0)
        if not (rec["book"] and rec["scale_one"] and rec["fixed_untouched"] and rec["proper_or_never_updated"]):
            ctx.violation("C21/stress/Book", {"stress": "polytomy60", "iteration": i + 1, "record": rec},
                          f"polytomy stress instance after iterate() #{i + 1}: {rec}", subcheck="stress")
    ctx.traces += 1
    ctx.evaluations += 1
    corpus = ec.ep_corpus(ctx)
    settings = [{"max_iterations": 3}, {"max_iterations": 2, "max_shape": 2.0, "regularise_roots": False},
                {"max_iterations": 3, "max_shape": 3.0},
                {"max_iterations": 2, "singletons_phased": False, "rescaling_intervals": 0}]
    if not q:
        settings += [{}, {"max_iterations": 10, "max_shape": 1.5}, {"max_iterations": 5, "singletons_phased": False},
                     {"max_iterations": 1, "rescaling_iterations": 0}]
    ev, meta = ec.ep_date_events(ctx, PID, corpus, settings)
    ec.judge_ep(ctx, PID, CHECKS, ev, meta, "date")
    ctx.count("calls_traced", len(ev))
    ctx.extra["max_book_residual"] = max((i["book_residual"] for e in ev for i in e["iters"]), default=0.0)


def replay(ctx, body):
    harness.setup_repo_env(ctx.work)
    inst = body["instance"]
    if "event" in inst:
        ec.judge_ep(ctx, PID, CHECKS, [inst["event"]], {}, "date")
