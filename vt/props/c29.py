"""C29 -- splitting disjoint nodes preserves every local tree.

J1  TLC: module SplitDisjoint.  The arrays of util._split_disjoint_nodes (nodes_segments,
    nodes_right, edges_segments, nodes_map, nodes_order) and the sweep of
    _relabel_mutations_node as a state machine, against the declarative statement:
    TreesPreserved (under orig), Contiguous, LeftmostKeepsId, MutationsFollow,
    GenotypesKept, Idempotent, SegmentsAreRuns; confluence over the unspecified argsort tie
    order (AnyTieOrder).  With AsImplemented = TRUE (the sweep ends at the last edge, map
    starts as NULL) TLC refutes NoCrash and proves CrashClassExact: the transcription fails
    exactly on mutations at/after the end of the last edge or on a node no edge has touched.
J2  every emitted behaviour is replayed into the real split_disjoint_nodes on a real tskit
    tree sequence (decorated with populations / individuals / metadata with and without a
    schema).  Compared with the spec: number of nodes, local tree of every unit interval
    mapped through orig, one piece per node and tree, runs of every piece (leftmost keeps the
    id, one new node per further run), contiguity, node columns, split flag, unsplit_node_id,
    mutation site / node (orig, present where the spec says the node is present), genotype
    matrix, other tables, second application identical.  Ids of copies are not fixed by the
    statement: a copy is mapped to its original through its time (internal times are
    pairwise distinct in TSGen instances).
"""

import numpy as np

from .. import harness
from .. import prep_common as pc

PID = "C29"
ABSENT_SIG = "C29/split_disjoint_nodes/mutation-on-node-absent-from-tree"


def consts(NS, NI, L, max_muts, tree_filter="any", impl=False, anytie=False, hist=False, emit=False):
    c = pc.gen_consts(NS, NI, L, max_muts, tree_filter)
    c.update({"AsImplemented": pc.tla_bool(impl), "AnyTieOrder": pc.tla_bool(anytie),
              "HistSets": pc.tla_bool(hist), "EmitDone": pc.tla_bool(emit)})
    return c


ACTIONS = ("Gen", "Choose", "VisitEdge", "Allocate", "Relabel", "Sweep", "Finish")


def model_check(ctx, name, **kw):
    cfg = ctx.write_cfg(name + ".cfg", constants=consts(**kw),
                        invariants=["NoCrash", "SplitCorrect", "SegmentsAreRuns"])
    return ctx.tlc("SplitDisjoint", cfg, workers=8, required_actions=ACTIONS)


def refute_impl(ctx, name, **kw):
    """The transcription of the code as it stands: CrashClassExact must hold, NoCrash must fail."""
    cfg = ctx.write_cfg(name + "_x.cfg", constants=consts(impl=True, **kw),
                        invariants=["CrashClassExact", "SplitCorrect"])
    ctx.tlc("SplitDisjoint", cfg, workers=8, required_actions=ACTIONS)
    cfg = ctx.write_cfg(name + "_n.cfg", constants=consts(impl=True, **kw), invariants=["NoCrash"])
    r = ctx.tlc("SplitDisjoint", cfg, workers=8, must_hold=False, coverage=False)
    ctx.extra["as_implemented_model_refuted"] = r.violated
    if r.violated != "NoCrash":
        ctx.count("as_implemented_model_not_refuted")


def generate(ctx, name, simulate=None, **kw):
    kw["emit"] = True
    cfg = ctx.write_cfg(name + ".cfg", constants=consts(**kw), invariants=["EmitInv", "NoCrash", "SplitCorrect"])
    if simulate:
        r = ctx.tlc("SplitDisjoint", cfg, workers=8, coverage=False, simulate={"num": max(1, simulate // 8)},
                    depth=8 * kw["L"] + kw["max_muts"] + 40)
    else:
        r = ctx.tlc("SplitDisjoint", cfg, workers=4, coverage=False)
    return r.rec("inst")


def compare(ctx, inst, ts, out, variant, v):
    """v(signature_suffix, message) reports; returns nothing."""
    import tsdate
    SPLIT = int(tsdate.NODE_SPLIT_BY_PREPROCESS)
    N, L = inst["N"], inst["L"]
    sset = set(inst["samples"])
    if out.num_nodes != inst["nt"]:
        v("node-count", f"{out.num_nodes} nodes, spec {inst['nt']} (runs {inst['runs']})")
    orig = pc.orig_by_time(inst, out)
    if any(o is None for o in orig):
        v("copy-time", f"a new node has a time matching no non-sample input node: {out.nodes_time.tolist()}")
        return
    rows = pc.parent_rows(out, [2 * i for i in range(L)])
    # local trees under orig, one piece per node and tree
    for i in range(L):
        seen = {}
        present = set()
        for n, p in enumerate(rows[i]):
            if p != -1:
                present.add(n)
                present.add(p)
        for n in present:
            if orig[n] in seen:
                v("two-pieces-in-one-tree", f"interval {i}: nodes {seen[orig[n]]} and {n} both stand for {orig[n]}")
            seen[orig[n]] = n
        got = [-1] * N
        for n, p in enumerate(rows[i]):
            if p != -1:
                got[orig[n]] = orig[p]
        if got != list(inst["trees"][i]):
            v("local-tree", f"interval {i}: tree under orig {got}, input {inst['trees'][i]}")
    # pieces: leftmost keeps the id, every other run has exactly one new node, all contiguous
    where = pc.where_present(rows)
    for n in range(out.num_nodes):
        cells = where.get(n, [])
        if orig[n] not in sset and not pc.is_run(cells):
            v("not-contiguous", f"node {n} (orig {orig[n]}) is present in intervals {cells}")
    for u in range(N):
        runs = [list(range(a - 1, b)) for a, b in inst["runs"][u]]
        if u in sset:
            if where.get(u, []) != sorted(c for r in runs for c in r):
                v("sample-changed", f"sample {u} present in {where.get(u, [])}, input {runs}")
            continue
        if where.get(u, []) != (runs[0] if runs else []):
            v("leftmost-piece", f"node {u} present in {where.get(u, [])}, leftmost run of the input is "
                                f"{runs[0] if runs else []}")
        copies = sorted(where.get(n, []) for n in range(N, out.num_nodes) if orig[n] == u)
        if copies != sorted(runs[1:]):
            v("copies", f"copies of node {u} cover {copies}, further runs of the input are {runs[1:]}")
    # node columns
    tin, tout = ts.tables.nodes, out.tables.nodes
    schema_ok = variant in (1, 2)
    for n in range(out.num_nodes):
        u = orig[n]
        split = len(inst["runs"][u]) > 1 and u not in sset
        if tout.time[n] != tin.time[u] or tout.population[n] != tin.population[u] \
                or tout.individual[n] != tin.individual[u]:
            v("node-columns", f"node {n} (orig {u}): time/population/individual differ from the original row")
        fl_in, fl_out = int(tin.flags[u]), int(tout.flags[n])
        if n >= N:
            if fl_out != (fl_in | SPLIT):
                v("copy-flags", f"copy {n} of {u}: flags {fl_out}, expected {fl_in | SPLIT}")
        elif (fl_out & ~SPLIT) != fl_in or (not split and fl_out != fl_in):
            v("node-flags", f"node {n}: flags {fl_out}, input {fl_in}, split={split}")
        md_in, md_out = ts.node(u).metadata, out.node(n).metadata
        if n >= N and schema_ok:
            want = dict(md_in)
            want["unsplit_node_id"] = u
            if md_out != want:
                v("copy-metadata", f"copy {n} of {u}: metadata {md_out}, expected {want}")
        elif n >= N or not split:
            if md_out != md_in:
                v("node-metadata", f"node {n} (orig {u}): metadata {md_out}, input {md_in}")
        else:  # a split original: unchanged, or marked like its copies
            want = dict(md_in) if isinstance(md_in, dict) else md_in
            if isinstance(want, dict):
                want["unsplit_node_id"] = u
            if md_out != md_in and md_out != want:
                v("node-metadata", f"split node {n}: metadata {md_out}, input {md_in}")
    # mutations
    mi, mo = ts.tables.mutations, out.tables.mutations
    if out.num_mutations != ts.num_mutations or not np.array_equal(mi.site, mo.site) \
            or not np.array_equal(mi.derived_state, mo.derived_state):
        v("mutation-rows", "mutation sites / states changed")
    else:
        pos = out.sites_position[mo.site]
        key = {}
        for j in range(out.num_mutations):
            n = int(mo.node[j])
            key.setdefault((int(pos[j]), orig[n] if 0 <= n < out.num_nodes else None), []).append(n)
        for k, (x, u) in enumerate(inst["muts"]):
            ns = key.get((x, u), [])
            if len(ns) != 1:
                v("mutation-node", f"mutation at {x} on node {u}: output has mutations {sorted(key)} (pos, orig node)")
            elif inst["mpresent"][k] and (x // 2) not in where.get(ns[0], []):
                v("mutation-piece", f"mutation at {x} on node {u} moved to piece {ns[0]}, which is present in "
                                    f"intervals {where.get(ns[0], [])} only")
    if not np.array_equal(ts.genotype_matrix(), out.genotype_matrix()):
        v("genotypes", "genotype matrix changed")
    to, ti = out.tables, ts.tables
    if not (ti.sites.equals(to.sites)
            and ti.individuals.equals(to.individuals) and ti.populations.equals(to.populations)
            and ti.sequence_length == to.sequence_length and to.edges.num_rows == ti.edges.num_rows):
        v("other-tables", "sites / individuals / populations / sequence length / number of edges changed")
    ein = sorted((e.left, e.right) for e in ts.edges())
    eout = sorted((e.left, e.right) for e in out.edges())
    if ein != eout:
        v("edge-intervals", "edge intervals changed")


def replay_one(ctx, inst, variant=None):
    from tsdate import util
    if variant is None:
        variant = (len(inst["muts"]) + sum(sum(1 for p in t if p != -1) for t in inst["trees"])) % 4
    ts = pc.decorated_ts(inst, variant)
    pc.check_binding(inst, ts)
    inst = dict(inst, variant=variant)
    cls = "/absent" if inst["absent"] else ""

    def v(suffix, msg):
        ctx.violation(f"C29/split_disjoint_nodes/{suffix}", inst, msg, "split")

    try:
        out = util.split_disjoint_nodes(ts)
    except Exception as ex:  # noqa: BLE001
        if inst["absent"]:
            ctx.violation(ABSENT_SIG, inst,
                          f"split_disjoint_nodes raised {type(ex).__name__}: {ex} -- a mutation lies at/after the end of "
                          f"the last edge or on a node that no edge has touched yet (muts {inst['muts']}, edges "
                          f"{inst['edges']})", "split")
        else:
            v(f"{type(ex).__name__}", f"split_disjoint_nodes raised {type(ex).__name__}: {ex}")
        ctx.evaluations += 1
        return
    ctx.evaluations += 1
    compare(ctx, inst, ts, out, variant, v)
    try:
        out2 = util.split_disjoint_nodes(out, record_provenance=False)
        if not out2.tables.equals(out.tables, ignore_provenance=True):
            v("not-idempotent", "a second application changed the tables")
    except Exception as ex:  # noqa: BLE001
        v(f"second-application{cls}/{type(ex).__name__}", f"second application raised {type(ex).__name__}: {ex}")
    ctx.evaluations += 1
    npieces = max(len(r) for r in inst["runs"]) if inst["runs"] else 0
    if inst["nt"] > inst["N"]:
        ctx.nontriv(pc.inst_key(inst))
        ctx.count(f"replayed_with_max_pieces_{min(npieces, 3)}{'+' if npieces >= 3 else ''}")
        ctx.sample({"kind": "SplitDisjoint behaviour replayed", "trees": inst["trees"], "muts": inst["muts"],
                    "order": inst["order"], "newp": inst["newp"], "newc": inst["newc"], "outm": inst["outm"],
                    "runs": inst["runs"]}, limit=3)
    if inst["absent"]:
        ctx.count("replayed_absent_class")


def run(ctx):
    harness.setup_repo_env(ctx.work)
    q = ctx.quick
    ctx.rule = ("instances = forest sequences over NS samples + NI internal nodes and L unit intervals (nodes "
                "vanishing and reappearing, isolated samples, regions without edges incl. both ends) x mutation sets "
                "(on isolated nodes, beyond the last edge, above roots) [x internal nodes flagged as samples]; "
                "non-trivial = at least one node is split (nt > N); distinct by (trees, mutations, samples)")
    ctx.assumptions = ["copies are identified with their original through node time (pairwise distinct for "
                       "non-sample nodes in the generated instances); ids of copies are not compared",
                       "a mutation on a node absent from the local tree may go to any piece of that node"]
    model_check(ctx, "c29_j1a", NS=2, NI=1, L=3 if q else 4, max_muts=1)
    model_check(ctx, "c29_j1b", NS=2, NI=2, L=2, max_muts=1, anytie=True)
    model_check(ctx, "c29_j1c", NS=1, NI=2, L=5, max_muts=0)
    refute_impl(ctx, "c29_j1i", NS=2, NI=1, L=3, max_muts=1)
    if not q:
        model_check(ctx, "c29_j1d", NS=2, NI=2, L=3, max_muts=1, tree_filter="nodangling")
        model_check(ctx, "c29_j1e", NS=2, NI=1, L=5, max_muts=1)
        model_check(ctx, "c29_j1f", NS=2, NI=2, L=2, max_muts=1, hist=True)
        model_check(ctx, "c29_j1g", NS=1, NI=3, L=3, max_muts=0, anytie=True)
    insts = generate(ctx, "c29_j2a", NS=2, NI=1, L=3, max_muts=1 if q else 2)
    insts += generate(ctx, "c29_j2b", NS=2, NI=2, L=2, max_muts=1)
    insts += generate(ctx, "c29_j2c", NS=1, NI=2, L=5 if not q else 4, max_muts=0)
    if not q:
        insts += generate(ctx, "c29_j2d", NS=2, NI=1, L=5, max_muts=1)
        insts += generate(ctx, "c29_j2e", NS=2, NI=2, L=2, max_muts=1, hist=True)
    cap = 5000 if q else 40000
    ctx.exhaustive = len(insts) <= cap
    if len(insts) > cap:
        insts = ctx.rng.sample(insts, cap)
    n = 300 if q else 6000
    insts += generate(ctx, "c29_j2s", simulate=n, NS=3, NI=2, L=5, max_muts=3)
    insts += generate(ctx, "c29_j2t", simulate=n, NS=2, NI=3, L=4, max_muts=2, hist=True)
    for inst in insts:
        replay_one(ctx, inst)
        ctx.traces += 1


def replay(ctx, body):
    harness.setup_repo_env(ctx.work)
    inst = body["instance"]
    replay_one(ctx, inst, variant=inst.get("variant"))
