"""C01 -- dated output is a valid tree sequence with enforced branch lengths.

J1  TLC: Strict / AtLeastPlus of module Constrain, including EpsUlp = 0 (the abstract
    image of floating-point absorption fl(c + eps) = c).
J2  replay of every generated behaviour into util._constrain_ages (unit lattice, and
    adjacent floats at 2^60 where eps = 1.0 is absorbed).
J3  real date() calls over methods x options x time scales 1e-6 .. 1e12, each abstracted
    to ranks and decided by TLC (ConstrainTrace: Strict, AtLeastPlus, MutationBounds);
    "valid tree sequence" is tskit's own integrity check on the returned tables.
"""

from .. import constrain_common as cc
from .. import harness, inputs

PID = "C01"
CHECKS = ["Strict", "AtLeastPlus", "MutationBounds"]


def run(ctx):
    harness.setup_repo_env(ctx.work)
    ctx.rule = ("Constrain behaviours in the bounded scope replayed into the kernel (two float realisations) and "
                "real date() calls over corpus x 3 methods x option settings x time scales; non-trivial = the "
                "constraint step moved at least one node (or the instance is absorbing)")
    ctx.assumptions = ["rank abstraction A2 is order-isomorphic; plus[e] is the float64 sum out[child]+eps",
                       "inputs rejected by date() (ValueError etc.) are not judged here (C35)"]
    q = ctx.quick
    cc.model_check(ctx, "c01_j1", invariants=["Strict", "AtLeastPlus", "Exact"], N=4, T=2 if q else 3,
                   iters=[0, 1] if q else [0, 1, 2], eps=[0, 1, 2], max_edges=4)
    insts = cc.generate(ctx, "c01_j2", N=3 if q else 4, T=2, iters=[0, 1], eps=[0, 1, 2], max_edges=3 if q else 4)
    cap = 1200 if q else 20000
    ctx.exhaustive = len(insts) <= cap
    if len(insts) > cap:
        insts = ctx.rng.sample(insts, cap)
    ev, meta = cc.kernel_events(ctx, PID, insts, compare_spec=False)
    cc.judge(ctx, PID, ["Strict", "AtLeastPlus"], ev, meta, "kernel")

    corpus = cc.default_corpus(ctx)
    scales = [1e-6, 1e6, 1e12] if q else [1e-6, 1e-3, 1e3, 1e6, 1e9, 1e12]
    base = list(corpus)
    for i, c in enumerate(scales):
        corpus.append(inputs.scaled(base[i % len(base)], c))
        if not q:
            corpus.append(inputs.scaled(base[(i + 3) % len(base)], c))
    settings = [{}, {"min_branch_length": 1e-12}, {"min_branch_length": 1.0, "constr_iterations": 2},
                {"rescaling_intervals": 0, "singletons_phased": False}, {"min_branch_length": 200.0}]
    if not q:
        settings += [{"constr_iterations": 0}, {"constr_iterations": 100}, {"max_iterations": 2},
                     {"rescaling_intervals": 5, "min_branch_length": 1e-3}]
    ev, meta = cc.date_events(ctx, PID, corpus, ["variational_gamma", "inside_outside", "maximization"], settings,
                              idempotence=False)
    cc.judge(ctx, PID, CHECKS, ev, meta, "date")
    ctx.count("date_calls_traced", len(ev))


def replay(ctx, body):
    harness.setup_repo_env(ctx.work)
    cc.replay(ctx, PID, CHECKS, body)
