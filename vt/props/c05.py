"""C05 -- variational posteriors are proper, precision-capped gamma distributions.

J1  TLC: spec/EPAny.tla -- ShapeCapped after every update, ProperOrNeverUpdated (a free
    node's posterior is a proper gamma unless it never received a valid message) for every
    skip pattern of the projections; spec/EPStar.tla -- ShapeCapped on the exact model.
J3  real variational_gamma() calls x max_iterations x max_shape x rescaling x singletons_phased,
    observed per iteration (hook) and at return; TLC (spec/EPTrace.tla) validates the
    post-conditions of the statement: node posteriors finite/positive with shape <= max_shape,
    mutation posteriors undefined or proper, phase probabilities undefined or in [0.5, 1].
"""

from .. import ep_common as ec
from .. import harness

PID = "C05"
CHECKS = ["ShapeCapped", "ProperOrNeverUpdated", "NodeProper", "NodeCapped", "MutationProper", "PhaseRange"]


def run(ctx):
    harness.setup_repo_env(ctx.work)
    q = ctx.quick
    ctx.rule = ("EPAny/EPStar scopes as C21; real variational_gamma calls on corpus (contemporaneous, polytomies, "
                "historical, internal samples, diploid individuals) x settings; non-trivial = call with >= 2 free nodes")
    ctx.assumptions = ["shape = mean^2/variance compared with max_shape at relative slack 1e-9"]
    cfg = ctx.write_cfg("epany.cfg", constants={"Graphs": "{1,2,3,4,5}", "IncrIds": "{1,2,3,4}", "Caps": "{2,1000}" if q else "{2,3,1000}",
                                                "MaxVisits": 3},
                        invariants=["ShapeCapped", "ProperOrNeverUpdated", "Book"], constraints=["Bounded"])
    ctx.tlc("EPAny", cfg, workers=8 if q else 16, timeout=900 if q else 3400, required_actions=("Choose",))
    base = dict(max_parents=2, max_edges=3, counts=[0, 1, 2], spans=[1, 2], mu_halves=[2, 1], caps=[2, 3, 1000],
                max_iters=2)  # larger counts / more iterations overflow TLC's 32-bit rationals
    cfg = ctx.write_cfg("epstar_cap.cfg", constants=ec.star_consts(**base), invariants=["ShapeCapped"], constraints=["NoOverflow"])
    ctx.tlc("EPStar", cfg, workers=8, timeout=900 if q else 3400)
    corpus = ec.ep_corpus(ctx)
    settings = [{"max_iterations": 1}, {"max_iterations": 3, "max_shape": 1.5},
                {"max_iterations": 2, "max_shape": 3.0, "singletons_phased": False},
                {"max_iterations": 2, "rescaling_intervals": 0, "singletons_phased": False}]
    if not q:
        settings += [{}, {"max_iterations": 25, "max_shape": 3.0}, {"max_iterations": 2, "match_segregating_sites": True},
                     {"max_iterations": 5, "rescaling_intervals": 3, "rescaling_iterations": 2},
                     {"max_iterations": 25, "singletons_phased": False}]
    ev, meta = ec.ep_date_events(ctx, PID, corpus, settings)
    ec.judge_ep(ctx, PID, CHECKS, ev, meta, "date")
    ctx.count("calls_traced", len(ev))
    ctx.extra["unphased_singletons_seen"] = sum(e["final"]["n_unphased"] for e in ev)
    ctx.extra["undefined_mutation_posteriors_seen"] = sum(e["final"]["n_mut_undefined"] for e in ev)


def replay(ctx, body):
    harness.setup_repo_env(ctx.work)
    inst = body["instance"]
    if "event" in inst:
        ec.judge_ep(ctx, PID, CHECKS, [inst["event"]], {}, "date")
