"""C15 -- node span tables behind the mixture prior are exact.

J1  TLC (module Spans over TSGen's "simplified" forests with isolated samples): the
    declarative Span(u, T, k) tables sum to the node span, 2 <= k <= T, roots have k = T,
    mixture moments (exact rationals, from CoalescentMoments) are positive, within the
    range of their components and reduce to the component when there is only one.
    Module Coalescent is run for n <= NS in the same run, so the coalescent tables used
    by the mixtures are the behaviour-counted ones.
J2  every instance TLC emitted becomes a real tskit tree sequence and the real
    SpansBySamples(ts).get_spans(u) / node_spans / nodes_to_date must equal TLC's tables
    exactly (integer coordinates, A1); ConditionalCoalescentTimes.mixture_expect_and_var
    and MixturePrior.prior_params (lognorm and gamma) must match TLC's mixture moments
    (close12 / moment-matching predicates of C14).
J1' TLC (module SpansIncr): first_pass itself -- the incremental edge-diff bookkeeping (changed,
    disappearing nodes, re-save when the number of attached samples changes) -- as a state machine,
    one action per loop iteration; invariants Bookkeeping, TrackedIffPresent, PendingConstant,
    AccumulatedExact, FinalExact say it refines the declarative tables at every breakpoint; three
    named deviations must be refuted by TLC.
J3  loop traces of the real first_pass (vt/spansincr_common.py, sys.settrace keyed on source text)
    are stepped against that machine by SpansIncrTrace.tla: internal state is conformance drift,
    the tables the code ends with are judged against the per-tree count (Must clauses).
J2' simulated inputs (recombination, polytomies, samples deleted over intervals) are judged
    by the Python mirror of Span / MixMean / MixVar -- a direct per-tree count --
    mirror_sync'd against every TLC instance of this run.
"""

import numpy as np

from .. import build, harness, inputs
from .. import prior_common as pc
from .. import spansincr_common as si

PID = "C15"
F = pc.F


def code_spans(sb, u):
    """get_spans(u) -> {(T, k): span}"""
    out = {}
    for T, arr in sb.get_spans(u).items():
        for k, s in zip(arr["descendant_tips"].tolist(), arr["span"].tolist()):
            key = (int(T), int(k))
            if key in out:
                return None
            out[key] = F(s)
    return out


def check_ts(ctx, ts, expected, inst, label, samples_attached_counts):
    """expected: {u: (spans {(T,k): Fraction}, nodespan, mean, var)} for every non-sample node."""
    from tsdate import prior
    sig = f"C15/{label}"
    try:
        sb = prior.SpansBySamples(ts)
    except Exception as ex:  # noqa: BLE001
        ctx.violation(f"{sig}/SpansBySamples/{type(ex).__name__}", inst, f"SpansBySamples raised {type(ex).__name__}: {ex}",
                      "spans")
        return
    nonsample = sorted(expected)
    if sorted(int(u) for u in sb.nodes_to_date) != nonsample:
        ctx.violation(f"{sig}/nodes_to_date", inst, f"nodes_to_date {sorted(int(u) for u in sb.nodes_to_date)} != non-sample "
                      f"nodes {nonsample}", "spans")
        return
    if {int(x) for x in sb.total_fixed_at_0_counts} != set(samples_attached_counts):
        ctx.violation(f"{sig}/total_fixed_at_0_counts", inst, f"total_fixed_at_0_counts {sb.total_fixed_at_0_counts} != "
                      f"attached-sample counts of the trees {sorted(set(samples_attached_counts))}", "spans")
    missing = len(set(samples_attached_counts)) > 1 or min(samples_attached_counts) < ts.num_samples
    cls = "missing" if missing else "complete"
    bad_spans = False
    for u in nonsample:
        spans, nodespan, mean, var = expected[u]
        got = code_spans(sb, u)
        if got != spans:
            bad_spans = True
            ctx.violation(f"{sig}/get_spans/{cls}", dict(inst, node=u),
                          f"node {u}: get_spans = { {k: float(v) for k, v in (got or {}).items()} }, per-tree count = "
                          f"{ {k: float(v) for k, v in spans.items()} }", "spans")
        if F(float(sb.node_spans[u])) != nodespan:
            ctx.violation(f"{sig}/node_spans/{cls}", dict(inst, node=u),
                          f"node {u}: node_spans = {sb.node_spans[u]!r}, node is present over {float(nodespan)!r}", "spans")
        if got is not None and sum(got.values()) != F(float(sb.node_spans[u])):
            ctx.violation(f"{sig}/spans-do-not-sum/{cls}", dict(inst, node=u),
                          f"node {u}: spans sum to {float(sum(got.values()))!r}, node_spans = {sb.node_spans[u]!r}", "spans")
        ctx.evaluations += 1
    if bad_spans:
        return
    # mixture moments and parameters
    n_max = max(T for u in nonsample for (T, _k) in expected[u][0])
    rtol = pc.coal_rtol(n_max)
    for distr in ("lognorm", "gamma"):
        try:
            cct = prior.ConditionalCoalescentTimes(None, distr)
            cct.add(ts.num_samples)
            for T in sb.total_fixed_at_0_counts:
                if T > 0:
                    cct.add(int(T))
            mp = prior.MixturePrior(ts, prior_distribution=distr)
        except Exception as ex:  # noqa: BLE001
            ctx.violation(f"{sig}/MixturePrior/{type(ex).__name__}", inst, f"{type(ex).__name__}: {ex}", "mixture")
            return
        for u in nonsample:
            spans, nodespan, mean, var = expected[u]
            m, v = cct.mixture_expect_and_var(sb.get_spans(u))
            m2 = var + mean * mean
            if not (pc.close(m, mean, rtol) and abs(F(float(v)) - var) <= 4 * rtol * m2):
                ctx.violation(f"{sig}/mixture_expect_and_var/{cls}", dict(inst, node=u, distr=distr),
                              f"node {u}: mixture_expect_and_var = ({m!r}, {v!r}); span-weighted mixture of the coalescent "
                              f"priors has mean {float(mean)!r} var {float(var)!r} (spans { {k: float(w) for k, w in spans.items()} })",
                              "mixture")
            alpha, beta = (float(x) for x in mp.prior_params[u])
            # var is obtained by cancellation from the second moment: widen by M2/var
            msg = pc.matched(distr, alpha, beta, mean, var, rtol * max(1.0, float(m2 / var)))
            if msg:
                ctx.violation(f"{sig}/prior_params/{distr}/{cls}", dict(inst, node=u, distr=distr),
                              f"node {u} (spans { {k: float(w) for k, w in spans.items()} }, exact mixture mean {float(mean)!r} "
                              f"var {float(var)!r}): {msg}", "mixture")
            ctx.evaluations += 1
        for s in ts.samples():
            if not np.all(np.isnan(mp.prior_params[int(s)])):
                ctx.violation(f"{sig}/prior_params/sample-has-params", dict(inst, node=int(s)),
                              f"sample {s} has prior parameters {mp.prior_params[int(s)].tolist()}", "mixture")


def instance_perm(rec):
    """A renumbering of the non-sample nodes, derived from the instance itself (so that a replay reproduces it):
    the span tables are about nodes, not about ids, and TSGen numbers nodes by age."""
    import random
    rng = random.Random(pc.json_key(rec["trees"]))
    NS, N = rec["NS"], rec["N"]
    inner = list(range(NS, N))
    rng.shuffle(inner)
    return list(range(NS)) + inner


def replay_instance(ctx, rec):
    expected = {}
    for nd in rec["nodes"]:
        expected[nd["u"]] = ({(T, k): F(s) for T, k, s in nd["spans"]}, F(nd["nodespan"]), pc.frac(nd["mean"]),
                             pc.frac(nd["var"]))
    perm = instance_perm(rec)
    if perm != list(range(rec["N"])):
        # second replay with ids that do not follow age (the lesson of seeds C01-b, C04-a, C13-b)
        inst_p = {"kind": "tlc", "N": rec["N"], "NS": rec["NS"], "L": rec["L"], "time": rec["time"], "trees": rec["trees"],
                  "muts": [], "treeT": rec["treeT"], "nodes": rec["nodes"], "renumbered": perm}
        check_ts(ctx, build.forest_ts(rec, perm=perm), {perm[u]: v for u, v in expected.items()}, inst_p, "tlc-renumbered",
                 rec["treeT"])
        ctx.count("tlc_instances_replayed_renumbered")
    ts = rec.get("_ts") or build.forest_ts(rec)
    inst = {"kind": "tlc", "N": rec["N"], "NS": rec["NS"], "L": rec["L"], "time": rec["time"], "trees": rec["trees"],
            "muts": [], "treeT": rec["treeT"], "nodes": rec["nodes"]}
    check_ts(ctx, ts, expected, inst, "tlc", rec["treeT"])
    ctx.traces += 1
    multi = any(len(nd["spans"]) > 1 for nd in rec["nodes"])
    if multi:
        ctx.nontriv(("tlc", pc.json_key(rec["trees"])))
    if multi and min(rec["treeT"]) < rec["NS"]:
        ctx.count("tlc_instances_with_missing_samples_and_mixtures")
        ctx.sample({"kind": "Spans instance replayed", "trees": rec["trees"], "treeT": rec["treeT"],
                    "nodes": [{"u": nd["u"], "spans": nd["spans"], "mean": nd["mean"], "var": nd["var"]} for nd in rec["nodes"]]},
                   limit=2)


def check_simulated(ctx, name, ts, seed_info):
    spans, nodespan = pc.span_tables(ts)
    samples = set(int(s) for s in ts.samples())
    nonsample = [u for u in range(ts.num_nodes) if u not in samples]
    if sorted(spans) != nonsample:
        raise harness.MachineryError(f"{name}: generated input is not simplified (unused non-sample nodes)")
    expected = {u: (spans[u], nodespan[u]) + pc.mixture_moments(spans[u]) for u in nonsample}
    Ts = [sum(1 for s in samples if t.parent(s) != -1) for t in ts.trees()]
    check_ts(ctx, ts, expected, dict(seed_info, kind="sim", name=name), "sim", Ts)
    if any(len(spans[u]) > 1 for u in nonsample):
        ctx.nontriv(("sim", name))
    if min(Ts) < ts.num_samples:
        ctx.count("simulated_inputs_with_missing_samples")


def sim_corpus(ctx):
    q = ctx.quick
    rng = np.random.default_rng(ctx.seed + 15)
    out = []
    for i in range(6 if q else 40):
        n = int(rng.integers(2, 7 if q else 13))
        seed = int(rng.integers(1, 2 ** 31))
        base = build.sim(n=n, L=1000, rho=float(rng.choice([2e-4, 6e-4])), mu=1e-3, Ne=100, seed=seed)
        out.append((f"sim{i}", base, {"gen": "sim", "n": n, "sim_seed": seed, "index": i}))
        for j in range(2):
            mseed = int(rng.integers(1, 2 ** 31))
            ts = pc.with_missing(base, np.random.default_rng(mseed), max_holes=3)
            if ts is not None and ts.num_nodes > ts.num_samples:
                out.append((f"sim{i}m{j}", ts, {"gen": "missing", "n": n, "sim_seed": seed, "missing_seed": mseed, "index": i}))
    for inp in inputs.polytomies(ctx.seed, k=1 if q else 4):
        out.append((inp.name, inp.ts, {"gen": "polytomies", "name": inp.name}))
        mseed = int(rng.integers(1, 2 ** 31))
        ts = pc.with_missing(inp.ts, np.random.default_rng(mseed), max_holes=2)
        if ts is not None and ts.num_nodes > ts.num_samples:
            out.append((inp.name + "m", ts, {"gen": "polytomies+missing", "name": inp.name, "missing_seed": mseed}))
    return out


def tlc_instances(ctx):
    """[(instances, replay cap)]: every emitted instance takes part in mirror_sync; all of the small scopes and a
    seeded sample of the big ones are replayed into the real code"""
    q = ctx.quick
    groups = [(pc.spans_instances(ctx, "spans_a", 3, 2, 2), None)]
    if q:
        groups.append((pc.spans_instances(ctx, "spans_b", 4, 2, 2), 250))
        groups.append((pc.spans_instances(ctx, "spans_s", 4, 3, 3, simulate=300), None))
    else:
        groups.append((pc.spans_instances(ctx, "spans_a3", 3, 2, 3), None))
        groups.append((pc.spans_instances(ctx, "spans_b", 4, 2, 2), None))
        groups.append((pc.spans_instances(ctx, "spans_c", 4, 3, 2), 3000))
        groups.append((pc.spans_instances(ctx, "spans_d", 3, 2, 4, need_missing=True), 2500))
        groups.append((pc.spans_instances(ctx, "spans_s", 4, 3, 3, simulate=3000), None))
        groups.append((pc.spans_instances(ctx, "spans_t", 5, 3, 3, simulate=1500), None))
    out = []
    ctx.exhaustive = True
    for insts, cap in groups:
        ctx.count("tlc_instances_emitted", len(insts))
        if cap is not None and len(insts) > cap:
            insts = ctx.rng.sample(insts, cap)
            ctx.exhaustive = False
        out += insts
    return out


def run(ctx):
    harness.setup_repo_env(ctx.work)
    ctx.rule = ("(a) every forest sequence of module Spans' scope (simplified, one root per tree, isolated samples allowed) "
                "replayed into the real SpansBySamples / MixturePrior; (b) simulated inputs with recombination, polytomies "
                "and samples deleted over intervals; non-trivial = some node has at least two (T, k) classes; distinct by "
                "forest sequence / input name")
    ctx.assumptions = [
        "premises of the statement: all samples at time 0, simplified (no unary / dangling / unused nodes), exactly one "
        "root with descendants per tree; isolated samples = missing data",
        "T = number of samples attached to the local tree's topology, k = samples below the node (the reading of "
        "first_pass; Tree.num_samples would also count isolated samples)",
        "span tables compared exactly (integer / dyadic coordinates, A1); mixture mean close12, mixture variance within "
        "4e-12 of the second moment; parameters by the moment-matching predicates of C14",
        "simulated inputs: oracle = Python mirror of Spans!Span / MixMean / MixVar (direct per-tree count), shown equal "
        "to TLC's tables on every emitted instance of this run; coalescent moments from the Coal mirror (mirror_sync'd "
        "against the behaviour counts of module Coalescent for n <= 4 in this run)",
    ]
    pc.coalescent_tables(ctx, 2, 4)
    insts = tlc_instances(ctx)
    for rec in insts:
        replay_instance(ctx, rec)
    ctx.count("tlc_instances_replayed", len(insts))
    si.model_check(ctx)
    si.trace_leg(ctx, PID, insts, cap=200 if ctx.quick else 1500)
    for name, ts, info in sim_corpus(ctx):
        check_simulated(ctx, name, ts, info)
        ctx.traces += 1


def replay(ctx, body):
    harness.setup_repo_env(ctx.work)
    inst = body["instance"]
    if inst.get("kind") == "tlc":
        replay_instance(ctx, inst)
        return
    # simulated inputs are part of the seeded corpus: regenerate it (ctx carries the seed and tier) and pick by name
    for name, ts, info in sim_corpus(ctx):
        if name == inst.get("name"):
            check_simulated(ctx, name, ts, info)
