"""C20 -- expectation propagation is exact in the conjugate (star) case.

J1  TLC: spec/EPStar.tla, an exact rational transcription of the fixed-child branch of
    propagate_likelihood (damping, conjugate projection, max_shape rescaling, visiting
    order, scale absorption): ExactUncapped, ShapeCapped, Book, NoOverflow must hold;
    CapScaled (the statement's second sentence) is checked too.
J2  every generated instance is replayed: a real star-like tree sequence is built, the real
    ExpectationPropagation.iterate() is stepped, and node_posterior is compared with the
    model's state after *every* iteration (rtol 1e-12) -- so the code is bound to the model
    also where the model shows the statement to fail.  Full variational_gamma() calls
    (regularise_roots=False, no rescaling) are compared with the same values.
"""

import numpy as np

from .. import ep_common as ec
from .. import harness

PID = "C20"
RTOL = 1e-12


def judge_instance(ctx, inst, full_api):
    from fractions import Fraction
    try:
        got, ep, ts = ec.run_star(inst)
    except Exception as ex:  # noqa: BLE001
        ctx.violation(f"C20/star/{type(ex).__name__}", inst, f"EP raised {type(ex).__name__}: {ex}", subcheck="star")
        return
    ctx.evaluations += 1
    traj = inst["traj"]
    P = len(traj[0])
    mu = ec.frac(inst["mu"])
    cap = ec.frac(inst["cap"])
    conforms = True
    for i, row in enumerate(traj):
        for p in range(P):
            ma, mb = float(ec.frac(row[p][0])), float(ec.frac(row[p][1]))
            ga, gb = got[i][p]
            if not (ec.close(1 + ma, 1 + ga, RTOL) and ec.close(mb, gb, RTOL)):  # shape, rate
                conforms = False
    # the statement, evaluated on the code's result after every iteration
    for i in range(len(got)):
        for p in range(P):
            ys = sum(e["y"] for e in inst["edges"] if e["p"] == p + 1)
            sp = sum(e["span"] for e in inst["edges"] if e["p"] == p + 1)
            exact = (Fraction(ys), mu * sp)
            capped = cap < 1 + ys
            if capped:
                kappa = (cap - 1) / ys
                want = (float(kappa * exact[0]), float(kappa * exact[1]))
            else:
                want = (float(exact[0]), float(exact[1]))
            ga, gb = got[i][p]
            if ec.close(1 + want[0], 1 + ga, RTOL) and ec.close(want[1], gb, RTOL):  # shape, rate
                continue
            if not capped:
                sig = "C20/star/uncapped/not-the-conjugate-posterior"
            elif conforms:
                sig = "C20/star/capped/rate-drift-as-modelled-by-EPStar"
            else:
                sig = "C20/star/capped/differs-from-statement-and-from-EPStar"
            ctx.violation(sig, inst, f"iteration {i + 1} parent {p}: code ({ga}, {gb}) statement {want} "
                          f"(model {[float(ec.frac(x)) for x in traj[i][p]]}, conforms_to_model={conforms})",
                          subcheck="star")
    if not conforms and not any(c for c in inst["capped"]):
        ctx.violation("C20/star/uncapped/differs-from-EPStar", inst,
                      f"code trajectory {got} differs from EPStar {traj}", subcheck="star")
    key = (tuple((e["p"], e["y"], e["span"]) for e in inst["edges"]), tuple(inst["mu"]), tuple(inst["cap"]), inst["iters"])
    if sum(e["y"] for e in inst["edges"]) > 0:
        ctx.nontriv(key)
    if any(inst["capped"]):
        ctx.count("capped_instances")
    ctx.sample({"kind": "star instance", "edges": inst["edges"], "mu": inst["mu"], "cap": inst["cap"],
                "iters": inst["iters"], "code_after_each_iteration": got, "conforms_to_model": conforms}, limit=4)
    if full_api and ts.num_mutations > 0:
        import tsdate
        ts2, fit = tsdate.variational_gamma(ts, mutation_rate=float(mu), max_iterations=inst["iters"],
                                            max_shape=float(cap), regularise_roots=False, rescaling_intervals=0,
                                            allow_unary=True, return_fit=True)
        ne = len(inst["edges"])
        for p in range(P):
            a, b = fit.node_posterior[ne + p]
            if not (ec.close(1 + a, 1 + got[-1][p][0], RTOL) and ec.close(b, got[-1][p][1], RTOL)):
                ctx.violation("C20/star/variational_gamma-differs-from-stepwise-EP", inst,
                              f"variational_gamma gives {(a, b)}, stepping iterate() gives {got[-1][p]}", subcheck="star")
            mn = fit.node_posteriors()["mean"][ne + p]
            if not ec.close(mn, (a + 1) / b, 1e-12):
                ctx.violation("C20/star/node_posteriors-mean", inst, "node_posteriors mean != shape/rate", subcheck="star")
        ctx.count("full_api_calls")


def run(ctx):
    harness.setup_repo_env(ctx.work)
    q = ctx.quick
    ctx.rule = ("instances = star-like inputs: <= 2 parents, <= 3-4 edges in all, mutation counts, spans, rate in "
                "{1, 1/2}, max_shape in {2,3,5,1000}, 1..3 iterations (all of them in the TLC scope); non-trivial = at "
                "least one mutation; distinct by (edges, rate, cap, iterations)")
    ctx.assumptions = ["rationals of the model are compared with float64 at rtol 1e-12 (the code's moment matching "
                       "s/r -> (mn^2/va, mn/va) rounds)"]
    base = dict(max_parents=2, max_edges=3, counts=[0, 1, 2], spans=[1, 2], mu_halves=[2, 1],
                caps=[2, 3, 1000], max_iters=2)
    if not q:
        base.update(max_edges=3, counts=[0, 1, 2], caps=[2, 3, 5, 1000], max_iters=2)  # 3 iterations overflow 32-bit rationals
    musts = ["ExactUncapped", "ShapeCapped", "Book", "NoOverflow"]
    tmo = 900 if q else 3000
    # NoOverflow is an invariant in the quick scope (known to fit 32-bit rationals) and a state constraint in
    # the thorough one (states whose rationals leave the bound are not expanded)
    cfg = ctx.write_cfg("epstar_j1.cfg", constants=ec.star_consts(**base), invariants=musts if q else musts[:3],
                        constraints=[] if q else ["NoOverflow"])
    ctx.tlc("EPStar", cfg, workers=8, timeout=tmo, required_actions=("AddEdge", "Start", "Visit", "Absorb"))
    # the second sentence of the statement on the as-implemented model
    cfg = ctx.write_cfg("epstar_cap.cfg", constants=ec.star_consts(**base), invariants=["CapScaled"])
    r = ctx.tlc("EPStar", cfg, workers=8, must_hold=False, coverage=False, timeout=tmo)
    ctx.extra["model_satisfies_CapScaled"] = r.violated is None
    gen = dict(base)
    gen.update(max_edges=3, emit=True)
    if q:
        gen.update(counts=[0, 1, 2], caps=[3, 1000], max_parents=2)
    cfg = ctx.write_cfg("epstar_j2.cfg", constants=ec.star_consts(**gen), invariants=["EmitInv"],
                        constraints=[] if q else ["NoOverflow"])
    insts = ctx.tlc("EPStar", cfg, workers=4, coverage=False, timeout=tmo).rec("inst")
    # a parent whose mutations sit almost entirely on one edge makes _damp return a step < 1 on the
    # re-visit (the message is >= 90% of the posterior); counts <= 3 never do (added after seed C20-a)
    damp = dict(max_parents=1, max_edges=2, counts=[0, 1, 12], spans=[1, 2], mu_halves=[2, 1],
                caps=[1000, 5], max_iters=2)
    cfg = ctx.write_cfg("epstar_damp.cfg", constants=ec.star_consts(**damp), invariants=musts[:3], constraints=["NoOverflow"])
    ctx.tlc("EPStar", cfg, workers=8)
    damp["emit"] = True
    cfg = ctx.write_cfg("epstar_damp_gen.cfg", constants=ec.star_consts(**damp), invariants=["EmitInv"], constraints=["NoOverflow"])
    dinsts = ctx.tlc("EPStar", cfg, workers=4, coverage=False).rec("inst")
    ctx.count("damping_instances", len(dinsts))
    cap_n = 700 if q else 8000
    ctx.exhaustive = len(insts) <= cap_n
    if len(insts) > cap_n:
        insts = ctx.rng.sample(insts, cap_n)
    insts = insts + dinsts
    for i, inst in enumerate(insts):
        judge_instance(ctx, inst, full_api=(i % (20 if q else 5) == 0))
        ctx.traces += 1


def replay(ctx, body):
    harness.setup_repo_env(ctx.work)
    judge_instance(ctx, body["instance"], full_api=True)
