"""C37 -- standalone tree-sequence rescaling works.

J1  TLC: module Rescale on instances that are real (TSGen) tree sequences: the per-edge
    mutation / span tallies come from module Sweep (TLC), the instance is evaluated by
    module Rescale (Source = "file") with all its invariants (area = direct overlap, map
    continuous / non-decreasing / fixes 0 / keeps the samples, order preserved), and TLC
    emits the expected outcome of ONE rescaling iteration: the new node times as exact
    rationals, or which assertion fires.
J2  the TSGen instance becomes a tskit tree sequence and the real
    rescale_tree_sequence(ts, mu, num_intervals=J, num_iterations=1,
    match_segregating_sites=...) must reproduce the TLC-computed node times (bitwise when
    representable, else rel 1e-12) or raise the predicted AssertionError.
J3  every successful call -- TSGen instances with 1..3 iterations, and msprime
    contemporaneous inputs x num_intervals x num_iterations x match_segregating_sites --
    becomes one RescaleTrace event (ranks of times, interned tables) decided by TLC:
    valid tree sequence, same topology, sample times unchanged, non-sample times mapped
    by a non-decreasing map, each mutation at the midpoint of its branch (or at its node
    above a root).
"""

import json

import numpy as np

from .. import harness
from .. import rescale_common as rc
from .. import sweep_common as sc

PID = "C37"
CHECKS = ["Valid", "Topology", "SampleTimes", "NonDecreasing", "MutationTimes"]
SITE = "rescale_tree_sequence"


def exc_signature(ex, premise_single_interval=False):
    name = type(ex).__name__
    if isinstance(ex, AssertionError):
        msg = str(ex)
        tag = "fewer-intervals" if "fewer" in msg else "zero-edge-span" if "Zero edge span" in msg else "other"
        return f"{PID}/{SITE}/AssertionError/{tag}" + ("/single-interval" if premise_single_interval else "")
    return f"{PID}/{SITE}/{name}"


def replay_spec(ctx, item):
    """J2: one TSGen instance x (J, mu, match) against the TLC-computed outcome of one iteration"""
    from .. import build
    inst, g, match, mu = item["sweep"], item["expected"], item["match"], item["mu"]
    ts = build.forest_ts(inst)
    out, ex = rc.call_rescale_ts(ts, mu[0] / mu[1], num_intervals=int(g["J"]), num_iterations=1,
                                 match_segregating_sites=bool(match))
    ctx.evaluations += 1
    alts = g["alts"]
    body = {"kind": "spec", "item": item}
    if ex is not None:
        if isinstance(ex, AssertionError) and any(a["outcome"].startswith("assert") for a in alts):
            ctx.count("assertion_errors_predicted_by_the_specification")
            return None
        ctx.violation(exc_signature(ex), body, f"rescale_tree_sequence raised {ex!r}; the specification's outcome(s): "
                      f"{[a['outcome'] for a in alts]}", subcheck="spec")
        return None
    ok = [a for a in alts if a["outcome"] == "ok" and rc._vec_same(out.nodes_time, a["newt"])]
    if not ok:
        ctx.violation(f"{PID}/{SITE}/node-times-differ-from-specification", body,
                      f"node times {out.nodes_time.tolist()}; specification allows "
                      f"{[a['newt'] for a in alts if a['outcome'] == 'ok'] or [a['outcome'] for a in alts]}",
                      subcheck="spec")
        return None
    if any(np.asarray(out.nodes_time) != ts.nodes_time):
        ctx.nontriv(json.dumps([inst["trees"], inst["muts"], match, g["J"], mu]))
    ctx.sample({"kind": "TSGen instance through rescale_tree_sequence", "trees": inst["trees"], "muts": inst["muts"],
                "num_intervals": g["J"], "match_segregating_sites": bool(match), "mutation_rate": mu,
                "expected_times": ok[0]["newt"], "code_times": out.nodes_time.tolist()}, limit=3)
    return ts, out


def tsgen_items(ctx, n_items):
    """Sweep (TLC) draws TSGen tree sequences with their tallies; Rescale (TLC) evaluates them"""
    from .. import build
    q = ctx.quick
    insts = sc.generate(ctx, "c37_gen", simulate=200 if q else 6000, NS=3, NI=3, L=2, max_muts=4,
                        tree_filter="simplified")
    seen, rows, items = set(), [], {}
    for inst in insts:
        if sorted(inst["samp"]) != list(range(inst["NS"])) or not inst["muts"]:
            continue
        key = sc.inst_key(inst)
        if key in seen:
            continue
        seen.add(key)
        ts = build.forest_ts(inst)
        msg = sc.check_binding(inst, ts)
        if msg:
            raise harness.MachineryError("TreeSeq module does not match tskit: " + msg)
        if ts.num_edges == 0 or not rc.is_simplified(ts) or sum(inst["emuts"]) == 0:
            continue
        for J in (1, 2, 3):
            mu = [1, 1] if (len(rows) % 2 == 0) else [1, 2]
            rid = len(rows) + 1
            rows.append(rc.rescale_rows_from_sweep(inst, ts, rid, J, mu))
            items[rid] = {"sweep": inst, "match": not inst["sb"], "mu": mu}
        if len(rows) >= n_items:
            break
    if not rows:
        raise harness.MachineryError("no usable TSGen instance was generated")
    path = rc.write_ndjson(rc.work_file(ctx, "c37_inst.ndjson"), rows)
    r = rc.rs_run(ctx, "c37_j1", rc.RS_INVARIANTS + ["EmitInv"], inst_file=path, source="file", emit=True, max_t=3,
                  required=("Load",) + rc.RS_ACTIONS[:4])
    out = []
    for g in rc.group_rescale(r.rec("resc")):
        it = dict(items[g["id"]])
        it["expected"] = g
        out.append(it)
    return out


def run(ctx):
    harness.setup_repo_env(ctx.work)
    q = ctx.quick
    ctx.rule = ("TSGen instances = simplified forests (3 samples at time 0, <= 3 internal nodes, 2 intervals, <= 4 "
                "mutations incl. above roots) x num_intervals 1..3 x mutation_rate {1, 1/2} x match_segregating_sites, "
                "one iteration against TLC-computed times; the same with 2..3 iterations and msprime inputs x "
                "num_intervals x num_iterations x match_segregating_sites as RescaleTrace events; non-trivial = a "
                "non-sample time changed")
    ctx.assumptions = ["premise: simplified input, samples at time 0, at least one mutation on an edge",
                       "AssertionErrors ('Use fewer rescaling intervals', 'Zero edge span') are judged only where the "
                       "specification decides them: predicted exactly for one iteration on TSGen instances, and "
                       "never admissible with a single interval; otherwise counted (C35)",
                       "midpoints are compared as floats: (t[parent] + t[child]) / 2 in float64"]
    from .. import inputs
    items = tsgen_items(ctx, 100 if q else 3000)
    events, meta = [], {}
    for k, it in enumerate(items):
        res = replay_spec(ctx, it)
        ctx.traces += 1
        if res is None:
            continue
        ts, out = res
        tid = f"tsgen{k}/iter1"
        ev, msg = rc.ts_event(tid, ts, out)
        if ev is None:
            ctx.violation(f"{PID}/{SITE}/{msg.split()[0]}-table", {"kind": "spec", "item": it}, msg, subcheck="spec")
            continue
        events.append(ev)
        meta[tid] = {"item": it, "iterations": 1}
        for iters in ((2,) if q else (2, 3)):
            out2, ex = rc.call_rescale_ts(ts, it["mu"][0] / it["mu"][1], num_intervals=int(it["expected"]["J"]),
                                          num_iterations=iters, match_segregating_sites=bool(it["match"]))
            ctx.evaluations += 1
            if ex is not None:
                if isinstance(ex, AssertionError) and it["expected"]["J"] > 1:
                    ctx.count("assertion_errors_not_judged")
                else:
                    ctx.violation(exc_signature(ex, it["expected"]["J"] == 1), {"kind": "spec", "item": it,
                                                                                "iterations": iters},
                                  f"rescale_tree_sequence(num_iterations={iters}) raised {ex!r}", subcheck="spec")
                continue
            tid = f"tsgen{k}/iter{iters}"
            ev, msg = rc.ts_event(tid, ts, out2)
            if ev is None:
                ctx.violation(f"{PID}/{SITE}/bad-tables", {"kind": "spec", "item": it}, msg, subcheck="spec")
                continue
            events.append(ev)
            meta[tid] = {"item": it, "iterations": iters}
    # msprime contemporaneous inputs
    corpus = inputs.contemporaneous(ctx.seed, k=4 if q else 12) + inputs.polytomies(ctx.seed, k=1 if q else 3) \
        + inputs.diploid(ctx.seed, k=1 if q else 3)
    settings = [(1, 1), (1, 5), (2, 2), (3, 1), (100, 10)] if q else \
        [(1, 1), (1, 3), (1, 10), (2, 1), (2, 5), (3, 2), (5, 3), (10, 10), (100, 10), (1000, 1)]
    for inp in corpus:
        if not rc.is_simplified(inp.ts):
            continue
        for (J, iters) in settings:
            for match in (False, True):
                tid = f"{inp.name}/J{J}/it{iters}/match{int(match)}"
                out, ex = rc.call_rescale_ts(inp.ts, inp.mu, num_intervals=J, num_iterations=iters,
                                             match_segregating_sites=match)
                ctx.evaluations += 1
                body = {"kind": "corpus", "name": inp.name, "seed": ctx.seed, "J": J, "iters": iters, "match": match}
                if ex is not None:
                    if isinstance(ex, AssertionError) and J > 1:
                        ctx.count("assertion_errors_not_judged")
                    else:
                        ctx.violation(exc_signature(ex, J == 1), body, f"{tid}: raised {ex!r}", subcheck="corpus")
                    continue
                ev, msg = rc.ts_event(tid, inp.ts, out)
                if ev is None:
                    ctx.violation(f"{PID}/{SITE}/bad-tables", body, msg, subcheck="corpus")
                    continue
                events.append(ev)
                meta[tid] = body
                if np.any(out.nodes_time != inp.ts.nodes_time):
                    ctx.nontriv(tid)
                ctx.sample({"kind": "msprime input through rescale_tree_sequence", "tid": tid,
                            "nodes": int(inp.ts.num_nodes), "mutations": int(inp.ts.num_mutations)}, limit=6)
    rc.judge(ctx, PID, CHECKS, events, meta, SITE)
    ctx.count("calls_traced", len(events))


def replay(ctx, body):
    harness.setup_repo_env(ctx.work)
    b = body["instance"]
    if b.get("kind") == "spec":
        replay_spec(ctx, b["item"])
        if "iterations" in b:
            from .. import build
            it = b["item"]
            _, ex = rc.call_rescale_ts(build.forest_ts(it["sweep"]), it["mu"][0] / it["mu"][1],
                                       num_intervals=int(it["expected"]["J"]), num_iterations=b["iterations"],
                                       match_segregating_sites=bool(it["match"]))
            if ex is not None:
                ctx.violation(exc_signature(ex, it["expected"]["J"] == 1), b, f"raised {ex!r}", subcheck="spec")
    elif b.get("kind") == "corpus":
        from .. import inputs
        pool = inputs.contemporaneous(b["seed"], k=12) + inputs.polytomies(b["seed"], k=3) + inputs.diploid(b["seed"], k=3)
        inp = next(i for i in pool if i.name == b["name"])
        out, ex = rc.call_rescale_ts(inp.ts, inp.mu, num_intervals=b["J"], num_iterations=b["iters"],
                                     match_segregating_sites=b["match"])
        if ex is not None:
            ctx.violation(exc_signature(ex, b["J"] == 1), b, f"raised {ex!r}", subcheck="corpus")
        else:
            ev, msg = rc.ts_event("replay", inp.ts, out)
            rc.judge(ctx, PID, CHECKS, [ev], {}, SITE)
    else:
        rc.judge(ctx, PID, b.get("checks", CHECKS), [b["event"]], {}, body.get("subcheck") or SITE)
