"""C16 -- discretised prior grids hold the right probability masses.

J1  TLC (module PriorGrid): for every abstract nondecreasing CDF table in scope the
    code-shaped FillRow (divide by max cdf, difference, leading 0) followed by
    NodeTimeValues.standardize (divide by the max over columns 1..) equals the declarative
    row "mass of each grid interval, rescaled so that the largest entry is 1"; row[0] = 0,
    max = 1, non-negative.
J2  every table TLC emitted is replayed into the real prior.fill_priors (and through it
    the real NodeTimeValues / standardize) with the abstract table standing in for
    scipy's cdf -- exactly the CONSTANT of the specification; results must equal TLC's
    rationals (4 ulp).
J3  real build_prior_grid calls on a corpus (simulated, polytomies, missing samples) x
    timepoints in {int, explicit array} x {lognorm, gamma} x population_size in {float,
    PopulationSizeHistory} are abstracted (ranks + named predicates; the masses are compared
    with the mirror of PriorGrid!Expected applied to scipy's cdf -- trusted primitive -- on
    the coalescent image of the grid) and validated by TLC against PriorGridTrace.
    The documented dict form of population_size is exercised as a separate sub-check.
"""

import contextlib
import json
import os
from fractions import Fraction as F

import numpy as np

from .. import build, harness, inputs
from .. import prior_common as pc

PID = "C16"


# ---- J2: abstract tables into the real fill_priors ----------------------------------------
def comb_ts(n_internal):
    """caterpillar tree with n_internal internal nodes (n_internal + 1 samples)"""
    import tskit
    tables = tskit.TableCollection(sequence_length=1)
    ns = n_internal + 1
    for _ in range(ns):
        tables.nodes.add_row(flags=tskit.NODE_IS_SAMPLE, time=0)
    prev = 0
    for i in range(n_internal):
        u = tables.nodes.add_row(flags=0, time=i + 1)
        tables.edges.add_row(0, 1, u, prev)
        tables.edges.add_row(0, 1, u, i + 1)
        prev = u
    tables.sort()
    return tables.tree_sequence()


@contextlib.contextmanager
def stub_cdf(distr, table):
    """scipy.stats.<distr>.cdf := the abstract table (row chosen by the main parameter)"""
    import scipy.stats
    obj = getattr(scipy.stats, distr)
    calls = []

    def cdf(x, main, scale=1.0):
        calls.append((float(main), float(scale), len(x)))
        return np.array(table[int(round(float(main))) - 1], dtype=float)
    obj.cdf = cdf  # instance attribute shadows the method
    try:
        yield calls
    finally:
        del obj.cdf


def replay_table(ctx, inst, distr, ts=None):
    from tsdate import demography, node_time_class, prior
    G, tab, rows = inst["G"], inst["tab"], inst["rows"]
    nrows = len(tab)
    ts = ts or comb_ts(nrows)
    nonsample = [u for u in range(ts.num_nodes) if not ts.node(u).is_sample()]
    params = np.full((ts.num_nodes + 1, 2), np.nan)
    a_col, b_col = prior.PriorParams.field_index("alpha"), prior.PriorParams.field_index("beta")
    for r, u in enumerate(nonsample):
        if distr == "lognorm":
            params[u, a_col], params[u, b_col] = 0.0, float((r + 1) ** 2)  # sqrt(beta) = r+1, scale = 1
        else:
            params[u, a_col], params[u, b_col] = float(r + 1), 1.0
    tp = np.arange(G) * 0.5
    psh = demography.PopulationSizeHistory(3.0)
    sig = f"C16/fill_priors/{distr}"
    body = {"kind": "table", "distr": distr, "G": G, "tab": tab, "rows": [[pc.rat(x) for x in row] for row in rows]}
    dname = "lognorm" if distr == "lognorm" else "gamma"
    try:
        with stub_cdf(dname, tab) as calls:
            res = prior.fill_priors(params, tp, ts, psh, prior_distr=distr)
    except Exception as ex:  # noqa: BLE001
        ctx.violation(f"{sig}/{type(ex).__name__}", body, f"fill_priors raised {type(ex).__name__}: {ex}", "table")
        return
    if len(calls) != nrows:
        raise harness.MachineryError(f"cdf stub called {len(calls)} times for {nrows} non-sample nodes")
    ok = isinstance(res, node_time_class.NodeTimeValues) and np.array_equal(res.timepoints, tp * 6.0) \
        and sorted(res.nonfixed_nodes.tolist()) == nonsample
    if not ok:
        ctx.violation(f"{sig}/structure", body, f"timepoints {res.timepoints.tolist()} nonfixed {res.nonfixed_nodes.tolist()}",
                      "table")
        return
    for r, u in enumerate(nonsample):
        got = np.asarray(res[u], dtype=float)
        want = np.array([float(x) for x in rows[r]])
        if got.shape != want.shape or not np.all(np.abs(got - want) <= 4 * np.finfo(float).eps * np.abs(want)):
            ctx.violation(f"{sig}/row-differs-from-PriorGrid", body,
                          f"cdf table {tab[r]}: fill_priors row {got.tolist()}, specification {[str(x) for x in rows[r]]}",
                          "table")
    for s in ts.samples():
        if np.ndim(res[int(s)]) != 0:
            ctx.violation(f"{sig}/sample-has-row", body, f"sample {s} has a grid row", "table")
    ctx.evaluations += 1
    ctx.traces += 1
    if len({tuple(t) for t in tab}) > 1 or any(len(set(np.diff(t))) > 1 for t in tab):
        ctx.nontriv(("tab", distr, json.dumps(tab)))
    ctx.sample({"kind": "PriorGrid table replayed into fill_priors", "distr": distr, "tab": tab,
                "spec_rows": [[str(x) for x in row] for row in rows],
                "code_rows": [np.asarray(res[u]).tolist() for u in nonsample]}, limit=2)


# ---- J3: real calls -> PriorGridTrace events -------------------------------------------------
def cdf_values(distr, alpha, beta, tc):
    import scipy.stats
    with np.errstate(divide="ignore", invalid="ignore"):
        if distr == "lognorm":
            return scipy.stats.lognorm.cdf(tc, np.sqrt(beta), scale=np.exp(alpha))
        return scipy.stats.gamma.cdf(tc, alpha, scale=1 / beta)


def coalescent_image(psize, tp):
    """exact Integral (mirror of Demography, mirror_sync'd in this run) of the float grid"""
    if isinstance(psize, dict):
        N, br = psize["population_size"], psize.get("time_breaks", [])
    elif isinstance(psize, (int, float)):
        N, br = [psize], []
    else:
        d = psize.as_dict()
        N, br = d["population_size"], d.get("time_breaks", [])
    NF, BF = [F(float(v)) for v in N], [F(float(v)) for v in br]
    return np.array([float(pc.Integral(NF, BF, F(float(t)))) for t in tp])


def call_event(ctx, tid, ts, psize, timepoints, distr, meta):
    import tsdate
    from tsdate import prior
    kind = "int" if isinstance(timepoints, int) else "array"
    try:
        pr = tsdate.build_prior_grid(ts, psize, timepoints.copy() if kind == "array" else timepoints,
                                     prior_distribution=distr)
        mp = prior.MixturePrior(ts, prior_distribution=distr)
    except Exception as ex:  # noqa: BLE001
        form = "dict-population-size" if isinstance(psize, dict) else type(psize).__name__
        ctx.violation(f"C16/build_prior_grid/{form}/{type(ex).__name__}", meta,
                      f"build_prior_grid raised {type(ex).__name__}: {ex} ({tid})", "call")
        return None
    tp = np.asarray(pr.timepoints, dtype=float)
    uniq = np.unique(tp)
    ev = {"tid": tid, "kind": kind, "tp": (np.searchsorted(uniq, tp) + 1).tolist(), "tp0": bool(tp[0] == 0.0),
          "ulen": 0, "ugrid": [], "n": int(ts.num_nodes)}
    if kind == "array":
        user = np.sort(np.asarray(timepoints, dtype=float))
        ev["ulen"] = int(len(user))
        ev["ugrid"] = [bool(abs(a - b) <= 1e-12 * max(abs(a), abs(b)) + 1e-300) for a, b in zip(tp, user)] \
            if len(user) == len(tp) else [False] * len(tp)
    else:
        ev["ulen"] = int(timepoints) + 1
    is_sample = np.zeros(ts.num_nodes, dtype=bool)
    is_sample[ts.samples()] = True
    ut = np.unique(ts.nodes_time)
    ev["sample"] = [bool(x) for x in is_sample]
    ev["trank"] = (np.searchsorted(ut, ts.nodes_time) + 1).tolist()
    ev["nonfixed"] = [int(u) + 1 for u in pr.nonfixed_nodes]
    ev["hasrow"] = [bool(np.ndim(pr[u]) == 1 and np.shape(pr[u]) == tp.shape) for u in range(ts.num_nodes)]
    tc = coalescent_image(psize, tp)
    rows = []
    worst = 0.0
    for u in pr.nonfixed_nodes:
        row = np.asarray(pr[int(u)], dtype=float)
        alpha, beta = (float(v) for v in mp.prior_params[int(u)])
        c = cdf_values(distr, alpha, beta, tc)
        with np.errstate(divide="ignore", invalid="ignore"):
            want = np.array(pc.Expected(list(c)), dtype=float)
        proper = bool(np.all(np.isfinite(c)) and c[-1] > 0 and np.all(np.isfinite(want)))
        if not proper:
            ctx.count("rows_with_degenerate_cdf_skipped")
            rows.append([bool(row[0] == 0 or np.isnan(row[0])), True, True, True])
            continue
        err = np.abs(row - want) if row.shape == want.shape else np.array([np.inf])
        with np.errstate(invalid="ignore"):
            mass_ok = bool(np.all(err <= 1e-10 + 1e-10 * np.abs(want)))
        worst = max(worst, float(np.nanmax(err)))
        rows.append([bool(row[0] == 0.0), bool(np.max(row[1:]) == 1.0), bool(np.all(row >= 0)), mass_ok])
    ev["rows"] = rows
    meta["worst_row_error"] = worst
    ctx.extra["worst_row_error_seen"] = max(ctx.extra.get("worst_row_error_seen", 0.0), worst)
    return ev


def psize_forms(rng, Ne):
    from tsdate import demography
    br = sorted((Ne * 10.0 ** rng.uniform(-1, 0.6, 2)).tolist())
    sizes = (Ne * 10.0 ** rng.uniform(-0.7, 0.7, 3)).tolist()
    return [("float", float(Ne)), ("history", demography.PopulationSizeHistory(sizes, br)),
            ("history1", demography.PopulationSizeHistory([float(Ne)]))]


def user_grids(rng, Ne):
    g1 = np.concatenate([[0.0], np.sort(Ne * 10.0 ** rng.uniform(-2, 1, 7))])
    g2 = np.array([0, 1, 5, 20, 100, 400, 2000, 10000], dtype=float) * (Ne / 100.0)
    g3 = rng.permutation(np.concatenate([[0.0], Ne * np.linspace(0.05, 6, 12)]))  # unsorted: the code sorts it
    return [g1, g2, g3]


def corpus(ctx):
    q = ctx.quick
    c = inputs.contemporaneous(ctx.seed, k=3 if q else 8, small=q)
    c += inputs.polytomies(ctx.seed, k=1 if q else 3)
    rng = np.random.default_rng(ctx.seed + 4)
    n_missing = 0
    tries = 0
    while n_missing < (2 if q else 6) and tries < 60:
        tries += 1
        base = build.sim(n=int(rng.integers(2, 5)), L=600, rho=4e-4, mu=2e-3, Ne=100, seed=int(rng.integers(1, 2 ** 31)))
        ts = pc.with_missing(base, rng)
        if ts is None or ts.num_nodes == ts.num_samples:
            continue
        if all(len([s for s in ts.samples() if t.parent(s) != -1]) == ts.num_samples for t in ts.trees()):
            continue
        n_missing += 1
        c.append(inputs.Inp(f"missing{ctx.seed}_{tries}", ts, 2e-3, 100, {"contemp", "missing"}))
    return c


def validate(ctx, events, metas):
    if not events:
        return
    path = os.path.join(ctx.work, f"pgtrace-{len(events)}.ndjson")
    with open(path, "w") as f:
        for e in events:
            f.write(json.dumps(e) + "\n")
    cfg = ctx.write_cfg("PriorGridTrace.cfg", spec="TraceSpec")
    r = ctx.tlc("PriorGridTrace", cfg, workers=1, coverage=False, env=dict(pc.JVM_ENV, TRACE_FILE=path), must_hold=False)
    acc, rej = r.rec("accepted"), r.rec("reject")
    if not acc or acc[-1]["accepted"] + len({x["tid"] for x in rej}) != len(events):
        raise harness.MachineryError("PriorGridTrace did not account for every trace:\n" + r.stdout[-2000:])
    ctx.traces += len(events)
    for x in rej:
        ev = next(e for e in events if e["tid"] == x["tid"])
        ctx.violation(f"C16/build_prior_grid/{x['clause']}/{ev['kind']}", {"kind": "call", "meta": metas[x["tid"]], "event": ev},
                      f"call {x['tid']} rejected by PriorGridTrace at clause {x['clause']} (worst row error "
                      f"{metas[x['tid']].get('worst_row_error')})", "call")


def real_calls(ctx):
    rng = np.random.default_rng(ctx.seed + 16)
    events, metas = [], {}
    dict_done = False
    for inp in corpus(ctx):
        forms = psize_forms(rng, inp.Ne)
        grids = [int(rng.choice([2, 5, 20]))] + user_grids(rng, inp.Ne)
        if ctx.quick:
            grids = [grids[0], grids[1 + int(rng.integers(0, 3))]]
            forms = [forms[0], forms[1]]
        for gi, g in enumerate(grids):
            for fname, ps in forms:
                for distr in ("lognorm", "gamma"):
                    tid = f"{inp.name}/{fname}/{'int' + str(g) if isinstance(g, int) else 'grid' + str(gi)}/{distr}"
                    meta = {"kind": "call", "input": inp.name, "psize": ps if isinstance(ps, float) else ps.as_dict(),
                            "timepoints": g if isinstance(g, int) else np.asarray(g).tolist(), "distr": distr,
                            "tables": None}
                    ev = call_event(ctx, tid, inp.ts, ps, g, distr, meta)
                    ctx.evaluations += 1
                    if ev is None:
                        continue
                    events.append(ev)
                    metas[tid] = meta
                    ctx.nontriv(tid)
                    ctx.sample({"kind": "build_prior_grid call", "tid": tid, "grid_points": len(ev["tp"]),
                                "nonfixed": len(ev["nonfixed"]), "worst_row_error": meta["worst_row_error"]}, limit=3)
        if not dict_done:
            # the documented dict form ("a parameter dictionary passed to initialise a PopulationSizeHistory")
            dict_done = True
            d = forms[1][1].as_dict()
            meta = {"kind": "call", "input": inp.name, "psize": d, "timepoints": 5, "distr": "lognorm", "dict": True}
            ev = call_event(ctx, f"{inp.name}/dict/int5/lognorm", inp.ts, d, 5, "lognorm", meta)
            ctx.evaluations += 1
            if ev is not None:
                events.append(ev)
                metas[ev["tid"]] = meta
    validate(ctx, events, metas)
    ctx.count("build_prior_grid_calls", len(events))


def run(ctx):
    harness.setup_repo_env(ctx.work)
    q = ctx.quick
    ctx.rule = ("(a) abstract CDF tables of module PriorGrid replayed into the real fill_priors, distinct by (table, "
                "distribution), non-trivial = rows differ or a row has unequal masses; (b) real build_prior_grid calls, "
                "distinct by (input, population-size form, timepoints, distribution), each validated by PriorGridTrace")
    ctx.assumptions = [
        "the numeric value of scipy.stats.{lognorm,gamma}.cdf is a trusted primitive (a CONSTANT of PriorGrid); decided is "
        "which cdf differences, parameters, time scale and normalisation are used",
        "masses: |row - Expected(cdf(grid))| <= 1e-10 + 1e-10 |Expected| (A4); the grid's coalescent image is the exact "
        "Demography!Integral (mirror_sync'd in this run) of prior.timepoints",
        "user grids start at 0 (premise of the statement) and are compared after sorting with close12, since the grid "
        "is stored after to_coalescent_timescale o to_natural_timescale (one rounding each)",
        "node parameters (alpha, beta) are taken from MixturePrior.prior_params (their correctness is C14/C15)",
    ]
    # J1 + J2
    tabs = pc.priorgrid_tables(ctx, "pg", 4, 3, 2) if q else pc.priorgrid_tables(ctx, "pg", 5, 4, 2)
    if not q:
        tabs += pc.priorgrid_tables(ctx, "pg3", 3, 3, 3)
    for inst in tabs:
        for distr in ("lognorm", "gamma"):
            replay_table(ctx, inst, distr)
    ctx.exhaustive = True
    # mirror_sync of the Demography mirror used for the coalescent image of the grids
    pc.demography_cases(ctx, "demo_c16", 2 if q else 3, (1, 2, 6), 2, 3, 2, 6)
    real_calls(ctx)


def replay(ctx, body):
    harness.setup_repo_env(ctx.work)
    inst = body["instance"]
    if inst.get("kind") == "table":
        inst = dict(inst, rows=[[pc.frac(x) for x in row] for row in inst["rows"]])
        replay_table(ctx, inst, inst["distr"])
    else:
        # real calls depend on the seeded corpus: regenerate it and re-judge every call
        real_calls(ctx)
