"""C09 -- results are deterministic and independent of thread count; priors can be reused.

J1  TLC, module LikPool: every interleaving of Start / Finish over K <= 3 (thorough 4) keys and
    W in {0 (sequential loop), 1, 2, 3} workers ends with cache = [k |-> Val(k)], every key
    arriving exactly once (FinalCache, EachKeyOnce, NeverWrongRow, Feasible, AtMostWRunning);
    thorough also checks that the same model with FillBy = "position" (the realistic mistake)
    *does* violate FinalCache, i.e. the invariant is not vacuous.
    TLC, module Relational (Hist machine): call histories BuildPrior ; Date(m1, s1) ; ... of
    length <= 3 (thorough 4) over one prior object, as implemented (in-place conversion): the
    object's space follows the last call, conversions are counted, every result is the fresh-prior result.
J2  TLC emits every complete pool schedule (K, W, arrival order) and every call history.
    Schedules are replayed into the real multiprocessing pool (tiny inputs with exactly K cache
    keys, per-key delays in the forked workers steer the arrival order); histories are replayed
    on one real prior object, step by step.
J3  LikPoolTrace validates every *observed* arrival order (guarded hook _verif_arrivals) together
    with the cache the real call ended with (rows interned, expected rows from the sequential
    loop).  RelationalTrace decides, on interned ids (A3) of node times, mutation times, node and
    mutation metadata bytes and mutation nodes: same call twice in one process ("repeat"), the same
    call in fresh interpreters with different PYTHONHASHSEED ("fresh"), num_threads in
    {None, 1, 2, 4} for the discrete methods ("threads"); and every history step ("reuse":
    result close9 to the fresh-prior result; the object's space after the call is Force's or untouched --
    the statement is silent about the object -- and how often it matches the in-place model is counted).
    Provenance (timestamps, resources) is never compared.
"""

import os

import numpy as np

from .. import harness
from .. import meta_common as mc
from ..harness import MachineryError

PID = "C09"
UNIT = 0.06  # seconds between target arrivals when replaying a TLC schedule


def job_kw(inp, optkey):
    method = optkey.split("/")[0]
    kw = {"mutation_rate": inp.mu}
    if method == "variational_gamma":
        if optkey.endswith("unphased"):
            kw["singletons_phased"] = False
    else:
        kw["population_size"] = inp.Ne
    return method, kw


def ids_event(tid, kind, method, ida, idb, intern):
    ev = mc.blank_event(tid, kind, method)
    ev["ida"] = {k: intern(ida[k]) for k in mc.IDCOMPS}
    ev["idb"] = {k: intern(idb[k]) for k in mc.IDCOMPS}
    return ev


# ---------------------------------------------------------------------------------------
def determinism(ctx, corpus, events, metas, intern, hashseeds):
    """repeat in process; the same jobs in fresh interpreters (started first, collected last)"""
    jobs, labels = [], []
    for inp in corpus:
        path = os.path.join(ctx.work, inp.name + ".trees")
        inp.ts.dump(path)
        for optkey in ("variational_gamma", "variational_gamma/unphased", "inside_outside", "maximization"):
            method, kw = job_kw(inp, optkey)
            if not mc.applicable(inp, method) or (optkey.endswith("unphased") and "diploid" not in inp.tags):
                continue
            jobs.append({"path": path, "method": method, "kw": kw})
            labels.append(f"{inp.name}/{optkey}")
    procs = mc.spawn_children_start(ctx, jobs, hashseeds)
    first = mc.run_jobs(jobs)
    second = mc.run_jobs(jobs)
    for lab, j, a, b in zip(labels, jobs, first, second):
        ctx.evaluations += 1
        if not (a["ok"] and b["ok"]):
            if a["ok"] != b["ok"]:
                ctx.violation(f"{PID}/repeat/outcome-differs", {"job": j, "first": a, "second": b},
                              f"{lab}: first call -> {a['exc']}, second call -> {b['exc']}", subcheck="repeat")
            continue
        tid = f"repeat/{lab}"
        events.append(ids_event(tid, "repeat", j["method"], a["ids"], b["ids"], intern))
        metas[tid] = {"job": j, "cls": j["method"]}
        ctx.nontriv(tid)
    return procs, jobs, labels, first


def collect_fresh(ctx, procs, jobs, labels, first, events, metas, intern):
    results = mc.spawn_children_collect(procs)
    hashes = set()
    for hs, res in results.items():
        hashes.add(res["hash_of_a"])
        for lab, j, a, b in zip(labels, jobs, first, res["results"]):
            ctx.evaluations += 1
            if not (a["ok"] and b["ok"]):
                if a["ok"] != b["ok"]:
                    ctx.violation(f"{PID}/fresh/outcome-differs", {"job": j, "parent": a, "child": b, "hashseed": hs},
                                  f"{lab}: parent -> {a['exc']}, child (PYTHONHASHSEED={hs}) -> {b['exc']}",
                                  subcheck="fresh")
                continue
            tid = f"fresh/{lab}/hashseed={hs}"
            events.append(ids_event(tid, "fresh", j["method"], a["ids"], b["ids"], intern))
            metas[tid] = {"job": j, "hashseed": hs, "cls": j["method"]}
            ctx.nontriv(tid)
    ctx.extra["fresh_processes"] = len(results)
    ctx.extra["distinct_string_hash_values_across_processes"] = len(hashes)
    if len(results) >= 2 and len(hashes) < 2:
        raise MachineryError("children did not run with different hash seeds")


# ---------------------------------------------------------------------------------------
def threads(ctx, corpus, events, metas, pool_events, pool_meta, intern, rowintern, orders):
    for n_inp, inp in enumerate(corpus):
        for method in mc.DISCRETE:
            if not mc.applicable(inp, method):
                continue
            kw = {"mutation_rate": inp.mu, "population_size": inp.Ne}
            base, keys0, _, cache0 = mc.pool_call(inp.ts, method, None, **kw)
            if not base.ok:
                continue
            ida = mc.id_components(base.ts)
            for nt in ((1, 2, 4) if (n_inp == 0 or not ctx.quick) else (2,)):
                r, keys, arrivals, cache = mc.pool_call(inp.ts, method, nt, **kw)
                ctx.evaluations += 1
                tid = f"threads/{inp.name}/{method}/num_threads={nt}"
                if not r.ok:
                    ctx.violation(f"{PID}/threads/outcome-differs", {"input": inp.name, "method": method, "nt": nt},
                                  f"{tid}: raised {type(r.exc).__name__}: {r.exc} although num_threads=None returned",
                                  subcheck="threads")
                    continue
                events.append(ids_event(tid, "threads", method, ida, mc.id_components(r.ts), intern))
                metas[tid] = {"input": inp.name, "method": method, "num_threads": nt, "cls": method}
                ctx.nontriv(tid)
                if nt >= 2 and keys:
                    if keys != keys0:
                        raise MachineryError("cache keys differ between runs of the same input")
                    pe = mc.pool_event("pool/" + tid, nt, keys, arrivals, cache, cache0, rowintern)
                    pool_events.append(pe)
                    pool_meta[pe["tid"]] = {"input": inp.name, "method": method, "num_threads": nt}
                    orders.add((inp.name, tuple(pe["arrivals"])))
                    if pe["arrivals"] != sorted(pe["arrivals"]):
                        ctx.count("observed_out_of_order_arrivals")


def schedule_delays(K, W, order):
    """per-key sleep so that, with FIFO hand-out to W workers, keys finish in `order` (1-based)"""
    pos = {k: i + 1 for i, k in enumerate(order)}
    finish = {k: UNIT * pos[k] for k in order}
    start = {}
    for j in range(1, K + 1):
        start[j] = 0.0 if j <= W else UNIT * (j - W)   # the (j - W)-th arrival frees a worker
    return {j: finish[j] - start[j] for j in range(1, K + 1)}


def replay_schedules(ctx, scheds, tiny, pool_events, pool_meta, rowintern, orders):
    realised = 0
    tried = 0
    scheds = [s for s in scheds if s["W"] >= 2]
    if ctx.quick and len(scheds) > 10:  # every K, W at least once, then a seeded sample
        scheds = sorted(scheds, key=lambda s: (s["K"], s["W"], s["arrivals"]))
        scheds = ctx.rng.sample(scheds, 10)
    for s in scheds:
        K, W, order = s["K"], s["W"], s["arrivals"]
        if W < 2 or K not in tiny:
            continue
        inp = tiny[K]
        kw = {"mutation_rate": inp.mu, "population_size": inp.Ne}
        method = "inside_outside" if (tried % 2 == 0) else "maximization"
        base, keys0, _, cache0 = mc.pool_call(inp.ts, method, None, **kw)
        if not base.ok:
            ctx.count("pool_sequential_call_failed")  # a crash on a valid input is C35's business
            continue
        if len(keys0) != K:
            raise MachineryError(f"tiny input for K={K} has {len(keys0)} cache keys")
        d = schedule_delays(K, W, order)
        if min(d.values()) <= 0:
            raise MachineryError(f"LikPool emitted an infeasible schedule {s}")
        delays = {keys0[j - 1]: d[j] for j in d}
        r, keys, arrivals, cache = mc.pool_call(inp.ts, method, W, delays=delays, **kw)
        ctx.evaluations += 1
        tried += 1
        tid = f"sched/K={K}/W={W}/{'-'.join(map(str, order))}/{method}"
        if not r.ok:
            ctx.violation(f"{PID}/pool/outcome-differs", {"sched": s, "input": inp.name},
                          f"{tid}: raised {type(r.exc).__name__}: {r.exc}", subcheck="pool")
            continue
        pe = mc.pool_event(tid, W, keys, arrivals, cache, cache0, rowintern)
        pool_events.append(pe)
        pool_meta[tid] = {"sched": s, "input": inp.name, "method": method}
        orders.add((inp.name, tuple(pe["arrivals"])))
        if pe["arrivals"] == list(order):
            realised += 1
        if pe["arrivals"] != sorted(pe["arrivals"]):
            ctx.count("observed_out_of_order_arrivals")
        if not np.array_equal(base.ts.tables.nodes.time, r.ts.tables.nodes.time):
            ctx.violation(f"{PID}/pool/result-differs", {"sched": s, "input": inp.name, "method": method},
                          f"{tid}: node times differ from the sequential run", subcheck="pool")
    ctx.extra["schedules_replayed"] = tried
    ctx.extra["schedules_realised_exactly"] = realised


# ---------------------------------------------------------------------------------------
def to_linear(pr):
    g = np.array(pr.grid_data, dtype=float)
    return np.exp(g) if pr.probability_space == "logarithmic" else g


def replay_history(ctx, inp, hid, calls, fresh, events, metas):
    import tsdate
    pr = tsdate.build_prior_grid(inp.ts, population_size=inp.Ne)
    lin0 = to_linear(pr).copy()
    tp0 = np.array(pr.timepoints)
    for i, c in enumerate(calls, start=1):
        m, s = c["method"], c["space"]
        before = pr.probability_space
        r = mc.call(inp.ts, m, mutation_rate=inp.mu, priors=pr, probability_space=s)
        ctx.evaluations += 1
        tid = f"{hid}/step{i}"
        meta = {"input": inp.name, "calls": calls, "step": i, "cls": f"{m}/{s}"}
        f = fresh[(m, s)]
        if not (r.ok and f.ok):
            if r.ok != f.ok:
                mc.error_violation(ctx, PID, "reuse", tid, meta, f, r)
            return
        ev, worst = mc.pair_event(tid, "reuse", m, f, r)
        ev.update(hid=hid, step=i, call_space=s, space_before=before, space_after=pr.probability_space,
                  data_close=bool(mc.close(lin0, to_linear(pr), 1e-9) and np.array_equal(tp0, pr.timepoints)))
        # the comparison with the specification's tracked space is TLC's (RelationalTrace!Tracked / Force)
        meta["worst"] = worst
        meta["spec"] = {"before": c["before"], "after": c["after"], "converted": c["converted"]}
        events.append(ev)
        metas[tid] = meta
        ctx.count("reuse_steps")
        if ev["space_after"] == c["after"] and before == c["before"]:
            ctx.count("reuse_steps_matching_in_place_model")
        if ev["data_close"]:
            ctx.count("reuse_steps_prior_linear_content_kept_close9")
        if c["converted"]:
            ctx.nontriv(tid)


def prior_reuse(ctx, hists, inputs_, events, metas):
    import tsdate
    for inp in inputs_:
        fresh = {}
        for m in mc.DISCRETE:
            for s in ("linear", "logarithmic"):
                pr = tsdate.build_prior_grid(inp.ts, population_size=inp.Ne)
                fresh[(m, s)] = mc.call(inp.ts, m, mutation_rate=inp.mu, priors=pr, probability_space=s)
        for h, rec in enumerate(hists):
            replay_history(ctx, inp, f"hist{h}/{inp.name}", rec["calls"], fresh, events, metas)
    ctx.count("histories_replayed", len(hists) * len(inputs_))


# ---------------------------------------------------------------------------------------
def run(ctx):
    harness.setup_repo_env(ctx.work)
    q = ctx.quick
    ctx.rule = ("repeat / fresh-process / num_threads pairs of real calls that returned; history steps in which the "
                "prior object is actually converted between spaces; distinct by (input, method/options, "
                "hash seed | num_threads | history, step)")
    ctx.assumptions = ["provenance rows (timestamps, resources) are never compared",
                       "prior reuse: close9 on results and on the prior's linear content (exp o log)",
                       "multiprocessing start method is fork (delays installed in the parent reach the workers)"]
    corpus = mc.corpus(ctx.seed, q)
    corpus.sort(key=lambda i: i.ts.num_mutations + i.ts.num_nodes)
    det_corpus = corpus if not q else corpus[:4] + [i for i in corpus[4:] if "diploid" in i.tags][:1]
    events, metas = [], {}
    pool_events, pool_meta = [], {}
    intern, rowintern = mc.Interner(), mc.Interner()
    orders = set()

    import tsdate  # noqa: F401  (pay the import before the children compete for the cores)
    mc.lap("import")
    procs, jobs, labels, first = determinism(ctx, det_corpus, events, metas, intern,
                                             hashseeds=(1, 2, 3) if q else (1, 2, 3, 4, 5, 6))

    mc.lap("repeat")
    # TLC while the children run
    r = mc.likpool_model(ctx, max_keys=3 if q else 4)
    scheds = r.rec("sched")
    ctx.extra["likpool_schedules_in_model"] = len(scheds)
    if not q:
        bad = mc.likpool_model(ctx, max_keys=3, fill="position", emit=False, must_hold=False, name="likpool_mut")
        if bad.violated not in ("FinalCache", "NeverWrongRow"):
            raise MachineryError(f"LikPool with FillBy = position should violate FinalCache or NeverWrongRow, got {bad.violated}")
        ctx.extra["likpool_position_variant_violates"] = bad.violated
    hists = mc.hist_model(ctx, 3 if q else 4)

    mc.lap("tlc models")
    threads(ctx, [i for i in corpus if "historical" not in i.tags][: (2 if q else 4)], events, metas,
            pool_events, pool_meta, intern, rowintern, orders)
    mc.lap("threads")
    tiny = mc.tiny_inputs_with_keys(ctx.seed, set(s["K"] for s in scheds))
    replay_schedules(ctx, scheds, tiny, pool_events, pool_meta, rowintern, orders)
    mc.lap("schedules")
    contemp = [i for i in corpus if "historical" not in i.tags]
    prior_reuse(ctx, hists, contemp[:1] if q else contemp[:3], events, metas)

    mc.lap("reuse")
    collect_fresh(ctx, procs, jobs, labels, first, events, metas, intern)

    mc.lap("children")
    if not pool_events:
        raise MachineryError("no pool run was observed (vacuous)")
    rej = mc.validate_pool(ctx, pool_events)
    for tid, clause in rej.items():
        ev = next(e for e in pool_events if e["tid"] == tid)
        ctx.violation(f"{PID}/pool/{clause}", {"event": ev, "meta": pool_meta.get(tid)},
                      f"observed pool run {tid} rejected by LikPoolTrace at clause {clause}", subcheck="pool")
    ctx.extra["pool_runs_validated"] = len(pool_events)
    ctx.extra["distinct_observed_arrival_orders"] = len(orders)
    mc.judge(ctx, PID, events, metas, ["repeat", "fresh", "threads", "reuse"], "determinism")
    mc.lap("trace validation")
    for e in events[:3] + [e for e in events if e["kind"] == "reuse"][:2]:
        ctx.sample({k: e[k] for k in ("tid", "kind", "method", "ida", "idb", "space_before", "space_after")})


def replay(ctx, body):
    harness.setup_repo_env(ctx.work)
    inst = body["instance"]
    sub = body.get("subcheck")
    if "event" in inst and sub == "pool":
        rej = mc.validate_pool(ctx, [inst["event"]])
        for tid, clause in rej.items():
            ctx.violation(f"{PID}/pool/{clause}", inst, f"recorded pool run {tid} rejected at {clause}", subcheck="pool")
        return
    meta = inst.get("meta") or {}
    if "calls" in meta:  # a history step: replay the whole history on a fresh prior object
        import tsdate
        inp = mc.find_input(body.get("seed", ctx.seed), meta["input"])
        fresh = {}
        for m in mc.DISCRETE:
            for s in ("linear", "logarithmic"):
                pr = tsdate.build_prior_grid(inp.ts, population_size=inp.Ne)
                fresh[(m, s)] = mc.call(inp.ts, m, mutation_rate=inp.mu, priors=pr, probability_space=s)
        events, metas = [], {}
        replay_history(ctx, inp, "replay/" + inp.name, meta["calls"], fresh, events, metas)
        mc.judge(ctx, PID, events, metas, ["reuse"], "determinism")
        return
    if "event" in inst:  # an id-equality event: re-judge the recorded ids (the runs themselves are not replayable)
        mc.judge(ctx, PID, [inst["event"]], {inst["event"]["tid"]: meta}, ["repeat", "fresh", "threads", "reuse"],
                 "determinism")
