"""C02 -- dating changes only times, time metadata and unphased singleton placement.

J1  TLC: module Session with the columns tracked: a dating call is the step sequence of
    EstimationMethod.get_modified_ts (metadata steps taken from module Metadata); invariants
    DateFrame / FrameDuringCall (the frame condition of the statement, on canonical columns),
    FalseKeepsMetadata, over all starting metadata kinds x methods x option sets.
J3  code -> spec: real date() / named-method calls on inputs decorated with everything that must
    not change (population / individual / site / edge / node / mutation metadata with schemas,
    individual flags and locations, top-level metadata, stacked mutations on one node, recurrent
    mutations, a non-canonical but valid edge order, migrations) x 3 methods x set_metadata x
    record_provenance x singletons_phased.  Every column of the table collection is interned
    before and after (A3; edges / migrations as sets, mutations canonically under the re-sorting
    TableCollection.sort() performs) and SessionTrace decides the frame condition column by
    column, and the mutation-node clause on mutations matched by (site, derived state, other
    metadata fields).
    thorough: additionally every call the repository's own test-suite makes (pytest plugin).
"""

import json

from .. import session_common as sc

PID = "C02"
CHECKS = ["Frame", "MutNode"]
INVS = ["DateFrame", "FrameDuringCall", "FalseKeepsMetadata", "ProvPerCall"]
DATE_FNS_MODEL = ["date:variational_gamma", "date:inside_outside", "date:maximization", "variational_gamma"]


def settings_for(method, i):
    """option settings for input number i (rotated so that every input sees every policy)"""
    pol = [None, True, False]
    out = []
    for j, sm in enumerate(pol):
        kw = {}
        if sm is not None:
            kw["set_metadata"] = sm
        if (i + j) % 2:
            kw["record_provenance"] = False
        out.append(kw)
    if method == "variational_gamma":
        out.append({"singletons_phased": False, **({"set_metadata": pol[i % 3]} if pol[i % 3] is not None else {})})
        out.append({"singletons_phased": False, "rescaling_intervals": 0, "max_iterations": 3, "time_units": "years"})
    else:
        out[i % 3]["time_units"] = "years"
    return out


def call_args(inp, method, kw, via_named):
    args = dict(mutation_rate=inp.mu, **kw)
    if method != "variational_gamma":
        args["population_size"] = inp.Ne
        args.pop("singletons_phased", None)
    if not via_named:
        args["method"] = method
    return args


def drive(ctx, corpus, only=None):
    events, meta = [], {}
    for i, inp in enumerate(corpus):
        before = sc.Snap(inp.ts)
        for method in ("variational_gamma", "inside_outside", "maximization"):
            if method != "variational_gamma" and not sc.discrete_ok(inp):
                continue
            for j, kw in enumerate(settings_for(method, i)):
                via_named = (i + j) % 3 == 0
                fn_name = method if via_named else "date"
                tid = f"{inp.name}/{fn_name}/{method}/{json.dumps(kw, sort_keys=True)}"
                if only is not None and tid != only:
                    continue
                rec = sc.SessionRec(tid, events)
                obs = rec.call(fn_name, inp.ts, before=before, lite=True, **call_args(inp, method, kw, via_named))
                ctx.evaluations += 1
                meta[(tid, 1)] = {"recipe": {"tid": tid}, "input": inp.name, "tags": sorted(inp.tags),
                                  "exc": repr(obs.exc) if obs.exc else None}
                if not obs.ok:
                    sc.note_failure(ctx, PID, "date", fn_name, tid, obs, meta[(tid, 1)])
                    continue
                ev = obs.event
                ctx.nontriv(tid)
                b, a = ev["before"], ev["after"]
                if b["mutations.order"] != a["mutations.order"] and not ev["mut"]["nin"]:
                    ctx.count("calls_where_sort_reordered_mutation_rows")
                if b["edges.order"] != a["edges.order"]:
                    ctx.count("calls_where_sort_reordered_edge_rows")
                if ev["mut"]["nin"]:
                    ctx.count("calls_with_rephased_singletons")
                    ctx.count("rephased_singletons", len(ev["mut"]["nin"]))
                if b["nodes.md_other"] != a["nodes.md_other"] or b["mutations.md_other"] != a["mutations.md_other"]:
                    ctx.count("calls_where_forced_metadata_cleared_other_fields")
                ctx.sample({"kind": "date() call", "tid": tid, "nodes": inp.ts.num_nodes,
                            "mutations": inp.ts.num_mutations, "individuals": inp.ts.num_individuals,
                            "columns_changed": sorted(c for c in b if a[c] != b[c])}, limit=6)
    return events, meta


def suite_events(ctx, files):
    events, rc, tail = sc.run_suite(ctx, files)
    ctx.count("suite_calls_recorded", len(events))
    ctx.extra["suite_pytest_summary"] = tail
    ok = [e for e in events if e["outcome"] == "ok" and e["ev"] == "Date"]
    ctx.count("suite_calls_judged", len(ok))
    return ok


def run(ctx):
    sc.setup(ctx)
    q = ctx.quick
    ctx.rule = ("real dating calls over corpus (plain + decorated inputs) x 3 methods x set_metadata x record_provenance x "
                "singletons_phased, each judged by SessionTrace on all 41 canonical columns; non-trivial = the call "
                "returned (so every frozen column was compared); counted by distinct (input, entry point, options)")
    ctx.assumptions = [
        "interning A3: equal bytes <=> equal id; edges and migrations compared as sets of rows, mutations as multisets "
        "keyed by (site, derived_state) because TableCollection.sort() re-orders rows",
        "mutations are matched between input and output by (site, derived_state, metadata fields other than mn/vr) so "
        "that as few nodes as possible differ",
        "fields other than mn/vr may disappear only when set_metadata=True clears incompatible metadata (C32)",
        "'the other node of the same individual' is asserted in addition to the statement (mechanism of phasing.py)",
        "inputs rejected by date() are not judged (C35)"]
    # J1
    cfg = sc.session_cfg(ctx, "c02_j1", max_calls=1 if q else 2, fns=DATE_FNS_MODEL if q else DATE_FNS_MODEL[:3],
                         rec_modes=["on"], nopts=4, track=True, start0="MdStartAll",
                         start1="MdStartBasic" if q else "MdStartSome", invariants=INVS, properties=["AppendOnly"])
    ctx.tlc("Session", cfg, workers=8, required_actions=sc.DATING_ACTIONS + ("ChooseStart",), timeout=1500)
    # J3
    corpus = sc.frame_corpus(ctx, k=1 if q else 3, big=not q)
    ctx.count("inputs", len(corpus))
    events, meta = drive(ctx, corpus)
    sc.require_results(ctx, events)
    sc.judge(ctx, PID, CHECKS, events, meta, "date")
    if not q:
        ev = suite_events(ctx, ["tests/test_inference.py", "tests/test_noncontemporary.py", "tests/test_provenance.py",
                                "tests/test_util.py", "tests/test_cli.py", "tests/test_phasing.py"])
        for e in ev:
            ctx.nontriv(e["tid"])
        sc.judge(ctx, PID, CHECKS, ev, {}, "suite")
    ctx.extra["predicates"] = {"eq": sc.PREDICATES["eq"]}


def replay(ctx, body):
    sc.setup(ctx)
    inst = body["instance"]
    label = body.get("subcheck") or "date"
    tid = ((inst.get("meta") or {}).get("recipe") or {}).get("tid")
    if tid and label == "date":
        ctx.tier = body.get("tier", "quick")
        corpus = sc.frame_corpus(ctx, k=1 if ctx.quick else 3, big=not ctx.quick)
        events, meta = drive(ctx, corpus, only=tid)
        if events:
            sc.judge(ctx, PID, CHECKS, events, meta, label)
            return
    sc.judge(ctx, PID, inst.get("checks", CHECKS), [inst["event"]], {}, label)
