"""C30 -- unary-node detection is exact.

J1  TLC: module Unary.  The edge-diff loop of util._contains_unary_nodes (cursors a/b,
    nodes_children, the per-breakpoint `check` set, arbitrary mask) as a state machine,
    and prior.has_locally_unary_nodes as an operator, against the declarative "some local
    tree has a (non-masked) node with exactly one child", on every forest sequence in scope
    (isolated nodes, empty regions, unary roots, internal / historical samples).
    Invariants DetectorExact, PerTreeExact; action properties CountsStep, CursorsMonotone.
J2  every emitted behaviour is replayed into the real code: the kernel with the spec's
    mask, util.contains_unary_nodes(skip_samples=True/False), prior.has_locally_unary_nodes,
    and -- on instances that meet the other preconditions of dating (predicate Elig of the
    spec) -- accept/reject of tsdate.variational_gamma (rejects iff a non-sample node is
    locally unary), tsdate.inside_outside / maximization / build_prior_grid (reject iff any
    node is).  Only the unary-specific ValueError is judged.
"""

import numpy as np

from .. import harness
from .. import prep_common as pc

PID = "C30"
VG_MSG = "contains unary nodes"
DISC_MSG = "has unary nodes"


def consts(NS, NI, L, max_muts, tree_filter="any", hist=True, anymask=False, emit=False):
    c = pc.gen_consts(NS, NI, L, max_muts, tree_filter)
    c.update({"HistSets": pc.tla_bool(hist), "AnyMask": pc.tla_bool(anymask), "EmitDone": pc.tla_bool(emit)})
    return c


def model_check(ctx, name, **kw):
    cfg = ctx.write_cfg(name + ".cfg", constants=consts(**kw), invariants=["DetectorExact", "PerTreeExact"],
                        properties=["CountsStep", "CursorsMonotone"])
    return ctx.tlc("Unary", cfg, workers=8, required_actions=("Gen", "PickFlags", "Choose", "Step", "Finish"))


def generate(ctx, name, simulate=None, **kw):
    kw["emit"] = True
    cfg = ctx.write_cfg(name + ".cfg", constants=consts(**kw), invariants=["EmitInv", "DetectorExact", "PerTreeExact"])
    if simulate:
        r = ctx.tlc("Unary", cfg, workers=8, coverage=False, simulate={"num": max(1, simulate // 8)},
                    depth=3 * kw["L"] + kw["max_muts"] + 12)
    else:
        r = ctx.tlc("Unary", cfg, workers=4, coverage=False)
    return r.rec("inst")


def _outcome(fn, msg):
    """'unary' if fn raised the unary-specific ValueError, 'ok' if it returned, else 'other:<type>'"""
    try:
        fn()
    except ValueError as ex:
        return "unary" if msg in str(ex) else "other:ValueError"
    except Exception as ex:  # noqa: BLE001
        return "other:" + type(ex).__name__
    return "ok"


def replay_one(ctx, inst, methods=True):
    import tsdate
    from tsdate import prior, util
    ts = pc.ts_of(inst)
    pc.check_binding(inst, ts)
    if sorted(int(u) for u in ts.samples()) != sorted(inst["samples"]):
        raise harness.MachineryError("sample set of the built tree sequence differs from the instance")
    mask = np.zeros(ts.num_nodes, dtype=bool)
    mask[list(inst["mask"])] = True
    got_k = bool(util._contains_unary_nodes(mask, ts.edges_parent, ts.edges_left, ts.edges_right,
                                            ts.indexes_edge_insertion_order, ts.indexes_edge_removal_order,
                                            ts.sequence_length, ts.num_nodes))
    if got_k != inst["found"]:
        ctx.violation("C30/_contains_unary_nodes/mismatch", inst,
                      f"kernel returned {got_k} with mask {inst['mask']}, spec {inst['found']}", "kernel")
    for skip, want in ((True, inst["u_ns"]), (False, inst["u_any"])):
        got = bool(util.contains_unary_nodes(ts, skip_samples=skip))
        if got != want:
            ctx.violation(f"C30/contains_unary_nodes/skip_samples={skip}/mismatch", inst,
                          f"contains_unary_nodes(skip_samples={skip}) = {got}, spec {want} "
                          f"(samples {inst['samples']})", "detector")
    got = bool(prior.has_locally_unary_nodes(ts))
    if got != inst["u_any"]:
        ctx.violation("C30/has_locally_unary_nodes/mismatch", inst,
                      f"has_locally_unary_nodes = {got}, spec {inst['u_any']}", "detector")
    ctx.evaluations += 4
    if methods and inst["elig"]:
        calls = [
            ("variational_gamma", VG_MSG, inst["u_ns"],
             lambda: tsdate.variational_gamma(ts, mutation_rate=1.0, allow_unary=False, max_iterations=2,
                                              rescaling_intervals=1, progress=False)),
            ("variational_gamma.default", VG_MSG, inst["u_ns"],
             lambda: tsdate.variational_gamma(ts, mutation_rate=1.0, max_iterations=1, rescaling_intervals=1)),
            ("inside_outside", DISC_MSG, inst["u_any"],
             lambda: tsdate.inside_outside(ts, mutation_rate=1.0, population_size=1.0, allow_unary=False)),
            ("maximization", DISC_MSG, inst["u_any"],
             lambda: tsdate.maximization(ts, mutation_rate=1.0, population_size=1.0)),
            ("build_prior_grid", DISC_MSG, inst["u_any"],
             lambda: tsdate.build_prior_grid(ts, population_size=1.0, allow_unary=False)),
        ]
        for name, msg, want_reject, fn in calls:
            out = _outcome(fn, msg)
            ctx.count(f"{name}:{'reject' if want_reject else 'accept'}:{out}")
            if want_reject and out != "unary":
                ctx.violation(f"C30/{name}/unary-input-not-rejected", inst,
                              f"{name}: a locally unary node exists (any={inst['u_any']}, non-sample={inst['u_ns']}) "
                              f"but the outcome was {out}", "methods")
            if not want_reject and out == "unary":
                ctx.violation(f"C30/{name}/rejected-without-unary-node", inst,
                              f"{name} raised the unary-node error; spec: any={inst['u_any']}, "
                              f"non-sample={inst['u_ns']}, samples {inst['samples']}", "methods")
            ctx.evaluations += 1
        ctx.nontriv(("m", pc.inst_key(inst)))
        if inst["u_any"] != inst["u_ns"]:
            ctx.count("instances_where_only_a_sample_is_unary")
    ctx.nontriv(("d", pc.inst_key(inst, "mask")))
    if inst["u_any"]:
        ctx.sample({"kind": "Unary behaviour replayed", "trees": inst["trees"], "samples": inst["samples"],
                    "mask": inst["mask"], "found": inst["found"], "u_any": inst["u_any"], "u_ns": inst["u_ns"],
                    "elig": inst["elig"]}, limit=4)


def run(ctx):
    harness.setup_repo_env(ctx.work)
    q = ctx.quick
    ctx.rule = ("instances = forest sequences of L parent functions over NS time-0 samples + NI internal nodes "
                "(isolated nodes, empty regions, unary roots included) x sets of internal nodes flagged as samples x "
                "masks; every emitted instance exercises the four detector calls (key 'd': trees, samples, mask); "
                "key 'm' = instances meeting the other dating preconditions (spec predicate Elig) on which accept / "
                "reject of the five entry points is judged")
    ctx.assumptions = ["only the unary-specific ValueError message is judged for the dating entry points; other "
                       "rejections of an input are outside this property",
                       "integer genome coordinates (breakpoint equality is exact in float64)"]
    model_check(ctx, "c30_j1a", NS=2, NI=2, L=2, max_muts=0, anymask=True)
    model_check(ctx, "c30_j1b", NS=3, NI=2, L=2, max_muts=0, tree_filter="nodangling" if q else "any")
    if not q:
        model_check(ctx, "c30_j1c", NS=2, NI=2, L=3, max_muts=0)
        model_check(ctx, "c30_j1d", NS=2, NI=3, L=2, max_muts=0)
        model_check(ctx, "c30_j1e", NS=1, NI=2, L=4, max_muts=0, anymask=True)
    insts = generate(ctx, "c30_j2a", NS=2, NI=2, L=2, max_muts=1 if q else 2, tree_filter="completeunary")
    insts += generate(ctx, "c30_j2b", NS=3, NI=2, L=1 if q else 2, max_muts=1, tree_filter="completeunary")
    insts += generate(ctx, "c30_j2c", NS=2, NI=2, L=2, max_muts=0, anymask=True)
    if not q:
        insts += generate(ctx, "c30_j2d", NS=2, NI=3, L=2, max_muts=1, tree_filter="completeunary")
    cap = 6000 if q else 30000
    ctx.exhaustive = len(insts) <= cap
    if len(insts) > cap:
        insts = ctx.rng.sample(insts, cap)
    insts += generate(ctx, "c30_j2s", simulate=400 if q else 4000, NS=3, NI=2, L=3, max_muts=2,
                      tree_filter="completeunary")
    insts += generate(ctx, "c30_j2t", simulate=400 if q else 4000, NS=3, NI=2, L=4, max_muts=1, anymask=True)
    for inst in insts:
        replay_one(ctx, inst)
        ctx.traces += 1


def replay(ctx, body):
    harness.setup_repo_env(ctx.work)
    replay_one(ctx, body["instance"])
