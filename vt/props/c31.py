"""C31 -- site-time estimates follow their documented definition.

J1  TLC: module SiteTimes.  The running-maximum loop of util.sites_time_from_ts (NaN start,
    child age above a root, min_time floor applied after the site's mutations, ages of
    non-samples read from "mn" metadata when unconstrained) as one action per site, against
    the documented definition (Decl), exactly: values are kept doubled (child / parent /
    arithmetic) or squared (geometric).  Invariants SiteTimesExact, AtLeastMinTime.
J2  every emitted behaviour is replayed: the instance becomes a real tskit tree sequence
    (historical / internal samples, isolated nodes, mutations above roots, sites without
    mutations, JSON "mn" metadata), sites_time_from_ts(...) must equal the spec's value per
    site (exactly; geometric: rel 1e-12 on the square root), ValueError exactly where the
    spec says; add_sampledata_times on a tsinfer.SampleData built from the same instance
    must equal max(estimate, oldest historical carrier) as computed by the spec.  The spec's
    genotype model is checked against tskit on the way (machinery check).
"""

import json
import math
import warnings

import numpy as np

from .. import harness
from .. import prep_common as pc

PID = "C31"
ALL = ("child", "parent", "arithmetic", "geometric")


def consts(NS, NI, L, max_muts, tree_filter="any", sels=ALL, mts=(0, 2), unc=(False,), mnvals=(1, 4), hist=True,
           extra=0, emit=False):
    c = pc.gen_consts(NS, NI, L, max_muts, tree_filter)
    c.update({"Selections": pc.tla_strset(sels), "MinTimes": pc.tla_set(mts),
              "Unconstr": "{" + ",".join(pc.tla_bool(b) for b in unc) + "}", "MnVals": pc.tla_set(mnvals),
              "HistSets": pc.tla_bool(hist), "MaxExtra": extra, "EmitDone": pc.tla_bool(emit)})
    return c


def tlc(ctx, name, simulate=None, emit=False, **kw):
    cfg = ctx.write_cfg(name + ".cfg", constants=consts(emit=emit, **kw),
                        invariants=["SiteTimesExact", "AtLeastMinTime"] + (["EmitInv"] if emit else []))
    if simulate:
        r = ctx.tlc("SiteTimes", cfg, workers=8, coverage=False, simulate={"num": max(1, simulate // 8)},
                    depth=2 * kw["L"] + 2 * kw["max_muts"] + 14)
    else:
        r = ctx.tlc("SiteTimes", cfg, workers=8, coverage=not emit,
                    required_actions=() if emit else ("Gen", "PickOpts", "PickMeta", "Site", "Finish"))
    return r.rec("inst")


def to_float(v, geo):
    if v == -1:
        return float("nan")
    return math.sqrt(v) if geo else v / 2.0


def same(got, want, geo):
    if math.isnan(want):
        return math.isnan(got)
    if math.isnan(got):
        return False
    if geo:
        return abs(got - want) <= 1e-12 * max(abs(got), abs(want))
    return got == want


def build(inst):
    md = None
    schema = None
    if inst["unc"]:
        sset = set(inst["samples"])
        md = [b"" if u in sset else json.dumps({"mn": float(inst["mn"][u]), "vr": 1.0}).encode()
              for u in range(inst["N"])]
        if len(inst["muts"]) % 2 == 1:
            import tskit
            schema = tskit.MetadataSchema.permissive_json()
            md = [{} if u in sset else {"mn": float(inst["mn"][u]), "vr": 1.0} for u in range(inst["N"])]
    return pc.ts_of(inst, node_metadata=md, schema=schema)


def replay_one(ctx, inst, sampledata=False):
    from tsdate import util
    ts = build(inst)
    geo = inst["geo"]
    kw = {"unconstrained": bool(inst["unc"]), "node_selection": inst["sel"], "min_time": float(inst["mt"])}
    if inst["unc"] and inst["sel"] == "child" and inst["mt"] == 1 and len(inst["trees"]) % 2 == 0:
        kw = {}  # the documented defaults
    sig = f"{inst['sel'] if inst['sel'] in ALL else 'bad-selection'}/{'unconstrained' if inst['unc'] else 'node-times'}"
    try:
        got = util.sites_time_from_ts(ts, **kw)
        err = None
    except ValueError as ex:
        got, err = None, ex
    except Exception as ex:  # noqa: BLE001
        ctx.violation(f"C31/sites_time_from_ts/{sig}/{type(ex).__name__}", inst,
                      f"sites_time_from_ts raised {type(ex).__name__}: {ex}", "sites_time")
        return
    ctx.evaluations += 1
    if inst["err"]:
        if err is None:
            ctx.violation(f"C31/sites_time_from_ts/{sig}/no-ValueError", inst,
                          f"expected ValueError (sites={inst['sites']}, node_selection={inst['sel']}), got {got}",
                          "sites_time")
        ctx.nontriv(("e", len(inst["sites"]) > 0, inst["sel"]))
        return
    if err is not None:
        ctx.violation(f"C31/sites_time_from_ts/{sig}/unexpected-ValueError", inst, f"ValueError: {err}", "sites_time")
        return
    if [int(p) for p in ts.sites_position] != [o["pos"] for o in inst["out"]]:
        raise harness.MachineryError("site positions of the built tree sequence differ from the instance")
    G = ts.genotype_matrix()
    samples = [int(u) for u in ts.samples()]
    for j, car in enumerate(inst["geno"]):
        if sorted(samples[k] for k in range(len(samples)) if G[j, k] == 1) != sorted(car):
            raise harness.MachineryError(f"genotype model differs from tskit at site {j}: {inst['trees']} {inst['muts']}")
    want = [to_float(o["v"], geo) for o in inst["out"]]
    bad = [j for j in range(len(want)) if not same(float(got[j]), want[j], geo)]
    if bad or len(got) != len(want):
        j = bad[0] if bad else -1
        cls = "nan-site" if bad and math.isnan(want[j]) else "value"
        ctx.violation(f"C31/sites_time_from_ts/{sig}/{cls}", inst,
                      f"site times {got.tolist()} but the definition gives {want} (kwargs {kw})", "sites_time")
    ctx.nontriv(pc.inst_key(inst, "sel", "mt", "unc", "mn"))
    if len(inst["muts"]) > 1:
        ctx.sample({"kind": "SiteTimes behaviour replayed", "trees": inst["trees"], "muts": inst["muts"],
                    "samples": inst["samples"], "kwargs": kw, "mn": inst["mn"] if inst["unc"] else None,
                    "expected": [None if math.isnan(w) else w for w in want]}, limit=4)
    if sampledata:
        import tsinfer

        import tsdate
        with warnings.catch_warnings():
            warnings.simplefilter("ignore")
            with tsinfer.SampleData(sequence_length=ts.sequence_length) as sd:
                for u in samples:
                    sd.add_individual(ploidy=1, time=float(ts.nodes_time[u]))
                for j in range(ts.num_sites):
                    sd.add_site(float(ts.sites_position[j]), G[j].tolist(), ["0", "1"])
            res = tsdate.add_sampledata_times(sd, np.array(want, dtype=float))
            out = np.array(res.sites_time[:], dtype=float)
        ctx.evaluations += 1
        want2 = [to_float(o["w"], geo) for o in inst["out"]]
        bad = [j for j in range(len(want2)) if not math.isnan(want[j]) and not same(float(out[j]), want2[j], geo)]
        if bad:
            ctx.violation("C31/add_sampledata_times/value", inst,
                          f"add_sampledata_times gave {out.tolist()}, spec max(estimate, historical bound) = {want2} "
                          f"(bounds {[o['bound'] for o in inst['out']]})", "sampledata")
        if any(o["bound"] > 0 for o in inst["out"]):
            ctx.nontriv(("sd", pc.inst_key(inst, "sel", "mt", "unc", "mn")))
            ctx.count("sampledata_instances_with_historical_carrier")
        if any(o["w"] != o["v"] for o in inst["out"]):
            ctx.count("sampledata_instances_where_bound_raises_a_site")


def run(ctx):
    harness.setup_repo_env(ctx.work)
    q = ctx.quick
    ctx.rule = ("instances = forest sequences (isolated nodes, several roots, unary nodes) x mutation sets (several "
                "mutations per site, above roots, on isolated nodes) x historical/internal sample sets x "
                "node_selection x min_time x unconstrained x mn metadata x an optional mutation-free site; "
                "distinct by (trees, mutations, samples, sites, options); 'sd' keys = add_sampledata_times "
                "instances where a historical sample carries a derived allele")
    ctx.assumptions = ["node ages are small integers, so child/parent/arithmetic values are exact in float64; "
                       "geometric compared at rel 1e-12",
                       "sites whose estimate is NaN are not judged for add_sampledata_times"]
    # J1
    tlc(ctx, "c31_j1a", NS=2, NI=2, L=1, max_muts=2, mts=(0, 2))
    tlc(ctx, "c31_j1b", NS=2, NI=2, L=1, max_muts=1, mts=(1,), unc=(True,))
    tlc(ctx, "c31_j1c", NS=2, NI=2, L=2, max_muts=1, tree_filter="nodangling", sels=("parent", "geometric", "bogus"),
        mts=(1,), hist=False, extra=1)
    if not q:
        tlc(ctx, "c31_j1d", NS=2, NI=2, L=2, max_muts=2, mts=(0, 3), hist=False)
        tlc(ctx, "c31_j1e", NS=3, NI=2, L=1, max_muts=2, mts=(1,), unc=(True, False), mnvals=(0, 3))
        tlc(ctx, "c31_j1f", NS=2, NI=3, L=1, max_muts=2, mts=(2,), unc=(True,), mnvals=(1, 6), hist=False)
    # J2
    insts = tlc(ctx, "c31_j2a", emit=True, NS=2, NI=2, L=1, max_muts=2, mts=(0, 2), extra=1,
                sels=ALL + ("bogus",))
    insts += tlc(ctx, "c31_j2b", emit=True, NS=2, NI=2, L=1, max_muts=1, mts=(1,), unc=(True,))
    cap = 3000 if q else 60000
    ctx.exhaustive = len(insts) <= cap
    if len(insts) > cap:
        insts = ctx.rng.sample(insts, cap)
    n = 600 if q else 8000
    insts += tlc(ctx, "c31_j2s", emit=True, simulate=n, NS=3, NI=2, L=3, max_muts=4, mts=(0, 1, 3), unc=(True, False),
                 mnvals=(0, 2, 7), extra=1, sels=ALL + ("bogus",))
    insts += tlc(ctx, "c31_j2t", emit=True, simulate=n // 2, NS=3, NI=2, L=2, max_muts=3, mts=(0, 2),
                 tree_filter="nodangling")
    nsd = 150 if q else 3000
    # the SampleData path is slow (zarr): a seeded subsample, preferring instances with historical samples
    cand = [i for i, x in enumerate(insts) if not x["err"] and len(x["samples"]) > x["NS"]]
    ctx.rng.shuffle(cand)
    cand.sort(key=lambda i: not any(o["w"] != o["v"] for o in insts[i]["out"]))  # bound-raises-a-site cases first
    cand = cand[:nsd // 2] + ctx.rng.sample(cand[nsd // 2:], min(len(cand) - nsd // 2, nsd - nsd // 2)) \
        if len(cand) > nsd else cand
    sd = set(cand[:nsd])
    for i, inst in enumerate(insts):
        replay_one(ctx, inst, sampledata=i in sd)
        ctx.traces += 1


def replay(ctx, body):
    harness.setup_repo_env(ctx.work)
    replay_one(ctx, body["instance"], sampledata=not body["instance"]["err"])
