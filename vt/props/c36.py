"""C36 -- the precomputed prior cache is crash-safe and exact.

J1  TLC: spec/Cache.tla (processes = concurrent runs of ConditionalCoalescentTimes(n); writer
    crashes; file = sequence of chunks with per-descriptor offsets) for the protocol variant
    that /repo implements (detected by observing the file-system calls of a solo run):
    Safe, NoError, FinalNeverTorn, liveness EventuallyCached under weak fairness.
J2  spec -> code: TLC behaviours (counterexample if the design is unsafe, simulated
    behaviours otherwise) are replayed on the real code: each process is a thread whose
    file-system calls are released one at a time in the order of the behaviour; the real
    file content and each process' table are compared with the model's state.
J3  code -> spec: for every byte offset of the file a writer writes, the writer is stopped
    there and a later real run constructs the priors; outcomes are validated by TLC
    (spec/CacheCrash.tla).
"""

import json
import os
import re
import shutil

import numpy as np

from .. import cache_common as cc
from .. import harness

PID = "C36"


def fresh_dir(ctx, tag):
    d = os.path.join(ctx.work, "xdg-" + tag)
    shutil.rmtree(d, ignore_errors=True)
    os.makedirs(d)
    os.environ["XDG_CACHE_HOME"] = d
    return d


def final_path(n):
    from tsdate import prior
    return prior.ConditionalCoalescentTimes.get_precalc_cache(n)


def solo(ctx, n, tag, prefill=None):
    """run one gated process to completion; return (events, result table or None, error)"""
    fresh_dir(ctx, tag)
    fp = final_path(n)
    if prefill is not None:
        with open(fp, "wb") as f:
            f.write(prefill)
    w = cc.World(os.path.dirname(fp), n)
    w.install()
    try:
        w.spawn(1)
        guard = 0
        while w.at[1][0] != "finished":
            w.step(1)
            guard += 1
            if guard > 10 * n + 50:
                raise harness.MachineryError("solo run does not terminate")
        _LAST_PUBLISHED[:] = list(w.published)
        return list(w.events), w.results.get(1), w.errors.get(1)
    finally:
        w.teardown()


_LAST_PUBLISHED = []


def later_run_outcome(ctx, n, data, tag):
    """what a later run makes of a cache file holding exactly `data`"""
    correct = cc.correct_table(n)
    _, res2, err2 = solo(ctx, n, tag, prefill=data)
    if err2 is not None:
        return "exception:" + type(err2).__name__
    tab = np.asarray(res2, dtype=float) if res2 is not None else None
    return "ok" if tab is not None and tab.shape == correct.shape and np.array_equal(tab, correct) else "wrong"


def visibility_leg(ctx, n):
    """Protocol-agnostic leg for a writer whose file-system calls are none of Cache.tla's variants: whatever is on
    disk under the cache name at any gate the writer passes (stat / read / open / write / close / rename) and when it
    has finished must be something a later run handles correctly."""
    fresh_dir(ctx, "vis1")
    fp = final_path(n)
    w = cc.World(os.path.dirname(fp), n)
    w.watch = fp
    w.install()
    try:
        w.spawn(1)
        guard = 0
        while w.at[1][0] != "finished":
            w.step(1)
            guard += 1
            if guard > 10 * n + 50:
                raise harness.MachineryError("solo run does not terminate")
        seen = [d for _, _, d in w.seen]
    finally:
        w.teardown()
    try:
        with open(fp, "rb") as f:
            seen.append(f.read())
    except OSError:
        seen.append(None)
    full = row_bytes(ctx, n)
    distinct = []
    for d in seen:
        if d is not None and d not in distinct:
            distinct.append(d)
    for d in distinct:
        outcome = "ok" if d == full else later_run_outcome(ctx, n, d, "vis2")
        ctx.count("visible_cache_states_checked")
        ctx.evaluations += 1
        if outcome != "ok":
            ctx.violation(f"C36/visible/partial-file-under-cache-name/{outcome.split(':')[0]}", {"kind": "visible", "n": n},
                          f"n={n}: while the writer runs, {len(d)} of {len(full)} bytes are visible under the cache name; a run "
                          f"that finds this file: {outcome}", subcheck="publish")


def publish_leg(ctx, n):
    """The file moved under the cache name must be complete *on disk* at the moment of the move (added after seed
    C36-b: the rename was issued before the handle was flushed and closed).  A solo writer is run through the gates;
    whatever its rename/replace publishes is offered, byte for byte as it was on disk at that moment, to a later
    run -- the crash point 'right after the rename' and the view of a concurrent reader."""
    ev, res, err = solo(ctx, n, "pub1")
    if err is not None:
        return
    fbase = os.path.basename(final_path(n))
    correct = cc.correct_table(n)
    for p, name, data in list(_LAST_PUBLISHED):
        if name != fbase:
            continue
        ctx.count("published_files_checked")
        ctx.evaluations += 1
        outcome = "source-file-missing" if data is None else later_run_outcome(ctx, n, data, "pub2")
        ctx.nontriv(f"publish-{n}")
        if outcome != "ok":
            full = row_bytes(ctx, n)
            ctx.violation(f"C36/publish/incomplete-file-published/{outcome.split(':')[0]}",
                          {"kind": "publish", "n": n},
                          f"n={n}: when the writer moves its file to the cache name only {0 if data is None else len(data)} of "
                          f"{len(full)} bytes have reached the file system; a run that finds this file (writer stopped right "
                          f"after the move, or a concurrent reader): {outcome}", subcheck="publish")


def detect(ctx, n):
    ev, res, err = solo(ctx, n, "det1")
    if err is not None:
        raise harness.MachineryError(f"solo cache writer failed: {err!r}")
    names = [e[1] for e in ev]
    fbase = os.path.basename(final_path(n))
    info = {"events": [(e[1], e[2]) for e in ev]}
    opens = [e for e in ev if e[1] == "open"]
    writes = [e for e in ev if e[1] == "write"]
    renames = [e for e in ev if e[1] == "rename"]
    variant = "unknown"
    nchunks = len(row_bytes(ctx, n).splitlines())
    info["chunks"] = nchunks
    if len(opens) == 1 and len(writes) == nchunks:
        if opens[0][2] == fbase and not renames and names == ["stat", "open"] + ["write"] * nchunks + ["close"]:
            variant = "inplace"
        elif opens[0][2] != fbase and len(renames) == 1 and tuple(renames[0][2]) == (opens[0][2], fbase) \
                and names == ["stat", "open"] + ["write"] * nchunks + ["close", "rename"]:
            ev2, _, _ = solo(ctx, n, "det2")
            o2 = [e for e in ev2 if e[1] == "open"]
            # second process id differs only through os.getpid()/random names
            w2 = None
            try:
                fresh_dir(ctx, "det3")
                w2 = cc.World(os.path.dirname(final_path(n)), n)
                w2.install()
                w2.spawn(2)
                while w2.at[2][0] != "finished":
                    w2.step(2)
                o3 = [e for e in w2.events if e[1] == "open"]
            finally:
                if w2 is not None:
                    w2.teardown()
            same = (o2 and o2[0][2] == opens[0][2]) and (o3 and o3[0][2] == opens[0][2])
            variant = "sharedtmp" if same else "uniquetmp"
            info["tmp_names"] = [opens[0][2], o2[0][2] if o2 else None, o3[0][2] if o3 else None]
    # validation on read: offer a file holding only the first row
    table = cc.correct_table(n)
    ev3, res3, err3 = solo(ctx, n, "det4", prefill=b"".join(row_bytes(ctx, n).splitlines(keepends=True)[:max(1, len(row_bytes(ctx, n).splitlines()) - n + 1)]))
    validate = any(e[1] == "open" for e in ev3)
    info["validate"] = validate
    info["variant"] = variant
    del table
    return variant, validate, info


_ROWS = {}


def row_bytes(ctx, n):
    """bytes of a complete cache file as the real code writes it"""
    if n not in _ROWS:
        fresh_dir(ctx, "rows")
        from tsdate import prior
        prior.ConditionalCoalescentTimes(n)
        b = open(final_path(n), "rb").read()
        if len(b.splitlines()) < n:
            raise harness.MachineryError(f"cache file has {len(b.splitlines())} lines, expected at least {n}")
        _ROWS[n] = b
    return _ROWS[n]


ACTION_GATE = {"stat": "stat", "read": "read", "open": "open", "write": "write", "close": "close",
               "rename": "rename"}


def replay_behaviour(ctx, n, hist, tag):
    """hist = [[p, action], ...] from Cache.tla.  Returns dict(final=chunks, used={p: chunks},
    pc={p: state}, mismatch=None or text)."""
    fresh_dir(ctx, tag)
    fp = final_path(n)
    correct = cc.correct_table(n)
    cbytes = row_bytes(ctx, n)
    fresh_dir(ctx, tag)
    w = cc.World(os.path.dirname(fp), n)
    w.install()
    crashed = set()
    try:
        for p, a in hist:
            p = int(p)
            if a in ("compute", "use"):
                continue
            if a == "crash":
                crashed.add(p)
                continue
            if p not in w.threads:
                w.spawn(p)
            at = w.at[p][0]
            if at != ACTION_GATE[a]:
                return {"mismatch": f"process {p}: model action {a} but the code is at gate {at} "
                                    f"(events so far {[(e[0], e[1]) for e in w.events]})"}
            w.step(p)
        out = {"mismatch": None, "final": cc.chunks_of_file(fp, cbytes, n), "used": {}, "pc": {}}
        for p in w.threads:
            if p in crashed:
                out["pc"][p] = "crashed"
            elif p in w.errors:
                out["pc"][p] = "error"
                out["used"][p] = repr(w.errors[p])
            elif w.at[p][0] == "finished":
                out["pc"][p] = "done"
                out["used"][p] = cc.chunks_of_table(w.results.get(p), correct, header_chunks=len(cbytes.splitlines()) - n)
            else:
                out["pc"][p] = "at:" + w.at[p][0]
        return out
    finally:
        w.teardown()


def parse_hist(trace_states):
    """hist variable of the last state of a TLC error trace"""
    txt = trace_states[-1]
    m = re.search(r"hist = (<<.*?>>)\s*(?:/\\|$)", txt, re.S)
    if not m:
        return None
    return [[int(p), a] for p, a in re.findall(r'<<(\d+), "(\w+)">>', m.group(1))]


def cache_cfg(ctx, name, variant, validate, procs, K, emit, invariants, props=()):
    return ctx.write_cfg(name, spec="Spec", constants={
        "Procs": "{" + ",".join(map(str, procs)) + "}", "K": K, "Variant": json.dumps(variant),
        "Validate": "TRUE" if validate else "FALSE", "MaxCrash": 1, "EmitBehaviours": "TRUE" if emit else "FALSE"},
        invariants=invariants, properties=list(props))


def crash_sweep(ctx, n, variant, info, offsets):
    """J3: stop a writer after k bytes, then let a later (ungated) run construct the priors."""
    from tsdate import prior
    full = row_bytes(ctx, n)
    correct = cc.correct_table(n)
    events = []
    for k in offsets:
        d = fresh_dir(ctx, "crash")
        fp = final_path(n)
        if variant == "inplace" or variant == "unknown":
            target = fp
        else:
            target = os.path.join(os.path.dirname(fp), info["tmp_names"][0])
        with open(target, "wb") as f:
            f.write(full[:k])
        before = open(fp, "rb").read() if os.path.exists(fp) else None
        outcome, equal = "identical", False
        try:
            cct = prior.ConditionalCoalescentTimes(n)
            tab = np.array(cct.approx_priors, dtype=float)
            equal = tab.shape == correct.shape and np.array_equal(tab, correct)
            after = open(fp, "rb").read() if os.path.exists(fp) else None
            if not equal:
                outcome = "wrong"
            elif after != before:
                outcome = "recomputed"
        except Exception as ex:  # noqa: BLE001
            outcome = "exception:" + type(ex).__name__
        events.append({"tid": f"n{n}-off{k}", "n": n, "offset": k, "outcome": outcome, "table_equal": bool(equal)})
        ctx.evaluations += 1
        if 0 < k < len(full):
            ctx.nontriv(f"crash-{n}-{k}")
        del d
    path = os.path.join(ctx.work, f"crash-{n}.ndjson")
    with open(path, "w") as f:
        for e in events:
            f.write(json.dumps(e) + "\n")
    cfg = ctx.write_cfg("CacheCrash.cfg", spec="TraceSpec")
    r = ctx.tlc("CacheCrash", cfg, workers=1, coverage=False, env={"TRACE_FILE": path}, must_hold=False)
    acc = r.rec("accepted")
    if not acc:
        raise harness.MachineryError("CacheCrash gave no verdict\n" + r.stdout[-2000:])
    rej = r.rec("reject")
    ctx.traces += len(events)
    by = {e["tid"]: e for e in events}
    kinds = {}
    for x in rej:
        e = by[x["tid"]]
        kinds.setdefault(e["outcome"].split(":")[0], []).append(e)
    for kind, es in kinds.items():
        ctx.violation(f"C36/crash-point/{variant}/{kind}", {"kind": "crash", "n": n, "variant": variant,
                                                             "offsets": [e["offset"] for e in es][:50], "example": es[0]},
                      f"{len(es)} of {len(events)} crash offsets (n={n}): later run outcome '{es[0]['outcome']}' "
                      f"(e.g. writer stopped after {es[0]['offset']} bytes)", subcheck="crash")
    ctx.sample({"kind": "crash sweep", "n": n, "variant": variant, "offsets": len(events),
                "outcomes": {o: sum(1 for e in events if e["outcome"] == o) for o in {e["outcome"] for e in events}}})


def run(ctx):
    harness.setup_repo_env(ctx.work)
    q = ctx.quick
    import tsdate  # noqa: F401
    K = 2 if q else 3
    ctx.rule = ("schedules = TLC behaviours of spec/Cache.tla (3 processes, K-row table, <= 1 writer crash) replayed "
                "on the real code through gated file-system calls; crash points = every byte offset of the file a "
                "writer writes; non-trivial = crash strictly inside the file, or a behaviour with >= 2 processes "
                "interleaved")
    ctx.assumptions = ["threads with gated fs calls emulate processes (os.getpid is shimmed per process)",
                       "a crashed writer leaves exactly the bytes it had written (any prefix is covered)"]
    n_rows = K
    variant, validate, info = detect(ctx, n_rows)
    K = info["chunks"]  # chunks of the model = lines the code writes (rows, plus a header if any)
    ctx.extra["detected_variant"] = variant
    ctx.extra["detected_validate"] = validate
    ctx.extra["solo_events"] = info["events"]
    for n in ([2, 10, 200] if q else [2, 10, 200, 1000]):
        publish_leg(ctx, n)      # 200+ rows: more than one buffer of a buffered writer
    if variant == "unknown":
        # the writer's file-system calls are none of the protocols Cache.tla models (in place / shared temp / unique
        # temp, each written through np.savetxt(path)): the model's behaviours cannot be replayed on it and nothing
        # is inferred from them.  Not an alarm: the protocol-agnostic legs decide.
        ctx.count("protocol_not_modelled")
        print("CONFORMANCE-DRIFT property=C36 the cache writer's file-system calls match none of Cache.tla's protocol "
              f"variants (solo run: {[e[0] for e in info['events']][:12]}); schedules of the model are not replayed, the "
              "publish / visibility legs judge what other processes and later runs can find on disk")
        for n in ([2, 10, 200] if q else [2, 10, 200, 1000]):
            visibility_leg(ctx, n)
        return
    mvar = variant if variant != "unknown" else "inplace"
    procs = [1, 2, 3]
    cfg = cache_cfg(ctx, "cache_j1.cfg", mvar, validate, procs, K, False, ["Safe", "NoError", "FinalNeverTorn"])
    r = ctx.tlc("Cache", cfg, workers=4, must_hold=False)
    if r.violated:  # get the counterexample as a behaviour (history variable on)
        cfg = cache_cfg(ctx, "cache_cex.cfg", mvar, validate, procs, K, True, [r.violated])
        r = ctx.tlc("Cache", cfg, workers=1, must_hold=False, coverage=False)
    if r.violated:
        hist = parse_hist(r.error_trace)
        if not hist:
            raise harness.MachineryError("cannot read the counterexample behaviour from TLC's error trace")
        out = replay_behaviour(ctx, n_rows, hist, "cex")
        ctx.traces += 1
        ctx.evaluations += 1
        ctx.sample({"kind": "TLC counterexample replayed", "violated": r.violated, "behaviour": hist, "real": out})
        if out.get("mismatch"):
            raise harness.MachineryError("counterexample does not replay on the code: " + out["mismatch"])
        bad = {p: u for p, u in out["used"].items() if out["pc"][p] in ("done", "error")
               and u != list(range(1, K + 1))}
        if bad:
            ctx.nontriv("cex")
            ctx.violation(f"C36/schedule/{mvar}/{r.violated}", {"kind": "schedule", "K": K, "n": n_rows, "hist": hist},
                          f"protocol '{mvar}' (validate={validate}) violates {r.violated}; replaying TLC's "
                          f"counterexample on the real code: processes {sorted(bad)} ended with {bad}",
                          subcheck="schedule")
        else:
            raise harness.MachineryError(f"model violates {r.violated} but the replay on the code is safe: {out}")
    else:
        # liveness on the safe design, then replay of simulated behaviours
        cfgl = cache_cfg(ctx, "cache_live.cfg", mvar, validate, [1, 2], K, False, ["Safe", "NoError"],
                         props=["EventuallyCached"])
        ctx.tlc("Cache", cfgl, workers=4, coverage=False)
        cfgs = cache_cfg(ctx, "cache_sim.cfg", mvar, validate, procs, K, True, ["Safe", "NoError", "EmitInv"])
        rs = ctx.tlc("Cache", cfgs, workers=4, coverage=False, simulate={"num": 100 if q else 800}, depth=60)
        behs = rs.rec("beh")
        seen = {}
        for b in behs:
            seen.setdefault(json.dumps(b["hist"]), b)
        behs = list(seen.values())
        ctx.rng.shuffle(behs)
        behs = behs[: 150 if q else 1500]
        for i, b in enumerate(behs):
            out = replay_behaviour(ctx, n_rows, b["hist"], f"beh")
            ctx.traces += 1
            ctx.evaluations += 1
            if out.get("mismatch"):
                ctx.violation(f"C36/schedule/{mvar}/code-leaves-protocol", {"kind": "schedule", "K": K, "n": n_rows, "hist": b["hist"]},
                              "the code's file-system calls leave the protocol of Cache.tla: " + out["mismatch"],
                              subcheck="schedule")
                continue
            if len({p for p, _ in b["hist"]}) > 1:
                ctx.nontriv(json.dumps(b["hist"]))
            mfinal = None if b["final"] == [-1] else list(b["final"])
            ok = out["final"] == mfinal
            for p in out["pc"]:
                mp = b["pc"][p - 1] if isinstance(b["pc"], list) else b["pc"][str(p)]
                mu = b["used"][p - 1] if isinstance(b["used"], list) else b["used"][str(p)]
                if mp == "done":
                    ok = ok and out["pc"][p] == "done" and out["used"][p] == list(mu)
                elif mp == "crashed":
                    ok = ok and out["pc"][p] == "crashed"
            if not ok:
                safe = all(out["used"][p] == list(range(1, K + 1)) for p in out["used"] if out["pc"][p] == "done") \
                    and "error" not in out["pc"].values()
                if not safe:
                    ctx.violation(f"C36/schedule/{mvar}/Safe-on-code", {"kind": "schedule", "K": K, "n": n_rows, "hist": b["hist"]},
                                  f"replayed behaviour ends with {out} on the code, model says {b}", subcheck="schedule")
                else:
                    raise harness.MachineryError(f"code and Cache.tla disagree on a safe behaviour: code {out} model {b}")
            if i < 2:
                ctx.sample({"kind": "behaviour replayed", "hist": b["hist"], "real": out})
    for n in ([10] if q else [10, 20]):
        size = len(row_bytes(ctx, n))
        offs = list(range(0, size + 1)) if not q else sorted(set(range(0, size + 1, 3)) | {size, size - 1, 1})
        crash_sweep(ctx, n, variant, info, offs)


def replay(ctx, body):
    harness.setup_repo_env(ctx.work)
    import tsdate  # noqa: F401
    inst = body["instance"]
    if inst["kind"] == "schedule":
        out = replay_behaviour(ctx, inst.get("n", inst["K"]), inst["hist"], "rp")
        K = inst["K"]
        bad = {p: u for p, u in out.get("used", {}).items() if out["pc"][p] in ("done", "error") and u != list(range(1, K + 1))}
        ctx.traces += 1
        if out.get("mismatch") or bad:
            ctx.violation(body["signature"], inst, f"replay: {out}", subcheck="schedule")
    elif inst["kind"] == "publish":
        publish_leg(ctx, inst["n"])
    elif inst["kind"] == "visible":
        visibility_leg(ctx, inst["n"])
    else:
        variant, validate, info = detect(ctx, 2)
        crash_sweep(ctx, inst["n"], variant, info, inst["offsets"])
