"""C34 -- the command-line interface is faithful to the Python API.

J1  TLC: module CLI.  argv (a choice of absent / alternative spellings and values per
    option, both sub-commands, positional and option-first order, unreadable input files,
    unknown flags, ill-typed literals) is parsed by the specification's argparse model over
    the declared option table and dispatched as run_date / run_preprocess do; invariants
    UsageExact, Faithful (every option given reaches the API with the value given, booleans
    off included), NoInvention, Routing (method-specific parameters), RejectsIrrelevant,
    Verbosity.  Self-test: with Variant = "impl" (type=bool, split_disjoint dropped) TLC must
    refute Faithful.
J2  every emitted behaviour (exhaustive up to a bound on the number of options given, plus
    simulated deeper combinations) is replayed into tsdate.cli.tsdate_main(argv) in-process:
    exit status / exception, presence of the output file, parsed namespace, keyword
    arguments reaching tsdate.date / tsdate.preprocess_ts, the log level, and the written
    tree sequence against the direct Python call with the option values the specification
    says were given (tables equal once provenance timestamps / resources are removed).
"""

from .. import cli_common as cc
from .. import harness

PID = "C34"
BOOL_OPTS = ("erase_flanks", "split_disjoint")


def run(ctx):
    harness.setup_repo_env(ctx.work)
    q = ctx.quick
    ctx.rule = ("command lines = sub-command x per option {absent, 2-6 spellings/values incl. short/long/alias forms, "
                "ill-typed literals, explicit boolean values and negative flags} x argument order x {readable, "
                "garbage, missing} input; exhaustive up to the stated number of simultaneously given options (method, "
                "mutation rate and the three preprocess options always vary freely), simulated beyond; non-trivial = "
                "distinct command lines replayed with at least one option given; distinct by (sub-command, choices, "
                "input)")
    ctx.assumptions = [
        "-e/--epsilon is accepted and ignored with --method variational_gamma (pinned by tests/test_cli.py::"
        "TestEndToEnd::test_epsilon); -v only selects the log level",
        "a parser may refuse a particular spelling of a boolean value (usage error), but a spelling it accepts must "
        "deliver the value, and at least one spelling must switch each boolean option off",
        "the direct Python call passes exactly the options given (progress=False when -p is absent, as the flag "
        "means); provenance timestamps and the resources block are the 'timing details' ignored",
        "API errors (ValueError / NotImplementedError escaping tsdate_main) count as 'exit with an error'",
    ]
    jobs = [
        lambda c: cc.refute_impl(c, "c34_impl"),
        lambda c: cc.generate_checked(c, "c34_pre", "preprocess", max_given=1 if q else 5, emit_upto=0 if q else 5),
        lambda c: cc.generate_checked(c, "c34_date", "date", max_given=1 if q else 4, emit_upto=1 if q else 2),
        lambda c: cc.generate(c, "c34_date_sim", "date", max_given=16, emit_upto=16, simulate=160 if q else 6000),
        lambda c: cc.generate(c, "c34_pre_sim", "preprocess", max_given=16, emit_upto=16, simulate=120 if q else 1000),
    ]

    def warm():
        import tsdate  # noqa: F401  (numba import overlaps with the TLC runs)
        import tsdate.cli  # noqa: F401

    res = cc.parallel(ctx, jobs, also=warm)
    cases = res[1] + res[2]
    sim = res[3] + res[4]
    seen = {(c["sub"], tuple(c["pick"])) for c in cases}
    for c in sim:
        if (c["sub"], tuple(c["pick"])) not in seen:
            seen.add((c["sub"], tuple(c["pick"])))
            cases.append(c)
    ctx.exhaustive = False
    n_inputs = 1 if q else 2
    bench = cc.Bench(ctx, n_inputs=n_inputs)

    # multi-process runs (--num-threads 2) cost seconds each: replay a bounded sample of them
    slow = [c for c in cases if c["kind"] == "call" and c["outcome"] == "as_api"
            and c["kwargs"].get("num_threads", ["none"]) == ["int", "2"]]
    keep_slow = set(id(c) for c in ctx.rng.sample(slow, min(len(slow), 2 if q else 12)))
    switched_off = {o: 0 for o in BOOL_OPTS}
    off_cases = {o: 0 for o in BOOL_OPTS}
    for c in cases:
        if c in slow and id(c) not in keep_slow:
            ctx.count("multithread_cases_not_replayed")
            continue
        for idx in range(n_inputs if c["input"] == "good" and c["kind"] == "call" else 1):
            ok = cc.check_case(ctx, bench, c, idx)
            ctx.traces += 1
            if c["sub"] == "preprocess" and c["kind"] == "call" and idx == 0:
                for o in BOOL_OPTS:
                    if c["kwargs"][o] == ["bool", "False"]:
                        off_cases[o] += 1
                        switched_off[o] += bool(ok)
        if c["given"]:
            ctx.nontriv((c["sub"], tuple(c["pick"])))
        if c["kind"] == "call":
            ctx.sample({"argv": " ".join(c["argv"]), "kwargs": c["kwargs"], "outcome": c["outcome"]}, limit=4)
    for o in BOOL_OPTS:
        if off_cases[o] and not switched_off[o] and not any(
                v[0].startswith(f"C34/preprocess/{cc.slug(o)}-") for v in ctx.violations) and not ctx.known_hits:
            ctx.violation(f"C34/preprocess/{cc.slug(o)}-cannot-be-switched-off", {"option": o},
                          f"no spelling of --{cc.slug(o)} switches the option off")
    for sub in ("date", "preprocess"):
        ctx.count(f"distinct_outputs_{sub}", len(bench.outputs[sub]))
    if len(bench.outputs["date"]) < 4 or len(bench.outputs["preprocess"]) < 3:
        raise harness.MachineryError(f"vacuous replay: the option values do not change the outputs "
                                     f"({ {k: len(v) for k, v in bench.outputs.items()} })")


def replay(ctx, body):
    harness.setup_repo_env(ctx.work)
    inst = body["instance"]
    if "case" not in inst:
        return run(ctx)
    bench = cc.Bench(ctx, n_inputs=inst.get("input_index", 0) + 1)
    cc.check_case(ctx, bench, inst["case"], inst.get("input_index", 0))
