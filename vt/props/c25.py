"""C25 -- time rescaling is an order-preserving recalibration.

J1  TLC: module Rescale.  The difference-array epochs of mutational_area against a direct
    overlap computation (rational rates), totals conserved, the breakpoints of
    mutational_timescale (changepoints by the defining inequality of C26, ties free,
    adjust = cumsum(z*y/n)), and the point map: continuous, non-decreasing on a grid of
    half-integer probes, fixes 0, keeps fixed nodes, preserves the order of free nodes.
J2  every finished behaviour (and seeded larger instances evaluated by TLC) is replayed
    into the real mutational_area / mutational_timescale / piecewise_scale_point_estimate;
    results must equal the TLC-computed rationals (bitwise when representable, else
    rel 1e-12), AssertionErrors must be the ones the specification predicts.
J3  real variational_gamma runs (date(..., return_fit=True)) over corpus x
    rescaling_intervals x rescaling_iterations x match_segregating_sites are observed at
    ExpectationPropagation.rescale: posteriors before/after and the breakpoints used;
    each call becomes one RescaleTrace event (ranks + named tolerance predicates)
    decided by TLC.
"""

import json

from .. import harness
from .. import rescale_common as rc

PID = "C25"
CHECKS = ["OrderPreserved", "SamplesUntouched", "ShapeCap", "MeanMapped", "BreaksMonotone", "FixesZero",
          "MapMonotone", "MapContinuous"]


def run(ctx):
    harness.setup_repo_env(ctx.work)
    q = ctx.quick
    ctx.rule = ("Rescale instances = (node times incl. ties, fixed set, edges incl. non-positive lengths with "
                "mutation counts and spans, max_intervals) in the bounded scope + seeded larger ones, replayed into the "
                "three kernels; non-trivial = >= 2 epochs, >= 1 mutation, outcome ok.  rescale() calls = corpus x "
                "intervals x iterations x match_segregating_sites; non-trivial = the map moved >= 1 free node")
    ctx.assumptions = ["the smallest node time is 0 (the code hard-wires the first epoch break to 0.0)",
                       "total offset*duration > 0 (otherwise the changepoint helper divides by zero)",
                       "floats: TLC's rationals are compared bitwise when representable, else rel 1e-12 (A1)",
                       "rescaled posterior means are ranked after clustering values within rel 1e-12 (A4)",
                       "date() calls that raise (e.g. 'Use fewer rescaling intervals') are C35's concern and are "
                       "counted, not judged"]
    import time
    t0 = time.time()
    # larger instances: seeded random ones, and (thorough) instances drawn by TLC -simulate from a larger scope;
    # they are evaluated exhaustively by TLC (all tie resolutions) with Source = "file" / "both"
    rows = rc.random_rescale_instances(ctx.rng, 60 if q else 800)
    scope = dict(max_n=3, max_t=2, max_edges=2 if q else 3, max_m=1, spans=(1, 2),
                 js=(1, 2) if q else (1, 2, 3), fixed_modes=("zeros",) if q else ("zeros", "last"), emit=True)
    if q:   # one JVM: the exhaustive scope and the random instances together
        path = rc.write_ndjson(rc.work_file(ctx, "c25_inst.ndjson"), rows)
        r = rc.rs_run(ctx, "c25_j1", rc.RS_INVARIANTS + ["EmitInv"], inst_file=path, source="both",
                      required=("Pick", "Load") + rc.RS_ACTIONS, **scope)
        recs = [x for x in r.rec("resc") if x["id"] == 0]
        big = rc.group_rescale([x for x in r.rec("resc") if x["id"] != 0])
    else:
        r = rc.rs_run(ctx, "c25_j1", rc.RS_INVARIANTS + ["EmitInv"], **scope)
        recs = r.rec("resc")
        # four nodes: up to three epochs
        rb = rc.rs_run(ctx, "c25_j1b", rc.RS_INVARIANTS + ["EmitInv"], max_n=4, max_t=3, max_edges=2, max_m=1,
                       spans=(1,), js=(2, 3), fixed_modes=("zeros",), emit=True)
        recs = recs + rb.rec("resc")
        r2 = rc.rs_run(ctx, "c25_j1s", rc.RS_INVARIANTS + ["EmitInv"], simulate=1500, depth=40, max_n=5, max_t=4,
                       max_edges=5, max_m=3, spans=(1, 2, 3), js=(1, 2, 3, 4), fixed_modes=("none", "zeros", "last"),
                       emit=True)
        seen = set()
        for x in r2.rec("resc"):
            key = json.dumps([x["time"], sorted(x["fixed"]), x["edges"], x["J"]])
            if key not in seen:
                seen.add(key)
                rows.append({"id": 100000 + len(seen), "time": x["time"], "fixed": sorted(x["fixed"]),
                             "edges": x["edges"], "J": x["J"], "mu": [1, 1]})
        ctx.count("instances_drawn_by_simulation", len(seen))
        path = rc.write_ndjson(rc.work_file(ctx, "c25_inst.ndjson"), rows)
        r3 = rc.rs_run(ctx, "c25_j2f", rc.RS_INVARIANTS + ["EmitInv"], inst_file=path, source="file", emit=True,
                       required=("Load",) + rc.RS_ACTIONS)
        big = rc.group_rescale(r3.rec("resc"))
    groups = rc.group_rescale(recs)
    ctx.exhaustive = True
    cap = 4000 if q else 60000
    if len(groups) > cap:
        groups = ctx.rng.sample(groups, cap)
        ctx.exhaustive = False
    if not (groups and big):
        raise harness.MachineryError("vacuous run: no Rescale instance was emitted")
    ctx.count("instances_exhaustive_scope", len(groups))
    ctx.count("instances_larger_evaluated_by_tlc", len(big))
    t1 = time.time()
    for g in groups + big:
        rc.check_kernels(ctx, PID, g)
        ctx.traces += 1
    t2 = time.time()

    rt = rc
    ev, meta = rt.ep_events(ctx, PID, rt.ep_corpus(ctx), rt.ep_settings(ctx))
    rt.judge(ctx, PID, CHECKS, ev, meta, "rescale")
    ctx.count("rescale_calls_traced", len(ev))
    ctx.extra["wall_breakdown_s"] = {"tlc_rescale": round(t1 - t0, 1), "kernel_replay_incl_import": round(t2 - t1, 1),
                                     "rescale_calls_and_trace": round(time.time() - t2, 1)}


def replay(ctx, body):
    harness.setup_repo_env(ctx.work)
    b = body["instance"]
    if b.get("kind") == "kernels":
        rc.check_kernels(ctx, PID, b["inst"])
    else:
        rt = rc
        rt.judge(ctx, PID, b.get("checks", CHECKS), [b["event"]], {}, body.get("subcheck") or "rescale")
