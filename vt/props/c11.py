"""C11 -- discrete-time dating is invariant to node numbering and input time order.

J1  TLC.  (a) module IOOrder: the three traversals the code derives from input ids and input
    times (edge table; np.lexsort by (-time[child], child); reversed structured argsort by
    (child_age, child_node, -parent_age)) are, for every DAG, every renumbering of the non-sample
    nodes and every assignment of input times that keeps the tree sequence valid, admissible
    schedules: children before parents resp. parents before children, one contiguous group per
    node.  (b) module InsideOutside: for every admissible schedule of inside and outside groups
    (TLC explores all interleavings) and every renumbering the final posterior equals the same
    declarative marginal -- confluence.  (c) module IOMax: every admissible schedule and every
    order of a child's edges gives the same maximiser (EdgeOrderFree), in the arg-max set.
J2  IOOrder instances are realised as tree sequences (each edge on its own interval): the real
    edges_by_parent_asc / edges_by_child_desc / edges_by_child_then_parent_desc must produce
    the specification's sequences (the last one up to key ties), and the real outside_pass must
    use exactly the messages of the model.  InsideOutside instances x renumberings are replayed
    through the table doubles: the posterior mapped through the renumbering equals TLC's.
Real metamorphic pairs on simulated inputs (contemporaneous samples, no ignore_oldest_root):
    tsdate.inside_outside and tsdate.maximization before / after (i) a random renumbering of the
    non-sample nodes, (ii) a random valid re-timing of the non-sample input times (unrelated
    nodes may swap order), (iii) both; returned node times mapped through the permutation agree
    to rtol 1e-9.  maximization pairs within 1e-9 of an arg-max tie are skipped (counted).
"""

import random

import numpy as np

from .. import bp_common as bp
from .. import harness

PID = "C11"


def pairs(ctx, name, ts, mu, Ne, method, space, seed, variants=("renumber", "retime", "both")):
    inst = {"kind": "pair", "name": name, "ts": bp.ts_instance(ts), "mu": mu, "Ne": Ne, "method": method,
            "space": space, "seed": seed}
    try:
        d0, f0 = bp.run_method(method, ts, mu, Ne, space)
    except Exception as ex:  # noqa: BLE001
        ctx.count("base_run_raised_" + type(ex).__name__)
        return
    if method == "maximization":
        ties = bp.check_real_maximization(ctx, PID, name, ts, f0, 1e-8, mu, space, inst, report=False)
        if ties is not None and ties > 0:      # (None: the rule itself is broken -- C13's business; compare anyway)
            ctx.count("guard_skipped_argmax_tie")
            return
    t0 = np.asarray(d0.nodes_time)
    for v in variants:
        rng = random.Random(f"{seed}-{v}")
        ts2, perm = ts, list(range(ts.num_nodes))
        if v in ("retime", "both"):
            ts2 = bp.retime(ts2, rng)
        if v in ("renumber", "both"):
            ts2, perm = bp.renumber(ts2, rng)
        try:
            d1, _ = bp.run_method(method, ts2, mu, Ne, space)
        except Exception as ex:  # noqa: BLE001
            ctx.violation(f"{PID}/{method}/{v}/{type(ex).__name__}", dict(inst, variant=v),
                          f"{name}: {method} raised {type(ex).__name__}: {ex} after {v} (base run succeeded)", "pairs")
            continue
        t1 = np.asarray(d1.nodes_time)[perm]
        ctx.evaluations += 1
        if not np.allclose(t0, t1, rtol=1e-9, atol=0):
            w = int(np.argmax(np.abs(t0 - t1) / np.maximum(np.abs(t0), 1e-300)))
            ctx.violation(f"{PID}/{method}/{v}/node-times-differ", dict(inst, variant=v),
                          f"{name}: node {w}: {t0[w]!r} before, {t1[w]!r} after {v} ({space})", "pairs")
    ctx.traces += 1
    if ts.num_nodes - ts.num_samples >= 2:
        ctx.nontriv(("pair", name, method, space))
    ctx.sample({"kind": "renumber / retime pairs", "name": name, "method": method, "space": space, **bp.ts_summary(ts)},
               limit=4)


def run(ctx):
    harness.setup_repo_env(ctx.work)
    q = ctx.quick
    ctx.rule = ("order instances: (DAG on 2 samples + 3 non-sample nodes, input times 1..3 with ties between unrelated "
                "nodes, renumbering); non-trivial when the renumbering is not the identity or two unrelated nodes tie "
                "or swap; pairs: inputs with >= 2 non-sample nodes, one per (input, method, space), each with 3 variants")
    ctx.assumptions = [
        "samples all at time 0, no ignore_oldest_root (statement)",
        "geometric span scaling for nodes with several parents is not modelled arithmetically in TLC (order-admissibility "
        "and message sets are; arithmetic confluence is checked on single trees and, for maximisation, on DAGs); the "
        "metamorphic pairs cover it on the real code",
        "products over a node's edges commute exactly in the model and to rounding in the code (rtol 1e-9)",
    ]
    _, dags = bp.order_run(ctx, "c11_o", NS=2, NI=3, max_edges=5 if q else 6, tmax=3, emit=True)
    if not q:
        _, more = bp.order_run(ctx, "c11_o3", NS=3, NI=3, max_edges=5, tmax=3, emit=True)
        dags += more
    _, insts = bp.io_run(ctx, "c11_io", NS=4, NI=3, G=2, vals=(0, 1, 2), perms="all", mode="hash",
                         seeds=range(1, 7 if q else 300), canon=q, min_kids=2, emit=True)
    bp.max_run(ctx, "c11_m", NS=2, NI=3, G=2, mult=1, max_edges=2 if q else 3, ins=(0, 1), lik=(1, 2))
    bp.tick(ctx, "tlc")
    bp.tsd()
    bp.tick(ctx, "import_tsdate")
    cap = 1500 if q else 30000
    ctx.exhaustive = len(dags) <= cap
    if len(dags) > cap:
        dags = ctx.rng.sample(dags, cap)
    for k, d in enumerate(dags):
        bp.replay_order(ctx, PID, d, bp.SPACES[k % 2], ignore=False)
        ctx.traces += 1
        if d["perm"] != sorted(d["perm"]) or len(set(d["time"][d["NS"]:])) < d["N"] - d["NS"]:
            ctx.nontriv(("dag", str(d["edges"]), str(d["perm"]), str(d["time"])))
    bp.tick(ctx, "replay_orders")
    proper = [i for i in insts if i["status"] == "done" and i["perm"] != sorted(i["perm"])]
    cap = 500 if q else 20000
    if len(proper) > cap:
        proper = ctx.rng.sample(proper, cap)
    for inst in proper:
        ok = False
        for space in bp.SPACES:
            ok = bp.replay_io(ctx, PID, inst, space) or ok
        if ok:
            ctx.traces += 1
            ctx.nontriv(bp.io_key(inst))
    bp.tick(ctx, "replay_doubles")
    inputs = bp.sparse_corpus(ctx, 10 if q else 150) + bp.corpus(ctx, 4 if q else 40, 1 if q else 8, small=q)
    for k, inp in enumerate(inputs):
        for method in ("inside_outside", "maximization"):
            pairs(ctx, inp.name, inp.ts, inp.mu, inp.Ne, method, bp.SPACES[(k + 1) % 2], ctx.seed + k)
    bp.tick(ctx, "pairs")


def replay(ctx, body):
    harness.setup_repo_env(ctx.work)
    inst = body["instance"]
    if inst.get("kind") == "pair":
        pairs(ctx, inst["name"], bp.ts_from_instance(inst["ts"]), inst["mu"], inst["Ne"], inst["method"], inst["space"],
              inst["seed"], variants=(inst["variant"],) if "variant" in inst else ("renumber", "retime", "both"))
    elif "maxrank" in inst:
        for space in bp.SPACES:
            bp.replay_order(ctx, PID, inst, space, ignore=False)
    else:
        for space in bp.SPACES:
            bp.replay_io(ctx, PID, inst, space)
