"""Regenerate /verif/MANIFEST.json from the registry below (python -m vt.manifest)."""
import json
import os

VERIF = os.path.dirname(os.path.dirname(os.path.abspath(__file__)))


NOT_APPLICABLE = {
    "C18": "accuracy of hypergeometric moment matching against numerical integration: no state, ordering or exact "
           "arithmetic for a TLA+ model to decide; TLC cannot evaluate the functions (DESIGN 8)",
    "C19": "near-machine-precision accuracy of digamma/trigamma/log-beta and Newton gamma fits: pure floating-point "
           "numerics of single functions, outside model-based verification (DESIGN 8)",
}


from .registry import CLAIMED  # noqa: E402


def build():
    props = [json.loads(l)["id"] for l in open(os.path.join(VERIF, "properties.jsonl"))]
    checks = []
    for pid in props:
        if pid not in CLAIMED:
            continue
        tech, text, note, ref = CLAIMED[pid]
        checks.append({
            "property_id": pid,
            "quick_cmd": f"bin/check {pid} quick",
            "thorough_cmd": f"bin/check {pid} thorough",
            "evidence_file": f"evidence/{pid}.json",
            "replay_cmd_template": f"bin/check {pid} --replay {{path}}",
            "engine": "tlc+replay",
            "level_claimed": {"category": "model_checking", "text": text, "design_ref": f"DESIGN.md section {ref}"},
            "level_note": note,
            "technique": tech,
        })
    na = []
    for pid in props:
        if pid in CLAIMED:
            continue
        na.append({"property_id": pid,
                   "reason": NOT_APPLICABLE.get(pid, "check not built yet in this round (planned, see DESIGN.md section 7)")})
    hooks_commits = []
    hc = os.path.join(VERIF, "hook_commits.txt")
    if os.path.exists(hc):
        hooks_commits = [l.split()[0] for l in open(hc) if l.strip()]
    m = {
        "version": 1,
        "setup_cmd": "bin/setup",
        "hooks": {
            "guard": "TSDATE_VERIF",
            "enable": "checks import tsdate from /repo's working tree with TSDATE_VERIF=1 in the environment "
                      "(vt/harness.py: setup_repo_env); nothing is installed or copied",
            "baseline_off_cmd": "cd /repo && env -u TSDATE_VERIF /venv/bin/python -m pytest -ra -q -p no:cacheprovider "
                                "--timeout=900 --continue-on-collection-errors",
            "source_commits": hooks_commits,
            "add_only": True,
        },
        "engines": [{
            "name": "tlc+replay",
            "path": "bin/check",
            "serves_properties": sorted(CLAIMED),
            "kind_free_text": "TLA+ specifications under spec/ checked with TLC 1.8; bound to /repo by replaying "
                              "TLC-generated behaviours into the real functions and by validating traces recorded "
                              "from real calls against trace specifications (vt/)",
        }],
        "checks": checks,
        "not_applicable": na,
        "notes": "bin/check <id> quick|thorough [--replay path]; exit 0 held / 1 VIOLATION / 2 machinery failure. "
                 "known_findings.json lists recorded and fixed defects.",
    }
    with open(os.path.join(VERIF, "MANIFEST.json"), "w") as f:
        json.dump(m, f, indent=1)
    return m


if __name__ == "__main__":
    m = build()
    import jsonschema
    jsonschema.validate(m, json.load(open("/root/.vp/MANIFEST.schema.json")))
    print("MANIFEST.json:", len(m["checks"]), "claimed,", len(m["not_applicable"]), "not claimed")
