"""Shared machinery for C02 / C04 / C32 / C33: specification modules Session, SessionTrace and
Metadata; an API recorder that turns every real public call of tsdate (date, the three named
methods, preprocess_ts, split_disjoint_nodes) into one SessionTrace event -- every canonical
column of the table collection interned before and after (A3), the provenance table, the keyword
arguments as canonical JSON texts, posterior values of the fit object vs the written metadata
(interned; named tolerance predicates A4), and a classification of what happened to the metadata
columns -- and the batch validation of such events by TLC.

The module doubles as a pytest plugin (`-p vt.session_common`, env VT_SESSION_OUT=<ndjson path>):
it wraps the public entry points at configure time so that every call made by the repository's
own test-suite is recorded (judged on successful returns only, DESIGN 3.3).
"""

import json
import logging
import math
import os
import sys
import traceback

import numpy as np

MD_KEYS = ("mn", "vr")
DATE_FNS = ("date", "variational_gamma", "inside_outside", "maximization")
ALL_FNS = DATE_FNS + ("preprocess_ts", "split_disjoint_nodes")
# keyword arguments that are objects, not values (never part of a provenance record)
OBJECT_KWARGS = ("priors",)

# predicate table (A4), echoed in the evidence
PREDICATES = {
    "eq": "interned equality: same float value after a round trip through the table's own metadata codec; "
          "NaN = NaN; missing key = id 0",
    "prob_row": "all entries >= 0 and |sum - 1| <= 1e-12",
    "close12": "|x - y| <= 1e-12 * max(|x|, |y|)",
    "var_close12": "|x - y| <= 1e-12 * (max(x, y) + |mean| * sqrt(max(x, y))) + 1e-300",
}


# ---------------------------------------------------------------------------------------
# canonical JSON texts of argument values (numbers that are integral print as integers)
# ---------------------------------------------------------------------------------------

class NotAValue(TypeError):
    pass


def canon(v):
    if v is None or isinstance(v, (bool, str)):
        return v
    if isinstance(v, np.bool_):
        return bool(v)
    if isinstance(v, (int, np.integer)):
        return int(v)
    if isinstance(v, (float, np.floating)):
        f = float(v)
        if math.isfinite(f) and f == int(f) and abs(f) < 2 ** 53:
            return int(f)
        return f
    if isinstance(v, np.ndarray):
        return [canon(x) for x in v.tolist()]
    if isinstance(v, (list, tuple)):
        return [canon(x) for x in v]
    if isinstance(v, dict):
        return {str(k): canon(x) for k, x in v.items()}
    if hasattr(v, "as_dict"):
        return canon(v.as_dict())
    raise NotAValue(type(v).__name__)


def jtext(v):
    return json.dumps(canon(v), sort_keys=True)


# ---------------------------------------------------------------------------------------
# canonical column values of a table collection
# ---------------------------------------------------------------------------------------

def _b(a):
    return np.ascontiguousarray(a).tobytes()


def _ragged(col, off):
    b = _b(col)
    off = np.asarray(off, dtype=np.int64) * col.dtype.itemsize
    return [b[off[i]:off[i + 1]] for i in range(len(off) - 1)]


def _schema_text(table):
    return repr(table.metadata_schema)


def decoded_rows(table):
    """[(kind, value)] per row: ("raw", bytes) without schema, ("dec", python value) when the
    table's own schema decodes the row, ("undecodable", bytes) otherwise."""
    rows = _ragged(table.metadata, table.metadata_offset)
    schema = table.metadata_schema
    if schema.schema is None:
        return [("raw", r) for r in rows]
    out = []
    for r in rows:
        try:
            out.append(("dec", schema.decode_row(r)))
        except Exception:  # noqa: BLE001
            out.append(("undecodable", r))
    return out


def schema_defaults(table):
    """{field: default} declared by the table's metadata schema (tskit fills these in on decode,
    so they are not fields anybody wrote)"""
    sch = table.metadata_schema.schema
    if not isinstance(sch, dict) or not isinstance(sch.get("properties"), dict):
        return {}
    return {k: p["default"] for k, p in sch["properties"].items() if isinstance(p, dict) and "default" in p}


def _other_text(kind, val, defaults=None):
    """Canonical text of a row's metadata without the mn / vr fields ('' = nothing there).
    Fields holding their schema-declared default value do not count."""
    if kind == "dec":
        if isinstance(val, dict):
            dflt = defaults or {}
            o = {k: v for k, v in val.items() if k not in MD_KEYS and not (k in dflt and dflt[k] == v)}
            return json.dumps(o, sort_keys=True, default=repr) if o else ""
        if val is None:
            return ""
        return "val:" + json.dumps(val, sort_keys=True, default=repr)
    return ("raw:" + val.hex()) if val else ""


def carries(kind, val):
    return kind == "dec" and isinstance(val, dict) and all(k in val for k in MD_KEYS)


class Snap:
    """Canonical column values (hashable) of a tree sequence plus what the event sections need."""

    def __init__(self, ts):
        import tskit
        t = ts.tables
        c = {}
        c["sequence_length"] = float(t.sequence_length)
        c["time_units"] = t.time_units
        c["metadata"] = bytes(t.metadata_bytes)
        c["metadata_schema"] = repr(t.metadata_schema)
        rs = t.reference_sequence
        c["reference_sequence"] = (rs.data, rs.url, bytes(rs.metadata_bytes), repr(rs.metadata_schema))
        n = t.nodes
        self.node_rows = decoded_rows(n)
        c["nodes.num"] = n.num_rows
        c["nodes.flags"] = _b(n.flags)
        c["nodes.population"] = _b(n.population)
        c["nodes.individual"] = _b(n.individual)
        c["nodes.time"] = _b(n.time)
        c["nodes.metadata"] = (_b(n.metadata), _b(n.metadata_offset))
        c["nodes.schema"] = _schema_text(n)
        nd = schema_defaults(n)
        c["nodes.md_other"] = tuple(_other_text(k, v, nd) for k, v in self.node_rows)
        e = t.edges
        emd = _ragged(e.metadata, e.metadata_offset)
        rows = list(zip(e.left.tolist(), e.right.tolist(), e.parent.tolist(), e.child.tolist(), emd))
        c["edges.num"] = e.num_rows
        c["edges.order"] = tuple(rows)
        c["edges.set"] = tuple(sorted(rows))
        c["edges.schema"] = _schema_text(e)
        s = t.sites
        c["sites.position"] = _b(s.position)
        c["sites.ancestral_state"] = (_b(s.ancestral_state), _b(s.ancestral_state_offset))
        c["sites.metadata"] = (_b(s.metadata), _b(s.metadata_offset))
        c["sites.schema"] = _schema_text(s)
        m = t.mutations
        self.mut_rows = decoded_rows(m)
        ds = _ragged(m.derived_state, m.derived_state_offset)
        mmd = _ragged(m.metadata, m.metadata_offset)
        site = m.site.tolist()
        node = m.node.tolist()
        mdf = schema_defaults(m)
        other = [_other_text(k, v, mdf) for k, v in self.mut_rows]
        tbits = [_b(x) for x in m.time]
        c["mutations.num"] = m.num_rows
        c["mutations.order"] = tuple(zip(site, ds, node))
        c["mutations.site_ds"] = tuple(sorted(zip(site, ds)))
        c["mutations.node"] = tuple(sorted(zip(site, ds, node)))
        c["mutations.node_md"] = tuple(sorted(zip(site, ds, node, other)))
        c["mutations.md_other"] = tuple(sorted(zip(site, ds, other)))
        c["mutations.time"] = tuple(sorted(zip(site, ds, node, tbits)))
        c["mutations.parent"] = _b(m.parent)
        c["mutations.metadata"] = tuple(sorted(zip(site, ds, mmd)))
        c["mutations.schema"] = _schema_text(m)
        self.mut_site, self.mut_ds, self.mut_node, self.mut_other = site, ds, node, other
        i = t.individuals
        c["individuals.flags"] = _b(i.flags)
        c["individuals.location"] = (_b(i.location), _b(i.location_offset))
        c["individuals.parents"] = (_b(i.parents), _b(i.parents_offset))
        c["individuals.metadata"] = (_b(i.metadata), _b(i.metadata_offset))
        c["individuals.schema"] = _schema_text(i)
        p = t.populations
        c["populations.metadata"] = (_b(p.metadata), _b(p.metadata_offset))
        c["populations.schema"] = _schema_text(p)
        g = t.migrations
        gmd = _ragged(g.metadata, g.metadata_offset)
        grows = list(zip(g.left.tolist(), g.right.tolist(), g.node.tolist(), g.source.tolist(), g.dest.tolist(),
                         g.time.tolist(), gmd))
        c["migrations.order"] = tuple(grows)
        c["migrations.set"] = tuple(sorted(grows))
        c["migrations.schema"] = _schema_text(g)
        self.cols = c
        self.prov = [(r.timestamp, r.record) for r in t.provenances]
        self.node_schema = n.metadata_schema
        self.mut_schema = m.metadata_schema
        self.node_md_empty = len(n.metadata) == 0
        self.mut_md_empty = len(m.metadata) == 0
        self.nodes_time = np.array(n.time)
        self.samples = np.array(ts.samples())
        ind = n.individual
        self.partner = {}
        if i.num_rows:
            members = {}
            for u, k in enumerate(ind.tolist()):
                if k != tskit.NULL:
                    members.setdefault(k, []).append(u)
            for k, us in members.items():
                if len(us) == 2:
                    self.partner[us[0]] = us[1]
                    self.partner[us[1]] = us[0]


class Interner:
    """equal values <-> equal small positive integers (A3); 0 is reserved for 'absent'."""

    def __init__(self):
        self.ids = {}

    def __call__(self, v):
        i = self.ids.get(v)
        if i is None:
            i = self.ids[v] = len(self.ids) + 1
        return i


def float_key(x):
    if x is None:
        return None
    x = float(x)
    if math.isnan(x):
        return "nan"
    return x + 0.0  # -0.0 == 0.0


def intern_floats(it, xs):
    return [0 if x is None else it(("f", float_key(x))) for x in xs]


# ---------------------------------------------------------------------------------------
# event sections
# ---------------------------------------------------------------------------------------

def match_mutation_nodes(b, a):
    """Match input and output mutations with the same (site, derived_state[, other fields]) so
    that as few nodes as possible differ (nodes of the same individual preferred over others);
    return the differing ones.  Row order is not used: TableCollection.sort() legitimately
    re-orders the mutations of a site."""
    from scipy.optimize import linear_sum_assignment
    use_other = b.cols["mutations.md_other"] == a.cols["mutations.md_other"]

    def groups(s):
        g = {}
        for k in range(len(s.mut_site)):
            key = (s.mut_site[k], s.mut_ds[k], s.mut_other[k] if use_other else "")
            g.setdefault(key, []).append(s.mut_node[k])
        return g
    gb, ga = groups(b), groups(a)
    nin, nout, pin = [], [], []
    unmatched = 0
    for key in set(gb) | set(ga):
        x, y = gb.get(key, []), ga.get(key, [])
        if len(x) != len(y):
            unmatched += abs(len(x) - len(y))
            continue
        if sorted(x) == sorted(y):
            continue
        big = 10 * (len(x) + 1)
        cost = np.array([[0 if u == v else (1 if b.partner.get(u) == v else big) for v in y] for u in x])
        r, cidx = linear_sum_assignment(cost)
        for i, j in zip(r, cidx):
            if x[i] != y[j]:
                nin.append(x[i] + 1)
                nout.append(y[j] + 1)
                pin.append(b.partner.get(x[i], -1) + 1)
    return {"nin": nin, "nout": nout, "pin": pin, "unmatched": int(unmatched),
            "matched_on_other_fields": bool(use_other)}


def last_record(provrows):
    import tskit
    if not provrows:
        return {"command": "-", "software": "-", "valid": False, "params": {}}
    try:
        rec = json.loads(provrows[-1][1])
    except Exception:  # noqa: BLE001
        return {"command": "?", "software": "?", "valid": False, "params": {}}
    try:
        tskit.validate_provenance(rec)
        valid = True
    except Exception:  # noqa: BLE001
        valid = False
    par = rec.get("parameters", {}) if isinstance(rec, dict) else {}
    soft = rec.get("software", {}).get("name", "?") if isinstance(rec, dict) else "?"
    params = {}
    for k, v in (par.items() if isinstance(par, dict) else []):
        if k != "command":
            params[k] = jtext(v)
    return {"command": str(par.get("command", "?")) if isinstance(par, dict) else "?", "software": str(soft),
            "valid": valid, "params": params}


def md_section(T, b, a, warnings, default_schema):
    rows_b = b.node_rows if T == "nodes" else b.mut_rows
    rows_a = a.node_rows if T == "nodes" else a.mut_rows
    col = f"{T}.metadata"
    schema_same = b.cols[f"{T}.schema"] == a.cols[f"{T}.schema"]
    md_same = b.cols[col] == a.cols[col]
    n_carry = sum(1 for k, v in rows_a if carries(k, v))
    rows = "all" if n_carry == len(rows_a) else ("none" if n_carry == 0 else "some")
    only = all(kind == "dec" and isinstance(v, dict) and set(v) <= set(MD_KEYS) for kind, v in rows_a)
    table_name = "NodeTable" if T == "nodes" else "MutationTable"
    warned = any("Could not set time metadata on " + table_name in w for w in warnings)
    in_schema = (b.node_schema if T == "nodes" else b.mut_schema)
    out_schema = (a.node_schema if T == "nodes" else a.mut_schema)
    return {"untouched": bool(schema_same and md_same), "schema_same": bool(schema_same),
            "schema_default": bool(out_schema == default_schema), "in_schema_none": in_schema.schema is None,
            "in_md_empty": bool(b.node_md_empty if T == "nodes" else b.mut_md_empty), "rows": rows,
            "only_mnvr": bool(only), "others_survive": b.cols[f"{T}.md_other"] == a.cols[f"{T}.md_other"],
            "warned": bool(warned)}


def md_class(d):
    """Outcome class of one table, in the vocabulary of module Metadata."""
    if d["untouched"]:
        return "untouched_warn" if d["warned"] else "untouched"
    if d["rows"] == "all" and d["schema_same"] and d["others_survive"]:
        return "merged"
    if d["rows"] == "all" and d["schema_default"] and d["only_mnvr"] and not d["schema_same"]:
        return "default"
    return "other:" + ",".join(f"{k}={v}" for k, v in sorted(d.items()))


def _roundtrip(schema, row, mn, vr):
    """mn, vr as the table's own codec would hand them back (exact for JSON; float32 for 'f')."""
    try:
        d = dict(row) if isinstance(row, dict) else {}
        d.update({"mn": float(mn), "vr": float(vr)})
        r = schema.decode_row(schema.validate_and_encode_row(d))
        return r.get("mn"), r.get("vr")
    except Exception:  # noqa: BLE001
        return float(mn), float(vr)


def close12(x, y):
    return abs(x - y) <= 1e-12 * max(abs(x), abs(y))


def var_close12(x, y, mean):
    m = max(x, y)
    if m < 0:
        return False
    return abs(x - y) <= 1e-12 * (m + abs(mean) * math.sqrt(m)) + 1e-300


def posterior_section(method, b, a, fit, policy):
    """C04: what the fit object reports vs what the returned tree sequence carries."""
    it = Interner()
    P = {"judged": False, "nodes_written": False, "muts_written": False, "md_mn": [], "md_vr": [], "fit_mn": [],
         "fit_vr": [], "mmd_mn": [], "mmd_vr": [], "mfit_mn": [], "mfit_vr": [], "samples": [], "tin": [],
         "zero": it(("f", 0.0)), "io_rows_nonneg": True, "io_rows_sum1": True, "io_mean_close": True,
         "io_var_close": True}
    if fit is None or policy == "false":
        return P, {}
    P["judged"] = True
    info = {}
    nodes_written = len(a.node_rows) > 0 and all(carries(k, v) for k, v in a.node_rows)
    muts_written = len(a.mut_rows) > 0 and all(carries(k, v) for k, v in a.mut_rows)
    P["nodes_written"], P["muts_written"] = bool(nodes_written), bool(muts_written)

    def md_vals(rows, key):
        return [v.get(key) if (k == "dec" and isinstance(v, dict)) else None for k, v in rows]

    if method == "variational_gamma":
        post = fit.node_posteriors()
        fm, fv = np.array(post["mean"], dtype=float), np.array(post["variance"], dtype=float)
        if nodes_written:
            rt = [_roundtrip(a.node_schema, v, fm[i], fv[i]) for i, (k, v) in enumerate(a.node_rows)]
            P["md_mn"] = intern_floats(it, md_vals(a.node_rows, "mn"))
            P["md_vr"] = intern_floats(it, md_vals(a.node_rows, "vr"))
            P["fit_mn"] = intern_floats(it, [r[0] for r in rt])
            P["fit_vr"] = intern_floats(it, [r[1] for r in rt])
        if muts_written:
            # metadata rows travel with their mutation when sort() re-orders a site, so the fit's
            # rows (input mutation order) are brought into the output order by the same matching key
            mp = fit.mutation_posteriors()
            mm, mv = np.array(mp["mean"], dtype=float), np.array(mp["variance"], dtype=float)
            P["_mut"] = (mm, mv)
        info["nan_mutations"] = int(np.sum(np.isnan(fit.mutation_posteriors()["mean"])))
    elif method == "inside_outside":
        post = fit.node_posteriors()
        names = post.dtype.names
        tp = np.array([float(x) for x in names])
        grid = np.array(post.tolist(), dtype=float).reshape(len(post), len(names))
        fixed = np.all(np.isnan(grid), axis=1)
        rows = grid[~fixed]
        P["io_rows_nonneg"] = bool(np.all(rows >= 0))
        P["io_rows_sum1"] = bool(all(abs(math.fsum(r) - 1.0) <= 1e-12 for r in rows)) if len(rows) else True
        info["grid_rows"] = int(len(rows))
        mdm, mdv = md_vals(a.node_rows, "mn"), md_vals(a.node_rows, "vr")
        fm = np.full(len(grid), np.nan)
        fv = np.full(len(grid), np.nan)
        for u in np.flatnonzero(~fixed):
            p = grid[u]
            mean = math.fsum(p * tp)
            fm[u] = mean
            fv[u] = math.fsum(p * (tp - mean) ** 2)
        if nodes_written:
            okm = okv = True
            for u in np.flatnonzero(~fixed):
                want_m, want_v = _roundtrip(a.node_schema, a.node_rows[u][1], fm[u], fv[u])
                exact = (want_m == fm[u] and want_v == fv[u])  # JSON and 'd' struct codecs keep float64
                if mdm[u] is None or mdv[u] is None:
                    okm = okv = False
                elif exact:
                    okm = okm and close12(mdm[u], fm[u])
                    okv = okv and var_close12(mdv[u], fv[u], fm[u])
                else:  # single-precision struct field: compare after the codec's own rounding
                    okm = okm and abs(mdm[u] - want_m) <= 1e-6 * max(abs(mdm[u]), abs(want_m))
                    okv = okv and abs(mdv[u] - want_v) <= 1e-6 * max(abs(mdv[u]), abs(want_v)) + 1e-30
            P["io_mean_close"], P["io_var_close"] = bool(okm), bool(okv)
            smp = [int(u) for u in np.flatnonzero(fixed)]
            P["samples"] = [u + 1 for u in smp]
            rt = [_roundtrip(a.node_schema, a.node_rows[u][1], b.nodes_time[u], 0.0) for u in smp]
            P["tin"] = intern_floats(it, [r[0] for r in rt])
            P["zero"] = it(("f", float_key(rt[0][1]))) if rt else P["zero"]
            P["md_mn"] = intern_floats(it, mdm)
            P["md_vr"] = intern_floats(it, mdv)
            # the fit object has no per-node mean: the statement's mean/variance clause is the predicate above
            P["fit_mn"], P["fit_vr"] = P["md_mn"], P["md_vr"]
    return P, info


def _attach_mutation_posteriors(P, b, a, it_seed=None):
    """variational_gamma: bring the fit's per-mutation values (input row order) and the metadata of
    the returned mutations (output row order) into a common canonical order."""
    mm, mv = P.pop("_mut")
    it = Interner()
    # input side: key + fit value ; output side: key + metadata value.  Sorting both sides by
    # (site, derived_state, other fields, value) compares the multisets per key.
    rows_in = []
    for k in range(len(b.mut_site)):
        rt = _roundtrip(a.mut_schema, {}, mm[k], mv[k])
        rows_in.append(((b.mut_site[k], b.mut_ds[k]), float_key(rt[0]), float_key(rt[1])))
    rows_out = []
    for k in range(len(a.mut_site)):
        kind, v = a.mut_rows[k]
        d = v if (kind == "dec" and isinstance(v, dict)) else {}
        rows_out.append(((a.mut_site[k], a.mut_ds[k]), float_key(d.get("mn")), float_key(d.get("vr"))))
    keyf = lambda r: (r[0], str(r[1]), str(r[2]))  # noqa: E731
    rows_in.sort(key=keyf)
    rows_out.sort(key=keyf)
    P["mfit_mn"] = [it(("f", r[1])) for r in rows_in]
    P["mfit_vr"] = [it(("f", r[2])) for r in rows_in]
    P["mmd_mn"] = [0 if r[1] is None else it(("f", r[1])) for r in rows_out]
    P["mmd_vr"] = [0 if r[2] is None else it(("f", r[2])) for r in rows_out]


# ---------------------------------------------------------------------------------------
# the recorder
# ---------------------------------------------------------------------------------------

class _Warnings(logging.Handler):
    def __init__(self):
        super().__init__(level=logging.WARNING)
        self.msgs = []

    def emit(self, record):
        try:
            self.msgs.append(record.getMessage())
        except Exception:  # noqa: BLE001
            pass


class Obs:
    """One observed public call."""

    def __init__(self):
        self.ok = False
        self.exc = None
        self.ret = None
        self.ts = None
        self.fit = None
        self.event = None
        self.warnings = []
        self.info = {}


def _policy(kwargs):
    sm = kwargs.get("set_metadata")
    return "false" if sm is False else ("true" if sm else "none")


def call_options(fn_name, kwargs):
    if fn_name == "date":
        method = kwargs.get("method") or "variational_gamma"
    elif fn_name in DATE_FNS:
        method = fn_name
    else:
        method = "-"
    phased = not (method == "variational_gamma" and kwargs.get("singletons_phased") is not None
                  and not kwargs.get("singletons_phased"))
    rp = kwargs.get("record_provenance")
    recording = True if rp is None else bool(rp)
    return {"method": str(method), "sm": _policy(kwargs), "phased": bool(phased), "recording": recording}


def given_texts(kwargs):
    g, skipped = {}, []
    for k, v in kwargs.items():
        if k in ("method", "record_provenance") or k in OBJECT_KWARGS:
            continue
        try:
            g[k] = jtext(v)
        except NotAValue:
            skipped.append(k)
    return g, skipped


def build_event(tid, seq, fn_name, kwargs, before, obs, chained=False, lite=False, pit=None):
    """The SessionTrace line of one call.  `before` is the Snap of the input."""
    import tsdate.schemas as schemas
    opts = call_options(fn_name, kwargs)
    it = Interner()
    pit = Interner() if pit is None else pit  # provenance rows: interned per session
    ev = {"tid": tid, "seq": seq, "ev": "Date" if fn_name in DATE_FNS else
          ("Preprocess" if fn_name == "preprocess_ts" else "SplitDisjoint"), "fn": fn_name, "opts": opts,
          "outcome": "ok" if obs.ok else type(obs.exc).__name__, "chained": bool(chained)}
    given, skipped = given_texts(kwargs)
    bcols = {c: it(("c", c, v)) for c, v in before.cols.items()}
    pb = [pit(r) for r in before.prov]
    raised_in_prov = False
    if obs.exc is not None:
        tb = traceback.extract_tb(obs.exc.__traceback__)
        raised_in_prov = any(os.path.basename(f.filename) == "provenance.py" for f in tb)
    empty_mut = {"nin": [], "nout": [], "pin": [], "unmatched": 0, "matched_on_other_fields": True}
    empty_md = {"untouched": True, "schema_same": True, "schema_default": False, "in_schema_none": False,
                "in_md_empty": False, "rows": "none", "only_mnvr": False, "others_survive": True, "warned": False}
    P0, _ = posterior_section("-", before, before, None, "false")
    if not obs.ok or obs.ts is None:
        ev.update({"before": bcols, "after": bcols, "mut": empty_mut,
                   "prov": {"before": pb, "after": pb, "last": last_record(before.prov), "given": given,
                            "raised": bool(raised_in_prov)},
                   "post": P0, "md": {"nodes": empty_md, "mutations": empty_md}})
        return ev, None
    after = Snap(obs.ts)
    ev["before"] = bcols
    ev["after"] = {c: it(("c", c, v)) for c, v in after.cols.items()}
    ev["prov"] = {"before": pb, "after": [pit(r) for r in after.prov], "last": last_record(after.prov),
                  "given": given, "raised": False}
    if ev["ev"] == "Date":
        ev["mut"] = match_mutation_nodes(before, after)
        ev["md"] = {"nodes": md_section("nodes", before, after, obs.warnings, schemas.default_node_schema),
                    "mutations": md_section("mutations", before, after, obs.warnings,
                                            schemas.default_mutation_schema)}
        if lite:
            ev["post"] = P0
        else:
            P, info = posterior_section(opts["method"], before, after, obs.fit, opts["sm"])
            if "_mut" in P:
                _attach_mutation_posteriors(P, before, after)
            ev["post"] = P
            obs.info.update(info)
    else:
        ev["mut"] = empty_mut
        ev["md"] = {"nodes": empty_md, "mutations": empty_md}
        ev["post"] = P0
    obs.info["unrecorded_kwargs"] = skipped
    return ev, after


def resolve(fn_name):
    import tsdate
    import tsdate.util
    if fn_name == "split_disjoint_nodes":
        return tsdate.util.split_disjoint_nodes
    return getattr(tsdate, fn_name)


class SessionRec:
    """A session on real objects: every call goes through `call`, events accumulate in `events`."""

    def __init__(self, tid, sink=None):
        self.tid = tid
        self.events = [] if sink is None else sink
        self.seq = 0
        self.pit = Interner()

    def call(self, fn_name, ts, before=None, chained=False, fn=None, lite=False, quiet=True, force_fit=False,
             **kwargs):
        """Call the real function under the recorder.  force_fit: ask the dating functions for the
        fit object even if the caller did not (it is stripped from the returned value again)."""
        fn = resolve(fn_name) if fn is None else fn
        obs = Obs()
        forced = bool(force_fit and fn_name in DATE_FNS and not kwargs.get("return_fit"))
        call_kwargs = dict(kwargs, return_fit=True) if forced else kwargs
        if before is None:
            before = Snap(ts)
        h = _Warnings()
        lg = logging.getLogger("tsdate")
        old_level, old_prop = lg.level, lg.propagate
        lg.addHandler(h)
        if quiet:  # drivers: see warnings whatever the harness set, and keep them off stderr
            lg.setLevel(logging.WARNING)
            lg.propagate = False
        try:
            try:
                ret = fn(ts, **call_kwargs)
                obs.ok = True
                if isinstance(ret, tuple):
                    obs.ts = ret[0]
                    if call_kwargs.get("return_fit"):
                        obs.fit = ret[1]
                    if forced:
                        ret = tuple(x for i, x in enumerate(ret) if i != 1)
                        ret = ret[0] if len(ret) == 1 else ret
                else:
                    obs.ts = ret
                obs.ret = ret
            except Exception as ex:  # noqa: BLE001  (the error path is part of the trace)
                obs.exc = ex
        finally:
            lg.removeHandler(h)
            lg.setLevel(old_level)
            lg.propagate = old_prop
        obs.warnings = h.msgs
        self.seq += 1
        obs.event, obs.after = build_event(self.tid, self.seq, fn_name, kwargs, before, obs, chained=chained,
                                           lite=lite, pit=self.pit)
        self.events.append(obs.event)
        return obs


# ---------------------------------------------------------------------------------------
# TLC side
# ---------------------------------------------------------------------------------------

SESSION_DUMMY = {"MaxCalls": 0, "Fns": "{}", "RecModes": "{}", "NOpts": 1, "TrackCols": "FALSE",
                 "MdStart0": "<- MdStartBasic", "MdStart1": "<- MdStartBasic", "EmitHist": "FALSE",
                 "CellSchemas": "{}", "CellMethods": "{}", "EmitCells": "FALSE"}


def tla_set(xs):
    return "{" + ", ".join(json.dumps(x) for x in xs) + "}"


def write_trace(path, events):
    with open(path, "w") as f:
        for e in events:
            f.write(json.dumps(e) + "\n")
    return path


def validate(ctx, events, checks, label="t"):
    """Run SessionTrace over the events.  Returns the reject records (tid, line, clause)."""
    from .harness import MachineryError
    if not events:
        return []
    for e in events:
        json.dumps(e, allow_nan=False)
    path = write_trace(os.path.join(ctx.work, f"strace-{label}-{len(events)}-{ctx.traces}.ndjson"), events)
    consts = dict(SESSION_DUMMY)
    consts["Checks"] = tla_set(checks)
    cfg = ctx.write_cfg(f"SessionTrace-{label}.cfg", spec="TraceSpec", constants=consts)
    r = ctx.tlc("SessionTrace", cfg, workers=1, coverage=False, env={"TRACE_FILE": path}, must_hold=False,
                heap="6g")
    if r.violated:
        raise MachineryError(f"SessionTrace run failed: {r.violated}\n" + r.stdout[-3000:])
    acc = r.rec("accepted")
    rej = r.rec("reject")
    if not acc:
        raise MachineryError("SessionTrace did not report acceptance:\n" + r.stdout[-3000:])
    n_ok = acc[-1]["accepted"]
    bad_lines = {x["line"] for x in rej}
    if n_ok + len(bad_lines) != len(events) or acc[-1]["lines"] != len(events):
        raise MachineryError(f"SessionTrace accounted for {n_ok}+{len(bad_lines)} of {len(events)} lines\n"
                             + r.stdout[-2000:])
    ctx.traces += len(events)
    # one record per (line, clause)
    seen, out = set(), []
    for x in rej:
        k = (x["line"], x["clause"])
        if k not in seen:
            seen.add(k)
            out.append(x)
    return out


def clause_class(clause):
    """signature component: the clause without instance-specific parts"""
    return clause.replace(" ", "-")


def judge(ctx, pid, checks, events, meta, label):
    """label: sub-check name, or a function event -> name (several drivers in one TLC run)"""
    lab = label if callable(label) else (lambda ev: label)
    rej = validate(ctx, events, checks, label=label if isinstance(label, str) else "mixed")
    for r in rej:
        ev = events[r["line"] - 1]
        m = meta.get((ev["tid"], ev["seq"]), meta.get(ev["tid"]))
        ctx.violation(f"{pid}/{lab(ev)}/{ev['fn']}/{clause_class(r['clause'])}",
                      {"kind": "event", "event": ev, "meta": m, "checks": list(checks)},
                      f"trace {ev['tid']} (call {ev['seq']}: {ev['fn']} {ev['opts']}) rejected by SessionTrace "
                      f"at clause {r['clause']}", subcheck=lab(ev))
    return rej


def note_failure(ctx, pid, label, fn_name, tid, obs, m):
    """The drivers only make calls that are valid by construction.  A clean rejection (ValueError /
    NotImplementedError) is C35's business and only counted; anything else means date() did not
    return the copy the statement is about."""
    cls = type(obs.exc).__name__
    ctx.extra.setdefault("failed_calls", {})[tid] = repr(obs.exc)[:200]
    if isinstance(obs.exc, (ValueError, NotImplementedError)):
        ctx.count("calls_rejected")
        return
    # an internal error (AssertionError, LibraryError, ...) is C35's subject, not this property's: the statement
    # speaks about calls that return.  It is counted and listed in the evidence; `require_results` makes the
    # check fail as machinery (exit 2) if most driver calls fail, so that nothing is claimed vacuously.
    # (VERIF_SEED=7 drew a corpus input that hits the open C35 finding F16 "Use fewer rescaling intervals";
    # reporting it here was a false alarm for C02 / C04 / C33.)
    ctx.count("calls_raised_internal_error")
    ctx.extra.setdefault("internal_errors", {})[f"{fn_name}/{cls}"] = str(obs.exc)[:120]


def require_results(ctx, events, frac=0.5):
    """vacuity guard: the drivers' calls are valid by construction, most of them must return"""
    from .harness import MachineryError
    ok = sum(1 for e in events if e["outcome"] == "ok")
    if len(events) and ok < frac * len(events) and not ctx.violations and not ctx.known_hits:
        raise MachineryError(f"only {ok} of {len(events)} driver calls returned: nothing can be claimed")


def session_cfg(ctx, name, *, max_calls, fns, rec_modes, nopts, track, start0="MdStartBasic", start1="MdStartBasic",
                emit=False, invariants=(), properties=()):
    consts = {"MaxCalls": max_calls, "Fns": tla_set(fns), "RecModes": tla_set(rec_modes), "NOpts": nopts,
              "TrackCols": "TRUE" if track else "FALSE", "MdStart0": "<- " + start0, "MdStart1": "<- " + start1,
              "EmitHist": "TRUE" if emit else "FALSE", "CellSchemas": "{}", "CellMethods": "{}",
              "EmitCells": "FALSE"}
    return ctx.write_cfg(name + ".cfg", spec="Spec", constants=consts, invariants=list(invariants),
                         properties=list(properties))


DATING_ACTIONS = ("Begin", "SetUnits", "MdBegin", "MdRun", "MdEnd", "SetTimes", "SetMutNode", "Zap", "Sort",
                  "ParentsTimes", "RecordProv", "Return")
ALL_MODEL_FNS = ["date:variational_gamma", "date:inside_outside", "date:maximization", "variational_gamma",
                 "inside_outside", "maximization", "preprocess_ts", "split_disjoint_nodes"]


def fn_and_kwargs(call, given):
    """A model call [fn, rec, opt] + its `given` record (JSON texts) -> (fn_name, kwargs)."""
    f = call["fn"]
    kwargs = {}
    if f.startswith("date:"):
        fn_name = "date"
        kwargs["method"] = f.split(":", 1)[1]
    else:
        fn_name = f
    g = given if isinstance(given, dict) else {}
    for k, v in g.items():
        kwargs[k] = json.loads(v)
    if call["rec"] == "on":
        kwargs["record_provenance"] = True
    elif call["rec"] == "off":
        kwargs["record_provenance"] = False
    return fn_name, kwargs


# ---------------------------------------------------------------------------------------
# inputs decorated for the frame condition
# ---------------------------------------------------------------------------------------

def decorate(ts, seed, node_md=True, mut_md=True, shuffle=True, edge_md=False):
    """The same genealogy with everything date() must not touch made non-trivial: population and
    individual metadata (+schemas), individual locations and flags, node / site / mutation / edge
    metadata with other fields, top-level metadata, an extra stacked mutation per some sites (the
    same node twice), and -- where tskit allows it -- a non-canonical edge order."""
    import tskit
    rng = np.random.default_rng(seed)
    t = ts.dump_tables()
    pj = tskit.MetadataSchema.permissive_json()
    t.metadata_schema = pj
    t.metadata = {"study": "verif", "seed": int(seed)}
    t.populations.metadata_schema = pj
    t.populations.packset_metadata([pj.validate_and_encode_row({"name": f"pop{i}", "x": [i, 2 * i]})
                                    for i in range(t.populations.num_rows)])
    if t.populations.num_rows == 1:
        t.populations.add_row(metadata={"name": "unused"})
    ind = t.individuals
    if ind.num_rows:
        ind.metadata_schema = pj
        flags = ind.flags
        flags[:] = rng.integers(0, 4, size=ind.num_rows)
        loc, loc_off = [], [0]
        for i in range(ind.num_rows):
            k = int(rng.integers(0, 3))
            loc += list(rng.random(k))
            loc_off.append(len(loc))
        md, md_off = tskit.pack_bytes([pj.validate_and_encode_row({"id": f"i{i}"}) for i in range(ind.num_rows)])
        ind.set_columns(flags=flags, location=np.array(loc, dtype=float), location_offset=np.array(loc_off, dtype=np.uint64),
                        parents=ind.parents, parents_offset=ind.parents_offset, metadata=md, metadata_offset=md_off)
    # application-defined flag bits on some non-sample nodes (tskit reserves only the low 16 bits)
    nf = t.nodes.flags
    for u in range(t.nodes.num_rows):
        if not (nf[u] & tskit.NODE_IS_SAMPLE) and u % 3 == 0:
            nf[u] |= (1 << 17) | ((1 << 21) if u % 2 else 0)
    t.nodes.flags = nf
    if node_md:
        t.nodes.metadata_schema = pj
        t.nodes.packset_metadata([pj.validate_and_encode_row({"name": f"n{u}", "k": int(u) % 3})
                                  for u in range(t.nodes.num_rows)])
    t.sites.metadata_schema = pj
    t.sites.packset_metadata([pj.validate_and_encode_row({"s": i}) for i in range(t.sites.num_rows)])
    if edge_md:  # (the discrete-time methods cannot build priors for such inputs: tskit refuses to simplify them)
        t.edges.metadata_schema = pj
        t.edges.packset_metadata([pj.validate_and_encode_row({"e": i % 5}) for i in range(t.edges.num_rows)])
    # stacked mutations: a second mutation on the same node at some sites (back to the ancestral state and again)
    muts = t.mutations.copy()
    t.mutations.clear()
    extra = set(rng.choice(muts.num_rows, size=max(1, muts.num_rows // 4), replace=False).tolist()) if muts.num_rows else set()
    for k, m in enumerate(muts):
        t.mutations.append(m.replace(parent=tskit.NULL, time=tskit.UNKNOWN_TIME, metadata=b""))
        if k in extra:
            t.mutations.append(m.replace(parent=tskit.NULL, time=tskit.UNKNOWN_TIME, derived_state="Z", metadata=b""))
    if mut_md:
        t.mutations.metadata_schema = pj
        t.mutations.packset_metadata([pj.validate_and_encode_row({"m": i, "tag": "q" * (i % 3)})
                                      for i in range(t.mutations.num_rows)])
    else:
        t.mutations.packset_metadata([b""] * t.mutations.num_rows)
    t.sort()
    t.build_index()
    t.compute_mutation_parents()
    if shuffle and _reverse_equal_time_parent_groups(t):
        t.build_index()
    return t.tree_sequence()


def _reverse_equal_time_parent_groups(t):
    """tskit requires edges grouped by parent in nondecreasing parent time; the order of parents
    with EQUAL times is free.  Reverse it where there are such ties (unsorted-but-valid input)."""
    e = t.edges
    time = t.nodes.time
    rows = list(range(e.num_rows))
    groups = []
    for k in rows:
        p = e.parent[k]
        if groups and groups[-1][0] == p:
            groups[-1][1].append(k)
        else:
            groups.append((p, [k]))
    out, i = [], 0
    changed = False
    while i < len(groups):
        j = i
        while j + 1 < len(groups) and time[groups[j + 1][0]] == time[groups[i][0]]:
            j += 1
        block = groups[i:j + 1]
        if len(block) > 1:
            block = block[::-1]
            changed = True
        for _, ks in block:
            out += ks
        i = j + 1
    if changed:
        e.set_columns(left=e.left[out], right=e.right[out], parent=e.parent[out], child=e.child[out],
                      metadata=np.concatenate([e.metadata[e.metadata_offset[k]:e.metadata_offset[k + 1]] for k in out])
                      if len(e.metadata) else e.metadata,
                      metadata_offset=np.concatenate([[0], np.cumsum([e.metadata_offset[k + 1] - e.metadata_offset[k]
                                                                      for k in out])]).astype(e.metadata_offset.dtype))
    return changed


def tie_parents(ts):
    """Give two parents the same time where the genealogy allows it (creates the ties that make a
    non-canonical edge order valid); returns ts itself if no pair qualifies."""
    import tskit
    t = ts.dump_tables()
    time = t.nodes.time.copy()
    parents = sorted(set(t.edges.parent.tolist()), key=lambda u: time[u])
    child_max = {}
    for p, c in zip(t.edges.parent.tolist(), t.edges.child.tolist()):
        child_max[p] = max(child_max.get(p, 0.0), time[c])
    for a, b in zip(parents, parents[1:]):
        # b is the next-older parent: it may come down to a's time if all its children are younger
        if time[a] < time[b] and child_max[b] < time[a]:
            time[b] = time[a]
            t.nodes.time = time
            t.mutations.time = np.full(t.mutations.num_rows, tskit.UNKNOWN_TIME)
            t.sort()
            t.build_index()
            t.compute_mutation_parents()
            try:
                return t.tree_sequence()
            except Exception:  # noqa: BLE001
                return ts
    return ts


def setup(ctx):
    import time

    from . import harness
    harness.setup_repo_env(ctx.work, jit=os.environ.get("VT_SESSION_NOJIT") != "1")
    t0 = time.time()
    import tsdate  # noqa: F401
    ctx.extra.setdefault("phase_s", {})["import_tsdate"] = round(time.time() - t0, 1)


class phase:
    """with phase(ctx, "name"): ...  -- wall time per phase, echoed in the evidence"""

    def __init__(self, ctx, name):
        self.ctx, self.name = ctx, name

    def __enter__(self):
        import time
        self.t0 = time.time()

    def __exit__(self, *a):
        import time
        d = self.ctx.extra.setdefault("phase_s", {})
        d[self.name] = round(d.get(self.name, 0) + time.time() - self.t0, 1)


def with_migrations(seed):
    """A two-population input with a non-empty migration table (variational_gamma only: tskit
    cannot simplify tables with migrations, which the discrete methods' priors need)."""
    import msprime
    dem = msprime.Demography.island_model([100, 100], migration_rate=0.01)
    ts = msprime.sim_ancestry({0: 2, 1: 2}, demography=dem, sequence_length=400, recombination_rate=3e-4,
                              random_seed=seed % (2 ** 31) + 1, record_migrations=True)
    return msprime.sim_mutations(ts, rate=4e-3, random_seed=seed % (2 ** 31) + 1)


def redated_with_extras(inp):
    """A tree sequence already dated by tsdate (so its node / mutation tables carry tsdate's own
    default schema) whose rows were then annotated with further fields: re-dating it must keep
    those fields (C02).  Added after seeded change C02-a was missed."""
    import tsdate

    from . import inputs
    dated = tsdate.date(inp.ts, mutation_rate=inp.mu, max_iterations=2, record_provenance=False)
    t = dated.dump_tables()
    for table, tag in ((t.nodes, "n"), (t.mutations, "m")):
        schema = table.metadata_schema
        rows = []
        for i, row in enumerate(table):
            md = dict(row.metadata) if isinstance(row.metadata, dict) else {}
            md["label"] = f"{tag}{i}"
            if i % 3 == 0:
                md["score"] = i / 7
            rows.append(schema.validate_and_encode_row(md))
        table.packset_metadata(rows)
    return inputs.Inp(inp.name + "_redated", t.tree_sequence(), inp.mu, inp.Ne, inp.tags | {"redated"})


def frame_corpus(ctx, k=1, big=False):
    """Inputs for C02 / C04: the seeded corpus of vt/inputs.py, plain (msprime's own schemas, known
    mutation times) and decorated (see `decorate`), plus an input with migrations."""
    from . import inputs
    seed = ctx.seed
    base = inputs.diploid(seed, k=k) + inputs.contemporaneous(seed, k=k, small=not big) + inputs.polytomies(seed, k=1)
    base += inputs.historical(seed, k=1) + inputs.internal_samples(seed, k=1)
    # node ids not in time order (tsinfer / SLiM / subset() style numbering); added after seed C04-a
    base += [inputs.renumbered(c, seed) for c in inputs.contemporaneous(seed + 1, k=1, small=True)]
    # mutations above local roots lie on no edge (added after second seed C02-b)
    base += [inputs.with_root_mutations(c, 3, seed) for c in inputs.contemporaneous(seed + 2, k=1, small=True)]
    out = []
    for i, inp in enumerate(base):
        if i % 2 == 0 or not ctx.quick:
            out.append(inp)
        dec = decorate(tie_parents(inp.ts), seed + i, edge_md=(i % 3 == 0))
        out.append(inputs.Inp(inp.name + "_dec", dec, inp.mu, inp.Ne,
                              inp.tags | {"decorated"} | ({"edge_md"} if i % 3 == 0 else set())))
    try:
        out.append(redated_with_extras(base[1 if len(base) > 1 else 0]))
        if not ctx.quick:
            out.append(redated_with_extras(base[0]))
    except Exception:  # noqa: BLE001  (a corpus input that cannot be dated at all is C35's business)
        pass
    try:
        mig = with_migrations(seed)
        if mig.num_migrations and mig.num_mutations:
            out.append(inputs.Inp(f"mig{seed}", mig, 4e-3, 100, {"contemp", "migrations"}))
    except Exception:  # noqa: BLE001
        pass
    return out


def discrete_ok(inp):
    return not ({"historical", "edge_md", "migrations"} & inp.tags)


# ---------------------------------------------------------------------------------------
# the repository's own test-suite as a driver (pytest plugin side)
# ---------------------------------------------------------------------------------------

_PLUGIN = {"depth": 0, "n": 0, "out": None}


def _plugin_wrap(fn_name, orig):
    import functools

    @functools.wraps(orig)
    def wrapper(*args, **kwargs):
        st = _PLUGIN
        if st["depth"] > 0 or st["out"] is None or len(args) != 1 or not hasattr(args[0], "tables"):
            return orig(*args, **kwargs)
        st["depth"] += 1
        try:
            ts = args[0]
            try:
                before = Snap(ts)
            except Exception:  # noqa: BLE001
                return orig(*args, **kwargs)
            st["n"] += 1
            test = os.environ.get("PYTEST_CURRENT_TEST", "?").split(" ")[0]
            rec = SessionRec(f"suite:{test}#{st['n']}")
            obs = rec.call(fn_name, ts, before=before, fn=orig, quiet=False, force_fit=True, **dict(kwargs))
            try:
                with open(st["out"], "a") as f:
                    f.write(json.dumps(obs.event) + "\n")
            except Exception as ex:  # noqa: BLE001
                sys.stderr.write(f"vt.session_common plugin: cannot log event: {ex}\n")
            if obs.exc is not None:
                raise obs.exc
            return obs.ret
        finally:
            st["depth"] -= 1
    wrapper._vt_wrapped = True
    return wrapper


def pytest_configure(config):  # pragma: no cover  (runs inside the pytest subprocess)
    out = os.environ.get("VT_SESSION_OUT")
    if not out:
        return
    _PLUGIN["out"] = out
    import tsdate
    import tsdate.core
    import tsdate.util
    for name in DATE_FNS:
        w = _plugin_wrap(name, getattr(tsdate.core, name))
        setattr(tsdate.core, name, w)
        setattr(tsdate, name, w)
        if name != "date":
            tsdate.core.estimation_methods[name] = w
    for name in ("preprocess_ts", "split_disjoint_nodes"):
        w = _plugin_wrap(name, getattr(tsdate.util, name))
        setattr(tsdate.util, name, w)
        if hasattr(tsdate, name):
            setattr(tsdate, name, w)


def run_suite(ctx, test_args, timeout=5400):
    """Run (part of) the repository's test-suite under the recorder; return the recorded events."""
    import subprocess

    from . import harness
    out = os.path.join(ctx.work, f"suite-{len(test_args)}-{ctx.traces}-{os.getpid()}.ndjson")
    open(out, "w").close()
    env = dict(os.environ)
    env["VT_SESSION_OUT"] = out
    env["PYTHONPATH"] = harness.VERIF + os.pathsep + harness.REPO + os.pathsep + env.get("PYTHONPATH", "")
    cmd = [sys.executable, "-m", "pytest", "-q", "--no-header", "-p", "no:cacheprovider", "-p", "vt.session_common",
           "-o", "addopts="] + list(test_args)
    p = subprocess.run(cmd, cwd=harness.REPO, env=env, capture_output=True, text=True, timeout=timeout)
    tail = "\n".join(p.stdout.splitlines()[-3:])
    events = []
    with open(out) as f:
        for line in f:
            line = line.strip()
            if line:
                events.append(json.loads(line))
    return events, p.returncode, tail
