"""Check context shared by every property driver: seeds, scratch, TLC runs, violations,
known findings, evidence files.  See DESIGN.md section 6.

Exit codes of bin/check:  0 = held on everything explored (KNOWN-FINDING lines allowed),
1 = at least one VIOLATION line, 2 = machinery failure (nothing is claimed).
"""

import fnmatch
import hashlib
import json
import os
import random
import shutil
import sys
import time
import traceback

from . import tlc as _tlc
from .tlc import MachineryError  # noqa: F401

VERIF = _tlc.VERIF
REPO = os.environ.get("VERIF_REPO", "/repo")
# experiments (another checkout through VERIF_REPO, another seed) must not overwrite the evidence of the
# registered commands: VERIF_EVIDENCE_DIR redirects it, and a foreign checkout defaults to a scratch directory
EVIDENCE = os.environ.get("VERIF_EVIDENCE_DIR") or (
    os.path.join(VERIF, "evidence") if os.path.realpath(REPO) == "/repo" else "/tmp/verif-evidence-" + os.path.basename(REPO))
REPLAYS = os.path.join(VERIF, "replays")
KNOWN = os.path.join(VERIF, "known_findings.json")
WORKROOT = os.path.join(VERIF, ".work")
CACHEROOT = os.path.join(VERIF, ".cache")


def repo_hash():
    h = hashlib.sha256()
    d = os.path.join(REPO, "tsdate")
    for fn in sorted(os.listdir(d)):
        if fn.endswith(".py"):
            h.update(fn.encode())
            with open(os.path.join(d, fn), "rb") as f:
                h.update(f.read())
    return h.hexdigest()[:16]


def setup_repo_env(workdir, jit=True):
    """Arrange for `import tsdate` to come from REPO's working tree, with the hook guard on,
    a numba cache keyed by the source hash (numba's own cache does not track cross-file
    dependencies) and a private XDG cache dir.  Must be called before importing tsdate."""
    if REPO not in sys.path:
        sys.path.insert(0, REPO)
    os.environ["TSDATE_VERIF"] = "1"
    os.environ.setdefault("PYTHONHASHSEED", "0")
    os.environ["XDG_CACHE_HOME"] = os.path.join(workdir, "xdg")
    os.makedirs(os.environ["XDG_CACHE_HOME"], exist_ok=True)
    if jit:
        nb = os.path.join(CACHEROOT, "numba", repo_hash())
        os.makedirs(nb, exist_ok=True)
        os.environ["TSDATE_ENABLE_NUMBA_CACHE"] = "1"
        os.environ["NUMBA_CACHE_DIR"] = nb
        _prune_numba_cache(keep=nb)
    else:
        os.environ["NUMBA_DISABLE_JIT"] = "1"
    import logging
    logging.getLogger("tsdate").setLevel(logging.ERROR)
    logging.getLogger().setLevel(logging.ERROR)


def _prune_numba_cache(keep, maxdirs=6):
    root = os.path.join(CACHEROOT, "numba")
    try:
        ds = [os.path.join(root, d) for d in os.listdir(root)]
    except FileNotFoundError:
        return
    ds = [d for d in ds if d != keep]
    ds.sort(key=lambda d: os.path.getmtime(d))
    for d in ds[:-maxdirs] if len(ds) > maxdirs else []:
        shutil.rmtree(d, ignore_errors=True)


def load_known():
    try:
        with open(KNOWN) as f:
            return json.load(f)
    except FileNotFoundError:
        return {"findings": []}


class Ctx:
    def __init__(self, pid, tier="quick", seed=None, replay=None):
        self.pid = pid
        self.tier = tier
        self.seed = int(os.environ.get("VERIF_SEED", "20260921")) if seed is None else seed
        self.replay = replay
        self.t0 = time.time()
        self.rng = random.Random(self.seed)
        self.work = os.path.join(WORKROOT, f"{pid}-{tier}-{os.getpid()}")
        shutil.rmtree(self.work, ignore_errors=True)
        os.makedirs(self.work, exist_ok=True)
        self.states = 0
        self.transitions = 0
        self.traces = 0
        self.evaluations = 0
        self.nontrivial = set()
        self.samples = []
        self.tlc_runs = []
        self.actions = {}
        self.extra = {}
        self.assumptions = []
        self.violations = []  # (signature, replay path, message)
        self.known_hits = {}
        self.rule = ""
        self.exhaustive = None
        self._known = [k for k in load_known()["findings"] if k.get("property") == pid]

    @property
    def quick(self):
        return self.tier == "quick"

    # ---- TLC ----
    def tlc(self, module, cfg, *, must_hold=True, required_actions=(), **kw):
        """Run TLC; accumulate states/transitions/coverage.  With must_hold, a violated
        invariant of the *model* is a machinery failure unless the caller handles it."""
        kw.setdefault("seed", self.seed % (2**31))
        # a floor under every caller's timeout: on a loaded machine (load 40-60 when many checks run side by side)
        # TLC runs that take 2-3 minutes alone were seen to need 15; a timeout is a machinery failure, never a verdict
        kw["timeout"] = max(kw.get("timeout") or 0, 2400 if self.quick else 7200)
        r = _tlc.run_tlc(module, cfg, self.work, **kw)
        self.states += r.distinct
        self.transitions += r.generated
        self.tlc_runs.append({"module": module, "cfg": os.path.basename(str(cfg)), "distinct": r.distinct,
                              "generated": r.generated, "depth": r.depth, "wall_s": round(r.wall, 2),
                              "violated": r.violated})
        for a, (d, t) in r.actions.items():
            od, ot = self.actions.get(f"{module}.{a}", (0, 0))
            self.actions[f"{module}.{a}"] = (od + d, ot + t)
        for a in required_actions:
            if r.actions.get(a, (0, 0))[1] == 0:
                raise MachineryError(f"vacuous run: action {a} of {module} never taken ({cfg})")
        if must_hold and r.violated:
            raise MachineryError(
                f"model {module}/{os.path.basename(str(cfg))} violates {r.violated}:\n" + "\n".join(r.error_trace[-3:]))
        return r

    def write_cfg(self, name, **kw):
        return _tlc.write_cfg(os.path.join(self.work, name), **kw)

    # ---- bookkeeping ----
    def sample(self, obj, limit=5):
        if len(self.samples) < limit:
            self.samples.append(obj)

    def nontriv(self, key):
        self.nontrivial.add(key if isinstance(key, (str, int, tuple)) else json.dumps(key, sort_keys=True, default=str))

    def count(self, name, n=1):
        self.extra[name] = self.extra.get(name, 0) + n

    # ---- violations ----
    def violation(self, signature, instance, message, subcheck=None):
        """Report a property violation observed on the real code (or a binding failure).
        `signature` identifies call site + failure class; known findings match on it."""
        for k in self._known:
            if k.get("status", "open") != "open":
                continue
            if any(fnmatch.fnmatchcase(signature, pat) for pat in k.get("signatures", [])):
                self.known_hits.setdefault(k["id"], [k, 0])[1] += 1
                return
        for v in self.violations:
            if v[0] == signature:
                v[3] += 1
                return
        os.makedirs(os.path.join(REPLAYS, self.pid), exist_ok=True)
        body = {"property": self.pid, "subcheck": subcheck, "signature": signature, "message": message,
                "instance": instance, "seed": self.seed, "tier": self.tier}
        h = hashlib.sha1(json.dumps([signature, instance], sort_keys=True, default=str).encode()).hexdigest()[:12]
        path = os.path.join(REPLAYS, self.pid, f"{h}.json")
        with open(path, "w") as f:
            json.dump(body, f, indent=1, default=str)
        self.violations.append([signature, path, message, 1])

    # ---- finish ----
    def finish(self):
        for kid, (k, n) in sorted(self.known_hits.items()):
            print(f"KNOWN-FINDING: property={self.pid} {kid}: {k['what']} (seen {n}x this run)")
        for sig, path, msg, n in self.violations:
            print(f"VIOLATION property={self.pid} replay={path}")
            print(f"  signature={sig} count={n}: {msg}")
        cov = {
            "states": int(self.states),
            "transitions": int(self.transitions),
            "traces_validated_against_impl": int(self.traces),
            "evaluations": int(max(self.evaluations, self.traces)),
            "distinct_nontrivial": len(self.nontrivial),
            "rule": self.rule,
            "samples": self.samples if self.samples else [{"note": "no sample recorded"}],
            "tlc_runs": self.tlc_runs,
            "actions": {a: {"distinct": d, "taken": t} for a, (d, t) in sorted(self.actions.items())},
            "known_findings_seen": {kid: n for kid, (k, n) in self.known_hits.items()},
        }
        if self.exhaustive is not None:
            cov["exhaustive"] = bool(self.exhaustive)
        cov.update(self.extra)
        ev = {
            "property_id": self.pid,
            "tier": self.tier,
            "seed": int(self.seed),
            "level": "model_checking",
            "coverage": cov,
            "assumptions": self.assumptions,
            "wall_s": round(time.time() - self.t0, 2),
            "violations": len(self.violations),
        }
        if self.replay is None:
            os.makedirs(EVIDENCE, exist_ok=True)
            tmp = os.path.join(EVIDENCE, f".{self.pid}.json.{os.getpid()}")
            with open(tmp, "w") as f:
                json.dump(ev, f, indent=1, default=str)
            os.replace(tmp, os.path.join(EVIDENCE, f"{self.pid}.json"))
        shutil.rmtree(self.work, ignore_errors=True)
        print(f"[{self.pid} {self.tier}] states={self.states} transitions={self.transitions} "
              f"traces={self.traces} evals={cov['evaluations']} nontrivial={len(self.nontrivial)} "
              f"violations={len(self.violations)} known={len(self.known_hits)} wall={ev['wall_s']}s")
        return 1 if self.violations else 0


def main(argv=None):
    import argparse
    import importlib
    ap = argparse.ArgumentParser()
    ap.add_argument("pid")
    ap.add_argument("tier", nargs="?", default=os.environ.get("VERIF_TIER", "quick"))
    ap.add_argument("--replay")
    a = ap.parse_args(argv)
    pid = a.pid.upper()
    ctx = None
    try:
        mod = importlib.import_module(f"vt.props.{pid.lower()}")
        if a.replay:
            with open(a.replay) as f:
                body = json.load(f)
            ctx = Ctx(pid, body.get("tier", "quick"), seed=body.get("seed"), replay=a.replay)
            mod.replay(ctx, body)
        else:
            ctx = Ctx(pid, a.tier)
            mod.run(ctx)
        rc = ctx.finish()
    except MachineryError as ex:
        print(f"MACHINERY-FAILURE property={pid}: {ex}", file=sys.stderr)
        if ctx is not None:
            shutil.rmtree(ctx.work, ignore_errors=True)
        return 2
    except Exception:  # noqa: BLE001
        traceback.print_exc()
        print(f"MACHINERY-FAILURE property={pid}: unexpected exception in the harness", file=sys.stderr)
        if ctx is not None:
            shutil.rmtree(ctx.work, ignore_errors=True)
        return 2
    return rc


if __name__ == "__main__":
    sys.exit(main())
