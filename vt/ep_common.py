"""Shared by C20 / C21 / C05: spec/EPStar.tla <-> real ExpectationPropagation."""

from fractions import Fraction

import numpy as np
import tskit


def star_consts(max_parents, max_edges, counts, spans, mu_halves, caps, max_iters, emit=False):
    st = lambda xs: "{" + ",".join(str(x) for x in xs) + "}"  # noqa: E731
    return {"MaxParents": max_parents, "MaxEdges": max_edges, "Counts": st(counts), "Spans": st(spans),
            "MuHalves": st(mu_halves), "Caps": st(caps), "MaxIters": max_iters,
            "EmitDone": "TRUE" if emit else "FALSE"}


def frac(q):
    return Fraction(int(q[0]), int(q[1]))


def star_ts(inst):
    """Real tree sequence for a star instance: parents p=1..P at times 1..P (so that the edge
    table keeps the instance's edge order), one sample per edge at time 0, edge e spans
    [0, span_e) of a genome of length max span, y_e mutations on it."""
    edges = inst["edges"]
    P = max(e["p"] for e in edges)
    L = max(e["span"] for e in edges)
    tables = tskit.TableCollection(sequence_length=L)
    for _ in edges:
        tables.nodes.add_row(flags=tskit.NODE_IS_SAMPLE, time=0)
    for p in range(P):
        tables.nodes.add_row(flags=0, time=p + 1)
    ne = len(edges)
    for i, e in enumerate(edges):
        tables.edges.add_row(left=0, right=e["span"], parent=ne + e["p"] - 1, child=i)
    # y_e mutations on edge e, at distinct positions inside [0, 1) (every edge covers at least [0, 1))
    owners = [i for i, e in enumerate(edges) for _ in range(e["y"])]
    M = len(owners)
    for k, child in enumerate(owners):
        s = tables.sites.add_row(position=(k + 0.5) / M, ancestral_state="0")
        tables.mutations.add_row(site=s, node=child, derived_state="1")
    tables.sort()
    tables.build_index()
    tables.compute_mutation_parents()
    ts = tables.tree_sequence()
    # the instance's edge order must be the edge-table order (the EP visiting order depends on it)
    exp = [(ne + e["p"] - 1, i) for i, e in enumerate(edges)]
    got = list(zip(ts.edges_parent.tolist(), ts.edges_child.tolist()))
    if exp != got:
        raise RuntimeError(f"star_ts: edge order {got} != instance order {exp}")
    return ts


def run_star(inst):
    """Step the real EP on the star instance; return node_posterior rows of the parents after
    every iteration (list over iterations of list over parents of (alpha, beta))."""
    from tsdate import variational
    ts = star_ts(inst)
    mu = float(frac(inst["mu"]))
    cap = float(frac(inst["cap"]))
    ep = variational.ExpectationPropagation(ts, mutation_rate=mu, allow_unary=True)
    ne = len(inst["edges"])
    P = max(e["p"] for e in inst["edges"])
    out = []
    for _ in range(inst["iters"]):
        ep.iterate(max_shape=cap, regularise=False)
        out.append([tuple(float(x) for x in ep.node_posterior[ne + p]) for p in range(P)])
    return out, ep, ts


def close(a, b, rtol):
    return abs(a - b) <= rtol * max(abs(a), abs(b)) + 1e-300


# ---------------------------------------------------------------------------------------
# code -> spec: observe ExpectationPropagation.infer inside real calls (hook 1 + recorder)
# ---------------------------------------------------------------------------------------

def _shape_rate_close(a, b, rtol=1e-9):
    a, b = np.asarray(a, float), np.asarray(b, float)
    if a.shape != b.shape:
        return False
    if not (np.all(np.isfinite(a)) and np.all(np.isfinite(b))):
        return bool(np.array_equal(np.isfinite(a), np.isfinite(b)) and np.allclose(a[np.isfinite(a)], b[np.isfinite(b)]))
    s1, s2 = 1 + a[:, 0], 1 + b[:, 0]
    ok_s = np.abs(s1 - s2) <= rtol * np.maximum(np.abs(s1), np.abs(s2))
    ok_r = np.abs(a[:, 1] - b[:, 1]) <= rtol * np.maximum(np.abs(a[:, 1]), np.abs(b[:, 1]))
    return bool(np.all(ok_s) and np.all(ok_r))


def iteration_record(it, ep, cap):
    from tsdate import variational
    post = np.array(ep.node_posterior)
    asm = variational._assemble_factors(ep.factors)
    fixed = ep.node_constraints[:, 0] == ep.node_constraints[:, 1]
    free = ~fixed
    a, b = post[free, 0], post[free, 1]
    never = (a == 0) & (b == 0)
    proper = np.isfinite(a) & np.isfinite(b) & (a > -1) & (b > 0)
    return {
        "it": int(it),
        "book": _shape_rate_close(post, asm),
        "scale_one": bool(np.all(np.array(ep.factors.scale) == 1.0)),
        "fixed_untouched": bool(np.all(post[fixed] == 0.0)),
        "capped": bool(np.all(1 + a[~never] <= cap * (1 + 1e-9))),
        "proper_or_never_updated": bool(np.all(never | proper)),
        "n_never": int(np.sum(never)),
        "book_residual": float(np.max(np.abs(post - asm) / np.maximum(1e-300, np.maximum(np.abs(post), np.abs(asm)))))
        if post.size else 0.0,
    }


class EPObserved:
    pass


def observe_vgamma(ts, mu, **kw):
    """Run the real variational_gamma(ts, return_fit=True, **kw) with the iteration observer
    installed and the phase methods wrapped.  Returns (event-or-None, call)."""
    import tsdate
    from tsdate import variational

    from . import record
    cap = kw.get("max_shape") or 1000
    iters, phases = [], []
    EP = variational.ExpectationPropagation
    o_iter, o_resc, o_mut = EP.iterate, EP.rescale, EP.__dict__["propagate_mutations"]
    o_mut_fn = o_mut.__func__ if isinstance(o_mut, staticmethod) else o_mut

    def w_iter(self, *a, **k):
        phases.append("iterate")
        return o_iter(self, *a, **k)

    def w_resc(self, *a, **k):
        phases.append("rescale")
        return o_resc(self, *a, **k)

    def w_mut(*a):
        phases.append("mut_unphased" if a[-1] else "mut_phased")
        return o_mut_fn(*a)

    EP.iterate, EP.rescale, EP.propagate_mutations = w_iter, w_resc, staticmethod(w_mut)
    try:
        call = record.observed_call(
            tsdate.variational_gamma, ts, mutation_rate=mu, return_fit=True,
            ep_observer=lambda c, it, ep: iters.append(iteration_record(it, ep, cap)), **kw)
    finally:
        EP.iterate, EP.rescale, EP.propagate_mutations = o_iter, o_resc, o_mut
    if not call.ok:
        return None, call
    fit = call.fit
    n_it = kw.get("max_iterations") or 25
    ri = kw.get("rescaling_intervals")
    ri = 1000 if ri is None else ri
    rit = kw.get("rescaling_iterations")
    rit = 5 if rit is None else rit
    expected = ["iterate"] * n_it + ["mut_unphased", "mut_phased"] + (["rescale"] if (ri > 0 and rit > 0) else [])
    samples = np.zeros(ts.num_nodes, dtype=bool)
    samples[ts.samples()] = True
    npost = fit.node_posteriors()
    mn, vr = npost["mean"][~samples], npost["variance"][~samples]
    node_proper = bool(np.all(np.isfinite(mn) & np.isfinite(vr) & (mn > 0) & (vr > 0)))
    with np.errstate(all="ignore"):
        node_capped = bool(np.all(mn * mn / vr <= cap * (1 + 1e-9))) if node_proper else False
    mpost = fit.mutation_posteriors()
    mm, mv = mpost["mean"], mpost["variance"]
    undefined = np.isnan(mm) & np.isnan(mv)
    mut_ok = bool(np.all(undefined | (np.isfinite(mm) & np.isfinite(mv) & (mm > 0) & (mv > 0))))
    unph = fit.mutation_blocks != tskit.NULL
    ph = fit.mutation_phase[unph]
    phase_ok = bool(np.all(np.isnan(ph) | ((ph >= 0.5) & (ph <= 1.0))))
    samples_exact = bool(np.all(npost["mean"][samples] == ts.nodes_time[samples]) and np.all(npost["variance"][samples] == 0))
    phased = kw.get("singletons_phased")
    phased = True if phased is None else phased
    moves_ok = unphased_moves_ok(ts, call.ts)
    key_in = sorted(zip(ts.mutations_site.tolist(), ts.mutations_node.tolist()))
    key_out = sorted(zip(call.ts.mutations_site.tolist(), call.ts.mutations_node.tolist()))
    ev = {"max_iterations": int(n_it), "iters": iters, "phases": phases, "expected_phases": expected,
          "final": {"node_proper": node_proper, "node_capped": node_capped, "mut_ok": mut_ok, "phase_ok": phase_ok,
                    "samples_exact": samples_exact, "phased_unmoved": (key_in == key_out) if phased else True,
                    "unphased_moves_ok": moves_ok, "rephase_equal": True,
                    "n_unphased": int(np.sum(unph)), "n_mut_undefined": int(np.sum(undefined)),
                    "n_phase_nan": int(np.sum(np.isnan(ph)))}}
    return ev, call


def validate_ep_traces(ctx, events, checks):
    import json
    import os

    from .harness import MachineryError
    if not events:
        return []
    path = os.path.join(ctx.work, f"eptrace-{len(events)}-{ctx.traces}.ndjson")
    with open(path, "w") as f:
        for e in events:
            f.write(json.dumps(e) + "\n")
    cfg = ctx.write_cfg("EPTrace.cfg", spec="TraceSpec",
                        constants={"Checks": "{" + ",".join(json.dumps(c) for c in checks) + "}"})
    r = ctx.tlc("EPTrace", cfg, workers=1, coverage=False, env={"TRACE_FILE": path}, must_hold=False)
    acc = r.rec("accepted")
    rej = r.rec("reject")
    if not acc:
        raise MachineryError("EPTrace gave no verdict:\n" + r.stdout[-3000:])
    if acc[-1]["accepted"] + len({x["tid"] for x in rej}) != len(events):
        raise MachineryError(f"EPTrace accounted for {acc[-1]['accepted']}+{len(rej)} of {len(events)}")
    ctx.traces += len(events)
    return rej


def ep_corpus(ctx):
    from . import inputs
    q = ctx.quick
    corpus = inputs.contemporaneous(ctx.seed, k=2 if q else 8) + inputs.polytomies(ctx.seed, k=1 if q else 3) \
        + inputs.historical(ctx.seed, k=1 if q else 3) + inputs.internal_samples(ctx.seed, k=1 if q else 3) \
        + inputs.diploid(ctx.seed, k=1 if q else 3)
    corpus.append(inputs.with_root_mutations(corpus[0], 3, ctx.seed))
    return corpus


def ep_date_events(ctx, pid, corpus, settings):
    events, meta = [], {}
    for inp in corpus:
        for kw in settings:
            kw = dict(kw)
            if kw.get("singletons_phased") is False and ("diploid" not in inp.tags and inp.ts.num_individuals == 0):
                continue
            ev, call = observe_vgamma(inp.ts, inp.mu, **kw)
            ctx.evaluations += 1
            tid = f"{inp.name}/{sorted(kw.items())}"
            if ev is None:
                ctx.count("calls_rejected_or_failed")
                meta[tid] = {"exc": repr(call.exc)}
                continue
            ev["tid"] = tid
            events.append(ev)
            meta[tid] = {"input": inp.name, "kw": kw}
            if ev["iters"] and inp.ts.num_nodes - inp.ts.num_samples > 1:
                ctx.nontriv(tid)
            ctx.sample({"tid": tid, "iterations": len(ev["iters"]),
                        "max_book_residual": max((i["book_residual"] for i in ev["iters"]), default=0.0),
                        "final": ev["final"]}, limit=6)
    return events, meta


def judge_ep(ctx, pid, checks, events, meta, label):
    rej = validate_ep_traces(ctx, events, checks)
    for r in rej:
        ev = next(e for e in events if e["tid"] == r["tid"])
        slim = dict(ev)
        slim["iters"] = [i for i in ev["iters"] if not all([i["book"], i["scale_one"], i["fixed_untouched"],
                                                            i["capped"], i["proper_or_never_updated"]])][:3] or ev["iters"][:1]
        ctx.violation(f"{pid}/{label}/{r['clause'].split(':')[0]}", {"event": slim, "meta": meta.get(r["tid"]), "checks": checks},
                      f"trace {r['tid']} rejected by EPTrace at clause '{r['clause']}'", subcheck=label)


# ---------------------------------------------------------------------------------------
# unphased singletons (C22 / C23)
# ---------------------------------------------------------------------------------------

def rephase(ts, rng, prob=0.5):
    """Move each singleton (mutation above a sample node that belongs to a diploid individual)
    to the individual's other node with probability `prob`."""
    tables = ts.dump_tables()
    node = tables.mutations.node.copy()
    is_sample = (ts.nodes_flags & tskit.NODE_IS_SAMPLE) != 0
    moved = 0
    for m in range(ts.num_mutations):
        u = node[m]
        ind = ts.nodes_individual[u]
        if is_sample[u] and ind != tskit.NULL:
            nodes = ts.individual(ind).nodes
            if len(nodes) == 2 and rng.random() < prob:
                node[m] = nodes[0] if nodes[1] == u else nodes[1]
                moved += 1
    tables.mutations.node = node
    tables.mutations.time = np.full_like(tables.mutations.time, tskit.UNKNOWN_TIME)
    tables.mutations.parent = np.full_like(tables.mutations.parent, tskit.NULL)
    tables.sort()
    tables.build_index()
    tables.compute_mutation_parents()
    return tables.tree_sequence(), moved


def observe_realloc(ts, mu, **kw):
    """variational_gamma(singletons_phased=False) with the likelihood table snapshotted around
    rescale(); returns (event-or-None, call)."""
    import tsdate
    from tsdate import variational

    from . import record
    EP = variational.ExpectationPropagation
    o_resc = EP.rescale
    snap = {}

    def w_resc(self, *a, **k):
        seg = k.get("rescale_segsites", False)
        arr = self.edge_likelihoods if seg else self.sizebiased_likelihoods
        snap["before"] = arr[:, 0].copy()
        snap["seg"] = seg
        snap["args"] = (a, dict(k))
        r = o_resc(self, *a, **k)
        snap["after"] = arr[:, 0].copy()
        return r

    EP.rescale = w_resc
    try:
        call = record.observed_call(tsdate.variational_gamma, ts, mutation_rate=mu, return_fit=True,
                                    singletons_phased=False, **kw)
    finally:
        EP.rescale = o_resc
    if not call.ok or "after" not in snap:
        return None, call
    fit = call.fit
    U = 65536
    blocks = (np.asarray(fit.block_edges) + 1).tolist()
    sing = []
    switched = 0
    for m in np.flatnonzero(fit.mutation_blocks != tskit.NULL):
        b = int(fit.mutation_blocks[m])
        q = fit.mutation_phase[m]
        if np.isnan(q):
            continue
        first = bool(fit.mutation_edges[m] == fit.block_edges[b, 0])
        if not first:
            switched += 1
        sing.append({"b": b + 1, "first": first, "q": int(round(float(q) * U))})
    ev = {"blocks": blocks, "sing": sing, "before": [int(round(x * U)) for x in snap["before"]],
          "after": [int(round(x * U)) for x in snap["after"]], "n_switched": switched, "segsites": bool(snap["seg"])}
    # the rescaling step once more on the same fit object (added after seed C23-b: a reallocation that moves shares
    # instead of rebuilding them is right the first time only); phases and placements do not change in rescale()
    try:
        a, k = snap["args"]
        with np.errstate(all="ignore"):
            o_resc(fit, *a, **k)
        arr = fit.edge_likelihoods if snap["seg"] else fit.sizebiased_likelihoods
        ev["after2"] = [int(round(x * U)) for x in arr[:, 0]]
    except Exception:  # noqa: BLE001  (internal errors of a second rescale are not this property's subject)
        ev["after2"] = None
    return ev, call


def unphased_moves_ok(ts_in, ts_out):
    """C22, first sentence: per site, the multiset of mutation nodes of the output can be obtained
    from the input's by moving mutations between the two nodes of a diploid, contemporary
    individual (and in no other way)."""
    def canon(ts, u):
        ind = ts_in.nodes_individual[u]
        if ind != tskit.NULL:
            nodes = ts_in.individual(ind).nodes
            if len(nodes) == 2 and np.all(ts_in.nodes_time[nodes] == 0) and (ts_in.nodes_flags[u] & tskit.NODE_IS_SAMPLE):
                return ("ind", int(ind))
        return ("node", int(u))
    a = sorted((int(s), canon(ts_in, u)) for s, u in zip(ts_in.mutations_site, ts_in.mutations_node))
    b = sorted((int(s), canon(ts_out, u)) for s, u in zip(ts_out.mutations_site, ts_out.mutations_node))
    return a == b


def outputs_close(ts1, ts2, rtol=1e-6):
    """node times, mutation times (per site, sorted) and mn/vr metadata agree to rtol"""
    import json
    if ts1.num_nodes != ts2.num_nodes or ts1.num_mutations != ts2.num_mutations:
        return False, "shape"
    if not np.allclose(ts1.nodes_time, ts2.nodes_time, rtol=rtol, atol=0):
        return False, f"nodes_time max rel diff {np.max(np.abs(ts1.nodes_time - ts2.nodes_time) / np.maximum(ts1.nodes_time, 1e-300))}"
    def per_site(ts):
        out = {}
        for m in ts.mutations():
            md = m.metadata if isinstance(m.metadata, dict) else {}
            out.setdefault(m.site, []).append((m.time, md.get("mn", np.nan), md.get("vr", np.nan)))
        return {k: sorted(v) for k, v in out.items()}
    p1, p2 = per_site(ts1), per_site(ts2)
    for k in p1:
        a, b = np.array(p1[k], float), np.array(p2.get(k, []), float)
        if a.shape != b.shape or not np.allclose(a, b, rtol=rtol * 10, atol=0, equal_nan=True):
            return False, f"mutations at site {k}: {a.tolist()} vs {b.tolist()}"
    for n1, n2 in zip(ts1.nodes(), ts2.nodes()):
        m1 = n1.metadata if isinstance(n1.metadata, dict) else {}
        m2 = n2.metadata if isinstance(n2.metadata, dict) else {}
        for key, tol in (("mn", rtol), ("vr", 2 * rtol)):
            if (key in m1) != (key in m2):
                return False, "metadata keys"
            if key in m1 and not np.isclose(m1[key], m2[key], rtol=tol, atol=0):
                return False, f"node {n1.id} {key}: {m1[key]} vs {m2[key]}"
    del json
    return True, ""
